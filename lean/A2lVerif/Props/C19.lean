import A2lVerif.Lemmas.TypedTop
import A2lVerif.Lemmas.TypedEqv
import A2lVerif.Lemmas.TypedParsed
import A2lVerif.Lemmas.TypedOnce
/-!
# C19 — `a2ml_specification!`: typed IF_DATA access round-trips

Property theorems only. Model: Model/Typed.lean (the `fixup_*` phase of the macro as `fixItem` / `blockItems`, the
generated `parse` as `typedLoad`, the generated `store` as `typedStore`, `load_from_ifdata` / `store_to_ifdata`);
tie: the `typ` request of the driver (Driver/Typed.lean), 0 differences on the recorded requests. Proofs:
Lemmas/Typed*.lean. Quantification: every type tree `S : Spec`, every generic value `g : Gen`, every typed value
`v : TVal`; no bounds.

Summary of what is proved and what is FALSE for the code as it is

1. `load_store`: for every well-typed value (`TypedOk S v`, decidable) of a specification whose tagged members have
   pairwise different tags (`TagsDistinct S`, decidable), `typedLoad (typedStore v) = v` EXACTLY, including all
   locations; `load_store_ifdata` is the same through `store_to_ifdata` / `load_from_ifdata` (the uid and the offsets
   of the root value are those of the `IfData` it is loaded from). `typedLoad_typedOk`: everything the typed load
   returns is well-typed. `load_store_eq`: for EVERY value of the generated type, whatever its `__block_info` (e.g. built
   with `new(..)` and `push`, where the locations are defaults or missing: `Shaped S v`, decidable), the stored value
   loads and the result is equal in the sense of the generated `PartialEq` (`Eqv`: all fields, no `__block_info`).
2. `mismatch_no_panic`: the typed load never panics, whatever the shape of the generic value (see Model/Typed.lean for
   the one unchecked index, `itemlist[0]`, and why it is unreachable); `loadFromIfdata_invalid`: an `IfData` that is
   not flagged valid yields `None`.
3. `conforming_decodes`: content that the interpreter of C18 accepted under `S` decodes to a value, for every `S`
   with `Flat S` and `TagsDistinct S` (both decidable; both hold for every specification that the macro compiles).
   `store_load_content`: what the decoded value stores is `Sim`ilar to the original and is WRITTEN AS THE SAME TEXT
   (no member that is not declared `( ... )*` occurs twice in accepted content: `interpreted_no_repeat`, from the
   multiplicity check that `parse_ifdata_taggedstruct` has since fix 9daacf5). `Sim_def` below says
   precisely what may differ: the order of the items inside one tagged struct (a hash map in Rust; the writer
   sorts by uid) and `Block []` for `Block [None]` as the data of a tagged item without data. Lines, uids, offsets,
   tags, block-ness, values, hex flags are equal. (`incfile` is not modelled.)

FALSE as drafted, each with a concrete input:
* `old_store_dropped_repeated_member` (CONFIRMED ON THE RUST LIBRARY, FIXED in 9daacf5): `block "IF_DATA" taggedstruct
  { "X" uint; };` with `/begin IF_DATA X 1 X 2 /end IF_DATA`: the interpreter used to accept the block (flagged valid)
  with two items `X`; the typed value keeps only the first (`get_single_optitem` takes `itemlist[0]`), `store_to_ifdata`
  + write gave `X 1`. Now the second `X` is `InvalidMultiplicityTooMany`, the block is not valid, `load_from_ifdata`
  gives `None` and nothing is dropped (`repeated_member_not_valid`); the theorem is kept as a statement about the
  generic value that the old interpreter built.
* `old_fixup_struct_inlined_struct_members` (CONFIRMED ON THE RUST LIBRARY, FIXED in `fixup_struct`): before the fix a
  struct that is a member of a struct used as a member had its members inlined into the parent type, so a
  conforming block for `struct P { struct Q { int; int; }; uint; }` (one level below a tagged item) decoded to `None`.
* `stored_values_order` : `values (typedStore S v) = values g` is false as an equation of lists: the stored tagged
  struct lists its items member by member. It is an artefact of modelling the hash map as a list; the written text is
  equal (`store_load_content`).
* `conforming_decodes_needs_flat`: without `Flat S` the statement is false in the model (`(( uint )*)*` is flattened by
  `fixup_data_type`, the interpreter nests). No A2ML text denotes such a tree (`parse_aml_tagged_def` wraps a
  member, and a member is never a sequence), so this is not a finding about the library.
-/
namespace A2l.Typed
open A2l.Tree A2l.Aml A2l.IfData

/-! ## the definitions (checked by `rfl` / `Iff.rfl`: these lines are the definitions) -/

theorem typedLoad_def (S : Spec) (g : Gen) : typedLoad S g = loadBlockWith (loadFields (blockItems S)) g 0 1 1 := rfl
theorem typedStore_def (S : Spec) (info : BInfo) (fs : List TVal) :
    typedStore S (.struct info fs) = .block info.line (storeFields (blockItems S) fs info.locs) := rfl
theorem TypedOk_def (S : Spec) (v : TVal) : TypedOk S v ↔ okBlockWith (okFields (blockItems S)) v = true := Iff.rfl
theorem TagsDistinct_def (S : Spec) : TagsDistinct S ↔ distinctL (blockItems S) = true := Iff.rfl
theorem Flat_def (S : Spec) : Flat S ↔ flat S = true := Iff.rfl
theorem NoRepeatViolation_def (S : Spec) (d : Gen) : NoRepeatViolation S d ↔ OnceL (blockItems S) (dataItems d) := Iff.rfl

/-- the three readings of `fixup_add_data_to_struct` -/
theorem blockItems_def (s : Spec) : blockItems s =
    match s with
    | .struct items => fixItems items
    | .none => []
    | s => [fixItem s] := blockItems_eq s

/-- what may differ between `Sim`ilar values: nothing in a scalar ... -/
example (w off : Nat) (v : Int) (hex : Bool) (g : Gen) : Sim (.int w off v hex) g ↔ g = .int w off v hex := by rw [Sim]
/-- ... the data of a tagged item without data may be `Block []` for `Block [None]` ... -/
example (l : Nat) (a : List Gen) (g : Gen) :
    Sim (.block l a) g ↔ ∃ b, g = .block l b ∧ (SimL a b ∨ (a = [] ∧ b = [.none])) := by rw [Sim]
/-- ... the items of a tagged struct may come in another order ... -/
example (a : List (TItem Gen)) (g : Gen) :
    Sim (.taggedStruct a) g ↔ ∃ b b', g = .taggedStruct b ∧ b.Perm b' ∧ SimT a b' := by rw [Sim]
/-- ... and corresponding items agree in line, uid, offsets, tag and block-ness -/
theorem SimT_def (x : TItem Gen) (a b : List (TItem Gen)) : SimT (x :: a) b ↔
    ∃ y b', b = y :: b' ∧ x.line = y.line ∧ x.uid = y.uid ∧ x.startOff = y.startOff ∧ x.endOff = y.endOff ∧
      x.tag = y.tag ∧ x.isBlock = y.isBlock ∧ Sim x.data y.data ∧ SimT a b' := by rw [SimT]

/-! ## examples used below -/

def tk (ty : Nat) (text : List Char) (line : Nat := 1) (fl : Option (List Char) := none) : PTok :=
  { ty := ty, text := text, line := line, sym := noSym, fl := fl }
def exF32 : List Char → Option (List Char) := fun t => if t = "1.5".toList then some "1.5".toList else none
def exCtx : Ctx := ⟨"IF_DATA".toList, 0, 1⟩
def genOf (r : PRes (Option Gen × Bool)) : Option (Gen × Bool) :=
  match r with | .ok (some g, v) _ => some (g, v) | _ => none

/-- `block "IF_DATA" taggedunion { "X" struct { uint; char[10]; float; }; block "B" taggedstruct { ("T" uchar)*; "N"; }; };` -/
def exSpec : Spec :=
  .taggedUnion [⟨['X'], .struct [.int 5, .array (.int 0) 10, .float], false, false⟩,
                ⟨['B'], .taggedStruct [⟨['T'], .int 4, false, true⟩, ⟨['N'], .none, false, false⟩], true, false⟩]

/-- `X 0x10 "a" 1.5` as the interpreter stores it (uid 7 for the item) -/
def exG : Gen :=
  .block 1 [.taggedUnion [⟨1, 7, 0, 0, ['X'], .block 1 [.int 5 0 16 true, .str 1 ['a'], .float 0 "1.5".toList], false⟩]]

/-- the typed value: `Ex { x: Some(X { item: 16, item_2: "a", item_3: 1.5, __block_info }), b: None }` -/
def exV : TVal :=
  .struct ⟨1, 0, 1, 1, []⟩
    [.opt (some (.struct ⟨1, 7, 0, 0, [.int 0 true, .off 1, .off 0]⟩ [.int 16, .str ['a'], .float "1.5".toList])), .opt none]

/-- `/begin B T 1 N T 2 /end B` -/
def exG2 : Gen :=
  .block 1 [.taggedUnion [⟨1, 3, 0, 1, ['B'], .block 1 [.taggedStruct
    [⟨1, 4, 0, 0, ['T'], .block 1 [.int 4 0 1 false], false⟩, ⟨1, 5, 0, 0, ['N'], .block 1 [.none], false⟩,
     ⟨1, 6, 0, 0, ['T'], .block 1 [.int 4 0 2 false], false⟩]], true⟩]]

def exV2 : TVal :=
  .struct ⟨1, 0, 1, 1, []⟩
    [.opt none,
     .opt (some (.struct ⟨1, 3, 0, 1, []⟩
       [.multi [.struct ⟨1, 4, 0, 0, [.int 0 false]⟩ [.int 1], .struct ⟨1, 6, 0, 0, [.int 0 false]⟩ [.int 2]],
        .opt (some (.struct ⟨1, 5, 0, 0, []⟩ []))]))]

example : typedLoad exSpec exG = .ok exV := rfl
example : typedStore exSpec exV = exG := rfl
example : typedLoad exSpec exG2 = .ok exV2 := rfl
/-- the stored value lists the two `T` before `N` and has no placeholder in the data of `N` -/
example : typedStore exSpec exV2 =
    .block 1 [.taggedUnion [⟨1, 3, 0, 1, ['B'], .block 1 [.taggedStruct
      [⟨1, 4, 0, 0, ['T'], .block 1 [.int 4 0 1 false], false⟩, ⟨1, 6, 0, 0, ['T'], .block 1 [.int 4 0 2 false], false⟩,
       ⟨1, 5, 0, 0, ['N'], .block 1 [], false⟩]], true⟩]] := rfl
example : Flat exSpec ∧ TagsDistinct exSpec := by decide

/-! ## 1. store, then load -/

/-- **`load_store`**: storing a well-typed value and loading the result back yields the value itself: every field,
    every location, every nested layout. The root value's uid and offsets are arguments of the generated `parse`
    (they belong to the `IfData` block, `store` does not write them anywhere): loading with the value's own gives the
    value back, loading with others gives the value with those (`load_store_layout`).
    Hypotheses: `TypedOk S v` = `v` is a value of the generated root type, i.e. it could exist in Rust (it also pins
    down what Rust's type system guarantees: array lengths, the shape of the location tuples, `uid = 0` and offsets 0
    in the `__block_info` of struct members, the remembered line of a struct member = the line of that struct);
    `TagsDistinct S`: two members with the same tag would be two fields with the same name (does not compile). -/
theorem load_store (S : Spec) (v : TVal) (hS : TagsDistinct S) (hv : TypedOk S v) :
    typedLoadAt S (typedStore S v) v.uid v.startOff v.endOff = .ok v :=
  typedLoadAt_typedStore S v hS hv

theorem load_store_layout (S : Spec) (v : TVal) (hS : TagsDistinct S) (hv : TypedOk S v) (uid startOff endOff : Nat) :
    typedLoadAt S (typedStore S v) uid startOff endOff = .ok (v.withLayout uid startOff endOff) :=
  typedLoadAt_typedStore_layout S v hS hv uid startOff endOff

/-- ... through the interface: `x.store_to_ifdata(&mut b)` then `X::load_from_ifdata(&b)` is `Some(x)` with the layout
    of `b`, for every `IfData` `b` (valid or not before: `store_to_ifdata` sets the flag) -/
theorem load_store_ifdata (S : Spec) (v : TVal) (hS : TagsDistinct S) (hv : TypedOk S v) (b : IfDataBlk) :
    loadFromIfdata S (storeToIfdata S v b) = .ok (some (v.withLayout b.uid b.startOff b.endOff)) := by
  simp only [loadFromIfdata, storeToIfdata, if_true, load_store_layout S v hS hv]

/-- Rust's `==` on the generated types ignores `__block_info`; the layout of the root is all that `withLayout`
    changes, so "an equal value" in the sense of the property holds a fortiori: same fields -/
theorem withLayout_fields (info : BInfo) (fs : List TVal) (u so eo : Nat) :
    (TVal.struct info fs).withLayout u so eo = .struct { info with uid := u, startOff := so, endOff := eo } fs := rfl

example : typedLoadAt exSpec (typedStore exSpec exV2) exV2.uid exV2.startOff exV2.endOff = .ok exV2 :=
  load_store exSpec exV2 (by decide) (by decide)
example : loadFromIfdata exSpec (storeToIfdata exSpec exV2 IfDataBlk.new) = .ok (some exV2) := rfl

/-- **`load_store_eq`**: the same for every value of the generated type, with ANY `__block_info` (`Shaped` says nothing
    about locations, lines, uids): `store` is total (`location.get(idx).copied().unwrap_or_default()` for a sequence
    with fewer locations than elements), the result loads, and the loaded value is `==` the original in the sense of
    the generated `PartialEq` impls, which compare all fields and ignore `__block_info` at every level (`Eqv`). This
    is the exact content of the harness check `load_from_ifdata(&fresh) == Some(v)`. -/
theorem load_store_eq (S : Spec) (v : TVal) (hS : TagsDistinct S) (hv : Shaped S v) (uid startOff endOff : Nat) :
    ∃ v', typedLoadAt S (typedStore S v) uid startOff endOff = .ok v' ∧ Eqv v v' :=
  typedLoadAt_typedStore_eqv S v hS hv uid startOff endOff

theorem Shaped_def (S : Spec) (v : TVal) : Shaped S v ↔ shBlockWith (shFields (blockItems S)) v = true := Iff.rfl
/-- `==` on a generated struct: the fields -/
example (info : BInfo) (fs : List TVal) (w : TVal) :
    Eqv (.struct info fs) w ↔ ∃ info' fs', w = .struct info' fs' ∧ EqvL fs fs' := by rw [Eqv]
example (a : Int) (w : TVal) : Eqv (.int a) w ↔ w = .int a := by rw [Eqv]

/-- `block "IF_DATA" taggedunion { "S" (uint)*; };` and the value `Seq { s: Some(S { item: vec![1, 2] }) }` built with
    `new()` + `push`: no locations for the two elements. Not `TypedOk`, but `Shaped`; `store` writes them with the
    default location, the loaded value has the two default locations and equal fields -/
def seqSpec : Spec := .taggedUnion [⟨['S'], .seq (.int 5), false, false⟩]
def seqV : TVal := .struct ⟨0, 0, 1, 1, []⟩ [.opt (some (.struct ⟨0, 0, 1, 1, [.seq []]⟩ [.seq [.int 1, .int 2]]))]
example : ¬ TypedOk seqSpec seqV ∧ Shaped seqSpec seqV := by decide
example : typedLoad seqSpec (typedStore seqSpec seqV) =
    .ok (.struct ⟨0, 0, 1, 1, []⟩ [.opt (some (.struct ⟨0, 0, 1, 1, [.seq [.int 0 false, .int 0 false]]⟩ [.seq [.int 1, .int 2]]))]) := rfl

/-- **`typedLoad_typedOk`**: every value that the typed load returns, from any generic value whatsoever, is well-typed;
    so `TypedOk` is satisfiable exactly by what can be loaded or what `load_store` talks about -/
theorem typedLoad_typedOk (S : Spec) (g : Gen) (uid startOff endOff : Nat) (v : TVal)
    (h : typedLoadAt S g uid startOff endOff = .ok v) : TypedOk S v :=
  typedLoadAt_typedOk S g uid startOff endOff v h

example : TypedOk exSpec exV ∧ TypedOk exSpec exV2 := by decide
/-- not well-typed: a `Vec` where the member is not declared `( ... )*` -/
example : ¬ TypedOk exSpec (.struct ⟨1, 0, 1, 1, []⟩ [.multi [], .opt none]) := by decide

/-- **the hypothesis `TagsDistinct` holds for every definition that `parse_a2ml` returns** (the text constant, any A2ML
    block): `insertTagged` (= `HashMap::insert`) replaces an earlier member with the same tag -/
theorem parsed_tags_distinct (cs : List Char) (S : Spec) (h : parseA2ml cs = .ok S) : TagsDistinct S :=
  parseA2ml_tagsDistinct cs S h

/-- so for the type tree of a text constant, `load_store` has only the hypothesis on the value -/
theorem load_store_parsed (cs : List Char) (S : Spec) (h : parseA2ml cs = .ok S) (v : TVal) (hv : TypedOk S v) :
    typedLoadAt S (typedStore S v) v.uid v.startOff v.endOff = .ok v :=
  load_store S v (parsed_tags_distinct cs S h) hv

def dumpOf (r : A2l.Aml.PRes) : Option (List Char) := match r with | .ok sp => some (dumpSpec sp) | _ => none

/-- a tag that is declared twice: the later declaration replaces the earlier one -/
example : dumpOf (parseA2ml "block \"IF_DATA\" taggedstruct { \"X\" uint; \"X\" char[4]; };".toList) =
    some "ts{(\"X\" 0 0 arr[4 char])}".toList := by decide +kernel

/-- without `TagsDistinct` the statement is false in the model (in Rust such a specification does not compile):
    two members `"X"`, the second field `Some`, the first `None`: after `store` both fields load the same item -/
theorem load_store_needs_distinct_tags :
    let S : Spec := .taggedStruct [⟨['X'], .none, false, false⟩, ⟨['X'], .none, false, false⟩]
    let v : TVal := .struct ⟨1, 0, 1, 1, []⟩ [.opt none, .opt (some (.struct ⟨1, 5, 0, 0, []⟩ []))]
    TypedOk S v ∧ typedLoadAt S (typedStore S v) v.uid v.startOff v.endOff =
      .ok (.struct ⟨1, 0, 1, 1, []⟩ [.opt (some (.struct ⟨1, 5, 0, 0, []⟩ [])), .opt (some (.struct ⟨1, 5, 0, 0, []⟩ []))]) :=
  ⟨by decide, rfl⟩

/-! ## 2. shape mismatch -/

/-- **`mismatch_no_panic`**: the generated `parse` returns a value or `Err` for EVERY generic value, of any shape,
    under every specification: no index, no `unwrap` on `None` (Model/Typed.lean lists the sites) -/
theorem mismatch_no_panic (S : Spec) (g : Gen) (uid startOff endOff : Nat) : typedLoadAt S g uid startOff endOff ≠ .panic :=
  typedLoadAt_np S g uid startOff endOff

theorem loadFromIfdata_no_panic (S : Spec) (b : IfDataBlk) : loadFromIfdata S b ≠ .panic := by
  unfold loadFromIfdata
  split
  · cases hb : b.items with
    | none => simp
    | some g =>
      dsimp only
      have := mismatch_no_panic S g b.uid b.startOff b.endOff
      cases h : typedLoadAt S g b.uid b.startOff b.endOff with
      | ok v => simp
      | err => simp
      | panic => exact absurd h this
  · simp

/-- **`loadFromIfdata_invalid`**: `None` when the block is not flagged valid, whatever it holds -/
theorem loadFromIfdata_invalid (S : Spec) (b : IfDataBlk) (h : b.valid = false) : loadFromIfdata S b = .ok none := by
  simp [loadFromIfdata, h]

/-- ... and `None` (not a panic) when the block is valid but of another shape: here `X` with a string where `uint`
    is expected, a missing member, an unknown tag only -/
example : typedLoad exSpec (.block 1 [.taggedUnion [⟨1, 7, 0, 0, ['X'], .block 1 [.str 0 ['a']], false⟩]]) = .err := rfl
example : typedLoad exSpec (.block 1 [.taggedUnion [⟨1, 7, 0, 0, ['X'], .block 1 [.int 5 0 16 true], false⟩]]) = .err := rfl
example : typedLoad exSpec (.block 1 [.int 5 0 16 true]) = .err := rfl
/-- decoded anyway: an unknown tag is ignored, a longer array is cut, block-ness is not looked at -/
example : typedLoad exSpec (.block 1 [.taggedUnion [⟨1, 7, 0, 0, ['Q'], .block 1 [], true⟩]]) =
    .ok (.struct ⟨1, 0, 1, 1, []⟩ [.opt none, .opt none]) := rfl

/-! ## 3. content that the interpreter accepted -/

/-- **`conforming_decodes`**: whatever `parse_ifdata_item` builds for the definition `S` decodes with the typed code
    of `S` (wrapped by `parse_ifdata_make_block` as `parse_ifdata_from_spec` does; any line, any layout). -/
theorem conforming_decodes {e : Env} (f32 : List Char → Option (List Char)) (S : Spec) (ctx : Ctx) (s s' : PState) (d : Gen)
    (hF : Flat S) (hS : TagsDistinct S) (h : itemP f32 S ctx e s = .ok d s') (line uid startOff endOff : Nat) :
    ∃ v, typedLoadAt S (makeBlock d line) uid startOff endOff = .ok v := by
  obtain ⟨v, hv, _⟩ := decode_of_shape S hF hS d (itemP_shape f32 S ctx s d s' h) line uid startOff endOff
  exact ⟨v, hv⟩

/-- ... at the top level: a block that `parse_ifdata` flags valid decodes with the typed code of (one of) the
    applicable definition(s): the one whose interpretation was stored -/
theorem conforming_decodes_top {e : Env} (f32 : List Char → Option (List Char)) (specs : List Spec) (ctx : Ctx)
    (s s' : PState) (g : Gen) (hall : ∀ sp ∈ specs, Flat sp ∧ TagsDistinct sp)
    (h : parseIfdata f32 specs ctx e s = .ok (some g, true) s') :
    ∃ sp ∈ specs, ∀ uid startOff endOff, ∃ v, typedLoadAt sp g uid startOff endOff = .ok v := by
  obtain ⟨sp, hm, d, s0, s1, hi, rfl⟩ := parseIfdata_valid_inv h
  exact ⟨sp, hm, fun u so eo => conforming_decodes f32 sp ctx s0 s1 d (hall sp hm).1 (hall sp hm).2 hi ctx.line u so eo⟩

/-- what the interpreter accepts never has two items of a member that is not declared `( ... )*`, at any depth -/
theorem interpreted_no_repeat {e : Env} (f32 : List Char → Option (List Char)) (S : Spec) (ctx : Ctx) (s s' : PState) (d : Gen)
    (hF : Flat S) (hS : TagsDistinct S) (h : itemP f32 S ctx e s = .ok d s') : NoRepeatViolation S d :=
  noRepeatViolation_of_shape S hF hS d (itemP_shape f32 S ctx s d s' h)

/-- **`store_load_content`**: ... and the generic value that the decoded value stores is `Sim`ilar to the original (see `Sim_def` above for what that
    leaves open: the order inside a hash map and `Block []` for `Block [None]`) and is written as the same text, at
    every indent, as a whole block (`top = true`, what `IfData::stringify` calls) and as an item. -/
theorem store_load_content {e : Env} (f32 : List Char → Option (List Char)) (S : Spec) (ctx : Ctx) (s s' : PState) (d : Gen)
    (hF : Flat S) (hS : TagsDistinct S) (h : itemP f32 S ctx e s = .ok d s') (line uid startOff endOff : Nat) :
    ∃ v, typedLoadAt S (makeBlock d line) uid startOff endOff = .ok v ∧
      Sim (typedStore S v) (makeBlock d line) ∧
      ∀ indent, write indent (typedStore S v) = write indent (makeBlock d line) := by
  obtain ⟨v, hv, hsim⟩ := decode_of_shape S hF hS d (itemP_shape f32 S ctx s d s' h) line uid startOff endOff
  have hm := interpreted_no_repeat f32 S ctx s s' d hF hS h
  refine ⟨v, hv, hsim hm, fun indent => ?_⟩
  exact sim_write indent true _ _ (hsim hm) (uidOk_makeBlock d line (itemP_uidOk h))

/-- ... at the top level, through the interface: for a block that `parse_ifdata` flagged valid, loaded with
    `load_from_ifdata`, and stored back INTO THE SAME `IfData` with `store_to_ifdata`: the flag stays set and
    `IfData::stringify` produces the same text as before -/
theorem store_load_content_top {e : Env} (f32 : List Char → Option (List Char)) (S : Spec) (ctx : Ctx)
    (s s' : PState) (g : Gen) (hF : Flat S) (hS : TagsDistinct S)
    (h : parseIfdata f32 [S] ctx e s = .ok (some g, true) s') (b : IfDataBlk) (hb : b.items = some g) (hv : b.valid = true) :
    ∃ v, loadFromIfdata S b = .ok (some v) ∧
      (storeToIfdata S v b).valid = true ∧ ∃ g', (storeToIfdata S v b).items = some g' ∧ Sim g' g ∧
        ∀ indent, write indent g' = write indent g := by
  obtain ⟨sp, hm, d, s0, s1, hi, rfl⟩ := parseIfdata_valid_inv h
  rw [List.mem_singleton] at hm
  subst hm
  obtain ⟨v, hl, hsim⟩ := decode_of_shape sp hF hS d (itemP_shape f32 sp ctx s0 d s1 hi) ctx.line b.uid b.startOff b.endOff
  have hno := interpreted_no_repeat f32 sp ctx s0 s1 d hF hS hi
  refine ⟨v, by simp only [loadFromIfdata, hv, hb, if_true, hl], rfl, _, rfl, hsim hno, fun indent => ?_⟩
  exact sim_write indent true _ _ (hsim hno) (uidOk_makeBlock d ctx.line (itemP_uidOk hi))

/-- the hypotheses are satisfiable: `X 0x10 "a" 1.5` under `exSpec` -/
def exToks : Array PTok :=
  #[tk 0 ['X'], tk 5 "0x10".toList, tk 4 "\"a\"".toList 2, tk 5 "1.5".toList 2 (some "1.5".toList), tk 2 "/end".toList 3,
    tk 0 "IF_DATA".toList 3]

example : genOf (parseIfdata exF32 [exSpec] exCtx (specialEnv exToks false) {}) =
    some (.block 1 [.taggedUnion [⟨1, 1, 0, 0, ['X'], .block 1 [.int 5 0 16 true, .str 1 ['a'], .float 0 "1.5".toList], false⟩]],
      true) := by rfl

/-! ### a member that is not declared `( ... )*` and occurs twice -/

/-- `block "IF_DATA" taggedstruct { "X" uint; };` -/
def dupSpec : Spec := .taggedStruct [⟨['X'], .int 5, false, false⟩]
/-- `X 1 X 2 /end IF_DATA` -/
def dupToks : Array PTok :=
  #[tk 0 ['X'], tk 5 ['1'], tk 0 ['X'], tk 5 ['2'], tk 2 "/end".toList, tk 0 "IF_DATA".toList]
/-- what the interpreter stored for `X 1 X 2` BEFORE fix 9daacf5 (and flagged valid) -/
def dupG : Gen :=
  .block 1 [.taggedStruct [⟨1, 1, 0, 0, ['X'], .block 1 [.int 5 0 1 false], false⟩,
                           ⟨1, 2, 0, 0, ['X'], .block 1 [.int 5 0 2 false], false⟩]]
def dupV : TVal := .struct ⟨1, 0, 1, 1, []⟩ [.opt (some (.struct ⟨1, 1, 0, 0, [.int 0 false]⟩ [.int 1]))]

/-- now: `X 1 X 2` under `taggedstruct { "X" uint; }` is not flagged valid (the content is kept as uninterpreted data),
    `load_from_ifdata` gives `None`, nothing is decoded and nothing can be dropped -/
theorem repeated_member_not_valid :
    (genOf (parseIfdata exF32 [dupSpec] exCtx (specialEnv dupToks false) {})).map (·.2) = some false ∧
    ∀ g, loadFromIfdata dupSpec ⟨some g, false, 1, 0, 1, 1⟩ = .ok none :=
  ⟨by decide +kernel, fun g => loadFromIfdata_invalid dupSpec _ rfl⟩

/-- **FINDING (confirmed on the Rust library, fixed in 9daacf5)** about the behaviour BEFORE the fix:
    `parse_ifdata_taggedstruct` accepted `X 1 X 2` for a member `"X"` that is not declared `( ... )*` (it pushed every
    occurrence: `dupG`), the block was flagged valid; the generated `parse` takes the first occurrence
    (`get_single_optitem`: `itemlist[0]`), `load_from_ifdata` returned `Some`; `store` writes one `X`: the file changed
    from `X 1 X 2` to `X 1` without any diagnostic. The typed code is unchanged: for the generic value `dupG` (which
    only a hand-built `GenericIfData` can be now) it still behaves like this. -/
theorem old_store_dropped_repeated_member :
    Flat dupSpec ∧ TagsDistinct dupSpec ∧
    loadFromIfdata dupSpec ⟨some dupG, true, 1, 0, 1, 1⟩ = .ok (some dupV) ∧
    values true dupG = [.ident ['X'], .int 5 1 false, .ident ['X'], .int 5 2 false] ∧
    values true (typedStore dupSpec dupV) = [.ident ['X'], .int 5 1 false] ∧
    write 0 dupG = " X 1 X 2".toList ∧ write 0 (typedStore dupSpec dupV) = " X 1".toList := by
  refine ⟨by decide, by decide, rfl, by decide, by decide, ?_, ?_⟩
  · rw [write, writeG_render true 0 _ (by simp [dupG, UidOk, UidOkL, UidOkT])]; decide
  · have he : typedStore dupSpec dupV = .block 1 [.taggedStruct [⟨1, 1, 0, 0, ['X'], .block 1 [.int 5 0 1 false], false⟩]] := rfl
    rw [he, write, writeG_render true 0 _ (by simp [UidOk, UidOkL, UidOkT])]; decide

/-- ... and `NoRepeatViolation` (which accepted content now always has) is exactly what fails for `dupG` -/
example : ¬ NoRepeatViolation dupSpec (.taggedStruct [⟨1, 1, 0, 0, ['X'], .block 1 [.int 5 0 1 false], false⟩,
    ⟨1, 2, 0, 0, ['X'], .block 1 [.int 5 0 2 false], false⟩]) := by
  intro h
  have h1 : OnceL [.tagged false [⟨['X'], false, false, [.int 5]⟩]] [.taggedStruct [⟨1, 1, 0, 0, ['X'], .block 1 [.int 5 0 1 false], false⟩,
    ⟨1, 2, 0, 0, ['X'], .block 1 [.int 5 0 2 false], false⟩]] := h
  rw [OnceL] at h1
  have h2 := h1.1
  simp only [List.headD_cons] at h2
  rw [Once] at h2
  have h3 := h2 _ rfl
  rw [OnceM] at h3
  have := h3.1 rfl
  revert this
  decide

/-! ### FALSE as drafted: `values` of the stored data as a list -/

/-- `block "IF_DATA" taggedstruct { "A" uint; "B" uint; };` in the list order A, B -/
def ordSpec : Spec := .taggedStruct [⟨['A'], .int 5, false, false⟩, ⟨['B'], .int 5, false, false⟩]
/-- `B 1 A 2` -/
def ordG : Gen :=
  .block 1 [.taggedStruct [⟨1, 1, 0, 0, ['B'], .block 1 [.int 5 0 1 false], false⟩,
                           ⟨1, 2, 0, 0, ['A'], .block 1 [.int 5 0 2 false], false⟩]]
def ordV : TVal :=
  .struct ⟨1, 0, 1, 1, []⟩ [.opt (some (.struct ⟨1, 2, 0, 0, [.int 0 false]⟩ [.int 2])),
                            .opt (some (.struct ⟨1, 1, 0, 0, [.int 0 false]⟩ [.int 1]))]

/-- `values (typedStore S v) = values g` does not hold as an equation of lists: the stored hash map is listed member
    by member (in Rust: in hash order); the writer sorts by uid, the text is the same -/
theorem stored_values_order :
    typedLoad ordSpec ordG = .ok ordV ∧
    values true ordG = [.ident ['B'], .int 5 1 false, .ident ['A'], .int 5 2 false] ∧
    values true (typedStore ordSpec ordV) = [.ident ['A'], .int 5 2 false, .ident ['B'], .int 5 1 false] ∧
    write 0 (typedStore ordSpec ordV) = write 0 ordG := by
  refine ⟨rfl, by decide, by decide, ?_⟩
  have hs : Sim (typedStore ordSpec ordV) ordG := by
    show Sim (.block 1 [.taggedStruct [⟨1, 2, 0, 0, ['A'], .block 1 [.int 5 0 2 false], false⟩,
      ⟨1, 1, 0, 0, ['B'], .block 1 [.int 5 0 1 false], false⟩]]) ordG
    rw [Sim]
    refine ⟨_, rfl, .inl ?_⟩
    rw [SimL]
    refine ⟨_, _, rfl, ?_, by rw [SimL]⟩
    rw [Sim]
    refine ⟨_, [⟨1, 2, 0, 0, ['A'], .block 1 [.int 5 0 2 false], false⟩, ⟨1, 1, 0, 0, ['B'], .block 1 [.int 5 0 1 false], false⟩],
      rfl, List.Perm.swap _ _ _, ?_⟩
    have hb : ∀ (l w o : Nat) (v : Int), Sim (.block l [.int w o v false]) (.block l [.int w o v false]) := by
      intro l w o v
      rw [Sim]
      refine ⟨_, rfl, .inl ?_⟩
      rw [SimL]
      exact ⟨_, _, rfl, by rw [Sim], by rw [SimL]⟩
    rw [SimT]
    refine ⟨_, _, rfl, rfl, rfl, rfl, rfl, rfl, rfl, hb _ _ _ _, ?_⟩
    rw [SimT]
    exact ⟨_, _, rfl, rfl, rfl, rfl, rfl, rfl, rfl, hb _ _ _ _, by rw [SimT]⟩
  exact sim_write 0 true _ _ hs (by simp [ordG, UidOk, UidOkL, UidOkT])

/-! ### the side condition `Flat` -/

/-- `"T" (( uint )*)*`: `fixup_data_type` flattens the nested sequence, the interpreter nests. No A2ML text denotes this
    tree. -/
theorem conforming_decodes_needs_flat :
    let S : Spec := .taggedUnion [⟨['T'], .seq (.seq (.int 5)), false, false⟩]
    let g : Gen := .block 1 [.taggedUnion [⟨1, 1, 0, 0, ['T'], .block 1 [.seq [.seq [.int 5 0 1 false]]], false⟩]]
    ¬ Flat S ∧ Shape S (.taggedUnion [⟨1, 1, 0, 0, ['T'], .block 1 [.seq [.seq [.int 5 0 1 false]]], false⟩]) ∧
      typedLoad S g = .err := by
  refine ⟨by decide, ?_, rfl⟩
  rw [Shape]
  refine ⟨_, rfl, by simp, ?_⟩
  intro it hit
  rw [List.mem_singleton] at hit
  subst hit
  rw [ShapeT, if_pos rfl]
  refine ⟨rfl, .seq [.seq [.int 5 0 1 false]], rfl, ?_⟩
  rw [Shape]
  refine ⟨_, rfl, ?_⟩
  intro x hx
  rw [List.mem_singleton] at hx
  subst hx
  rw [Shape]
  refine ⟨_, rfl, ?_⟩
  intro x hx
  rw [List.mem_singleton] at hx
  subst hx
  rw [Shape]
  exact ⟨0, 1, false, rfl⟩

/-! ## 4. the behaviour of `fixup_struct` before the fix -/

/-- **FINDING (confirmed on the Rust library, fixed)**: `fixup_struct` used to build the field list of a struct that
    is used as a member with `new_structitems.extend(fixup_add_data_to_struct(item))`, which INLINES the members of a
    member that is itself a struct. For `"T" struct Outer { struct P { struct Q { int; int; }; uint; }; }` the type
    `P` had the three fields `int, int, uint` (`oldItems`), while the interpreter stores `P` as
    `Struct [Struct [1, 2], 3]`; the generated `P::parse` then called `get_integer_i16` on a `Struct`: `Err`, and
    `load_from_ifdata` returned `None` for a conforming block. The model after the fix (`structItems`) keeps `Q` as a
    member and decodes the block. -/
theorem old_fixup_struct_inlined_struct_members :
    let S : Spec := .taggedUnion [⟨['T'], .struct [.struct [.struct [.int 1, .int 1], .int 5]], false, false⟩]
    let g : Gen := .block 1 [.taggedUnion [⟨1, 1, 0, 0, ['T'],
      .block 1 [.struct 0 [.struct 0 [.int 1 0 1 false, .int 1 0 2 false], .int 5 0 3 false]], false⟩]]
    let oldItems : List OTy := [.tagged true [⟨['T'], false, false, [.struct [.int 1, .int 1, .int 5]]⟩]]
    loadBlockWith (loadFields oldItems) g 0 1 1 = .err ∧
    rootItems S = [.tagged true [⟨['T'], false, false, [.struct [.struct [.int 1, .int 1], .int 5]]⟩]] ∧
    (∃ v, typedLoad S g = .ok v) := ⟨rfl, rfl, _, rfl⟩

end A2l.Typed
