import A2lVerif.Lemmas.PO.Compose
import A2lVerif.Lemmas.PO.SampleIn
import A2lVerif.Lemmas.PO.Counter2
import A2lVerif.Lemmas.PO.Shipped
import A2lVerif.Lemmas.PO.Text
import A2lVerif.Lemmas.PO.Perm
import A2lVerif.Props.C01
import A2lVerif.Props.C03Table
import A2lVerif.Props.C06
/-!
# C02 — content preservation (and the gap of C01: values returned by the parser are well-formed)

"For every valid, include-free A2L document the text written after loading contains exactly the same sequence of
significant tokens as the input (every /begin, /end, keyword, identifier, string value and numeric value, in the same
order), differing only in whitespace, number and escape notation, the documented reordering of position-restricted
items, and comments that do not stand between block-level elements. […] a numeric literal that does not fit its field
must be diagnosed, never silently changed."

Property statements only; proofs in `Lemmas/PO/*` (parser output) on top of `Lemmas/RT/*` (C01). Models:
`Model/Tree.lean` (`parseFile`, `writeFile`; `parseVersion` AFTER the fix found here: the version tag is the identifier
that `get_identifier` returned, not the peeked token — a file that starts with a comment was rejected by the model and
is accepted by the real code), `Model/Scalars.lean`, `Model/Lex.lean`.

## What is proved (strict mode, include-free, no A2ML / IF_DATA element)

Direction "parser ⇒ writer", by induction on the parser's fuel (fragments are theorems of their own):

* `fields_wellformed` — every accepted parameter list is well-typed (`FieldsWf`: what Lemmas/RT asks of parameters, apart
  from what follows a sequence) and its written tokens correspond one by one (`TSim`) to the consumed tokens.
* `node_wellformed` — every block / keyword value `T::parse` returns: its sub-elements `items` in INPUT order are
  well-formed (`OT.wfL`, `MultOk`), the value stands in that order (`InOrder`), is in canonical relation to it if the
  position-restricted items are in position order (`OT.posAll → Canon`), is lexable (`OT.lexVL`, `OT.endOkL`), and the
  written tokens correspond to the consumed ones.
* `parse_output_canonical` (theorem 1) — the same for the root value of `parse_file`, plus `HeadOk`, `StreamLex` of the
  emitted stream, and `Writable` under the named obstacles.
* `content_preserved` (theorem 2) — `Pres (valuesOf input) (valuesOf written)`: the written tokens carry, in the same
  order, the values of the input tokens; only comments are missing (those not kept, see `comments_kept`).
* `out_of_range_literal_rejected`, `accepted_literal_is_literal_value` (theorem 3).
* `save_reload_stable_strict` (theorem 4) — `write(load(write(load t))) = write(load t)` for strict loads, and
  `LayoutEq`, under the two obstacles `Obstacles` (position order; the file does not end in a keyword);
  `save_reload_stable_strict_pos`: with the shipped grammar's position restrictions on the top-level items
  (`rootPosB`) position order is the ONLY obstacle.
* `sequences_end_in_written_stream` — the third obstacle of C01 ("a sequence is followed by a token that ends it",
  `SeqStops`) is DERIVED for strict loads: for sequences of identifiers from the input (what followed the sequence in
  the input follows it in the written stream, and the parser stopped there for a reason that holds again), for the
  others from the decidable table hypothesis `seqTblOk` (a sequence is the last parameter; its elements start with a
  number, or the element is a block whose sub-elements are blocks), true of the shipped table.

## Hypotheses (each with the reason)

* `InOk e lx` — about the input tokens: strict mode; `sym` / `symText` (identifier tokens carry the interned symbol of
  their text and the symbol table gives the text back: the WRITER prints `symbols[arm.tag]`, the parser compared
  `tok.sym`); `fid` (no include file: `Canon` has no included comments / elements); `fl`, `numText` (float codec
  idempotent on its output, output is a number token — obstacle `1e999 → inf`, `inf_*` below); `identText`, `cmtText`,
  `lineCmt` (token shapes and "the token behind a `//` comment stands on a later line": facts about the tokenizer
  model; `inOk_of_written_stream` derives all of `InOk` for the written streams of Lemmas/RT, and `inOk_of_lexer`
  derives these three — and `sym`, `fid` — for the output of `Lex.tokenize` on any text, under `TextOk`; see
  "text-level front end" below).
* `tableOk`, `shapeOk`, `seqTblOk`, `TagsOk`, `RootOk` — about the grammar (all true of the shipped table:
  `shipped_grammar_hypotheses`):
  parameters are scalars / structs of scalars / arrays and sequences of these (what Lemmas/RT supports), an arm's block
  flag is its type's, keyword types have no tagged part, tags are identifiers, no block of a non-special type is called
  `A2ML`, the root is a parameterless keyword whose version arm has the version type; `seqTblOk` see above.
* `NoSpecialOk` — no A2ML / IF_DATA element is loaded. `Canon` relates values of block types only, so a hypothesis "the
  special parsers return well-formed values" of the shape of `TypePost` cannot hold of a special parser that succeeds.
* `Obstacles`: `pos` (finding `reserved-order`; counterexample `reserved_order_model_differs` of C01), `last`
  (counterexample `last_param_offset_unstable` of C01). `seqTblOk` is needed by the PROOF in Lemmas/RT (`SeqStops`), not
  by the round trip: `seq_hypothesis_is_proof_artifact`.

## What is NOT proved

* anything about NON-strict loads that log a recoverable problem (the recoveries drop or skip input; C04 / C06);
  loads that log notices only are covered via C06: `content_preserved_quiet`, `save_reload_stable_quiet`;
* content preservation when position-restricted items are out of order (`content_preserved_statement`): the written
  stream is then a permutation. Proved: the in-order case (`content_preserved`), and
  `content_preserved_up_to_sibling_order`: for EVERY reordering of siblings (`OT.SibL`, at every depth) the values of
  the written tokens are a permutation of the input values without the dropped comments;
  `writer_order_is_sibling_permutation`: the order `stringify` produces (`Canon`) IS such a reordering of the input
  order; hence `content_preserved_perm : content_preserved_statement`; refinement `writer_order_is_position_reordering`
  (`OT.SibPL`): only position-restricted items change places, every other item keeps its index;
* (was open, now proved: the tokenizer facts `identText`, `cmtText`, `lineCmt` of `InOk` from `Model/Lex.lean` —
  `lexer_token_shapes`, `inOk_of_lexer` — and the driver's fuel — `needL_le_tokens`, `save_reload_stable_strict_run`.)

## Text-level front end and the driver's fuel

* `lexer_token_shapes` — a second invariant of the tokenizer loop (Lemmas/PO/LexShape.lean): an identifier token is a run
  of identifier characters unless it is the word behind `/include` or was started by `stepNumber` (`-xyz`, `1z`, `5_a`
  become IDENTIFIER tokens); a comment token is blanks + `//…` without line break or blanks + `/*…*/` up to the first
  `*/`; the token behind a `//` comment stands on a later line.
* `inOk_of_lexer` — `InOk` for `e.toks = ts.map (convTok lx bytes)`, `Lex.tokenize bytes = .ok ts`. Remaining
  hypotheses: strict; `TextOk bytes ts` = (a) no `/include` token (the model parses one file), (b) every identifier
  token starts with a letter or `_` (see `minus_word_is_identifier_token`: needed, `IdentText` is false otherwise),
  (c) the bytes of every comment token are UTF-8 — derived for a text that is a `String`
  (`token_bytes_of_string_are_utf8`, `textOk_of_string_input`); the symbol table gives back the text of every interned identifier (`symText`); the float codec is
  idempotent on its output and its output is a number token (`fl`, `numText`).
* `content_preserved_text`, `save_reload_stable_strict_text` — theorems 2 and 4 with these hypotheses instead of `InOk`
  and with `runParseFile` (the driver's fuel) for every load.
* `needL_le_tokens` — `OT.needL 0 xs ≤ 3 · tokens + 13` for well-formed items, so `needL + 20 ≤ 4 · tokens + 64`; needs
  that every parameter list has at most one parameter without tokens: `seqTblOk` (a sequence is last) and the new
  decidable `arrTblOk` (no array of dimension 0), true of the shipped table (`shipped_arrays_positive`).
-/
namespace A2l.Tree
open A2l.G A2l.Sc

/-! ## vocabulary (definitions live in `Lemmas/PO/*`; restated by `rfl` / `Iff.rfl`) -/

/-- the input tokens from cursor position `a` (inclusive) to `b` (exclusive) -/
example (e : Env) (a b : Nat) : seg e a b = (e.toks.toList.drop a).take (b - a) := rfl

/-- `ts` with some comment tokens deleted corresponds token by token to `ws` -/
example (lx : LexEnv) (t : PTok) (ts : List PTok) (ws : List WTok) (h6 : t.ty = 6) (h : TSim lx ts ws) :
    TSim lx (t :: ts) ws := TSim.skip t ts ws h6 h
example (lx : LexEnv) (t : PTok) (w : WTok) (ts : List PTok) (ws : List WTok) (h1 : TokSim lx t w) (h : TSim lx ts ws) :
    TSim lx (t :: ts) (w :: ws) := TSim.tok t w ts ws h1 h

/-- corresponding tokens: identifiers and comments the same text, `/begin` / `/end` the kind, strings the same unescaped
    value, numbers: what `add_integer` prints for what `get_integer` read, or what the float codec made of the token -/
example (lx : LexEnv) (t : PTok) (w : WTok) (ity : IntTy) (v : Int) (hex : Bool) (h0 : t.ty = 5) (hw : w.ty = 5)
    (hval : parseInt ity t.text = some (v, hex)) (htext : w.text = printInt ity v hex) : TokSim lx t w :=
  TokSim.int t w ity v hex h0 hw hval htext

/-- **the value of a token**, defined on tokens without reference to the parser -/
example (t : PTok) : tokVal t = (match t.ty with
    | 0 => .ident t.text
    | 1 => .begin_
    | 2 => .end_
    | 4 => .str (unescape (stripQuotes t.text))
    | 5 => .num (literalValue t.text) (decide (IsHexLit t.text)) t.fl
    | 6 => .cmt t.text
    | n => .other n) := rfl
example (toks : Array PTok) : valuesOf toks = toks.toList.map tokVal := rfl

/-- two values are the same: equal; for numbers: same integer value and notation, or same float value -/
example (l1 l2 : Option Int) (h1 h2 : Bool) (f1 f2 : Option (List Char)) :
    TV.same (.num l1 h1 f1) (.num l2 h2 f2) ↔ ((l1 = l2 ∧ h1 = h2 ∧ l1 ≠ none) ∨ (f1 = f2 ∧ f1 ≠ none)) := Iff.rfl

/-- `Pres inp out`: `out` is `inp` with some COMMENT values deleted, the others pairwise the same, in the same order -/
example (c : TV) (xs ys : List TV) (hc : c.isCmt = true) (h : Pres xs ys) : Pres (c :: xs) ys := Pres.drop c xs ys hc h
example (x y : TV) (xs ys : List TV) (hxy : TV.same x y) (h : Pres xs ys) : Pres (x :: xs) (y :: ys) :=
  Pres.keep x y xs ys hxy h

/-- the configuration of the well-formedness predicates of Lemmas/RT: the environment of the load with any token array -/
example (e : Env) (lx : LexEnv) (X : Array PTok) (ver : Nat) : mkC e lx X ver = ⟨{ e with toks := X }, lx, ver⟩ := rfl

/-- position order, recursively -/
example (code : List CodeEntry) (items : List OT) :
    OT.posAll code items = (PosSorted code items ∧ OT.posDeepL code items) := rfl

/-- the condition on what follows a sequence parameter: the part of `FieldOk` that is not derived -/
example (c : RCfg) (of : ItemTy) (stop : List Nat) (rest : List WTok) :
    FieldSeqOk c (.seq of stop) rest = SeqStops c of stop (nextNC rest) := rfl

/-- `OT.ok` (Lemmas/RT) = what the parser checked + the condition behind sequences + position order + "a keyword is
    followed by a token" -/
theorem ok_of_parts (c : RCfg) (xs : List OT) (ind : Nat) (parms : List Arm) (pib : Bool) (rest : List WTok)
    (h1 : OT.wfL c parms pib xs) (h2 : OT.seqOkL c ind xs rest) (h3 : OT.posDeepL c.e.code xs)
    (h4 : OT.kwNextL ind xs rest) : OT.okL c ind parms pib xs rest :=
  OT.okL_of_wf c xs ind parms pib rest h1 h2 h3 h4

/-! ## the hypotheses are satisfiable: the sample file as input of a strict load -/

/-- `V 1 71` / `/begin P p "hi" ON` / ` /* c */` / `C 0x5` / `/end P` (version keyword; a block with an identifier, a
    string and an enum parameter, a comment and a repeating child keyword with a hex parameter): all hypotheses of the
    theorems below hold, the strict load succeeds, and the obstacles are absent -/
theorem sample_hypotheses :
    InOk SampleIn.eS Sample.lx ∧ tableOk SampleIn.eS.table SampleIn.eS.known = true ∧
    shapeOk SampleIn.eS.table = true ∧ seqTblOk SampleIn.eS.table = true ∧ TagsOk SampleIn.eS ∧ NoSpecialOk SampleIn.eS ∧
    RootOk SampleIn.eS Sample.rarms ∧ (∃ v s, parseFile 100 SampleIn.eS {} = .ok v s) ∧
    Obstacles SampleIn.eS Sample.items :=
  ⟨SampleIn.inOk, SampleIn.tableOk_, SampleIn.shapeOk_, SampleIn.seqTblOk_, SampleIn.tagsOk, SampleIn.noSpecial,
    SampleIn.rootOk, SampleIn.parses, SampleIn.obstacles⟩

/-- the tokens of that environment are the parser tokens of the sample text (Props/C01.lean: `Sample.text_items`) -/
example : SampleIn.eS.toks = (mkToks Sample.lx Sample.stream).toArray := rfl

/-- **the shipped grammar satisfies every table hypothesis** of the theorems below (kernel-checked on the regenerated
    table, Lemmas/PO/Shipped.lean): what remains to be assumed for a load with the shipped grammar are `InOk` (the tokens)
    and `NoSpecialOk` (no A2ML / IF_DATA element) -/
theorem shipped_grammar_hypotheses (e : Env) (ht : e.table = Shipped.table) (hs : e.symbols = symbols)
    (hk : e.known = shippedKnown) :
    tableOk e.table e.known = true ∧ shapeOk e.table = true ∧ seqTblOk e.table = true ∧ TagsOk e ∧
      RootOk e shippedRootArms :=
  shipped_hypotheses e ht hs hk

/-- `InOk` for the written streams of Lemmas/RT: every lexable stream whose identifiers the symbol table knows, whose
    numbers the float codec leaves alone and whose line comments are followed by a line break -/
theorem inOk_of_written_stream {e : Env} {lx : LexEnv} {ws : List WTok} (hst : e.strict = true)
    (ht : e.toks = (mkToks lx ws).toArray) (hlex : StreamLex none ws)
    (hsym : ∀ w ∈ ws, w.ty = 0 → lx.symOf w.text ≠ noSym → symText e.symbols (lx.symOf w.text) = w.text)
    (hfl : ∀ w ∈ ws, w.ty = 5 → ∀ r, lx.flOf w.text = some r → lx.flOf r = some r ∧ NumText r)
    (hline : ∀ (i : Nat) (t t' : PTok), e.toks[i]? = some t → t.ty = 6 → isLineCmt t.text = true →
      e.toks[i + 1]? = some t' → t.line + countNewlines t.text < t'.line) : InOk e lx :=
  inOk_of_stream hst ht hlex hsym hfl hline

/-! ## theorem 3: integer literals -/

/-- **a literal that does not fit its field is diagnosed**: if the next significant token is the Number token `t` and
    its literal value `n` is below the minimum of the field type, or needs more bits than the field has, or (decimal
    notation) is above the maximum, then the parameter parser fails with `MalformedNumber` at the line of `t` — in
    both modes, for all eight integer types -/
theorem out_of_range_literal_rejected (fuel : Nat) (ctx : Ctx) (w : Nat) (e : Env) (s : PState) (t : PTok) (s1 : PState)
    (n : Int) (htok : expectToken ctx 5 e s = .ok t s1) (hv : literalValue t.text = some n)
    (hbad : n < (intTyOf w).min ∨ (2 ^ (intTyOf w).bits : Nat) ≤ n ∨ (¬ IsHexLit t.text ∧ (intTyOf w).max < n)) :
    parseItem (fuel + 1) ctx (.int w) e s = .err ⟨.malformedNumber, t.line⟩ s1 := by
  refine parseItem_int_err htok (int_overflow_diagnosed (intTyOf w) t.text n hv ?_)
  rcases hbad with h | h | ⟨h1, h2⟩
  · exact .inl h
  · exact .inr (.inl h)
  · refine .inr (.inr ⟨?_, h2⟩)
    split
    · rename_i x r _ heq _
      rw [heq] at h1
      exact h1
    · trivial

/-- `0x1FFFFFFFF` in a `u32` field (the literal that the pinned code truncated to `0xFFFFFFFF`): `MalformedNumber` at
    the line of the literal -/
example : (match parseItem 5 ⟨[], 0, 1⟩ (.int 6)
    { toks := #[⟨5, "0x1FFFFFFFF".toList, 7, 0, noSym, none⟩], strict := false, table := [] } {} with
    | .err d _ => decide (d = ⟨.malformedNumber, 7⟩) | _ => false) = true := by decide +kernel

/-- **an accepted literal is never changed**: the stored value is the literal's value (decimal), or the two's
    complement reading of the literal's magnitude, which fits the field width (hex); it is in range, and what the
    writer prints for it has the same literal value and the same notation -/
theorem accepted_literal_is_literal_value (fuel : Nat) (ctx : Ctx) (w : Nat) (e : Env) (s : PState) (v : Val) (s' : PState)
    (h : parseItem fuel ctx (.int w) e s = .ok v s') :
    ∃ t x hex off, OneTok e s t s' ∧ t.ty = 5 ∧ v = .int x hex off w ∧ (intTyOf w).inRange x ∧
      (hex = false → literalValue t.text = some x) ∧
      (hex = true → ∃ m : Nat, literalValue t.text = some (m : Int) ∧ m < 2 ^ (intTyOf w).bits ∧ x = wrapTo (intTyOf w) m) ∧
      literalValue (printInt (intTyOf w) x hex) = literalValue t.text ∧
      (IsHexLit (printInt (intTyOf w) x hex) ↔ IsHexLit t.text) := by
  obtain ⟨t, x, hex, off, o1, hty, rfl, hp⟩ := parseItem_int_inv h
  obtain ⟨a1, a2, -⟩ := int_value_preserved hp
  refine ⟨t, x, hex, off, o1, hty, rfl, parseInt_inRange _ _ _ _ hp, ?_, ?_, a1, a2⟩
  · intro hh; subst hh; exact (int_faithful_dec _ _ _ hp).1
  · intro hh; subst hh
    obtain ⟨m, h1, h2, h3, -, -⟩ := int_faithful_hex _ _ _ hp
    exact ⟨m, h1, h2, h3⟩

/-! ## theorem 1 and its fragments -/

/-- **fragment "fields"**: a parameter list the parser accepted (strict mode) is well-typed and corresponds to the
    consumed tokens; `ver` stays, ids are only consumed; a sequence of identifiers in last position ends in front of a
    token that ends it, in every written stream `rest` whose next significant token is the input's (`NextRel`) and, if
    it is an identifier, passes `get_identifier` (`FollowId`) -/
theorem fields_wellformed {e : Env} {lx : LexEnv} (hin : InOk e lx) (X : Array PTok) (ctx : Ctx) (fuel : Nat)
    (its : List ItemTy) (hits : ∀ it ∈ its, itemTyB e.table it = true) (s : PState) (fs : List Val) (s' : PState)
    (h : parseItems fuel ctx its e s = .ok fs s') :
    Adv2 s s' ∧ FieldsWf (mkC e lx X s.ver) its (fs.map normField) ∧
      (∀ ind, TSim lx (seg e s.pos s'.pos) (fieldsToks ind fs)) ∧ (∀ f ∈ fs, FieldLex f) ∧
      (∀ stop, its.getLast? = some (.seq .ident stop) → ∀ rest, NextRel (tailFrom e s'.pos) rest → FollowId rest →
        SeqStops (mkC e lx X s.ver) .ident stop (nextNC rest)) :=
  parseItems_post hin X ctx fuel its hits s fs s' h

/-- **fragments "tagged loop" and "node"**: what `T::parse` returns, for every fuel (`TypePost` / `NodeFacts` in
    `Lemmas/PO/Goals.lean`) -/
theorem node_wellformed {e : Env} {lx : LexEnv} (hin : InOk e lx) (X : Array PTok) (hshape : shapeOk e.table = true)
    (htags : TagsOk e) (hns : NoSpecialOk e) (fuel ty : Nat) (ctx : Ctx) (off : Nat) (s : PState) (v : Val) (s' : PState)
    (h : parseType fuel ty ctx off e s = .ok v s') (hfid : ctx.fileid = 0) :
    ∃ info fields ch cm items isB its arms ht, v = .block ty info fields ch cm ∧
      NodeFacts (mkC e lx X s.ver) e ty ctx off s s' info fields ch cm items isB its arms ht :=
  (parse_goals hin X hshape htags hns fuel).1 ty ctx off s v s' h hfid

/-- the fields of `NodeFacts`, for the record -/
example {c : RCfg} {e : Env} {ty : Nat} {ctx : Ctx} {off : Nat} {s s' : PState} {info : Info} {fields : List Val}
    {ch : List (List Val)} {cm : List Cmt} {items : List OT} {isB : Bool} {its : List ItemTy} {arms : List Arm} {ht : Bool}
    (nf : NodeFacts c e ty ctx off s s' info fields ch cm items isB its arms ht) :
    e.table.lookup ty = some (.block isB its arms ht) ∧ FieldsWf c its (fields.map normField) ∧
    OT.wfL c arms isB items ∧ MultOk true arms items ∧ InOrder e (.block ty info fields ch cm) items ∧
    (OT.posAll e.code items → Canon e (.block ty info fields ch cm) items) ∧ OT.lexVL items ∧ OT.endOkL items ∧
    ((isB = true ∨ ht = false ∨ e.toks[s'.pos]? = none) → ∀ ind ind', TSim c.lx (seg e s.pos s'.pos)
      (fieldsToks ind' fields ++ (OT.toksL ind' items ++ closeToks ind ctx.element isB info.endOff))) :=
  ⟨nf.lookup, nf.fwf, nf.wfl, nf.mult, nf.ord, nf.canon, nf.lexv, nf.eokL, nf.sim⟩

/-- **theorem 1 as stated** (full strength): every value a strict `parse_file` returns has an ordered form with
    `Canon`, `StreamLex` and `Writable`. FALSE without the obstacles (module comment); `parse_output_canonical`
    proves it with `InOrder` unconditionally and `Canon` / `Writable` under the named obstacles. -/
def parse_output_canonical_statement : Prop :=
  ∀ (e : Env) (lx : LexEnv) (rarms : List Arm) (fuel : Nat) (v : Val) (s : PState),
    InOk e lx → tableOk e.table e.known = true → shapeOk e.table = true → seqTblOk e.table = true → TagsOk e →
    NoSpecialOk e → RootOk e rarms → parseFile fuel e {} = .ok v s →
    ∃ items ver, Canon e v items ∧ StreamLex none (OT.toksL 0 (OT.fixL false items)) ∧
      Writable (mkC e lx (mkToks lx (OT.toksL 0 (OT.fixL false items))).toArray ver) rarms (OT.fixL false items)

/-- **theorem 1** (`parse_output_canonical_partial`): for a strict load of an include-free file without A2ML / IF_DATA
    elements, the root value `v` has sub-elements `items` (in input order) such that
    * `v` stands in the order of `items` (`InOrder`), its layout offsets are 0;
    * the written stream `OT.toksL 0 (OT.fixL false items)` corresponds token by token to the whole input (`TSim`);
    * it is lexable (`StreamLex`: the hypothesis `hlex` of `save_reload_stable_partial`), and no offset has to be bumped
      behind a line comment (`OT.fixL false items = items`: every item behind a `//` comment stood on a later line, and
      so did the `/end` behind a `//` comment that is the last item of its block; where the last item is no `//` comment
      the writer's `ends_in_line_comment` says so, `end_offset_kept`);
    * if the position-restricted items stand in position order (`OT.posAll`): `Canon e v items` (hypothesis `hcan`);
    * if moreover the last top-level item is a block: `Writable` (hypothesis `hw`), for the configuration with ANY token
      array `X`.
    What is missing for `parse_output_canonical_statement`: exactly the two obstacle hypotheses. -/
theorem parse_output_canonical {e : Env} {lx : LexEnv} (hin : InOk e lx) (htab : tableOk e.table e.known = true)
    (hshape : shapeOk e.table = true) (hseqT : seqTblOk e.table = true) (htags : TagsOk e) (hns : NoSpecialOk e)
    {rarms : List Arm} (hroot : RootOk e rarms) {fuel : Nat} {v : Val} {s : PState} (h : parseFile fuel e {} = .ok v s) :
    ∃ items ver info ch cm, v = .block e.known.tyA2lFile info [] ch cm ∧ info.startOff = 0 ∧ info.endOff = 0 ∧
      InOrder e v items ∧ TSim lx e.toks.toList (OT.toksL 0 (OT.fixL false items)) ∧
      (OT.posAll e.code items → Canon e v items) ∧
      StreamLex none (OT.toksL 0 (OT.fixL false items)) ∧ OT.fixL false items = items ∧
      (∀ X, OT.posAll e.code items → LastIsBlock items → Writable (mkC e lx X ver) rarms (OT.fixL false items)) :=
  parse_output_canonical_lemma hin htab hshape hseqT htags hns hroot h

/-- **the third obstacle of C01 is derived**: in the stream the writer emits for a strictly loaded file every sequence
    parameter is followed by a token that ends it (`SeqStops`, via `OT.seqOkL`) — `items`, `ver` as in
    `parse_output_canonical` (`FilePost` in `Lemmas/PO/ParseFile.lean` bundles what `parse_file` establishes) -/
theorem sequences_end_in_written_stream {e : Env} {lx : LexEnv} {X0 : Array PTok} {rarms : List Arm} {v : Val}
    {items : List OT} {ver : Nat} (htbl : seqTblOk e.table = true) (fp : FilePost e lx X0 rarms v items ver)
    (X : Array PTok) : OT.seqOkL (mkC e lx X ver) 0 (OT.fixL false items) [] :=
  seqOk_of_filePost htbl fp X

/-- what `parse_file` establishes (`FilePost`), for every token array `X` of the configuration -/
theorem parse_file_post {e : Env} {lx : LexEnv} (hin : InOk e lx) (X : Array PTok)
    (htab : tableOk e.table e.known = true) (hshape : shapeOk e.table = true) (htags : TagsOk e) (hns : NoSpecialOk e)
    {rarms : List Arm} (hroot : RootOk e rarms) {fuel : Nat} {v : Val} {s : PState} (h : parseFile fuel e {} = .ok v s) :
    ∃ items ver, FilePost e lx X rarms v items ver :=
  parseFile_post hin X htab hshape htags hns hroot h rfl

/-! ## theorem 2: content preservation -/

/-- **C02 as stated** (token level): the value sequence of the written tokens is that of the input tokens up to a
    permutation of position-restricted items within each tagged part and up to dropped comments. Proved: `content_preserved_perm` (below, with
    `writer_order_is_sibling_permutation`); in the case in which the position-restricted items are in order
    (`OT.posAll`) the permutation is the identity: `content_preserved`. -/
def content_preserved_statement : Prop :=
  ∀ (e : Env) (lx : LexEnv) (rarms : List Arm) (fuel : Nat) (v : Val) (s : PState),
    InOk e lx → tableOk e.table e.known = true → shapeOk e.table = true → TagsOk e → NoSpecialOk e → RootOk e rarms →
    parseFile fuel e {} = .ok v s →
    ∃ (items : List OT) (perm : List TV), Canon e v items ∧
      perm.Perm (valuesOf (mkToks lx (OT.toksL 0 (OT.fixL false items))).toArray) ∧ Pres (valuesOf e.toks) perm

/-- **theorem 2** (`content_preserved_partial`): the value sequence (`valuesOf`, defined on token arrays without
    reference to the parser) of the parser tokens of the stream `OT.toksL 0 (OT.fixL false items)` is the value sequence
    of the WHOLE input token array with some comment values deleted (`Pres`): every `/begin`, `/end`, tag, identifier
    and enum value with its text, every string with its unescaped value, every number with its integer value and
    notation or its float value, every kept comment with its text, in the same order. `items` are the sub-elements of
    the loaded value in input order; if they stand in position order this stream is what the writer emits
    (`Canon` + `writer_text` of C01), and what the tokenizer reads back from the written text
    (`lexer_reads_written_text` of C01; the stream is lexable by `parse_output_canonical`). -/
theorem content_preserved {e : Env} {lx : LexEnv} (hin : InOk e lx) (htab : tableOk e.table e.known = true)
    (hshape : shapeOk e.table = true) (htags : TagsOk e) (hns : NoSpecialOk e) {rarms : List Arm} (hroot : RootOk e rarms)
    {fuel : Nat} {v : Val} {s : PState} (h : parseFile fuel e {} = .ok v s) :
    ∃ items, InOrder e v items ∧ (OT.posAll e.code items → Canon e v items) ∧
      Pres (valuesOf e.toks) (valuesOf (mkToks lx (OT.toksL 0 (OT.fixL false items))).toArray) :=
  content_preserved_lemma hin htab hshape htags hns hroot h

/-- token correspondence gives content preservation (any line numbers for the written tokens) -/
theorem sim_preserves_values {lx : LexEnv} {ts : List PTok} {ws : List WTok} (h : TSim lx ts ws)
    (hfl : ∀ t ∈ ts, t.ty = 5 → ∀ r, t.fl = some r → lx.flOf r = some r) (line : Nat) :
    Pres (ts.map tokVal) ((mkToksFrom lx line ws).map tokVal) :=
  h.pres hfl line

/-- **which comments are kept**: a comment the tagged loop of a BLOCK finds is stored with its text (and written);
    the tagged loop of a parent that is not a block (the root) drops it; comments in front of parameters, between
    `/begin` and the tag and around `/end` are skipped by `expect_token` (`TSim.skip` in the fragments above) -/
theorem comments_kept (fuel : Nat) (ctx : Ctx) (arms : List Arm) (pib : Bool) (ch : List (List Val)) (cm : List Cmt)
    (e : Env) (s : PState) (tok : PTok) (off : Nat)
    (h : getNextTagOrComment ctx e s = .ok (.comment tok off) { s with pos := s.pos + 1 }) :
    parseTagged (fuel + 1) ctx arms pib ch cm e s =
      (if pib then
        parseTagged fuel ctx arms pib ch (⟨tok.text, ctx.line, s.seqId + 1, off, tok.fileid ≠ 0⟩ :: cm) e
          { s with pos := s.pos + 1, seqId := s.seqId + 1 }
      else parseTagged fuel ctx arms pib ch cm e { s with pos := s.pos + 1 }) := by
  rw [parseTagged, bind_def, h]
  cases pib <;> rfl

/-- file-level comments and comments in front of parameters are dropped (`/* a */ V 1 /* b */ 71` loads strictly, the
    loaded value has no comment): `commentsDroppedCheck` = "`runParseFile` succeeds with a root value whose comment lists
    are all empty" (Lemmas/PO/Counter2.lean) -/
theorem comments_dropped_example : Counter2.commentsDroppedCheck = true := Counter2.comments_dropped

/-! ## theorem 4: save / reload stability for strict loads -/

/-- **theorem 4** (`save_reload_stable_strict`): `e` = environment of a strict first load (include-free, no A2ML /
    IF_DATA element) that succeeds with root value `v`. There are `items` (the sub-elements of `v` in input order) such
    that, if the two named obstacles are absent (`Obstacles e items`: position order, the file does not end in a
    keyword):
    1. the written text is the rendering of the stream `OT.toksL 0 (OT.fixL false items)` (every sufficient fuel);
    2. the tokenizer model reads that text back into exactly this stream (kinds, texts, line numbers);
    3. the second load succeeds (every sufficient fuel), the second write gives byte-identical text:
       `write(load(write(load t))) = write(load t)`, and the reloaded value equals `v` up to layout bookkeeping
       (`LayoutEq`: everything except `Info.line`, `Info.uid`, `Cmt.line`, `Cmt.uid`): `load(write(load t)) = load t`.
    This is `save_reload_stable_statement` of Props/C01.lean with "`v` is a parser output" discharged for strict mode;
    what remains are the hypotheses listed in the module comment. -/
theorem save_reload_stable_strict {e : Env} {lx : LexEnv} (hin : InOk e lx) (htab : tableOk e.table e.known = true)
    (hshape : shapeOk e.table = true) (hseqT : seqTblOk e.table = true) (htags : TagsOk e) (hns : NoSpecialOk e)
    {rarms : List Arm} (hroot : RootOk e rarms) {fuel : Nat} {v : Val} {s : PState} (h : parseFile fuel e {} = .ok v s) :
    ∃ items, InOrder e v items ∧ (Obstacles e items →
      (∃ F0, ∀ F, F0 ≤ F → writeFile e v F = renderToks (OT.toksL 0 (OT.fixL false items))) ∧
      (∃ ts, Lex.tokenize (encL (renderToks (OT.toksL 0 (OT.fixL false items)))).toArray = .ok ts ∧
        (ts.map (convTok lx (encL (renderToks (OT.toksL 0 (OT.fixL false items)))).toArray)).toArray =
          (mkToks lx (OT.toksL 0 (OT.fixL false items))).toArray) ∧
      (∀ fuel', OT.needL 0 (OT.fixL false items) + 20 ≤ fuel' →
        ∃ v' s', parseFile fuel' { e with toks := (mkToks lx (OT.toksL 0 (OT.fixL false items))).toArray } {} = .ok v' s' ∧
          (∃ F0, ∀ F, F0 ≤ F →
            writeFile { e with toks := (mkToks lx (OT.toksL 0 (OT.fixL false items))).toArray } v' F = writeFile e v F) ∧
          LayoutEq v v')) :=
  save_reload_strict_lemma hin htab hshape hseqT htags hns hroot h

/-- **theorem 4 with position order as the only obstacle**, for grammars whose top-level items are position-restricted by
    constants with a required block behind all keywords (`rootPosB`: `ASAP2_VERSION` 1, `A2ML_VERSION` 2, `PROJECT` 3 in the
    shipped grammar, `shipped_rootPos`): a strictly loaded file whose items stand in position order ends in that block -/
theorem save_reload_stable_strict_pos {e : Env} {lx : LexEnv} (hin : InOk e lx) (htab : tableOk e.table e.known = true)
    (hshape : shapeOk e.table = true) (hseqT : seqTblOk e.table = true) (htags : TagsOk e) (hns : NoSpecialOk e)
    {rarms : List Arm} (hroot : RootOk e rarms) (hrp : rootPosB e.code rarms = true) {fuel : Nat} {v : Val} {s : PState}
    (h : parseFile fuel e {} = .ok v s) :
    ∃ items, InOrder e v items ∧ (OT.posAll e.code items →
      (∃ F0, ∀ F, F0 ≤ F → writeFile e v F = renderToks (OT.toksL 0 (OT.fixL false items))) ∧
      (∃ ts, Lex.tokenize (encL (renderToks (OT.toksL 0 (OT.fixL false items)))).toArray = .ok ts ∧
        (ts.map (convTok lx (encL (renderToks (OT.toksL 0 (OT.fixL false items)))).toArray)).toArray =
          (mkToks lx (OT.toksL 0 (OT.fixL false items))).toArray) ∧
      (∀ fuel', OT.needL 0 (OT.fixL false items) + 20 ≤ fuel' →
        ∃ v' s', parseFile fuel' { e with toks := (mkToks lx (OT.toksL 0 (OT.fixL false items))).toArray } {} = .ok v' s' ∧
          (∃ F0, ∀ F, F0 ≤ F →
            writeFile { e with toks := (mkToks lx (OT.toksL 0 (OT.fixL false items))).toArray } v' F = writeFile e v F) ∧
          LayoutEq v v')) :=
  save_reload_strict_pos_lemma hin htab hshape hseqT htags hns hroot hrp h

/-- the shipped code table has this shape -/
theorem shipped_root_positions : rootPosB Shipped.code shippedRootArms = true := shipped_rootPos

/-- a file in position order ends in a block -/
theorem last_item_is_block_of_position_order {c : RCfg} {rarms : List Arm} {items : List OT}
    (hroot : rootPosB c.e.code rarms = true) (hwf : OT.wfL c rarms false items) (hmult : MultOk true rarms items)
    (hps : PosSorted c.e.code items) : LastIsBlock items :=
  lastIsBlock_of_pos hroot hwf hmult hps

/-! ## non-strict loads that report notices only -/

/-- **theorems 2 and 4 for a NON-strict load whose log holds deprecation notices only** (`IsNotice`): by C06
    (`clean_nonstrict_implies_strict_file`; `hsp`, `hsp'`: its hypotheses about the `special` parsers) the strict load of
    the same tokens succeeds with the same value, so everything above applies to it. Stated for `strictOf e` = `e` with
    `strict := true` (the writer does not look at `strict`). -/
theorem quiet_nonstrict_load_is_strict_load (e : Env) (hsp : SpecialSim e) (hsp' : SpecialSimMore e) (v : Val) (s : PState)
    (h : runParseFile (nonStrict e) = .ok v s) (hclean : ∀ d ∈ s.log, IsNotice d) :
    parseFile (4 * e.toks.size + 64) (strictOf e) {} = .ok v s :=
  clean_nonstrict_implies_strict_file e hsp hsp' v s h hclean

theorem content_preserved_quiet {e : Env} {lx : LexEnv} (hsp : SpecialSim e) (hsp' : SpecialSimMore e)
    (hin : InOk (strictOf e) lx) (htab : tableOk e.table e.known = true) (hshape : shapeOk e.table = true)
    (htags : TagsOk (strictOf e)) (hns : NoSpecialOk (strictOf e)) {rarms : List Arm} (hroot : RootOk (strictOf e) rarms)
    {v : Val} {s : PState} (h : runParseFile (nonStrict e) = .ok v s) (hclean : ∀ d ∈ s.log, IsNotice d) :
    ∃ items, InOrder (strictOf e) v items ∧ (OT.posAll e.code items → Canon (strictOf e) v items) ∧
      Pres (valuesOf e.toks) (valuesOf (mkToks lx (OT.toksL 0 (OT.fixL false items))).toArray) :=
  content_preserved (e := strictOf e) hin htab hshape htags hns hroot
    (quiet_nonstrict_load_is_strict_load e hsp hsp' v s h hclean)

theorem save_reload_stable_quiet {e : Env} {lx : LexEnv} (hsp : SpecialSim e) (hsp' : SpecialSimMore e)
    (hin : InOk (strictOf e) lx) (htab : tableOk e.table e.known = true) (hshape : shapeOk e.table = true)
    (hseqT : seqTblOk e.table = true) (htags : TagsOk (strictOf e)) (hns : NoSpecialOk (strictOf e)) {rarms : List Arm}
    (hroot : RootOk (strictOf e) rarms) {v : Val} {s : PState} (h : runParseFile (nonStrict e) = .ok v s)
    (hclean : ∀ d ∈ s.log, IsNotice d) :
    ∃ items, InOrder (strictOf e) v items ∧ (Obstacles (strictOf e) items →
      (∃ F0, ∀ F, F0 ≤ F → writeFile (strictOf e) v F = renderToks (OT.toksL 0 (OT.fixL false items))) ∧
      (∀ fuel', OT.needL 0 (OT.fixL false items) + 20 ≤ fuel' →
        ∃ v' s', parseFile fuel' { strictOf e with toks := (mkToks lx (OT.toksL 0 (OT.fixL false items))).toArray } {} =
            .ok v' s' ∧
          (∃ F0, ∀ F, F0 ≤ F →
            writeFile { strictOf e with toks := (mkToks lx (OT.toksL 0 (OT.fixL false items))).toArray } v' F =
              writeFile (strictOf e) v F))) := by
  obtain ⟨items, hord, hob⟩ := save_reload_stable_strict (e := strictOf e) hin htab hshape hseqT htags hns hroot
    (quiet_nonstrict_load_is_strict_load e hsp hsp' v s h hclean)
  refine ⟨items, hord, fun ob => ?_⟩
  obtain ⟨r1, -, r3⟩ := hob ob
  refine ⟨r1, fun fuel' hf => ?_⟩
  obtain ⟨v', s', p1, p2, -⟩ := r3 fuel' hf
  exact ⟨v', s', p1, p2⟩

/-! ## the obstacles: what each one is, and why it is a hypothesis -/

/-- the named obstacles -/
example (e : Env) (items : List OT) (h : Obstacles e items) : OT.posAll e.code items ∧ LastIsBlock items := ⟨h.pos, h.last⟩

/-- NOT an obstacle: the end offsets. The writer (after the `fix:` commits) writes the `/end` of a block with offset 1
    instead of 0 if `ends_in_line_comment` holds of the block's text (`OT.fixEo`). For a loaded element this never changes
    the recorded offset: behind a `//` comment as last item the parser recorded an offset ≥ 1 (`OT.endOk`, from the
    token lines), and otherwise `ends_in_line_comment` — which is exact on lexable content, `ends_in_line_comment_exact`
    of Props/C01.lean — answers "no" -/
theorem end_offset_kept (blk : Bool) (eo : Nat) (fields : List Val) (items : List OT) (hf : ∀ f ∈ fields, FieldLex f)
    (hw : OT.lexWL items)
    (he : blk = true → ∀ text off, items.getLast? = some (.cmt text off) → isLineCmt text = true → 1 ≤ eo) :
    OT.fixEo blk eo fields (OT.fixL false items) = eo :=
  fixEo_of_endOk blk eo fields items hf hw he

/-- no offset is bumped for loaded items: start offsets (`OT.noBumpL`), end offsets (`OT.endOkL`) -/
theorem no_offset_bumped (xs : List OT) (alc : Bool) (h : OT.noBumpL alc xs) (hw : OT.lexWL xs) (he : OT.endOkL xs) :
    OT.fixL alc xs = xs :=
  fixL_of_noBump xs alc h hw he

def eoCmt : List Char := " /* a\n // b */".toList

/-- the input on which the last-line version of `ends_in_line_comment` fired spuriously (a block whose content ends with
    the block comment `/* a⏎ // b */` and whose `/end` stands on the same line): the exact scan answers "no", the `/end`
    recorded with offset 0 is written with offset 0, nothing is bumped -/
theorem block_comment_tail_not_bumped :
    OT.endsLC [] [.cmt eoCmt 0] = false ∧
    OT.fixL false [.node 0 ['B'] true 0 0 0 [] [.cmt eoCmt 0]] = [.node 0 ['B'] true 0 0 0 [] [.cmt eoCmt 0]] ∧
    renderToks (OT.toksL 0 [.node 0 ['B'] true 0 0 0 [] [.cmt eoCmt 0]]) = " /begin B /* a\n // b */ /end B".toList := by
  have h : OT.endsLC [] [.cmt eoCmt 0] = false := by decide +kernel
  have h1 : isLineCommentText eoCmt = false := by decide +kernel
  refine ⟨h, ?_, by decide +kernel⟩
  simp [OT.fixL, OT.fixEo, bumpOff, h, h1]

/-- `Obstacles.pos` is needed: finding `reserved-order` (`R 2 R 1` is written as ` R 1 R 2`; the significant tokens
    change their order and the reloaded model differs) — `reserved_order_model_differs` of Props/C01.lean -/
example : (∃ s, runParseFile (Counter.rEnv Counter.rToks1) = .ok Counter.rV1 s) ∧
    writeFile (Counter.rEnv Counter.rToks1) Counter.rV1 50 = " R 1 R 2".toList ∧
    (∃ s, runParseFile (Counter.rEnv Counter.rToks2) = .ok Counter.rV2 s) ∧ ¬ LayoutEq Counter.rV1 Counter.rV2 :=
  reserved_order_model_differs

/-- `Obstacles.last` is needed: a file that ends in a keyword parameter (not reachable with the shipped grammar) is not
    a fixpoint after the first write — `last_param_offset_unstable` of Props/C01.lean -/
example : (∃ s, runParseFile (Counter.qEnv Counter.qToks1) = .ok Counter.qV1 s) ∧
    writeFile (Counter.qEnv Counter.qToks1) Counter.qV1 50 = "\n\nK 1".toList ∧
    (∃ s, runParseFile (Counter.qEnv Counter.qToks2) = .ok Counter.qV2 s) ∧
    writeFile (Counter.qEnv Counter.qToks2) Counter.qV2 50 = "\n\nK\n\n  1".toList :=
  last_param_offset_unstable

/-- the table hypothesis `seqTblOk` ("a sequence is the last parameter, …") is needed by the PROOF (Lemmas/RT reads a
    written sequence back only if the next token is of another kind or a stop tag: `SeqStops`), not by the round trip:
    `V 1 71 K 1 2 300` with `K (<u8>)* <u16>` loads strictly (the sequence ends because `300` does not fit `u8`, the error
    is swallowed, the `u16` parameter reads it), but `SeqStops` is false for the written stream, whatever follows -/
theorem seq_hypothesis_is_proof_artifact :
    Counter2.okB (runParseFile (Counter2.sEnv Counter2.sToks)) = true ∧ seqTblOk Counter2.sTbl = false ∧
    ∀ (X : Array PTok) (off ind : Nat) (rest : List WTok),
      ¬ FieldSeqOk (mkC (Counter2.sEnv Counter2.sToks) Counter2.sLx X 6) (.seq (.int 4) [])
        (⟨5, ['3', '0', '0'], off, ind⟩ :: rest) :=
  ⟨Counter2.seq_value_end_loads, by decide, Counter2.seq_value_end_not_seqStops⟩

/-- `InOk.fl` / `InOk.numText` are needed: `F 1e999` loads strictly, the writer prints the float text `inf` verbatim,
    `inf` is not a number text, and the tokens of ` V 1 71 F inf` are rejected (`UnexpectedTokenType`) -/
theorem inf_not_reloadable :
    Counter2.okB (runParseFile (Counter2.fEnv Counter2.fToks1)) = true ∧
    (∀ (e : Env) (F indent off : Nat),
      writeItem (F + 1) e indent (.dbl "inf".toList off) = addWhitespace indent off ++ "inf".toList) ∧
    ¬ NumText "inf".toList ∧
    Counter2.errKind (runParseFile (Counter2.fEnv Counter2.fToks2)) = some .unexpectedTokenType :=
  ⟨Counter2.inf_loads, Counter2.inf_written_verbatim, Counter2.inf_not_numText, Counter2.inf_reload_fails⟩

/-! ## text-level front end: the tokenizer facts of `InOk` from `Model/Lex.lean` -/

/-- definitions used below -/
example (b : Lex.Bytes) (p : UInt8 → Bool) (a e : Nat) :
    Lex.AllIn b p a e = ∀ q, a ≤ q → q < e → ∃ c, b[q]? = some c ∧ p c = true := rfl
example (b : Lex.Bytes) (t : Lex.Token) : Lex.LineC b t =
    (t.ttype = .comment ∧ ∃ st, t.startpos ≤ st ∧ Lex.AllIn b (· == 32) t.startpos st ∧ b[st]? = some 47 ∧
      b[st + 1]? = some 47 ∧ st + 2 ≤ t.endpos ∧ t.endpos ≤ b.size ∧ Lex.AllIn b (· != 10) (st + 1) t.endpos) := rfl
example (b : Lex.Bytes) (t : Lex.Token) : Lex.BlockC b t =
    (t.ttype = .comment ∧ ∃ st, t.startpos ≤ st ∧ Lex.AllIn b (· == 32) t.startpos st ∧ st ≤ t.endpos ∧
      t.endpos ≤ b.size ∧ Lex.BlockCore (b.extract st t.endpos).toList) := rfl
example (toks : List Lex.Token) : Lex.HasInc toks = ∃ t ∈ toks, t.ttype = .include := rfl

/-- **shapes of the tokens `tokenize_core` produces** (all inputs): an identifier token is a non-empty run of identifier
    characters — unless an `/include` token occurs (the word behind it is a path) or its first byte is not a letter or
    `_` (`stepNumber` makes identifier tokens of `-xyz`, `1z`); a comment token is a `//` comment without line break
    or a block comment up to its first `*/`, behind blanks; every token behind a `//` comment is on a later line. -/
theorem lexer_token_shapes (b : Lex.Bytes) (ts : List Lex.Token) (h : Lex.tokenize b = .ok ts) :
    (∀ t ∈ ts, t.ttype = .identifier → Lex.HasInc ts ∨
      (∃ c, b[t.startpos]? = some c ∧ (Lex.isAlpha c || c == 95) = false) ∨
      (Lex.AllIn b Lex.isIdentChar t.startpos t.endpos ∧ t.startpos < t.endpos ∧ t.endpos ≤ b.size)) ∧
    (∀ t ∈ ts, t.ttype = .comment → Lex.LineC b t ∨ Lex.BlockC b t) ∧
    ts.Pairwise (fun a c => Lex.LineC b a → a.line < c.line) :=
  have hs := Lex.tokenize_shapes b ts h
  ⟨fun t ht => (hs.shapes t ht).ident, fun t ht => (hs.shapes t ht).cmt, hs.lcp⟩

example : Lex.tokenize SampleText.bytes = .ok SampleText.ts := SampleText.lexes

/-- what is assumed about the text beside "the tokenizer accepts it" -/
example (bytes : Lex.Bytes) (ts : List Lex.Token) : TextOk bytes ts ↔
    ((∀ t ∈ ts, t.ttype ≠ .include) ∧
     (∀ t ∈ ts, t.ttype = .identifier → ∀ c, bytes[t.startpos]? = some c → (Lex.isAlpha c || c == 95) = true) ∧
     (∀ t ∈ ts, t.ttype = .comment → ∃ text, (bytes.extract t.startpos t.endpos).toList = encL text)) :=
  ⟨fun h => ⟨h.1, h.2, h.3⟩, fun h => ⟨h.1, h.2.1, h.2.2⟩⟩

/-- **`TextOk.identFirst` is needed**: `-xyz` is ONE identifier token (so are `1z`, `5_a`), `get_identifier` accepts it
    in strict mode (it rejects a leading digit only), and its text is not `IdentText` -/
theorem minus_word_is_identifier_token :
    Lex.tokenize #[45, 120, 121, 122] = .ok [⟨.identifier, 0, 4, 1⟩] ∧
    ¬ IdentText (convTok Sample.lx #[45, 120, 121, 122] ⟨.identifier, 0, 4, 1⟩).text := by
  have h1 : Lex.tokenize #[45, 120, 121, 122] = .ok [⟨.identifier, 0, 4, 1⟩] := by decide +kernel
  refine ⟨h1, ?_⟩
  have : (convTok Sample.lx #[45, 120, 121, 122] ⟨.identifier, 0, 4, 1⟩).text = ['-', 'x', 'y', 'z'] := by decide +kernel
  rw [this]
  rintro ⟨c, cs, h, -, hc⟩
  cases h
  revert hc; decide

/-- **the tokenizer facts of `InOk` hold of the tokenizer's output** (`identText`, `cmtText`, `lineCmt`; `sym` and `fid`
    by construction of `convTok`). What remains to be assumed: strict mode, `TextOk`, the symbol table (`symText`) and
    the float codec (`fl`, `numText`). -/
theorem inOk_of_lexer (e : Env) (lx : LexEnv) (bytes : Lex.Bytes) (ts : List Lex.Token)
    (h : Lex.tokenize bytes = .ok ts) (htext : TextOk bytes ts)
    (htoks : e.toks = (ts.map (convTok lx bytes)).toArray) (hstrict : e.strict = true)
    (hsym : ∀ (i : Nat) (t : PTok), e.toks[i]? = some t → t.ty = 0 → t.sym ≠ noSym → symText e.symbols t.sym = t.text)
    (hfl : ∀ (i : Nat) (t : PTok) (r : List Char), e.toks[i]? = some t → t.ty = 5 → t.fl = some r →
      lx.flOf r = some r ∧ NumText r) : InOk e lx :=
  inOk_of_lexer_lemma e lx bytes ts h htext htoks hstrict hsym hfl

/-- the three facts on their own -/
theorem lexer_tokens_wellshaped {bytes : Lex.Bytes} {ts : List Lex.Token} (h : Lex.tokenize bytes = .ok ts)
    (htext : TextOk bytes ts) (lx : LexEnv) :
    (∀ tk ∈ ts, tk.ttype = .identifier → IdentText (convTok lx bytes tk).text) ∧
    (∀ tk ∈ ts, tk.ttype = .comment → CommentText (convTok lx bytes tk).text) ∧
    (∀ (i : Nat) (tk tk' : Lex.Token), ts[i]? = some tk → ts[i + 1]? = some tk' → tk.ttype = .comment →
      isLineCmt (convTok lx bytes tk).text = true →
      tk.line + countNewlines (convTok lx bytes tk).text < tk'.line) :=
  ⟨lexer_identText h htext lx, fun tk htk hty => (lexer_cmt h htext lx tk htk hty).1, lexer_lineCmt h htext lx⟩

/-- non-vacuity: the sample text satisfies the hypotheses of `inOk_of_lexer`; its converted tokens are the token array
    of `SampleIn.eS` (`sample_hypotheses`) -/
theorem sample_text_hypotheses :
    Lex.tokenize SampleText.bytes = .ok SampleText.ts ∧ TextOk SampleText.bytes SampleText.ts ∧
    SampleIn.eS.toks = (SampleText.ts.map (convTok Sample.lx SampleText.bytes)).toArray ∧
    arrTblOk SampleIn.eS.table = true ∧ (∃ v s, runParseFile SampleIn.eS = .ok v s) :=
  ⟨SampleText.lexes, SampleText.textOk, SampleText.toks_eq, by decide, SampleText.runs⟩

/-! ## the driver's fuel -/

/-- **the fuel of `runParseFile` suffices to read a written stream back**: for well-formed items (`OT.wfL`: what the
    parser returns, `node_wellformed`) over a table in which sequences are last and arrays are not empty, the fuel bound
    `OT.needL` of the read-back theorems is at most `3 · tokens + 13`; so `needL + 20 ≤ 4 · tokens + 64`. -/
theorem needL_le_tokens (c : RCfg) (hs : seqTblOk c.e.table = true) (ha : arrTblOk c.e.table = true)
    (xs : List OT) (parms : List Arm) (pib : Bool) (h : OT.wfL c parms pib xs) (lx : LexEnv) :
    OT.needL 0 xs ≤ 3 * (OT.toksL 0 xs).length + 13 ∧
    OT.needL 0 xs + 20 ≤ 4 * (mkToks lx (OT.toksL 0 xs)).toArray.size + 64 :=
  ⟨A2l.Tree.needL_le_tokens_lemma c hs ha xs parms pib 0 h, run_fuel_ok c hs ha xs parms pib h lx⟩

example (tbl : Table) : arrTblOk tbl = tbl.all (fun en => match en.def_ with
    | .block _ items _ _ => items.all arrDimB
    | _ => true) := rfl
example (of : ItemTy) (n : Nat) : arrDimB (.arr of n) = decide (1 ≤ n) := rfl
example : arrDimB .ident = true ∧ arrDimB (.seq .ident []) = true := ⟨rfl, rfl⟩

/-- the shipped table has no array parameter of dimension 0 -/
theorem shipped_arrays_positive : arrTblOk Shipped.table = true := shipped_arrTblOk

/-- **theorem 4 with the driver's fuel**: `save_reload_stable_strict` where both loads are `runParseFile`
    (fuel `4 · tokens + 64`) -/
theorem save_reload_stable_strict_run {e : Env} {lx : LexEnv} (hin : InOk e lx) (htab : tableOk e.table e.known = true)
    (hshape : shapeOk e.table = true) (hseqT : seqTblOk e.table = true) (harr : arrTblOk e.table = true)
    (htags : TagsOk e) (hns : NoSpecialOk e) {rarms : List Arm} (hroot : RootOk e rarms) {v : Val} {s : PState}
    (h : runParseFile e = .ok v s) :
    ∃ items, InOrder e v items ∧ (Obstacles e items →
      (∃ F0, ∀ F, F0 ≤ F → writeFile e v F = renderToks (OT.toksL 0 (OT.fixL false items))) ∧
      (∃ ts, Lex.tokenize (encL (renderToks (OT.toksL 0 (OT.fixL false items)))).toArray = .ok ts ∧
        (ts.map (convTok lx (encL (renderToks (OT.toksL 0 (OT.fixL false items)))).toArray)).toArray =
          (mkToks lx (OT.toksL 0 (OT.fixL false items))).toArray) ∧
      ∃ v' s', runParseFile { e with toks := (mkToks lx (OT.toksL 0 (OT.fixL false items))).toArray } = .ok v' s' ∧
        (∃ F0, ∀ F, F0 ≤ F →
          writeFile { e with toks := (mkToks lx (OT.toksL 0 (OT.fixL false items))).toArray } v' F = writeFile e v F) ∧
        LayoutEq v v') :=
  save_reload_strict_run_lemma hin htab hshape hseqT harr htags hns hroot h

/-! ## theorems 2 and 4 from the text -/

/-- **the bytes of every token of a `String` are UTF-8**: token boundaries are char boundaries (`lex_boundaries` of C03;
    `encL chars` satisfies its hypothesis `Utf8Ok`), and a slice of `encL chars` between char boundaries is `encL` of a
    sublist of `chars` -/
theorem token_bytes_of_string_are_utf8 (chars : List Char) (ts : List Lex.Token)
    (h : Lex.tokenize (encL chars).toArray = .ok ts) :
    Lex.Utf8Ok (encL chars).toArray ∧
    ∀ t ∈ ts, ∃ text, ((encL chars).toArray.extract t.startpos t.endpos).toList = encL text :=
  ⟨utf8Ok_encL chars, token_bytes_utf8 chars ts h⟩

/-- `TextOk` for a text that is a `String`: two clauses remain -/
theorem textOk_of_string_input (chars : List Char) (ts : List Lex.Token) (h : Lex.tokenize (encL chars).toArray = .ok ts)
    (hninc : ∀ t ∈ ts, t.ttype ≠ .include)
    (hfirst : ∀ t ∈ ts, t.ttype = .identifier → ∀ c, (encL chars).toArray[t.startpos]? = some c →
      (Lex.isAlpha c || c == 95) = true) : TextOk (encL chars).toArray ts :=
  textOk_of_string chars ts h hninc hfirst

/-- **theorem 2, text-level front end**: `chars` is any text (a `String`) the tokenizer accepts, without `/include`,
    whose identifier tokens start with a letter or `_`; `e.toks` are its tokens as the driver converts them; the strict
    load with the driver's fuel succeeds. Conclusion of `content_preserved`. Remaining hypotheses about the tokens:
    `hsym` (symbol table), `hfl` (float codec). -/
theorem content_preserved_text {e : Env} {lx : LexEnv} {chars : List Char} {ts : List Lex.Token}
    (hlex : Lex.tokenize (encL chars).toArray = .ok ts) (hninc : ∀ t ∈ ts, t.ttype ≠ .include)
    (hfirst : ∀ t ∈ ts, t.ttype = .identifier → ∀ c, (encL chars).toArray[t.startpos]? = some c →
      (Lex.isAlpha c || c == 95) = true)
    (htoks : e.toks = (ts.map (convTok lx (encL chars).toArray)).toArray) (hstrict : e.strict = true)
    (hsym : ∀ (i : Nat) (t : PTok), e.toks[i]? = some t → t.ty = 0 → t.sym ≠ noSym → symText e.symbols t.sym = t.text)
    (hfl : ∀ (i : Nat) (t : PTok) (r : List Char), e.toks[i]? = some t → t.ty = 5 → t.fl = some r →
      lx.flOf r = some r ∧ NumText r)
    (htab : tableOk e.table e.known = true) (hshape : shapeOk e.table = true) (htags : TagsOk e) (hns : NoSpecialOk e)
    {rarms : List Arm} (hroot : RootOk e rarms) {v : Val} {s : PState} (h : runParseFile e = .ok v s) :
    ∃ items, InOrder e v items ∧ (OT.posAll e.code items → Canon e v items) ∧
      Pres (valuesOf (ts.map (convTok lx (encL chars).toArray)).toArray)
        (valuesOf (mkToks lx (OT.toksL 0 (OT.fixL false items))).toArray) := by
  have hin := inOk_of_lexer e lx _ ts hlex (textOk_of_string chars ts hlex hninc hfirst) htoks hstrict hsym hfl
  have := content_preserved_lemma hin htab hshape htags hns hroot h
  rw [htoks] at this
  exact this

/-- **theorem 4, text-level front end and the driver's fuel**: `write(load(write(load t))) = write(load t)` and
    `load(write(load t)) ≈ load t` for every text `t = chars` (a `String`) the tokenizer accepts, without `/include`, whose
    identifier tokens start with a letter or `_`, strictly loaded by `runParseFile`, under the two obstacles. -/
theorem save_reload_stable_strict_text {e : Env} {lx : LexEnv} {chars : List Char} {ts : List Lex.Token}
    (hlex : Lex.tokenize (encL chars).toArray = .ok ts) (hninc : ∀ t ∈ ts, t.ttype ≠ .include)
    (hfirst : ∀ t ∈ ts, t.ttype = .identifier → ∀ c, (encL chars).toArray[t.startpos]? = some c →
      (Lex.isAlpha c || c == 95) = true)
    (htoks : e.toks = (ts.map (convTok lx (encL chars).toArray)).toArray) (hstrict : e.strict = true)
    (hsym : ∀ (i : Nat) (t : PTok), e.toks[i]? = some t → t.ty = 0 → t.sym ≠ noSym → symText e.symbols t.sym = t.text)
    (hfl : ∀ (i : Nat) (t : PTok) (r : List Char), e.toks[i]? = some t → t.ty = 5 → t.fl = some r →
      lx.flOf r = some r ∧ NumText r)
    (htab : tableOk e.table e.known = true) (hshape : shapeOk e.table = true) (hseqT : seqTblOk e.table = true)
    (harr : arrTblOk e.table = true) (htags : TagsOk e) (hns : NoSpecialOk e)
    {rarms : List Arm} (hroot : RootOk e rarms) {v : Val} {s : PState} (h : runParseFile e = .ok v s) :
    ∃ items, InOrder e v items ∧ (Obstacles e items →
      (∃ F0, ∀ F, F0 ≤ F → writeFile e v F = renderToks (OT.toksL 0 (OT.fixL false items))) ∧
      (∃ ts', Lex.tokenize (encL (renderToks (OT.toksL 0 (OT.fixL false items)))).toArray = .ok ts' ∧
        (ts'.map (convTok lx (encL (renderToks (OT.toksL 0 (OT.fixL false items)))).toArray)).toArray =
          (mkToks lx (OT.toksL 0 (OT.fixL false items))).toArray) ∧
      ∃ v' s', runParseFile { e with toks := (mkToks lx (OT.toksL 0 (OT.fixL false items))).toArray } = .ok v' s' ∧
        (∃ F0, ∀ F, F0 ≤ F →
          writeFile { e with toks := (mkToks lx (OT.toksL 0 (OT.fixL false items))).toArray } v' F = writeFile e v F) ∧
        LayoutEq v v') :=
  save_reload_strict_run_lemma
    (inOk_of_lexer e lx _ ts hlex (textOk_of_string chars ts hlex hninc hfirst) htoks hstrict hsym hfl)
    htab hshape hseqT harr htags hns hroot h

/-- non-vacuity: every hypothesis of `save_reload_stable_strict_text` holds for the sample text, with the obstacles
    absent (`sample_hypotheses`, `sample_text_hypotheses`) -/
example : ∃ v items, InOrder SampleIn.eS v items := by
  have hs := sample_hypotheses
  have hin := hs.1
  obtain ⟨v, s, hv⟩ := SampleText.runs
  have hb := SampleText.bytes_eq
  have htx := SampleText.textOk
  have hlx := SampleText.lexes
  have htk := SampleText.toks_eq
  rw [hb] at htx hlx htk
  obtain ⟨items, h1, -⟩ := save_reload_stable_strict_text (lx := Sample.lx) hlx htx.noInclude htx.identFirst htk rfl
    hin.symText (fun i t r a b c => ⟨hin.fl i t r a b c, hin.numText i t r a b c⟩)
    hs.2.1 hs.2.2.1 hs.2.2.2.1 (by decide) hs.2.2.2.2.1 hs.2.2.2.2.2.1 hs.2.2.2.2.2.2.1 hv
  exact ⟨v, items, h1⟩

/-! ## content preservation up to the order of siblings -/

/-- `OT.SibL items items'`: the same items up to a permutation of siblings at every depth (generated by: related heads,
    swap of two neighbours, transitivity); layout offsets and arm indices are free -/
example (x y : OT) (l : List OT) : OT.SibL (y :: x :: l) (x :: y :: l) := .swap x y l
example (x y : OT) (xs ys : List OT) (h1 : OT.Sib x y) (h2 : OT.SibL xs ys) : OT.SibL (x :: xs) (y :: ys) := .cons x y xs ys h1 h2
example (a b c : List OT) (h1 : OT.SibL a b) (h2 : OT.SibL b c) : OT.SibL a c := .trans a b c h1 h2
example (i i' : Nat) (tag : List Char) (blk : Bool) (ty so so' eo eo' : Nat) (fields : List Val) (items items' : List OT)
    (h : OT.SibL items items') :
    OT.Sib (.node i tag blk ty so eo fields items) (.node i' tag blk ty so' eo' fields items') :=
  .node i i' tag blk ty so so' eo eo' fields items items' h
example (xs : List OT) : OT.SibL xs xs := OT.SibL.refl xs

/-- **reordering siblings permutes the values of the written tokens** -/
theorem sibling_permutation_permutes_values (lx : LexEnv) {items items' : List OT} (h : OT.SibL items items') :
    (valuesOf (mkToks lx (OT.toksL 0 (OT.fixL false items))).toArray).Perm
      (valuesOf (mkToks lx (OT.toksL 0 (OT.fixL false items'))).toArray) :=
  values_perm_of_sib lx h

/-- **theorem 2 up to the order of siblings** (`content_preserved_statement` with "the writer's order is a reordering of
    siblings" as hypothesis): `items` = the sub-elements of the loaded value in input order. For every reordering
    `items'` of siblings, the values of the tokens of the stream `OT.toksL 0 (OT.fixL false items')` are a permutation
    of a list `perm` that is the input value sequence with some comments deleted. -/
theorem content_preserved_up_to_sibling_order {e : Env} {lx : LexEnv} (hin : InOk e lx)
    (htab : tableOk e.table e.known = true) (hshape : shapeOk e.table = true) (htags : TagsOk e) (hns : NoSpecialOk e)
    {rarms : List Arm} (hroot : RootOk e rarms) {fuel : Nat} {v : Val} {s : PState} (h : parseFile fuel e {} = .ok v s) :
    ∃ items, InOrder e v items ∧ ∀ items', OT.SibL items items' →
      ∃ perm, perm.Perm (valuesOf (mkToks lx (OT.toksL 0 (OT.fixL false items'))).toArray) ∧
        Pres (valuesOf e.toks) perm :=
  content_preserved_perm_lemma hin htab hshape htags hns hroot h

/-- **the writer's sort is a permutation** of the group entries (`sortGE` = `apply_position_restrictions` ∘ sort by key) -/
theorem sortGE_is_permutation (code : List CodeEntry) (ges : List GE) : (sortGE code ges).Perm ges :=
  sortGE_perm code ges

/-- **the order in which `stringify` writes is a reordering of siblings of the input order** (at every depth), for
    every strict load: `items` = the sub-elements of the loaded value in input order (`InOrder`), `items'` = the same in
    the writer's order (`Canon`); the values of the two token streams are permutations of each other, and those of
    `items` are the input values without the dropped comments. Proof: the parser induction (`parse_goals`) carries, beside
    "`Canon` if in position order", the unconditional "`Canon` for some sibling reordering" (`NodeFacts.sibc`,
    `LInv.toSibCanon`: the accumulated group entries are a permutation of the items read, `sortGE` permutes them).
    (The earlier draft `writer_order_is_sibling_permutation_statement` quantified over ALL `items` with
    `InOrder e v items`; that is more than is needed, and `InOrder` does not constrain items whose arm index is out of
    range, so that form was not pursued: the statement is about the items the parser read.) -/
theorem writer_order_is_sibling_permutation {e : Env} {lx : LexEnv} (hin : InOk e lx)
    (htab : tableOk e.table e.known = true) (hshape : shapeOk e.table = true) (htags : TagsOk e) (hns : NoSpecialOk e)
    {rarms : List Arm} (hroot : RootOk e rarms) {fuel : Nat} {v : Val} {s : PState} (h : parseFile fuel e {} = .ok v s) :
    ∃ items items', InOrder e v items ∧ OT.SibL items items' ∧ Canon e v items' ∧
      (valuesOf (mkToks lx (OT.toksL 0 (OT.fixL false items))).toArray).Perm
        (valuesOf (mkToks lx (OT.toksL 0 (OT.fixL false items'))).toArray) ∧
      Pres (valuesOf e.toks) (valuesOf (mkToks lx (OT.toksL 0 (OT.fixL false items))).toArray) := by
  obtain ⟨items, items', a, b, c, d, f⟩ := content_preserved_perm_full hin htab hshape htags hns hroot h
  exact ⟨items, items', a, b.toSibL, c, d, f⟩

/-! ### only position-restricted items change places -/

/-- `OT.SibPL code items items'`: a reordering of siblings (at every depth) in which only position-restricted items
    (`OT.pos code` is `some`: the arm's type has a position restriction) change places; every other item keeps its
    index. Generated by related heads, the exchange of two position-restricted items (anything in between stays),
    transitivity. -/
example (code : List CodeEntry) (x y : OT) (m l : List OT) (hx : (x.pos code).isSome = true) (hy : (y.pos code).isSome = true) :
    OT.SibPL code (y :: (m ++ x :: l)) (x :: (m ++ y :: l)) := .swapFar x y m l hx hy
example (code : List CodeEntry) (x y : OT) (xs ys : List OT) (h1 : OT.SibP code x y) (h2 : OT.SibPL code xs ys) :
    OT.SibPL code (x :: xs) (y :: ys) := .cons x y xs ys h1 h2
example (code : List CodeEntry) (a b c : List OT) (h1 : OT.SibPL code a b) (h2 : OT.SibPL code b c) : OT.SibPL code a c :=
  .trans a b c h1 h2
example (code : List CodeEntry) (i i' : Nat) (tag : List Char) (blk : Bool) (ty so so' eo eo' : Nat) (fields : List Val)
    (items items' : List OT) (h : OT.SibPL code items items') :
    OT.SibP code (.node i tag blk ty so eo fields items) (.node i' tag blk ty so' eo' fields items') :=
  .node i i' tag blk ty so so' eo eo' fields items items' h
example (code : List CodeEntry) (xs : List OT) : OT.SibPL code xs xs := OT.SibPL.refl code xs
example (code : List CodeEntry) (ty : Nat) (fields : List Val) (i : Nat) (tag : List Char) (blk : Bool) (so eo : Nat)
    (items : List OT) : (OT.node i tag blk ty so eo fields items).pos code = posRestrict code ty fields := rfl

/-- non-vacuity: with the code table of C01's counterexample `reserved_order_model_differs` (type 1 takes its position
    from its first parameter) two `R` keywords `R 2`, `R 1` with a comment between them exchange places -/
example : OT.SibPL Counter.rCode
    [.node 0 ['R'] false 1 0 0 [.int 2 false 0 5] [], .cmt "/* c */".toList 1, .node 0 ['R'] false 1 0 0 [.int 1 false 0 5] []]
    [.node 0 ['R'] false 1 0 0 [.int 1 false 0 5] [], .cmt "/* c */".toList 1, .node 0 ['R'] false 1 0 0 [.int 2 false 0 5] []] :=
  .swapFar (.node 0 ['R'] false 1 0 0 [.int 1 false 0 5] []) (.node 0 ['R'] false 1 0 0 [.int 2 false 0 5] [])
    [.cmt "/* c */".toList 1] [] (by decide) (by decide)

/-- a reordering of position-restricted siblings is a reordering of siblings -/
theorem position_reordering_is_sibling_reordering {code : List CodeEntry} {items items' : List OT}
    (h : OT.SibPL code items items') : OT.SibL items items' := h.toSibL

/-- **`apply_position_restrictions` moves position-restricted items only** (any group) -/
theorem position_restrictions_move_restricted_items_only (code : List CodeEntry) (g : List OT) :
    OT.SibPL code g (applyPosG (OT.pos code) g) := applyPosG_sibP code g

/-- reordering position-restricted siblings permutes the values of the written tokens -/
theorem position_reordering_permutes_values (lx : LexEnv) {code : List CodeEntry} {items items' : List OT}
    (h : OT.SibPL code items items') :
    (valuesOf (mkToks lx (OT.toksL 0 (OT.fixL false items))).toArray).Perm
      (valuesOf (mkToks lx (OT.toksL 0 (OT.fixL false items'))).toArray) :=
  values_perm_of_sib lx h.toSibL

/-- **the refinement of C02**: the order in which `stringify` writes differs from the input order only in the places of
    position-restricted items (at every depth): sorting by key (uid, line) restores the input order,
    `apply_position_restrictions` refills the slots of the restricted items -/
theorem writer_order_is_position_reordering {e : Env} {lx : LexEnv} (hin : InOk e lx)
    (htab : tableOk e.table e.known = true) (hshape : shapeOk e.table = true) (htags : TagsOk e) (hns : NoSpecialOk e)
    {rarms : List Arm} (hroot : RootOk e rarms) {fuel : Nat} {v : Val} {s : PState} (h : parseFile fuel e {} = .ok v s) :
    ∃ items items', InOrder e v items ∧ OT.SibPL e.code items items' ∧ Canon e v items' ∧
      (valuesOf (mkToks lx (OT.toksL 0 (OT.fixL false items))).toArray).Perm
        (valuesOf (mkToks lx (OT.toksL 0 (OT.fixL false items'))).toArray) ∧
      Pres (valuesOf e.toks) (valuesOf (mkToks lx (OT.toksL 0 (OT.fixL false items))).toArray) :=
  content_preserved_perm_full hin htab hshape htags hns hroot h

/-- **C02 as stated, token level** (`content_preserved_statement`): the values of the tokens of the stream the writer
    emits (`Canon e v items`: `items` in the writer's order) are a permutation of a list `perm` that is the input value
    sequence with some comments deleted -/
theorem content_preserved_perm : content_preserved_statement := by
  intro e lx rarms fuel v s hin htab hshape htags hns hroot h
  obtain ⟨items, items', -, -, hc, hp, hpres⟩ := content_preserved_perm_full hin htab hshape htags hns hroot h
  exact ⟨items', _, hc, hp, hpres⟩

/-- non-vacuity: the two top-level items of the sample, swapped -/
example : OT.SibL Sample.items [Sample.projO, Sample.verO] := .swap Sample.projO Sample.verO []
example : (valuesOf (mkToks Sample.lx (OT.toksL 0 (OT.fixL false Sample.items))).toArray).Perm
    (valuesOf (mkToks Sample.lx (OT.toksL 0 (OT.fixL false [Sample.projO, Sample.verO]))).toArray) :=
  sibling_permutation_permutes_values Sample.lx (.swap Sample.projO Sample.verO [])


end A2l.Tree
