import A2lVerif.Lemmas.TreeWriter
/-!
# C05 — layout preservation and edit locality (the writer's side)

Property theorems only; model in Model/Tree.lean (`addWhitespace`, `addGroup`, `tagLe`, mirroring `writer.rs`
`add_whitespace`, `add_group`, `sort_function`, `apply_position_restrictions`). Quantification: every group of tagged
items of any size, every indent, every item.
-/
namespace A2l.Tree

/-- the text one tagged item contributes (definition in Lemmas/TreeWriter.lean): leading line breaks, optional
    `/begin`, tag, body, optional `/end` tag behind the white space for the end offset the writer uses (`endOffOf`) -/
theorem chunk_def (indent : Nat) (item : TagInfo) : chunk indent item =
  addWhitespace indent item.startOff ++ (if item.isBlock then "/begin ".toList else []) ++ item.tag ++ item.text ++
    (if item.isBlock then addWhitespace indent (endOffOf item.endOff item.text) ++ "/end ".toList ++ item.tag
     else []) := rfl

/-- the end offset the writer uses (`writer.rs`, `add_group`): the recorded one, except that 0 becomes 1 if the
    item's text ends inside a `//` comment (the comment would swallow the `/end`) -/
theorem endOffOf_def (endOff : Nat) (text : List Char) :
    endOffOf endOff text = if endOff = 0 ∧ endsInLineComment text then 1 else endOff := rfl

/-- `ends_in_line_comment` scans the whole text, starting outside of strings and comments: is the state behind it
    "inside a `//` comment"? (`lcScan` in Model/Tree.lean is the loop of the Rust function, state for state) -/
theorem endsInLineComment_def (text : List Char) :
    endsInLineComment text = (lcScan .outside text == .lineComment) := rfl

/-- the end offset is the recorded one unless it is 0 behind a line comment -/
theorem endOffOf_of_pos (endOff : Nat) (text : List Char) (h : endOff ≠ 0) : endOffOf endOff text = endOff := by
  simp [endOffOf, h]

theorem endOffOf_of_no_line_comment (endOff : Nat) (text : List Char) (h : endsInLineComment text = false) :
    endOffOf endOff text = endOff := by
  simp [endOffOf, h]

/-- **`/end` behind a line comment starts on a new line**: for a block item whose text ends in a `//` comment, the
    white space written between the text and `/end` starts with a line break, whatever the recorded end offset is -/
theorem end_behind_line_comment_newline (indent : Nat) (item : TagInfo) (hb : item.isBlock = true)
    (hc : endsInLineComment item.text = true) :
    ∃ ws rest, chunk indent item =
        addWhitespace indent item.startOff ++ "/begin ".toList ++ item.tag ++ item.text ++ ws ++ "/end ".toList ++ item.tag ∧
      ws = addWhitespace indent (endOffOf item.endOff item.text) ∧ ws = '\n' :: rest ∧ 1 ≤ endOffOf item.endOff item.text := by
  have h1 : 1 ≤ endOffOf item.endOff item.text := by
    unfold endOffOf
    by_cases h0 : item.endOff = 0
    · simp [h0, hc]
    · simp [h0]; omega
  obtain ⟨n, hn⟩ : ∃ n, endOffOf item.endOff item.text = n + 1 := ⟨endOffOf item.endOff item.text - 1, by omega⟩
  refine ⟨_, List.replicate n '\n' ++ (List.replicate indent [' ', ' ']).flatten, ?_, rfl, ?_, h1⟩
  · simp [chunk, hb]
  · simp [addWhitespace, hn, List.replicate_succ]

/-- items that the plain-concatenation reading applies to (definition in Lemmas/TreeWriter.lean): no comments and no
    position restrictions in the group (comments only change the line breaks of their successor, restricted items are
    permuted among their own slots) -/
theorem Plain_def (g : List TagInfo) : Plain g ↔ ∀ x ∈ g, x.isComment = false ∧ x.pos = none := Iff.rfl

/-- **same line numbers**: an item whose recorded offset is n starts exactly n line breaks after the end of the
    previous item's text — `add_whitespace(n)` is n line breaks followed by blanks only (or a single blank for n = 0) -/
theorem addWhitespace_newlines (indent n : Nat) :
    countNewlines (addWhitespace indent n) = n ∧ ∀ c ∈ addWhitespace indent n, c = '\n' ∨ c = ' ' := by
  unfold addWhitespace
  by_cases h : n = 0
  · subst h; simp; decide
  · simp only [h, if_false]
    refine ⟨?_, ?_⟩
    · rw [countNewlines_append, countNewlines_replicate_nl, countNewlines_blanks _ (mem_indentBlanks indent)]; rfl
    · intro c hc
      rcases List.mem_append.mp hc with hc | hc
      · exact Or.inl (List.eq_of_mem_replicate hc)
      · exact Or.inr (mem_indentBlanks indent c hc)

/-- **the output of a group is the concatenation of per-item chunks in sorted order**, and a chunk depends on its
    item only -/
theorem addGroup_chunks (indent : Nat) (g : List TagInfo) (hp : Plain g) :
    addGroup indent g = (g.mergeSort tagLe).flatMap (chunk indent) := addGroup_plain indent g hp

/-- the writer's order is a permutation of the group, sorted by `tagLe`, and stable -/
theorem sorted_perm (g : List TagInfo) :
    (g.mergeSort tagLe).Perm g ∧ (g.mergeSort tagLe).Pairwise (fun a b => tagLe a b = true) :=
  ⟨List.mergeSort_perm g tagLe, List.pairwise_mergeSort tagLe_trans tagLe_total g⟩

/-- **edit locality, change**: replacing one item by an item with the same sort key (uid, line, tag) — i.e. editing
    fields of one element — changes exactly that element's chunk: the text before and after it is unchanged -/
theorem edit_local_change (indent : Nat) (g1 g2 : List TagInfo) (x x' : TagInfo)
    (hp : Plain (g1 ++ x :: g2)) (hp' : Plain (g1 ++ x' :: g2))
    (hkey : x'.uid = x.uid ∧ x'.line = x.line ∧ x'.tag = x.tag) :
    ∃ pre post, addGroup indent (g1 ++ x :: g2) = pre ++ chunk indent x ++ post ∧
                addGroup indent (g1 ++ x' :: g2) = pre ++ chunk indent x' ++ post := by
  obtain ⟨l₁, l₂, e₁, e₂⟩ := mergeSort_oneChanged tagLe_trans tagLe_total x x'
    (tagLe_key_left x x' hkey) (tagLe_key_right x x' hkey) g2 g1
  refine ⟨l₁.flatMap (chunk indent), l₂.flatMap (chunk indent), ?_, ?_⟩
  · rw [addGroup_plain indent _ hp, e₁]; simp
  · rw [addGroup_plain indent _ hp', e₂]; simp

/-- **edit locality, add / remove**: adding (or removing) one item adds (removes) exactly its chunk -/
theorem edit_local_insert (indent : Nat) (g1 g2 : List TagInfo) (x : TagInfo) (hp : Plain (g1 ++ x :: g2)) :
    ∃ pre post, addGroup indent (g1 ++ g2) = pre ++ post ∧
                addGroup indent (g1 ++ x :: g2) = pre ++ chunk indent x ++ post := by
  obtain ⟨l₁, l₂, e₁, e₂⟩ := mergeSort_oneMore tagLe_trans tagLe_total x g2 g1
  refine ⟨l₁.flatMap (chunk indent), l₂.flatMap (chunk indent), ?_, ?_⟩
  · rw [addGroup_plain indent _ hp.remove, e₁]; simp
  · rw [addGroup_plain indent _ hp, e₂]; simp

/-- **a new element (uid 0) is written behind all placed elements**: nothing that was already in the file moves -/
theorem new_item_last (indent : Nat) (g : List TagInfo) (x : TagInfo) (hp : Plain (g ++ [x]))
    (hx : x.uid = 0) (hg : ∀ y ∈ g, y.uid ≠ 0) :
    addGroup indent (g ++ [x]) = addGroup indent g ++ chunk indent x := by
  obtain ⟨l₁, l₂, e₁, e₂⟩ := mergeSort_oneMore tagLe_trans tagLe_total x [] g
  have hpg : Plain g := by simpa using hp.remove
  have s := List.pairwise_mergeSort tagLe_trans tagLe_total (g ++ [x])
  rw [e₂] at s
  have hl₂ : l₂ = [] := by
    cases l₂ with
    | nil => rfl
    | cons y l₂ =>
      have hy : y ∈ g := by
        have : y ∈ (g ++ []).mergeSort tagLe := by rw [e₁]; simp
        simpa using this
      have hxy : tagLe x y = true :=
        List.rel_of_pairwise_cons (List.pairwise_append.mp s).2.1 List.mem_cons_self
      have : tagLe x y = false := by simp [tagLe, hx, hg y hy]
      simp [this] at hxy
  subst hl₂
  rw [addGroup_plain indent _ hp, addGroup_plain indent _ hpg, e₂]
  simp only [List.append_nil] at e₁
  rw [e₁]; simp

/-- what a kept comment contributes: its recorded line breaks and its verbatim text (no indentation is added: the
    blanks in front of a comment are part of the comment token) -/
def chunkC (indent : Nat) (item : TagInfo) : List Char :=
  if item.isComment then (if item.included then [] else List.replicate item.startOff '\n' ++ item.text)
  else chunk indent item

/-- the offsets the writer uses after the `fix:` commit (definition in Lemmas/TreeWriter.lean): going through the
    sorted group with the flag `after_line_comment` (initially false), an element or kept comment whose recorded
    start offset is 0 while the flag is set is written with offset 1; the flag is cleared by every element and
    recomputed by every kept comment (`comment.trim_start().starts_with("//")`); nothing else changes -/
theorem bumpItems_def (alc : Bool) (item : TagInfo) (rest : List TagInfo) :
    bumpItems alc (item :: rest) =
      if item.isComment then
        if item.included then item :: bumpItems alc rest
        else { item with startOff := bumpOff alc item.startOff } :: bumpItems (isLineCommentText item.text) rest
      else { item with startOff := bumpOff alc item.startOff } :: bumpItems false rest := rfl

theorem bumpOff_def (alc : Bool) (n : Nat) : bumpOff alc n = if alc ∧ n = 0 then 1 else n := rfl

/-- **with comments**: the output of any group without position-restricted items is the concatenation of the
    per-item contributions in sorted order, where the item directly behind a written `//` comment is written with
    start offset 1 if its recorded offset is 0 (a line comment extends to the end of its line); comments are written
    verbatim behind their line breaks -/
theorem addGroup_chunks_comments (indent : Nat) (g : List TagInfo) (hp : ∀ x ∈ g, x.pos = none) :
    addGroup indent g = (bumpItems false (g.mergeSort tagLe)).flatMap (chunkC indent) :=
  addGroup_noPos indent g hp

/-- without comments nothing is bumped -/
theorem bumpItems_no_comments (l : List TagInfo) (h : ∀ x ∈ l, x.isComment = false) : bumpItems false l = l :=
  bumpItems_plain l h

/-! ## non-vacuity -/
def sampleItem : TagInfo :=
  { isComment := false, tag := "A".toList, uid := 3, line := 7, startOff := 1, endOff := 1,
    isBlock := true, text := " x".toList, pos := none, included := false }
example : Plain [sampleItem] := by
  intro x hx
  simp only [List.mem_singleton] at hx
  subst hx
  exact ⟨rfl, rfl⟩


/-- a block whose content ends in a line comment, recorded end offset 0: `/end` is written on a new line -/
def sampleCmtItem : TagInfo :=
  { isComment := false, tag := "A".toList, uid := 3, line := 7, startOff := 1, endOff := 0,
    isBlock := true, text := " x // note".toList, pos := none, included := false }
example : chunk 0 sampleCmtItem = "\n/begin A x // note\n/end A".toList := by decide +kernel
example : chunk 0 { sampleCmtItem with text := " x".toList } = "\n/begin A x /end A".toList := by decide +kernel

/-! ## `ends_in_line_comment` on examples -/
example : endsInLineComment "  // note".toList = true := by decide +kernel
example : endsInLineComment "FORMAT \"http://x\"".toList = false := by decide +kernel
example : endsInLineComment "/* a // b */ X".toList = false := by decide +kernel
example : endsInLineComment "X /* c */ // y".toList = true := by decide +kernel
example : endsInLineComment "a\n// c\nb".toList = false := by decide +kernel
example : endsInLineComment "/* a\n \" */ // c".toList = true := by decide +kernel
example : endsInLineComment "/* a\n // b */".toList = false := by decide +kernel
example : endsInLineComment "a // c\nb".toList = false := by decide +kernel
example : endsInLineComment "x \"a // b\"".toList = false := by decide +kernel
example : endsInLineComment "a\n// c".toList = true := by decide +kernel
example : endsInLineComment "/*/ // x".toList = false := by decide +kernel
example : endsInLineComment "\"a\\\" // x".toList = false := by decide +kernel
example : endsInLineComment "/* open".toList = false := by decide +kernel
example : endsInLineComment "x /".toList = false := by decide +kernel

end A2l.Tree
