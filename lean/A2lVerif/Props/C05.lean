import A2lVerif.Lemmas.TreeWriter
/-!
# C05 — layout preservation and edit locality (the writer's side)

Property theorems only; model in Model/Tree.lean (`addWhitespace`, `emitGroup`, `addGroup`, `tagLe`, mirroring `writer.rs`
`add_whitespace`, `add_group`, `sort_function`, `apply_position_restrictions`). Quantification: every group of tagged
items of any size, every indent, every item.
-/
namespace A2l.Tree

/-- the text one tagged item contributes: leading line breaks, optional `/begin`, tag, body, optional `/end` tag -/
def chunk (indent : Nat) (item : TagInfo) : List Char :=
  addWhitespace indent item.startOff ++ (if item.isBlock then "/begin ".toList else []) ++ item.tag ++ item.text ++
    (if item.isBlock then addWhitespace indent item.endOff ++ "/end ".toList ++ item.tag else [])

/-- items that the plain-concatenation reading applies to: no comments and no position restrictions in the group
    (comments only change the line breaks of their successor, restricted items are permuted among their own slots) -/
def Plain (g : List TagInfo) : Prop := ∀ x ∈ g, x.isComment = false ∧ x.pos = none

/-- **same line numbers**: an item whose recorded offset is n starts exactly n line breaks after the end of the
    previous item's text — `add_whitespace(n)` is n line breaks followed by blanks only (or a single blank for n = 0) -/
theorem addWhitespace_newlines (indent n : Nat) :
    countNewlines (addWhitespace indent n) = n ∧ ∀ c ∈ addWhitespace indent n, c = '\n' ∨ c = ' ' := sorry

/-- **the output of a group is the concatenation of per-item chunks in sorted order**, and a chunk depends on its
    item only -/
theorem addGroup_chunks (indent : Nat) (g : List TagInfo) (hp : Plain g) :
    addGroup indent g = (g.mergeSort tagLe).flatMap (chunk indent) := sorry

/-- the writer's order is a permutation of the group, sorted by `tagLe`, and stable -/
theorem sorted_perm (g : List TagInfo) :
    (g.mergeSort tagLe).Perm g ∧ (g.mergeSort tagLe).Pairwise (fun a b => tagLe a b = true) := sorry

/-- **edit locality, change**: replacing one item by an item with the same sort key (uid, line, tag) — i.e. editing
    fields of one element — changes exactly that element's chunk: the text before and after it is unchanged -/
theorem edit_local_change (indent : Nat) (g1 g2 : List TagInfo) (x x' : TagInfo)
    (hp : Plain (g1 ++ x :: g2)) (hp' : Plain (g1 ++ x' :: g2))
    (hkey : x'.uid = x.uid ∧ x'.line = x.line ∧ x'.tag = x.tag) :
    ∃ pre post, addGroup indent (g1 ++ x :: g2) = pre ++ chunk indent x ++ post ∧
                addGroup indent (g1 ++ x' :: g2) = pre ++ chunk indent x' ++ post := sorry

/-- **edit locality, add / remove**: adding (or removing) one item adds (removes) exactly its chunk -/
theorem edit_local_insert (indent : Nat) (g1 g2 : List TagInfo) (x : TagInfo) (hp : Plain (g1 ++ x :: g2)) :
    ∃ pre post, addGroup indent (g1 ++ g2) = pre ++ post ∧
                addGroup indent (g1 ++ x :: g2) = pre ++ chunk indent x ++ post := sorry

/-- **a new element (uid 0) is written behind all placed elements**: nothing that was already in the file moves -/
theorem new_item_last (indent : Nat) (g : List TagInfo) (x : TagInfo) (hp : Plain (g ++ [x]))
    (hx : x.uid = 0) (hg : ∀ y ∈ g, y.uid ≠ 0) :
    addGroup indent (g ++ [x]) = addGroup indent g ++ chunk indent x := sorry

/-- **comments**: a kept comment is written with its recorded line breaks and verbatim text; after the `fix:` commit
    the item that follows a comment containing k line breaks gets k fewer line breaks, so that it lands on its
    recorded line -/
theorem comment_then_item (indent : Nat) (c x : TagInfo) (rest : List TagInfo)
    (hc : c.isComment = true ∧ c.included = false) (hx : x.isComment = false) :
    emitGroup indent (c :: x :: rest) 0 =
      List.replicate c.startOff '\n' ++ c.text ++
      chunk indent { x with startOff := x.startOff - countNewlines c.text } ++ emitGroup indent rest 0 := sorry

/-! ## non-vacuity -/
def sampleItem : TagInfo :=
  { isComment := false, tag := "A".toList, uid := 3, line := 7, startOff := 1, endOff := 1,
    isBlock := true, text := " x".toList, pos := none, included := false }
example : Plain [sampleItem] := sorry

end A2l.Tree
