import A2lVerif.Lemmas.TreeSim
/-!
# C06 — strict and non-strict loading agree except on recoverable problems

Property theorems only; model in Model/Tree.lean. The parser reads `strict` in exactly one primitive, `errorOrLog`
(error if strict, log otherwise); `logWarning` (deprecation notices) never fails. Quantification: every table, every
token array, every type, context, state and fuel.
-/
namespace A2l.Tree
open A2l.G

def nonStrict (e : Env) : Env := { e with strict := false }
def strictOf (e : Env) : Env := { e with strict := true }

/-- deprecation notices: the only diagnostics that `log_warning` (as opposed to `error_or_log`) produces -/
def IsNotice (d : Diag) : Prop := d.kind = .blockRefDeprecated ∨ d.kind = .enumRefDeprecated

/-- item types whose parsers never call `error_or_log`: numbers only (arrays and structs of them) -/
def quietItem (tbl : Table) : Nat → ItemTy → Bool
  | _, .int _ => true
  | _, .double => true
  | _, .float => true
  | fuel + 1, .arr of _ => quietItem tbl fuel of
  | fuel + 1, .structRef ty => match tbl.lookup ty with
    | some (.block false items [] false) => items.all (quietItem tbl fuel)
    | _ => false
  | _, _ => false

/-- tables in which no sequence element can call `error_or_log`: then no strict-mode error is ever swallowed by the
    greedy sequence loop (`sequence_item.is_err()`), the one place where the two modes can take different paths -/
def seqSafe (tbl : Table) : Bool :=
  tbl.all fun en => match en.def_ with
    | .block _ items _ _ => items.all fun it => match it with
      | .seq of _ => quietItem tbl tbl.length of
      | _ => true
    | _ => true

/-- the hand-written parsers of the special types, as far as C06 is concerned -/
def SpecialSim (e : Env) : Prop :=
  ∀ ty ctx off s,
    (∀ v s', e.special ty ctx off e.toks false s = .ok v s' →
        (∃ l, s'.log = l ++ s.log ∧ ∀ d ∈ l, IsNotice d) → e.special ty ctx off e.toks true s = .ok v s') ∧
    (∀ v s', e.special ty ctx off e.toks true s = .ok v s' → e.special ty ctx off e.toks false s = .ok v s') ∧
    (∀ d s', e.special ty ctx off e.toks true s = .err d s' →
        e.special ty ctx off e.toks false s = .err d s' ∨
        ∃ v s'', e.special ty ctx off e.toks false s = .ok v s'' ∧ ∃ l, s''.log = l ++ s.log ∧ ∃ d' ∈ l, ¬ IsNotice d')

/-- **`error_or_log` is the only place that reads `strict`, and every diagnostic carries the line of the last consumed
    token** -/
theorem errorOrLog_spec (e : Env) (s : PState) (k : DK) :
    errorOrLog k e s = (if e.strict then .err ⟨k, s.lastLine⟩ s else .ok () { s with log := ⟨k, s.lastLine⟩ :: s.log }) ∧
    logWarning k e s = .ok () { s with log := ⟨k, s.lastLine⟩ :: s.log } := sorry

theorem getToken_sets_line (e : Env) (s : PState) (ctx : Ctx) (t : PTok) (h : e.toks[s.pos]? = some t) :
    getToken ctx e s = .ok t { s with pos := s.pos + 1, lastLine := t.line } := sorry

/-- **non-strict loading without problems ⇒ strict loading succeeds with an equal model and the same notices**:
    if the non-strict run succeeds and everything it logged is a deprecation notice, the strict run is identical -/
theorem clean_nonstrict_implies_strict (e : Env) (hsp : SpecialSim e) (fuel : Nat) (ty : Nat) (ctx : Ctx) (off : Nat)
    (s : PState) (v : Val) (s' : PState)
    (h : parseType fuel ty ctx off (nonStrict e) s = .ok v s')
    (hclean : ∃ l, s'.log = l ++ s.log ∧ ∀ d ∈ l, IsNotice d) :
    parseType fuel ty ctx off (strictOf e) s = .ok v s' := sorry

theorem clean_nonstrict_implies_strict_file (e : Env) (hsp : SpecialSim e) (v : Val) (s' : PState)
    (h : runParseFile (nonStrict e) = .ok v s') (hclean : ∀ d ∈ s'.log, IsNotice d) :
    runParseFile (strictOf e) = .ok v s' := sorry

/-- **strict loading succeeds ⇒ non-strict loading succeeds with an equal model** — for tables in which no sequence
    element can raise a recoverable problem (`seqSafe`). The shipped table is NOT of this kind (identifier and string
    lists): there the statement is covered by the correspondence check and the oracle only; see DESIGN.md. -/
theorem strict_implies_nonstrict_partial (e : Env) (hsafe : seqSafe e.table = true) (hsp : SpecialSim e)
    (fuel : Nat) (ty : Nat) (ctx : Ctx) (off : Nat) (s : PState) (v : Val) (s' : PState)
    (h : parseType fuel ty ctx off (strictOf e) s = .ok v s') :
    parseType fuel ty ctx off (nonStrict e) s = .ok v s' := sorry

/-- **strict loading fails exactly when non-strict loading reports a problem other than a deprecation notice** (or
    fails itself), again for `seqSafe` tables; both yield equal models when both succeed -/
theorem strict_ok_iff_partial (e : Env) (hsafe : seqSafe e.table = true) (hsp : SpecialSim e)
    (hspn : ∀ ty ctx off s v s', e.special ty ctx off e.toks true s = .ok v s' →
      ∃ l, s'.log = l ++ s.log ∧ ∀ d ∈ l, IsNotice d)
    (hspe : ∀ ty ctx off s d s', e.special ty ctx off e.toks true s = .err d s' →
      ∃ l, s'.log = l ++ s.log ∧ ∀ d ∈ l, IsNotice d)
    (fuel : Nat) (ty : Nat) (ctx : Ctx) (off : Nat) (s : PState) (v : Val) (s' : PState) :
    parseType fuel ty ctx off (strictOf e) s = .ok v s' ↔
      (parseType fuel ty ctx off (nonStrict e) s = .ok v s' ∧ ∃ l, s'.log = l ++ s.log ∧ ∀ d ∈ l, IsNotice d) := sorry

/-! ## non-vacuity: a table with a sequence of numbers is seqSafe; one with a sequence of identifiers is not -/
example : seqSafe [⟨0, .block true [.seq (.int 2) []] [] false⟩] = true := sorry
example : seqSafe [⟨0, .block true [.seq .ident []] [] false⟩] = false := sorry

end A2l.Tree
