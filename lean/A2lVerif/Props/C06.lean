import A2lVerif.Lemmas.TreeSim
import A2lVerif.Props.C03Parse
/-!
# C06 — strict and non-strict loading agree except on recoverable problems

Property theorems only; model in Model/Tree.lean, proofs in Lemmas/TreeSim.lean. The parser reads `strict` in exactly
one primitive, `errorOrLog` (error if strict, log otherwise); `logWarning` (deprecation notices) never fails.
Quantification: every table, every token array, every type, context, state and fuel.

Four of the six statements were FALSE as first written; each is kept below as a refuted statement
(`*_as_written_false`, with a concrete counterexample) next to the corrected theorem:

* `clean_nonstrict_implies_strict`, `clean_nonstrict_implies_strict_file`, `strict_ok_iff_partial` (direction `←`):
  `SpecialSim` did not say enough about the hand-written `special` parsers in NON-strict mode.
  (a) Nothing forced them to only ADD to the log: a `special` parser that removes log entries hides a problem that
  `error_or_log` recorded before it ran; the non-strict run then ends with a clean log while the strict run failed at
  that `error_or_log` (`cexSpDrop`). (b) Nothing was said about a non-strict FAILURE of a `special` parser: inside a
  sequence element the failure is swallowed (`sequence_item.is_err()`), the non-strict run succeeds with a clean log,
  and the strict run of the `special` parser may do anything else, e.g. panic (`cexSpErr`).
  Added hypothesis: `SpecialSimMore e` (three clauses: non-strict `ok` and `err` results extend the log; a non-strict
  `err` that logged notices only is also the strict result). Both parts are needed
  (`clean_nonstrict_needs_log_mono`, `clean_nonstrict_needs_err_clause`).
* `strict_implies_nonstrict_partial`, `strict_ok_iff_partial` (direction `→`): `seqSafe` only inspects the sequences
  that are parameters of a block directly; a sequence below an array (`.arr (.seq .ident []) 1`) is not checked, and
  there a strict-mode error is swallowed by the sequence loop while the non-strict run logs and goes on
  (`cexTblArrSeq`). Changed hypothesis: `seqSafeDeep e.table = true` (which implies `seqSafe`:
  `seqSafeDeep_implies_seqSafe`) in place of `seqSafe e.table = true`.
-/
namespace A2l.Tree
open A2l.G

/-! ## the definitions

`nonStrict`, `strictOf`, `IsNotice`, `quietItem`, `seqSafe`, `SpecialSim` (as first written) and the two additions
`SpecialSimMore`, `seqSafeItem` / `seqSafeDeep` live in Lemmas/TreeSim.lean because the helper lemmas need them. They
are restated here; every line below is checked by `rfl` / `Iff.rfl`, i.e. it is the definition. -/

theorem nonStrict_def (e : Env) : nonStrict e = { e with strict := false } := rfl
theorem strictOf_def (e : Env) : strictOf e = { e with strict := true } := rfl

/-- deprecation notices: the only diagnostics that `log_warning` (as opposed to `error_or_log`) produces -/
theorem IsNotice_def (d : Diag) : IsNotice d ↔ (d.kind = .blockRefDeprecated ∨ d.kind = .enumRefDeprecated) := Iff.rfl

/-- item types whose parsers never call `error_or_log`: numbers only (arrays and structs of them) -/
theorem quietItem_def (tbl : Table) (n : Nat) (it : ItemTy) : quietItem tbl n it =
    (match n, it with
     | _, .int _ => true
     | _, .double => true
     | _, .float => true
     | fuel + 1, .arr of _ => quietItem tbl fuel of
     | fuel + 1, .structRef ty => match tbl.lookup ty with
       | some (.block false items [] false) => items.all (quietItem tbl fuel)
       | _ => false
     | _, _ => false) := by
  cases n <;> cases it <;> rfl

/-- tables in which no sequence parameter of a block can call `error_or_log` (as first written: sequences below
    arrays are not inspected) -/
theorem seqSafe_def (tbl : Table) : seqSafe tbl =
    tbl.all (fun en => match en.def_ with
      | .block _ items _ _ => items.all fun it => match it with
        | .seq of _ => quietItem tbl tbl.length of
        | _ => true
      | _ => true) := rfl

/-- every sequence inside the item, also below arrays, has a quiet element type -/
example (tbl : Table) (of : ItemTy) (stop : List Nat) :
    seqSafeItem tbl (.seq of stop) = quietItem tbl tbl.length of := rfl
example (tbl : Table) (of : ItemTy) (n : Nat) : seqSafeItem tbl (.arr of n) = seqSafeItem tbl of := rfl
example (tbl : Table) : seqSafeItem tbl .ident = true ∧ seqSafeItem tbl .string = true ∧
    seqSafeItem tbl .double = true ∧ seqSafeItem tbl .float = true ∧ (∀ w, seqSafeItem tbl (.int w) = true) ∧
    (∀ n, seqSafeItem tbl (.strMax n) = true) ∧ (∀ ty, seqSafeItem tbl (.enumRef ty) = true) ∧
    (∀ ty, seqSafeItem tbl (.structRef ty) = true) :=
  ⟨rfl, rfl, rfl, rfl, fun _ => rfl, fun _ => rfl, fun _ => rfl, fun _ => rfl⟩

/-- tables in which no sequence element can call `error_or_log`: then no strict-mode error is ever swallowed by the
    greedy sequence loop (`sequence_item.is_err()`), the one place where the two modes can take different paths -/
theorem seqSafeDeep_def (tbl : Table) : seqSafeDeep tbl =
    tbl.all (fun en => match en.def_ with
      | .block _ items _ _ => items.all (seqSafeItem tbl)
      | _ => true) := rfl

theorem seqSafeDeep_implies_seqSafe (tbl : Table) (h : seqSafeDeep tbl = true) : seqSafe tbl = true :=
  seqSafeDeep_seqSafe h

/-- the hand-written parsers of the special types, as far as C06 is concerned (as first written) -/
theorem SpecialSim_def (e : Env) : SpecialSim e ↔
    ∀ ty ctx off s,
      (∀ v s', e.special ty ctx off e.toks false s = .ok v s' →
          (∃ l, s'.log = l ++ s.log ∧ ∀ d ∈ l, IsNotice d) → e.special ty ctx off e.toks true s = .ok v s') ∧
      (∀ v s', e.special ty ctx off e.toks true s = .ok v s' → e.special ty ctx off e.toks false s = .ok v s') ∧
      (∀ d s', e.special ty ctx off e.toks true s = .err d s' →
          e.special ty ctx off e.toks false s = .err d s' ∨
          ∃ v s'', e.special ty ctx off e.toks false s = .ok v s'' ∧
            ∃ l, s''.log = l ++ s.log ∧ ∃ d' ∈ l, ¬ IsNotice d') := Iff.rfl

/-- ADDED: what `SpecialSim` does not say about the non-strict runs of the special parsers: a failure that logged
    notices only is also the strict result, and the log is only ever extended (by `ok` and by `err` results: the log
    of a failed sequence element stays) -/
theorem SpecialSimMore_def (e : Env) : SpecialSimMore e ↔
    ∀ ty ctx off s,
      (∀ d s', e.special ty ctx off e.toks false s = .err d s' →
          (∃ l, s'.log = l ++ s.log ∧ ∀ d ∈ l, IsNotice d) → e.special ty ctx off e.toks true s = .err d s') ∧
      (∀ v s', e.special ty ctx off e.toks false s = .ok v s' → ∃ l, s'.log = l ++ s.log) ∧
      (∀ d s', e.special ty ctx off e.toks false s = .err d s' → ∃ l, s'.log = l ++ s.log) := Iff.rfl

/-! ## the theorems -/

/-- **`error_or_log` is the only place that reads `strict`, and every diagnostic carries the line of the last consumed
    token** -/
theorem errorOrLog_spec (e : Env) (s : PState) (k : DK) :
    errorOrLog k e s = (if e.strict then .err ⟨k, s.lastLine⟩ s else .ok () { s with log := ⟨k, s.lastLine⟩ :: s.log }) ∧
    logWarning k e s = .ok () { s with log := ⟨k, s.lastLine⟩ :: s.log } := by
  refine ⟨?_, rfl⟩
  unfold errorOrLog
  simp only [getEnv_bind]
  cases e.strict <;> rfl

theorem getToken_sets_line (e : Env) (s : PState) (ctx : Ctx) (t : PTok) (h : e.toks[s.pos]? = some t) :
    getToken ctx e s = .ok t { s with pos := s.pos + 1, lastLine := t.line } := by
  rw [getToken_eval, h]

/-- **non-strict loading without problems ⇒ strict loading succeeds with an equal model and the same notices**:
    if the non-strict run succeeds and everything it logged is a deprecation notice, the strict run is identical.
    CORRECTED with respect to the first version: `hsp'` (`SpecialSimMore`: the special parsers only extend the log in
    non-strict mode, and their clean non-strict failures are strict failures) was missing; see the refutations below. -/
theorem clean_nonstrict_implies_strict (e : Env) (hsp : SpecialSim e) (hsp' : SpecialSimMore e)
    (fuel : Nat) (ty : Nat) (ctx : Ctx) (off : Nat)
    (s : PState) (v : Val) (s' : PState)
    (h : parseType fuel ty ctx off (nonStrict e) s = .ok v s')
    (hclean : ∃ l, s'.log = l ++ s.log ∧ ∀ d ∈ l, IsNotice d) :
    parseType fuel ty ctx off (strictOf e) s = .ok v s' := by
  have := (allSim hsp hsp' fuel).type ty ctx off s
  rw [h] at this
  exact this.2 hclean

/-- CORRECTED: `hsp'` added, as for `clean_nonstrict_implies_strict`. -/
theorem clean_nonstrict_implies_strict_file (e : Env) (hsp : SpecialSim e) (hsp' : SpecialSimMore e)
    (v : Val) (s' : PState)
    (h : runParseFile (nonStrict e) = .ok v s') (hclean : ∀ d ∈ s'.log, IsNotice d) :
    runParseFile (strictOf e) = .ok v s' := by
  have := parseFile_sim hsp hsp' (4 * e.toks.size + 64) {}
  have h' : parseFile (4 * e.toks.size + 64) (nonStrict e) {} = .ok v s' := h
  rw [h'] at this
  exact this.2 ⟨s'.log, (List.append_nil _).symm, hclean⟩

/-- **strict loading succeeds ⇒ non-strict loading succeeds with an equal model** — for tables in which no sequence
    element can raise a recoverable problem (`seqSafeDeep`). The shipped table is NOT of this kind (identifier and
    string lists): there the statement is covered by the correspondence check and the oracle only; see DESIGN.md.
    CORRECTED: the hypothesis was `seqSafe e.table = true`, which does not look at sequences below arrays. -/
theorem strict_implies_nonstrict_partial (e : Env) (hsafe : seqSafeDeep e.table = true) (hsp : SpecialSim e)
    (fuel : Nat) (ty : Nat) (ctx : Ctx) (off : Nat) (s : PState) (v : Val) (s' : PState)
    (h : parseType fuel ty ctx off (strictOf e) s = .ok v s') :
    parseType fuel ty ctx off (nonStrict e) s = .ok v s' :=
  (allFwd hsafe hsp fuel).type ty ctx off s v s' h

/-- **strict loading fails exactly when non-strict loading reports a problem other than a deprecation notice** (or
    fails itself), again for `seqSafeDeep` tables; both yield equal models when both succeed.
    CORRECTED: `seqSafeDeep` in place of `seqSafe` (needed for `→`), `hsp'` added (needed for `←`). -/
theorem strict_ok_iff_partial (e : Env) (hsafe : seqSafeDeep e.table = true) (hsp : SpecialSim e)
    (hsp' : SpecialSimMore e)
    (hspn : ∀ ty ctx off s v s', e.special ty ctx off e.toks true s = .ok v s' →
      ∃ l, s'.log = l ++ s.log ∧ ∀ d ∈ l, IsNotice d)
    (hspe : ∀ ty ctx off s d s', e.special ty ctx off e.toks true s = .err d s' →
      ∃ l, s'.log = l ++ s.log ∧ ∀ d ∈ l, IsNotice d)
    (fuel : Nat) (ty : Nat) (ctx : Ctx) (off : Nat) (s : PState) (v : Val) (s' : PState) :
    parseType fuel ty ctx off (strictOf e) s = .ok v s' ↔
      (parseType fuel ty ctx off (nonStrict e) s = .ok v s' ∧ ∃ l, s'.log = l ++ s.log ∧ ∀ d ∈ l, IsNotice d) := by
  constructor
  · intro h
    exact ⟨strict_implies_nonstrict_partial e hsafe hsp fuel ty ctx off s v s' h,
      strict_log_only_warnings (strictOf e) rfl hspn hspe fuel ty ctx off s v s' h⟩
  · intro h
    exact clean_nonstrict_implies_strict e hsp hsp' fuel ty ctx off s v s' h.1 h.2

/-! ## non-vacuity: a table with a sequence of numbers is seqSafe; one with a sequence of identifiers is not -/
example : seqSafe [⟨0, .block true [.seq (.int 2) []] [] false⟩] = true := by decide
example : seqSafe [⟨0, .block true [.seq .ident []] [] false⟩] = false := by decide
example : seqSafeDeep [⟨0, .block true [.seq (.int 2) []] [] false⟩] = true := by decide
example : seqSafeDeep [⟨0, .block true [.seq .ident []] [] false⟩] = false := by decide
example : seqSafeDeep [⟨0, .block true [.arr (.seq (.int 2) []) 3] [] false⟩] = true := by decide

/-! ## the statements as first written, refuted -/

/-- one identifier token -/
def cexTokX : PTok := { ty := 0, text := ['x'], line := 1, sym := 3 }

/-- a `special` parser that clears a non-empty log in non-strict mode (and panics in strict mode); with an empty log
    it succeeds and changes nothing -/
def cexSpDrop : Nat → Ctx → Nat → Array PTok → Bool → PState → PRes Val :=
  fun _ _ _ _ strict s => match s.log with
    | [] => .ok (.arr []) s
    | _ :: _ => if strict then .panic else .ok (.arr []) { s with log := [] }

/-- type 0: a keyword (`A2L_FILE`-like) with one optional arm (tag 3) of the special type 2 that exists from a
    version on that no file has (7): using it is the recoverable problem `BlockRefTooNew` -/
def cexTblDrop : Table := [⟨0, .block false [] [⟨3, 2, false, false, false, 7, 0⟩] true⟩, ⟨2, .special⟩]
def cexEnvDrop : Env :=
  { toks := #[cexTokX], strict := false, table := cexTblDrop, known := ⟨0, 1, 99⟩, special := cexSpDrop }

theorem cexSpDrop_sim (e : Env) (h : e.special = cexSpDrop) : SpecialSim e := by
  intro ty ctx off s
  rw [h]
  unfold cexSpDrop
  cases hl : s.log with
  | nil =>
    exact ⟨fun v s' h _ => h, fun v s' h => h, fun d s' h => (by cases h)⟩
  | cons d l =>
    refine ⟨fun v s' h hc => ?_, fun v s' h => (by cases h), fun d s' h => (by cases h)⟩
    obtain ⟨l', hl', -⟩ := hc
    cases h
    cases l' <;> cases hl'

/-- `cexSpDrop` never fails: the first clause of `SpecialSimMore` holds for it -/
theorem cexSpDrop_errClause (e : Env) (h : e.special = cexSpDrop) : ∀ ty ctx off s,
    ∀ d s', e.special ty ctx off e.toks false s = .err d s' →
      (∃ l, s'.log = l ++ s.log ∧ ∀ d ∈ l, IsNotice d) → e.special ty ctx off e.toks true s = .err d s' := by
  intro ty ctx off s d s' hr
  rw [h] at hr
  unfold cexSpDrop at hr
  cases hl : s.log with
  | nil => rw [hl] at hr; cases hr
  | cons d l => rw [hl] at hr; cases hr

/-- in strict mode `cexSpDrop` leaves the log alone (the hypotheses `hspn`, `hspe` of `strict_ok_iff_partial`) -/
theorem cexSpDrop_strict (toks : Array PTok) (ty : Nat) (ctx : Ctx) (off : Nat) (s : PState) :
    (∀ v s', cexSpDrop ty ctx off toks true s = .ok v s' → ∃ l, s'.log = l ++ s.log ∧ ∀ d ∈ l, IsNotice d) ∧
    (∀ d s', cexSpDrop ty ctx off toks true s = .err d s' → ∃ l, s'.log = l ++ s.log ∧ ∀ d ∈ l, IsNotice d) := by
  unfold cexSpDrop
  cases hl : s.log with
  | nil =>
    refine ⟨fun v s' hr => ?_, fun d s' hr => (by cases hr)⟩
    cases hr
    exact ⟨[], hl, fun _ hd => nomatch hd⟩
  | cons d l => exact ⟨fun v s' hr => (by cases hr), fun d s' hr => (by cases hr)⟩

/-- `clean_nonstrict_implies_strict` without `hsp'` is false: `BlockRefTooNew` is logged, the special parser of
    the sub-block wipes the log, the non-strict run ends with an empty log; the strict run fails at `BlockRefTooNew` -/
theorem clean_nonstrict_implies_strict_as_written_false :
    ¬ ∀ (e : Env) (_ : SpecialSim e) (fuel ty : Nat) (ctx : Ctx) (off : Nat) (s : PState) (v : Val) (s' : PState)
      (_ : parseType fuel ty ctx off (nonStrict e) s = .ok v s')
      (_ : ∃ l, s'.log = l ++ s.log ∧ ∀ d ∈ l, IsNotice d),
      parseType fuel ty ctx off (strictOf e) s = .ok v s' := by
  intro h
  have hs : parseType 10 0 ⟨[], 0, 1⟩ 0 (strictOf cexEnvDrop) {} =
      .err ⟨.blockRefTooNew, 1⟩ { pos := 1, lastLine := 1, seqId := 1 } := rfl
  have := h cexEnvDrop (cexSpDrop_sim _ rfl) 10 0 ⟨[], 0, 1⟩ 0 {} _ _ rfl ⟨[], rfl, fun _ hd => nomatch hd⟩
  have := hs.symm.trans this
  cases this

/-- ... and it stays false when only the first clause of `SpecialSimMore` (about failures) is added: the clauses
    about the log are needed -/
theorem clean_nonstrict_needs_log_mono :
    ¬ ∀ (e : Env) (_ : SpecialSim e)
      (_ : ∀ ty ctx off s d s', e.special ty ctx off e.toks false s = .err d s' →
        (∃ l, s'.log = l ++ s.log ∧ ∀ d ∈ l, IsNotice d) → e.special ty ctx off e.toks true s = .err d s')
      (fuel ty : Nat) (ctx : Ctx) (off : Nat) (s : PState) (v : Val) (s' : PState)
      (_ : parseType fuel ty ctx off (nonStrict e) s = .ok v s')
      (_ : ∃ l, s'.log = l ++ s.log ∧ ∀ d ∈ l, IsNotice d),
      parseType fuel ty ctx off (strictOf e) s = .ok v s' := by
  intro h
  have hs : parseType 10 0 ⟨[], 0, 1⟩ 0 (strictOf cexEnvDrop) {} =
      .err ⟨.blockRefTooNew, 1⟩ { pos := 1, lastLine := 1, seqId := 1 } := rfl
  have := h cexEnvDrop (cexSpDrop_sim _ rfl) (cexSpDrop_errClause _ rfl) 10 0 ⟨[], 0, 1⟩ 0 {} _ _ rfl
    ⟨[], rfl, fun _ hd => nomatch hd⟩
  have := hs.symm.trans this
  cases this

/-- a `special` parser that fails (silently) in non-strict mode and panics in strict mode -/
def cexSpErr : Nat → Ctx → Nat → Array PTok → Bool → PState → PRes Val :=
  fun _ _ _ _ strict s => if strict then .panic else .err ⟨.a2mlError, 0⟩ s

/-- type 0: a keyword whose parameter is a sequence of struct 1; struct 1 has a tagged part with one arm (tag 3)
    of the special type 2 -/
def cexTblErr : Table :=
  [⟨0, .block false [.seq (.structRef 1) []] [] false⟩,
   ⟨1, .block false [] [⟨3, 2, false, false, false, 0, 0⟩] true⟩,
   ⟨2, .special⟩]
def cexEnvErr : Env := { toks := #[cexTokX], strict := false, table := cexTblErr, special := cexSpErr }

theorem cexSpErr_sim (e : Env) (h : e.special = cexSpErr) : SpecialSim e := by
  intro ty ctx off s
  rw [h]
  exact ⟨fun v s' h => (by cases h), fun v s' h => (by cases h), fun d s' h => (by cases h)⟩

/-- `cexSpErr` does not touch the log: the last two clauses of `SpecialSimMore` hold for it -/
theorem cexSpErr_logMono (e : Env) (h : e.special = cexSpErr) : ∀ ty ctx off s,
    (∀ v s', e.special ty ctx off e.toks false s = .ok v s' → ∃ l, s'.log = l ++ s.log) ∧
    (∀ d s', e.special ty ctx off e.toks false s = .err d s' → ∃ l, s'.log = l ++ s.log) := by
  intro ty ctx off s
  rw [h]
  refine ⟨fun v s' h => (by cases h), fun d s' h => ?_⟩
  cases h
  exact ⟨[], rfl⟩

/-- `clean_nonstrict_implies_strict` with the clauses about the log only is still false: the sequence swallows the
    non-strict failure of the special parser (clean log, empty sequence); the strict run panics -/
theorem clean_nonstrict_needs_err_clause :
    ¬ ∀ (e : Env) (_ : SpecialSim e)
      (_ : ∀ ty ctx off s,
        (∀ v s', e.special ty ctx off e.toks false s = .ok v s' → ∃ l, s'.log = l ++ s.log) ∧
        (∀ d s', e.special ty ctx off e.toks false s = .err d s' → ∃ l, s'.log = l ++ s.log))
      (fuel ty : Nat) (ctx : Ctx) (off : Nat) (s : PState) (v : Val) (s' : PState)
      (_ : parseType fuel ty ctx off (nonStrict e) s = .ok v s')
      (_ : ∃ l, s'.log = l ++ s.log ∧ ∀ d ∈ l, IsNotice d),
      parseType fuel ty ctx off (strictOf e) s = .ok v s' := by
  intro h
  have hs : parseType 10 0 ⟨[], 0, 1⟩ 0 (strictOf cexEnvErr) {} = .panic := rfl
  have := h cexEnvErr (cexSpErr_sim _ rfl) (cexSpErr_logMono _ rfl) 10 0 ⟨[], 0, 1⟩ 0 {} _ _ rfl
    ⟨[], rfl, fun _ hd => nomatch hd⟩
  have := hs.symm.trans this
  cases this

/-- `clean_nonstrict_implies_strict_file` without `hsp'` is false: the same run as a file (no `ASAP2_VERSION`:
    `MissingVersionInfo` is logged as well and wiped as well) -/
theorem clean_nonstrict_implies_strict_file_as_written_false :
    ¬ ∀ (e : Env) (_ : SpecialSim e) (v : Val) (s' : PState)
      (_ : runParseFile (nonStrict e) = .ok v s') (_ : ∀ d ∈ s'.log, IsNotice d),
      runParseFile (strictOf e) = .ok v s' := by
  intro h
  have hs : runParseFile (strictOf cexEnvDrop) = .err ⟨.missingVersionInfo, 0⟩ { pos := 0, lastLine := 1 } := rfl
  have := h cexEnvDrop (cexSpDrop_sim _ rfl) _ _ rfl (fun _ hd => nomatch hd)
  have := hs.symm.trans this
  cases this

/-- an identifier token that is not a valid identifier (`InvalidIdentifier`, recoverable) -/
def cexTok1a : PTok := { ty := 0, text := ['1', 'a'], line := 1, sym := 3 }
/-- a keyword whose parameter is an array (of length 1) of sequences of identifiers -/
def cexTblArrSeq : Table := [⟨0, .block false [.arr (.seq .ident []) 1] [] false⟩]
def cexEnvArrSeq : Env := { toks := #[cexTok1a], strict := false, table := cexTblArrSeq }

/-- the default `special` parser of the model (always panics) -/
theorem panicSpecial_sim (e : Env) (h : e.special = fun _ _ _ _ _ _ => .panic) : SpecialSim e := by
  intro ty ctx off s
  rw [h]
  exact ⟨fun v s' h => (by cases h), fun v s' h => (by cases h), fun d s' h => (by cases h)⟩

/-- `strict_implies_nonstrict_partial` with `seqSafe` is false: the table passes `seqSafe` (the sequence is below an
    array), the strict run swallows `InvalidIdentifier` in the sequence loop and returns an empty sequence at
    position 0, the non-strict run logs it and returns the identifier at position 1 -/
theorem strict_implies_nonstrict_partial_as_written_false :
    ¬ ∀ (e : Env) (_ : seqSafe e.table = true) (_ : SpecialSim e)
      (fuel ty : Nat) (ctx : Ctx) (off : Nat) (s : PState) (v : Val) (s' : PState)
      (_ : parseType fuel ty ctx off (strictOf e) s = .ok v s'),
      parseType fuel ty ctx off (nonStrict e) s = .ok v s' := by
  intro h
  have hs : ∃ v s', parseType 10 0 ⟨[], 0, 1⟩ 0 (nonStrict cexEnvArrSeq) {} = .ok v s' ∧ s'.pos = 1 :=
    ⟨_, _, rfl, rfl⟩
  obtain ⟨v, s', hv, hpos⟩ := hs
  have := h cexEnvArrSeq rfl (panicSpecial_sim _ rfl) 10 0 ⟨[], 0, 1⟩ 0 {} _ _ rfl
  have := hv.symm.trans this
  cases this
  cases hpos

/-- `strict_ok_iff_partial` as first written is false (direction `←`, by `cexEnvDrop`, whose table has no sequence) -/
theorem strict_ok_iff_partial_as_written_false :
    ¬ ∀ (e : Env) (_ : seqSafe e.table = true) (_ : SpecialSim e)
      (_ : ∀ ty ctx off s v s', e.special ty ctx off e.toks true s = .ok v s' →
        ∃ l, s'.log = l ++ s.log ∧ ∀ d ∈ l, IsNotice d)
      (_ : ∀ ty ctx off s d s', e.special ty ctx off e.toks true s = .err d s' →
        ∃ l, s'.log = l ++ s.log ∧ ∀ d ∈ l, IsNotice d)
      (fuel ty : Nat) (ctx : Ctx) (off : Nat) (s : PState) (v : Val) (s' : PState),
      parseType fuel ty ctx off (strictOf e) s = .ok v s' ↔
        (parseType fuel ty ctx off (nonStrict e) s = .ok v s' ∧ ∃ l, s'.log = l ++ s.log ∧ ∀ d ∈ l, IsNotice d) := by
  intro h
  have hs : parseType 10 0 ⟨[], 0, 1⟩ 0 (strictOf cexEnvDrop) {} =
      .err ⟨.blockRefTooNew, 1⟩ { pos := 1, lastLine := 1, seqId := 1 } := rfl
  have hn : ∀ ty ctx off s v s', cexEnvDrop.special ty ctx off cexEnvDrop.toks true s = .ok v s' →
      ∃ l, s'.log = l ++ s.log ∧ ∀ d ∈ l, IsNotice d :=
    fun ty ctx off s v s' hr => (cexSpDrop_strict cexEnvDrop.toks ty ctx off s).1 v s' hr
  have he : ∀ ty ctx off s d s', cexEnvDrop.special ty ctx off cexEnvDrop.toks true s = .err d s' →
      ∃ l, s'.log = l ++ s.log ∧ ∀ d ∈ l, IsNotice d :=
    fun ty ctx off s d s' hr => (cexSpDrop_strict cexEnvDrop.toks ty ctx off s).2 d s' hr
  have := (h cexEnvDrop rfl (cexSpDrop_sim _ rfl) hn he 10 0 ⟨[], 0, 1⟩ 0 {} _ _).2
    ⟨rfl, [], rfl, fun _ hd => nomatch hd⟩
  have := hs.symm.trans this
  cases this

end A2l.Tree
