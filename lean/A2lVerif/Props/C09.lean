import A2lVerif.Lemmas.Merge
/-! C09 — merge: the references of the nodes taken from B follow the renames; no reference dangles
    (model `A2l.Mg.merge`; `rep`, `repRef`, `renAll`, `Resolved` are defined in `Lemmas/Merge.lean`). -/
namespace A2l.Mg

/-- the reference fields (kind of the element, field) that the Rust `rename_*` functions rewrite, with the namespace whose
    rename table is applied: the table `covered` of the model, spelled out and checked -/
theorem covered_sites : covered = [
    ("COMPU_METHOD", "RefUnit.unit", .unit), ("UNIT", "RefUnit.unit", .unit),
    ("COMPU_METHOD", "CompuTabRef.conversion_table", .compuTab),
    ("COMPU_METHOD", "StatusStringRef.conversion_table", .compuTab),
    ("AXIS_PTS", "AxisPts.conversion", .compuMethod), ("CHARACTERISTIC", "Characteristic.conversion", .compuMethod),
    ("CHARACTERISTIC", "AxisDescr.conversion", .compuMethod), ("MEASUREMENT", "Measurement.conversion", .compuMethod),
    ("TYPEDEF_AXIS", "TypedefAxis.conversion", .compuMethod),
    ("TYPEDEF_CHARACTERISTIC", "TypedefCharacteristic.conversion", .compuMethod),
    ("TYPEDEF_CHARACTERISTIC", "AxisDescr.conversion", .compuMethod),
    ("TYPEDEF_MEASUREMENT", "TypedefMeasurement.conversion", .compuMethod), ("INSTANCE", "Conversion.name", .compuMethod),
    ("AXIS_PTS", "AxisPts.deposit_record", .recordLayout), ("CHARACTERISTIC", "Characteristic.deposit", .recordLayout),
    ("TYPEDEF_AXIS", "TypedefAxis.record_layout", .recordLayout),
    ("TYPEDEF_CHARACTERISTIC", "TypedefCharacteristic.record_layout", .recordLayout),
    ("MOD_COMMON", "SRecLayout.name", .recordLayout),
    ("AXIS_PTS", "AxisPts.input_quantity", .object), ("CHARACTERISTIC", "AxisDescr.input_quantity", .object),
    ("CHARACTERISTIC", "AxisPtsRef.axis_points", .object), ("CHARACTERISTIC", "CurveAxisRef.curve_axis", .object),
    ("CHARACTERISTIC", "DependentCharacteristic.characteristic_list", .object),
    ("CHARACTERISTIC", "VirtualCharacteristic.characteristic_list", .object),
    ("CHARACTERISTIC", "ComparisonQuantity.name", .object), ("CHARACTERISTIC", "MapList.name_list", .object),
    ("MEASUREMENT", "Virtual.measuring_channel_list", .object), ("TYPEDEF_AXIS", "TypedefAxis.input_quantity", .object),
    ("INSTANCE", "InputQuantity.name", .object), ("TYPEDEF_CHARACTERISTIC", "AxisDescr.input_quantity", .object),
    ("TYPEDEF_CHARACTERISTIC", "AxisPtsRef.axis_points", .object),
    ("TYPEDEF_CHARACTERISTIC", "CurveAxisRef.curve_axis", .object),
    ("FRAME", "FrameMeasurement.identifier_list", .object),
    ("FUNCTION", "InMeasurement.identifier_list", .object), ("FUNCTION", "LocMeasurement.identifier_list", .object),
    ("FUNCTION", "OutMeasurement.identifier_list", .object), ("FUNCTION", "DefCharacteristic.identifier_list", .object),
    ("FUNCTION", "RefCharacteristic.identifier_list", .object),
    ("GROUP", "RefCharacteristic.identifier_list", .object), ("GROUP", "RefMeasurement.identifier_list", .object),
    ("TRANSFORMER", "TransformerInObjects.identifier_list", .object),
    ("TRANSFORMER", "TransformerOutObjects.identifier_list", .object),
    ("VARIANT_CODING", "VarMeasurement.name", .object), ("VARIANT_CODING", "VarSelectionCharacteristic.name", .object),
    ("VARIANT_CODING", "VarCharacteristic.name", .object),
    ("INSTANCE", "Instance.type_ref", .typedef), ("TYPEDEF_STRUCTURE", "StructureComponent.component_type", .typedef),
    ("TRANSFORMER", "Transformer.inverse_transformer", .transformer)] := by decide

/-- every (kind, field) occurs once, so `coveredNs` is the table read as a function; FUNCTION and GROUP have no rename table -/
theorem covered_functional : (covered.map fun c => (c.1, c.2.1)).Nodup ∧ ∀ c ∈ covered, c.2.2.std := by decide

/-- reference fields that are NOT covered (found in the recorded data): the targets keep B's name -/
theorem uncovered_sites :
    coveredNs "MEASUREMENT" "FunctionList.name_list" = none ∧ coveredNs "CHARACTERISTIC" "FunctionList.name_list" = none ∧
    coveredNs "AXIS_PTS" "FunctionList.name_list" = none ∧ coveredNs "GROUP" "FunctionList.name_list" = none ∧
    coveredNs "FUNCTION" "SubFunction.identifier_list" = none ∧ coveredNs "GROUP" "SubGroup.identifier_list" = none ∧
    coveredNs "USER_RIGHTS" "RefGroup.identifier_list" = none ∧ coveredNs "VARIANT_CODING" "VarCharacteristic.criterion_name_list" = none ∧
    coveredNs "VARIANT_CODING" "CombinationStruct.criterion_name" = none ∧
    coveredNs "MEASUREMENT" "RefMemorySegment.name" = none := by decide

/-- what `repRef` does: a covered field gets the representative's name, any other field is unchanged -/
theorem repRef_covered (P : List (Ns × Plan)) (tag : String) (r : Ref) (ns : Ns) (h : coveredNs tag r.site = some ns) :
    repRef P tag r = ⟨r.site, rep P ns r.target⟩ := repRef_of_some h

theorem repRef_uncovered (P : List (Ns × Plan)) (tag : String) (r : Ref) (h : coveredNs tag r.site = none) :
    repRef P tag r = r := repRef_of_none h

/-- `rep` really is "the name of the representative": for a node `x2` of B in a namespace with a rename table, the result
    contains a node with `x2`'s tag and hash under the name `rep … x2.name` -/
theorem rep_is_representative (a b : Module) (ha : UniqueNames a) (hb : UniqueNames b) (ns : Ns) (hns : ns.std)
    (x2 : Node) (hx : x2 ∈ b) (hxt : x2.tag ∈ ns.tags) :
    ∃ y ∈ merge a b, y.tag = x2.tag ∧ y.hash = x2.hash ∧ y.name = rep (mergeSt a b).plans ns x2.name := by
  obtain ⟨sv, h⟩ := minv_mergeSt ha hb
  obtain ⟨y, hy, h1, h2, h3, _⟩ := h.rep ns (std_mem_finalKeys hns) (tags_mem_finalMoved ns) x2 hx hxt
  exact ⟨y, hy, h1, h2, h3⟩

/-- C09.6 `refs_renamed`, at full strength: every node `x` of B in a namespace with `calculate_item_actions` — ADDED or
    SHARED (identical → skipped) — has a representative `y` in the result with `x`'s tag and hash, named `rep … x.name`, and
    `y`'s references are exactly `x`'s references with every covered `site@target` replaced by `site@rep(target)`, with the
    FINAL rename tables. No side condition beyond unique names is needed: the merge actions are now computed after all
    renames that touch the kind (fixpoint loops). -/
theorem refs_renamed (a b : Module) (ha : UniqueNames a) (hb : UniqueNames b) (ns : Ns) (hns : ns.std)
    (x : Node) (hx : x ∈ b) (hxt : x.tag ∈ ns.tags) :
    ∃ y ∈ merge a b, y.tag = x.tag ∧ y.hash = x.hash ∧ y.name = rep (mergeSt a b).plans ns x.name ∧
      y.refs = x.refs.map (repRef (mergeSt a b).plans x.tag) ∧
      ((y ∈ a ∧ y.name = x.name) ∨ y.name ∉ names ns a) := by
  obtain ⟨sv, h⟩ := minv_mergeSt ha hb
  obtain ⟨y, hy, h1, h2, h3, _, h5, h6⟩ := h.rep ns (std_mem_finalKeys hns) (tags_mem_finalMoved ns) x hx hxt
  exact ⟨y, hy, h1, h2, h3, h5, h6⟩

/-- the same from the side of the result (all kinds, also the unnamed ones, FUNCTION and GROUP): every reference of every
    node of the result is a reference of a node of A of the same kind, or a renamed (`repRef`) reference of a node of B of
    the same kind -/
theorem refs_provenance (a b : Module) (ha : UniqueNames a) (hb : UniqueNames b) (y : Node) (hy : y ∈ merge a b)
    (r : Ref) (hr : r ∈ y.refs) :
    (∃ a0 ∈ a, a0.tag = y.tag ∧ r ∈ a0.refs) ∨
    (∃ x ∈ b, x.tag = y.tag ∧ ∃ r0 ∈ x.refs, r = repRef (mergeSt a b).plans x.tag r0) := by
  obtain ⟨sv, hinv⟩ := minv_mergeSt ha hb
  rcases hinv.prov y hy r hr with h | ⟨_, x, hx, hxt, hxr⟩
  · exact .inl h
  · obtain ⟨r0, hr0, e⟩ := List.mem_map.mp hxr
    exact .inr ⟨x, hx, hxt, r0, hr0, e.symm⟩

/-- C09.7 `no_dangling`: if names are unique per namespace and every reference of A resolves in A and every reference of B
    resolves in B (in the namespace its field points into, `refNs`), then every reference of the result resolves in the
    result. This holds for covered and for uncovered fields: an uncovered reference to a renamed element of B still finds
    a node of that name — A's different one. -/
theorem no_dangling (a b : Module) (ha : UniqueNames a) (hb : UniqueNames b) (hra : Resolved a) (hrb : Resolved b) :
    Resolved (merge a b) := resolved_mergeSt ha hb hra hrb

/-! ### the former weak spot: a shared node whose target is renamed -/

/-- The counterexample of the previous round (`shared_refs_counterexample`) no longer holds. B's INSTANCE `i` (of type B's
    `td`, hash `h2`) is textually identical to A's `i`, but B's `td` conflicts with A's `td`: the first round renames `td`,
    which changes B's `i` (type `td.MERGE`), the second round therefore renames `i`, the third finds nothing new. `i` is
    added as `i.MERGE` referring to `td.MERGE`, and "the representative of `x` refers to the representatives of `x`'s
    targets" holds for it. -/
theorem shared_refs_fixed :
    UniqueNames weakA ∧ UniqueNames weakB ∧ Resolved weakA ∧ Resolved weakB ∧
    merge weakA weakB = weakA ++ [⟨"INSTANCE", "i.MERGE", "h", [⟨"Instance.type_ref", "td.MERGE"⟩]⟩,
                                  ⟨"TYPEDEF_BLOB", "td.MERGE", "h2", []⟩] ∧
    loopRounds weakA [.object, .typedef] (loopFuel [.object, .typedef] weakB) weakB (fun _ => []) = some 3 ∧
    rep (mergeSt weakA weakB).plans .typedef "td" = "td.MERGE" ∧
    rep (mergeSt weakA weakB).plans .object "i" = "i.MERGE" ∧
    ∃ y ∈ merge weakA weakB, y.tag = "INSTANCE" ∧ y.name = rep (mergeSt weakA weakB).plans .object "i" ∧
        y.refs = [⟨"Instance.type_ref", rep (mergeSt weakA weakB).plans .typedef "td"⟩] :=
  ⟨uniqueNames_of_check (by decide), uniqueNames_of_check (by decide), resolved_of_check (by decide),
   resolved_of_check (by decide), by decide, by decide, by decide, by decide, by decide⟩

/-- a shared node stays shared when its targets are shared too: nothing is added -/
theorem shared_refs_shared :
    let a : Module := [⟨"INSTANCE", "i", "h", [⟨"Instance.type_ref", "td"⟩]⟩, ⟨"TYPEDEF_BLOB", "td", "h1", []⟩]
    merge a a = a := by decide

/-! non-vacuity: a merge with conflicts in three namespaces where all hypotheses hold and references are renamed -/

example : UniqueNames nvA ∧ UniqueNames nvB ∧ Resolved nvA ∧ Resolved nvB ∧
    merge nvA nvB =
      [⟨"COMPU_METHOD", "cm", "c1", []⟩, ⟨"MEASUREMENT", "m", "h1", [⟨"Measurement.conversion", "cm"⟩]⟩,
       ⟨"FUNCTION", "f", "hf", [⟨"OutMeasurement.identifier_list", "m"⟩, ⟨"SubFunction.identifier_list", "f"⟩,
          ⟨"OutMeasurement.identifier_list", "m.MERGE"⟩]⟩,
       ⟨"COMPU_METHOD", "cm.MERGE", "c2", []⟩,
       ⟨"MEASUREMENT", "m.MERGE", "h1", [⟨"Measurement.conversion", "cm.MERGE"⟩]⟩] :=
  ⟨uniqueNames_of_check (by decide), uniqueNames_of_check (by decide), resolved_of_check (by decide),
   resolved_of_check (by decide), by decide⟩

end A2l.Mg
