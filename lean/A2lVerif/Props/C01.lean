import A2lVerif.Lemmas.TreeRoundTrip
import A2lVerif.Lemmas.RT.Sample
import A2lVerif.Lemmas.RT.Counter
import A2lVerif.Props.C03Table
/-!
# C01 — save / reload stability

"Writing a loaded file and loading the result again yields an equal model, and writing that model again yields
byte-identical text: `write(load(write(load t))) = write(load t)`, and `load(write(load t)) = load t` up to layout
bookkeeping."

Property statements only (proofs in `Lemmas/TreeRoundTrip.lean` and `Lemmas/RT/*`). Models: `Model/Tree.lean`
(`parseFile`, `writeFile`; `addGroup` mirrors the writer AFTER the two `fix:` commits that start a new line behind a `//`
comment: for the next item of the group, and for the `/end` of a block whose text ends in a `//` comment),
`Model/Lex.lean` (`tokenize`), `Model/Scalars.lean`.

## What is proved

`save_reload_stable_partial` — for every grammar table, code table, symbol table, strictness flag and every root value
`v` that satisfies the explicit well-formedness hypotheses below: the text the writer produces is tokenized by the
tokenizer model into exactly the token stream the writer emitted (kinds, texts, line numbers), `parse_file` on these
tokens succeeds, writing the reloaded value gives byte-identical text, and the reloaded value equals `v` up to
`Info.line`, `Info.uid`, `Cmt.line`, `Cmt.uid` (and the `Info` of struct values inside parameter lists, which is never
written) — `LayoutEq`. Quantification: all of Unicode in strings and comments, every integer type / notation, any
nesting depth, any number of items, comments anywhere inside blocks, position restrictions, sequences with and
without stop tags, both strictness modes. The fragments are theorems of their own:

* `writer_text` (the writer's text is the text of the ordered token stream, offsets behind line comments bumped),
* `lexer_reads_written_text` (tokenizer + driver conversion invert the rendering of a lexable stream),
* `parser_inverts_writer` (`parse_file` on the written stream rebuilds a value with the same ordered form, in written
  order) — fragments (i)–(iv) of the plan: parameters, children, several arms + position restrictions, comments,
* `second_write_is_fixpoint` (bumping offsets is idempotent), `layout_equal` (same ordered form + written order ⇒
  `LayoutEq`).

## What is NOT proved (the gap to `save_reload_stable_statement`)

The full statement quantifies over everything the loader ACCEPTS. What is missing is the lemma "every value `v` that
`parse_file` returns satisfies the hypotheses of `save_reload_stable_partial`" (`Canon`, `InOrder`, `Writable`,
`StreamLex`), i.e. fragment (v) of the plan (unknown-tag skipping, non-strict recoveries, comments dropped in front of
parameters). That lemma is FALSE in general — the full statement is false for the model, and for the real code —
as the counterexamples show (each is a theorem here or a confirmed finding):

* `last_param_offset_unstable`: a file whose last token is a parameter (possible with grammar tables other than the
  shipped one, where every file ends with `/end PROJECT`): `get_line_offset` behind the last token returns the offset of
  the FIRST token; hypothesis: every keyword is followed by a token (`OT.ok`: `blk = false → rest ≠ []`).
* `reserved_order_model_differs` (known finding `reserved-order`): text stable, per-arm order of the model not;
  hypothesis `InOrder` for the `LayoutEq` conclusion.
* line comment + position restriction (new finding, fixed in the writer by the `fix:` commit mirrored here) and
  line comment + element dropped by a non-strict recovery: before the fix the next element was swallowed by the comment.
  After the second fix (`ends_in_line_comment`, exact since the third: a scan of the whole text of the block's content;
  the `/end` of a block whose text ends in a `//` comment is written on a new line) the hypothesis "a `//` comment that
  is the LAST item of a block needs `end_offset ≥ 1` of the enclosing `/end`" is GONE (`OT.lexW` has no clause about
  offsets any more): on the text of lexable parameters and items `ends_in_line_comment` is true iff the last item is a
  `//` comment (`ends_in_line_comment_exact`, proved against the token shapes the tokenizer model reads back), so the
  `/end` is written behind a line break (`end_behind_line_comment`), at every position of the comment. What is left:
  the last ROOT item must not be a line comment (`written_stream_lexable`; the root has no `/end`, and with the shipped
  grammar no comments), and `OT.fixL` — the offsets the writer uses — now also bumps end offsets (`OT.fixEo`), which
  the hypothesis `OT.fixL false items = items` of the `LayoutEq` conclusion covers.
* sequences: an identifier sequence ends at the first token that is not an identifier or is a stop tag; if a recovery
  drops what followed it on first load, a following keyword tag is swallowed by the sequence on reload (`SeqStops`).
* `1e999` → `inf` (float text that is not a number token): hypothesis `flOf s = some s` and `NumText`.
* A2ML / IF_DATA (`Env.special`) and `/include` are outside this model: hypothesis "no `special` value" is implicit in
  `Canon` (`Canon` only relates block values of `.block` types) and `fileid = 0`.
Writer and parser fuel are universally quantified "from some bound on" (`∃ F0, ∀ F ≥ F0`, `OT.needL`): fuel is a model
artefact; the driver's `4·tokens + 64` is not shown to reach the bound for arbitrary tables.
-/
namespace A2l.Tree
open A2l.G

/-! ## the vocabulary (definitions live in `Lemmas/RT/Defs.lean`, `Canon.lean`, `LexToks.lean`; restated by `rfl`) -/

/-- a written token: kind (`PTok.ty`), text, line breaks in front of it, indent level -/
example (w : WTok) : WTok := ⟨w.ty, w.text, w.off, w.ind⟩

/-- the text of a token stream: every token behind `add_whitespace(off)` (a comment behind `off` line breaks) -/
example (w : WTok) : renderTok w =
    (if w.ty = 6 then List.replicate w.off '\n' else addWhitespace w.ind w.off) ++ w.text := rfl
example (ws : List WTok) : renderToks ws = ws.flatMap renderTok := rfl

/-- the parser tokens of a written stream: line = previous line + line breaks inside the previous token (comments) +
    `off`; `sym` / `fl` = what the driver attaches (`LexEnv`) -/
example (lx : LexEnv) (line : Nat) (w : WTok) (ws : List WTok) :
    mkToksFrom lx line (w :: ws) = w.toPTok lx (line + w.off) :: mkToksFrom lx (line + w.off + w.nl) ws := rfl

/-- ordered tree: the items of every block in the order in which the writer emits them -/
example (arm : Nat) (tag : List Char) (blk : Bool) (ty so eo : Nat) (fields : List Val) (items : List OT) (ind : Nat) :
    (OT.node arm tag blk ty so eo fields items).toks ind =
      headToks ind tag blk so ++ (fieldsToks (ind + 1) fields ++ (OT.toksL (ind + 1) items ++ closeToks ind tag blk eo)) := by
  simp [OT.toks]

/-- the offsets the writer uses: inside every tagged part an item with offset 0 directly behind a `//` comment gets 1 -/
example (alc : Bool) (text : List Char) (off : Nat) (rest : List OT) :
    OT.fixL alc (.cmt text off :: rest) = .cmt text (bumpOff alc off) :: OT.fixL (isLineCommentText text) rest := by
  simp [OT.fixL]

/-- … and the `/end` of a block whose content (as written) ends in a `//` comment for the writer's
    `ends_in_line_comment` gets offset 1 if its recorded offset is 0; `OT.endsLC` is `endsInLineComment` of the text of
    the content at any indent level (`endsLC_is_ends_in_line_comment`); for lexable content it says whether the last
    item is a `//` comment (`ends_in_line_comment_exact`) -/
example (alc : Bool) (arm : Nat) (tag : List Char) (blk : Bool) (ty so eo : Nat) (fields : List Val) (items rest : List OT) :
    OT.fixL alc (.node arm tag blk ty so eo fields items :: rest) =
      .node arm tag blk ty (bumpOff alc so) (OT.fixEo blk eo fields (OT.fixL false items)) fields (OT.fixL false items) ::
        OT.fixL false rest := by
  simp [OT.fixL]
example (blk : Bool) (eo : Nat) (fields : List Val) (items : List OT) :
    OT.fixEo blk eo fields items = if blk = true ∧ eo = 0 ∧ OT.endsLC fields items = true then 1 else eo := rfl

/-- equality up to layout bookkeeping: everything except `Info.line`, `Info.uid`, `Cmt.line`, `Cmt.uid` and the `Info`
    of struct values inside parameter lists (`normField`) -/
example {ty : Nat} {i i' : Info} {f f' : List Val} {ch ch' : List (List Val)} {cm cm' : List Cmt}
    (hso : i.startOff = i'.startOff) (heo : i.endOff = i'.endOff) (hfid : i.fileid = i'.fileid)
    (hf : f.map normField = f'.map normField) (hlen : ch.length = ch'.length)
    (hlen2 : ∀ (k : Nat) (cs cs' : List Val), ch[k]? = some cs → ch'[k]? = some cs' → cs.length = cs'.length)
    (hch : ∀ (k j : Nat) (cs cs' : List Val) (c c' : Val), ch[k]? = some cs → ch'[k]? = some cs' →
      cs[j]? = some c → cs'[j]? = some c' → LayoutEq c c')
    (hcm : cm.map (fun x => (x.text, x.startOff, x.included)) = cm'.map (fun x => (x.text, x.startOff, x.included))) :
    LayoutEq (.block ty i f ch cm) (.block ty i' f' ch' cm') :=
  LayoutEq.block hso heo hfid hf hlen hlen2 hch hcm

/-- a lexable stream: every token is read back as one token of the same kind and text (`TokLex`: identifiers are
    ASCII identifier characters starting with a letter or `_`; numbers start with a digit, sign or dot; strings are
    `"` + escaped text + `"`; comments are blanks + `// …` without line break, or + `/* … */` with the first `*/` at the
    end), an identifier behind `/begin` is not `A2ML`, and a line comment is followed by a line break -/
example (prev : Option WTok) (w : WTok) (rest : List WTok) : StreamLex prev (w :: rest) =
    (TokLex w ∧ (w.ty = 0 → (∃ p, prev = some p ∧ p.ty = 1) → w.text ≠ "A2ML".toList) ∧
     (w.ty = 6 → isLineCmt w.text = true → ∀ w' rest', rest = w' :: rest' → 1 ≤ w'.off) ∧ StreamLex (some w) rest) := rfl

/-! ## the full-strength statement -/

/-- **C01 as stated** (text level): for every environment with a well-formed table, every byte string on which the
    tokenizer succeeds and whose tokens `parse_file` accepts with value `v`: for every sufficient writer fuel the
    written text is tokenized, loaded with value `v'`, written again to the same text, and `v'` equals `v` up to layout.
    FALSE as it stands (see the module comment and the counterexample theorems below); `save_reload_stable_partial`
    proves it with the hypothesis "`v` is a parser output" replaced by explicit well-formedness conditions on `v`. -/
def save_reload_stable_statement : Prop :=
  ∀ (e0 : Env) (lx : LexEnv) (bytes : Lex.Bytes) (ts : List Lex.Token) (v : Val) (s : PState),
    tableOk e0.table e0.known = true → Lex.tokenize bytes = .ok ts →
    e0.toks = (ts.map (convTok lx bytes)).toArray → runParseFile e0 = .ok v s →
    ∃ F0, ∀ F, F0 ≤ F →
      ∃ ts' v' s', Lex.tokenize (encL (writeFile e0 v F)).toArray = .ok ts' ∧
        runParseFile { e0 with toks := (ts'.map (convTok lx (encL (writeFile e0 v F)).toArray)).toArray } = .ok v' s' ∧
        (∃ F1, ∀ F', F1 ≤ F' → writeFile e0 v' F' = writeFile e0 v F) ∧ LayoutEq v v'

/-! ## the theorems -/

/-- **save / reload stability** for well-formed values. `e0` = environment of the first load (table, code table,
    symbols, strictness; its tokens are irrelevant), `v = .block tyA2lFile info [] ch cm` the loaded root value,
    `items` its ordered form (`Canon`), `OT.fixL false items` what the writer emits.
    Hypotheses: `hcan` (`items` are the sub-elements of `v`, recursively, in the order `sort` + position restrictions
    put them), `hlex` (the emitted token stream is lexable), `hw` (`Writable`: types match the table, parameters are
    typed and printable, sequences end where they should, multiplicities, the root starts with the version keyword in
    strict mode, every keyword is followed by a token, position-restricted items stand in position order).
    Conclusions: (1) text of the first write; (2) the tokenizer model reads it back into the emitted stream;
    (3) for every sufficient parser fuel the second load succeeds with `v'`, the second write (any sufficient fuel)
    is byte-identical, and `LayoutEq v v'` if `v` stood in written order (`InOrder`: true of parser outputs unless
    position-restricted items of one arm were out of order) and no offset was bumped. -/
theorem save_reload_stable_partial (e0 : Env) (lx : LexEnv) (ver : Nat) (rarms : List Arm) (items : List OT)
    (info : Info) (ch : List (List Val)) (cm : List Cmt)
    (hcan : Canon e0 (.block e0.known.tyA2lFile info [] ch cm) items)
    (hlex : StreamLex none (OT.toksL 0 (OT.fixL false items)))
    (hw : Writable ⟨{ e0 with toks := (mkToks lx (OT.toksL 0 (OT.fixL false items))).toArray }, lx, ver⟩ rarms
      (OT.fixL false items)) :
    (∃ F0, ∀ F, F0 ≤ F →
      writeFile e0 (.block e0.known.tyA2lFile info [] ch cm) F = renderToks (OT.toksL 0 (OT.fixL false items))) ∧
    (∃ ts, Lex.tokenize (encL (renderToks (OT.toksL 0 (OT.fixL false items)))).toArray = .ok ts ∧
      (ts.map (convTok lx (encL (renderToks (OT.toksL 0 (OT.fixL false items)))).toArray)).toArray =
        (mkToks lx (OT.toksL 0 (OT.fixL false items))).toArray) ∧
    (∀ fuel, OT.needL 0 (OT.fixL false items) + 20 ≤ fuel →
      ∃ v' s', parseFile fuel { e0 with toks := (mkToks lx (OT.toksL 0 (OT.fixL false items))).toArray } {} = .ok v' s' ∧
        (∃ F0, ∀ F, F0 ≤ F →
          writeFile { e0 with toks := (mkToks lx (OT.toksL 0 (OT.fixL false items))).toArray } v' F =
            writeFile e0 (.block e0.known.tyA2lFile info [] ch cm) F) ∧
        (InOrder e0 (.block e0.known.tyA2lFile info [] ch cm) items → OT.fixL false items = items →
          info.startOff = 0 → info.endOff = 0 → LayoutEq (.block e0.known.tyA2lFile info [] ch cm) v')) :=
  save_reload_text e0 lx ver rarms items info ch cm hcan hlex hw

/-- the hypotheses are satisfiable: a root keyword with a version keyword and a block that has an identifier, a string
    and an enum parameter, a comment and a repeating child keyword with a hexadecimal parameter, strict mode -/
example : Canon Sample.e0 Sample.fileV Sample.items ∧
    StreamLex none (OT.toksL 0 (OT.fixL false Sample.items)) ∧
    Writable ⟨{ Sample.e0 with toks := (mkToks Sample.lx (OT.toksL 0 (OT.fixL false Sample.items))).toArray }, Sample.lx, 6⟩
      Sample.rarms (OT.fixL false Sample.items) ∧
    InOrder Sample.e0 Sample.fileV Sample.items ∧ OT.fixL false Sample.items = Sample.items ∧
    renderToks (OT.toksL 0 (OT.fixL false Sample.items)) =
      " V 1 71\n/begin P p \"hi\" ON\n /* c */\n  C 0x5\n/end P".toList :=
  ⟨Sample.canon_file, Sample.lexable, Sample.writable, Sample.inorder_file, Sample.fix_items,
    by rw [Sample.fix_items, Sample.toksL_items]; exact Sample.text_items⟩

/-- **fragment: the writer's text** — the text of a value in canonical relation to `items` is the rendering of the token
    stream of `items` with bumped offsets, for every sufficient fuel -/
theorem writer_text (e : Env) (ty : Nat) (info : Info) (ch : List (List Val)) (cm : List Cmt) (items : List OT)
    (h : Canon e (.block ty info [] ch cm) items) :
    ∃ F0, ∀ F, F0 ≤ F → writeFile e (.block ty info [] ch cm) F = renderToks (OT.toksL 0 (OT.fixL false items)) :=
  write_root e ty info ch cm items h

example : ∃ F0, ∀ F, F0 ≤ F → writeFile Sample.e0 Sample.fileV F =
    " V 1 71\n/begin P p \"hi\" ON\n /* c */\n  C 0x5\n/end P".toList := by
  obtain ⟨F0, h⟩ := writer_text Sample.e0 0 _ _ _ _ Sample.canon_file
  refine ⟨F0, fun F hF => ?_⟩
  have h1 := h F hF
  rw [Sample.fix_items, Sample.toksL_items, Sample.text_items] at h1
  exact h1

/-- **fragment: the tokenizer reads the written text back** — for every lexable stream the tokenizer model succeeds on
    the UTF-8 bytes of its rendering, and the driver's conversion of its tokens is `mkToks` (same kinds, texts, lines) -/
theorem lexer_reads_written_text (lx : LexEnv) (ws : List WTok) (h : StreamLex none ws) :
    ∃ ts, Lex.tokenize (encL (renderToks ws)).toArray = .ok ts ∧
      ts.map (convTok lx (encL (renderToks ws)).toArray) = mkToks lx ws :=
  lex_written lx ws h

example : StreamLex none Sample.stream := by
  have := Sample.lexable; rwa [Sample.fix_items, Sample.toksL_items] at this

/-- **fragment: lexability from conditions on the values** (after the `fix:` commits): if tags, identifier and enum values
    are `IdentText`, no block tag is `A2ML`, float texts are `NumText`, comments are `CommentText`, keywords have no
    sub-elements (`OT.lexWL`, restated below), and the last root item is not a line comment, then the stream the writer
    emits is lexable. NOTHING is required of the offsets behind a line comment any more: the writer bumps them, for
    the next item and for the `/end` of the enclosing block (`OT.fixL`). Printed integers and escaped strings are
    always lexable (`printed_integer_is_number_token`, `strBody_escape`). -/
theorem written_stream_lexable (items : List OT) (h : OT.lexWL items)
    (hlast : ∀ text off, items.getLast? = some (.cmt text off) → isLineCmt text = false) :
    StreamLex none (OT.toksL 0 (OT.fixL false items)) :=
  streamLex_of_lexW items h hlast

example : OT.lexWL Sample.items ∧ ∀ text off, Sample.items.getLast? = some (.cmt text off) → isLineCmt text = false :=
  ⟨Sample.lexW_items, by intro t o h; simp [Sample.items, Sample.projO] at h⟩

/-- the condition of `OT.lexWL` on an element (no clause about offsets) -/
example (arm : Nat) (tag : List Char) (blk : Bool) (ty so eo : Nat) (fields : List Val) (items : List OT) :
    OT.lexW (.node arm tag blk ty so eo fields items) =
      (IdentText tag ∧ (blk = true → tag ≠ "A2ML".toList) ∧ (∀ f ∈ fields, FieldLex f) ∧ OT.lexWL items ∧
        (blk = false → items = [])) := by
  simp [OT.lexW]

/-- `OT.endsLC` is what the writer computes: `ends_in_line_comment` of the text of the block's content, written at any
    indent level (the indentation does not matter) -/
theorem endsLC_is_ends_in_line_comment (indent : Nat) (fields : List Val) (items : List OT) :
    endsInLineComment (renderToks (fieldsToks indent fields ++ OT.toksL indent items)) = OT.endsLC fields items :=
  endsInLineComment_body indent fields items

/-- is the last item a `//` comment? -/
example (items : List OT) : OT.lastLC items =
    (match items.getLast? with
      | some (.cmt text _) => isLineCmt text
      | _ => false) := rfl

/-- **`ends_in_line_comment` is exact** on the content of a block as the writer writes it (lexable parameters and
    items): it is true iff the last item is a `//` comment. Proof: its scanner is outside of strings and comments behind
    every token the tokenizer model reads back, and inside the comment behind a `//` comment (`scan_stream`) -/
theorem ends_in_line_comment_exact (fields : List Val) (items : List OT) (hf : ∀ f ∈ fields, FieldLex f)
    (hw : OT.lexWL items) : OT.endsLC fields (OT.fixL false items) = OT.lastLC items :=
  endsLC_fixL fields items hf hw

/-- the scanner of `ends_in_line_comment` on the text of any lexable stream -/
theorem ends_in_line_comment_on_stream (ws : List WTok) (prev : Option WTok) (h : StreamLex prev ws) :
    endsInLineComment (renderToks ws) = (match ws.getLast? with | some w => w.isLC | none => false) :=
  endsInLineComment_stream ws prev h
example (w : WTok) : w.isLC = (w.ty == 6 && isLineCmt w.text) := rfl

/-- **after the second and third `fix:` commit**: a `//` comment that is the last item of a block — on a line of its
    own or behind other tokens — is seen by `ends_in_line_comment`, so the `/end` is written with an offset ≥ 1 whatever
    its recorded offset is; if the last item is not a `//` comment, the recorded offset is used -/
theorem end_behind_line_comment (eo : Nat) (fields : List Val) (items : List OT) (hf : ∀ f ∈ fields, FieldLex f)
    (hw : OT.lexWL items) :
    (OT.lastLC items = true → 1 ≤ OT.fixEo true eo fields (OT.fixL false items)) ∧
    (OT.lastLC items = false → ∀ blk, OT.fixEo blk eo fields (OT.fixL false items) = eo) :=
  ⟨fixEo_pos_of_last_cmt eo fields items hf hw, fun h blk => fixEo_of_not_last_cmt blk eo fields items hf hw h⟩

def seenCmt1 : List Char := "/* a\n \" */".toList
def seenCmt2 : List Char := " // c".toList

/-- the input that the last-line version of `ends_in_line_comment` missed (two comment items, the `//` comment on the
    line on which a multi-line block comment with a `"` ends; `/end` recorded with offset 0): the exact scan sees the
    comment, the `/end` is written on a new line -/
theorem ends_in_line_comment_sees :
    OT.endsLC [] [.cmt seenCmt1 1, .cmt seenCmt2 0] = true ∧
    OT.fixL false [.node 0 ['B'] true 0 0 0 [] [.cmt seenCmt1 1, .cmt seenCmt2 0]] =
      [.node 0 ['B'] true 0 0 1 [] [.cmt seenCmt1 1, .cmt seenCmt2 0]] ∧
    renderToks (OT.toksL 0 [.node 0 ['B'] true 0 0 1 [] [.cmt seenCmt1 1, .cmt seenCmt2 0]]) =
      " /begin B\n/* a\n \" */ // c\n/end B".toList := by
  have h : OT.endsLC [] [.cmt seenCmt1 1, .cmt seenCmt2 0] = true := by decide +kernel
  have h1 : isLineCommentText seenCmt1 = false := by decide +kernel
  refine ⟨h, ?_, by decide +kernel⟩
  simp [OT.fixL, OT.fixEo, bumpOff, h, h1]

/-- every integer the writer prints (any type, value, notation) is a text the tokenizer reads as one number token -/
theorem printed_integer_is_number_token (t : Sc.IntTy) (v : Int) (hex : Bool) : NumText (Sc.printInt t v hex) :=
  numText_printInt t v hex

example : NumText (Sc.printInt .i16 (-1) true) ∧ Sc.printInt .i16 (-1) true = "0xFFFF".toList :=
  ⟨numText_printInt _ _ _, by decide⟩

/-- after the `fix:` commit: in the list the writer emits, the item behind a line comment starts on a new line -/
theorem line_comment_then_newline (alc : Bool) (text : List Char) (off : Nat) (y : OT) (ys : List OT)
    (h : isLineCommentText text = true) :
    ∃ y' ys', OT.fixL alc (.cmt text off :: y :: ys) = .cmt text (bumpOff alc off) :: y' :: ys' ∧ 1 ≤ y'.offOf := by
  obtain ⟨y', ys', hfix, hoff⟩ := fixL_head_off (isLineCommentText text) y ys
  refine ⟨y', ys', by simp [OT.fixL, hfix], ?_⟩
  rw [hoff, h]; exact bumpOff_true_pos _

example : isLineCommentText " // c".toList = true := by decide

/-- **fragment: `parse_file` inverts the writer** (parameters, children of several arms, position restrictions,
    comments; strict and non-strict): on the token stream of a writable ordered tree it returns a root value with the
    same ordered form, in written order -/
theorem parser_inverts_writer (c : RCfg) (rarms : List Arm) (items : List OT) (hw : Writable c rarms items)
    (hT : Toks c.e c.lx (OT.toksL 0 items)) (fuel : Nat) (hf : OT.needL 0 items + 20 ≤ fuel) :
    ∃ info ch' cm' s', parseFile fuel c.e {} = .ok (.block c.e.known.tyA2lFile info [] ch' cm') s' ∧
      info.startOff = 0 ∧ info.endOff = 0 ∧
      Canon c.e (.block c.e.known.tyA2lFile info [] ch' cm') items ∧
      InOrder c.e (.block c.e.known.tyA2lFile info [] ch' cm') items :=
  reload_written c rarms items hw hT fuel hf {} rfl

example : Writable (Sample.cfg 6) Sample.rarms Sample.items ∧ Toks (Sample.cfg 6).e (Sample.cfg 6).lx (OT.toksL 0 Sample.items) := by
  refine ⟨by have := Sample.writable; rwa [Sample.fix_items] at this, ?_⟩
  show Sample.e1.toks = _
  unfold Sample.e1
  rw [Sample.fix_items]; rfl

/-- **fragment: the second write is a fixpoint** — bumping the offsets behind line comments is idempotent -/
theorem second_write_is_fixpoint (l : List OT) (alc : Bool) : OT.fixL alc (OT.fixL alc l) = OT.fixL alc l :=
  fixL_idem l alc

/-- **fragment: equality up to layout** — two values in written order with the same ordered form are `LayoutEq` -/
theorem layout_equal (e : Env) {v v' : Val} {items : List OT} (h : InOrder e v items) (h' : InOrder e v' items)
    (hc : Compat v v') : LayoutEq v v' :=
  layoutEq_of_inOrder e h h' hc

example : InOrder Sample.e0 Sample.fileV Sample.items := Sample.inorder_file

/-- the regenerated table of the shipped code has the root shape `Writable.root` asks for: `A2lFile` is a keyword
    without parameters with a tagged part; every sequence element type and struct is of the supported shape
    (scalars, or structs of scalars without tagged part) -/
theorem shipped_root_shape :
    (match Shipped.table.lookup shippedKnown.tyA2lFile with
      | some (.block false [] _ true) => true
      | _ => false) = true ∧
    Shipped.table.all (fun en => match en.def_ with
      | .block _ items _ _ => items.all (fun it => match it with
        | .seq (.structRef ty) _ | .arr (.structRef ty) _ | .structRef ty =>
          (match Shipped.table.lookup ty with
            | some (.block false sits [] false) => !sits.isEmpty && sits.all (fun s => match s with
              | .structRef _ | .arr _ _ | .seq _ _ => false | _ => true)
            | _ => false)
        | .seq (.arr _ _) _ | .seq (.seq _ _) _ | .arr (.arr _ _) _ | .arr (.seq _ _) _ => false
        | _ => true)
      | _ => true) = true := by
  constructor <;> decide +kernel

/-! ## counterexamples to the statement as first written -/

/-- the text is not a fixpoint when the file ends with a parameter and the first token moves: tokens of
    `/* c */⏎⏎K 1` → `⏎⏎K 1` → tokens of that → `⏎⏎K⏎⏎  1` (a grammar with a parameterised keyword at top level) -/
theorem last_param_offset_unstable :
    (∃ s, runParseFile (Counter.qEnv Counter.qToks1) = .ok Counter.qV1 s) ∧
    writeFile (Counter.qEnv Counter.qToks1) Counter.qV1 50 = "\n\nK 1".toList ∧
    (∃ s, runParseFile (Counter.qEnv Counter.qToks2) = .ok Counter.qV2 s) ∧
    writeFile (Counter.qEnv Counter.qToks2) Counter.qV2 50 = "\n\nK\n\n  1".toList :=
  Counter.last_param_offset_unstable

/-- `qToks2` really is what tokenizer + conversion make of the text `⏎⏎K 1` -/
theorem last_param_offset_tokens : renderToks Counter.qStream = "\n\nK 1".toList ∧
    ∃ ts, Lex.tokenize (encL (renderToks Counter.qStream)).toArray = .ok ts ∧
      (ts.map (convTok Counter.qLx (encL (renderToks Counter.qStream)).toArray)).toArray = Counter.qToks2 :=
  Counter.q_tokens

/-- `reserved-order`: `R 2 R 1` (position = parameter) is written as ` R 1 R 2`; the reloaded per-arm list has the
    other order: not `LayoutEq` (the text is stable) -/
theorem reserved_order_model_differs :
    (∃ s, runParseFile (Counter.rEnv Counter.rToks1) = .ok Counter.rV1 s) ∧
    writeFile (Counter.rEnv Counter.rToks1) Counter.rV1 50 = " R 1 R 2".toList ∧
    (∃ s, runParseFile (Counter.rEnv Counter.rToks2) = .ok Counter.rV2 s) ∧ ¬ LayoutEq Counter.rV1 Counter.rV2 :=
  Counter.reserved_order_model_differs

end A2l.Tree
