import A2lVerif.Lemmas.Checker
import A2lVerif.Props.C12
/-!
# C12 on the structural model of `checker.rs`: which data type and which conversion each carrier is tested against

`Props/C12.lean` proves that `reportsError carrier conv dt (lower, upper)` is the right verdict for a given data type
and conversion. This file proves that the structural checker model (`Model/Checker.lean`, tied to the real `check()` by
the ordered report list with exact limits, `chkfull`) applies it to the right pair for each of the five carriers:

* MEASUREMENT / TYPEDEF_MEASUREMENT: the object's own data type; the FIRST COMPU_METHOD of the conversion's name
  (`ItemList::get`), none for `NO_COMPU_METHOD` or a name that does not resolve; TYPEDEF_MEASUREMENT without tolerance;
* CHARACTERISTIC / TYPEDEF_CHARACTERISTIC: FNC_VALUES of the first RECORD_LAYOUT of the deposit's name;
* AXIS_PTS: AXIS_PTS_X of the first RECORD_LAYOUT of the deposit's name;
* standard axis `k` (0-based position among ALL AXIS_DESCR of the characteristic, not among the standard ones): AXIS_PTS_X /
  _Y / _Z / _4 / _5 number `k` of that record layout, the AXIS_DESCR's own conversion and limits; positions beyond the fifth
  and absent dimensions yield a ContentError and no limit test.
-/
namespace A2l.Chk
open A2l.Lim

/-- one limit test reports exactly when the limits model says so (`limitSpecial`: the rational model cannot follow) -/
theorem limitReport_eq (carrier : Carrier) (m : Module) (conversion : Name) (dt : DataType) (item block : Name)
    (lower upper : Rat) :
    limitReport carrier m conversion dt item block lower upper =
      match reportsError carrier (convOf m conversion) dt (lower, upper), calcLimits (convOf m conversion) dt with
      | some true, some cl => [.limit item block lower upper cl.1 cl.2]
      | some false, _ => []
      | _, _ => [.limitSpecial item block] := by
  unfold limitReport reportsError
  cases hc : calcLimits (convOf m conversion) dt with
  | none => rfl
  | some cl =>
    cases hv : limitsValid (lower, upper) cl <;> simp [hv]

/-- the conversion a name stands for: the FIRST COMPU_METHOD of that name; absent for a name that does not resolve (this
    includes `NO_COMPU_METHOD` unless a COMPU_METHOD is literally called so) -/
theorem convOf_eq (m : Module) (conversion : Name) :
    convOf m conversion = match m.compuMethod.find? (·.name == conversion) with
      | none => .absent
      | some cm => cm.toConv := rfl

/-- MEASUREMENT: own data type, own conversion, tolerant comparison -/
theorem measurement_limit_test (x : Measurement) (m : Module) :
    checkMeasurement x m =
      missingUnless (s "NO_COMPU_METHOD") (s "MEASUREMENT") x.name (s "COMPU_METHOD") x.conversion m.compuMethodNames ++
      limitReport .measurement m x.conversion x.datatype x.name (s "MEASUREMENT") x.lower x.upper ++
      checkRefMemorySegment m x.refMemorySegment ++ checkFunctionList m x.functionList := rfl

/-- TYPEDEF_MEASUREMENT: own data type, own conversion, the same tolerant comparison -/
theorem typedef_measurement_limit_test (x : Measurement) (m : Module) :
    checkTypedefMeasurement x m =
      missingUnless (s "NO_COMPU_METHOD") (s "TYPEDEF_MEASUREMENT") x.name (s "COMPU_METHOD") x.conversion m.compuMethodNames ++
      limitReport .typedefMeasurement m x.conversion x.datatype x.name (s "TYPEDEF_MEASUREMENT") x.lower x.upper := rfl

/-- the reports of the second loop of `check_characteristic_common` for the AXIS_DESCR at position `idx`:
    a standard axis is tested against dimension `idx` of the record layout -/
def stdAxisReport (kind name rlName : Name) (m : Module) (rl : RecordLayout) (idx : Nat) (ad : AxisDescr) : List Report :=
  if ad.attr == s "STD_AXIS" then
    match rl.axisRefs[idx]? with
    | some (some dt) => limitReport .axisDescrStd m ad.conversion dt name (s "AXIS_DESCR") ad.lower ad.upper
    | _ => [.content name kind (s "Referenced RECORD_LAYOUT " ++ rlName ++ s " does not have AXIS_PTS_" ++
              (axisPtsNames[idx]?.getD (s "?")) ++ s ".")]
  else []

/-- **standard axes are tested by POSITION**: the `k`-th AXIS_DESCR (counted over all AXIS_DESCR) against dimension `k` -/
theorem std_axis_by_position (kind name rlName : Name) (m : Module) (rl : RecordLayout) (start : Nat) (ads : List AxisDescr) :
    stdAxisLoop kind name rlName m rl start ads =
      (ads.zipIdx start).flatMap fun p => stdAxisReport kind name rlName m rl p.2 p.1 := by
  induction ads generalizing start with
  | nil => rfl
  | cons ad rest ih =>
    simp only [stdAxisLoop, List.zipIdx_cons, List.flatMap_cons, ih]
    rfl

/-- the dimensions of a record layout in the order `check()` indexes them -/
example (rl : RecordLayout) : rl.axisRefs = [rl.axisPtsX, rl.axisPtsY, rl.axisPtsZ, rl.axisPts4, rl.axisPts5] := rfl

/-- a standard axis at position 5 or beyond is never limit-tested (and never makes `check()` index out of bounds) -/
theorem std_axis_beyond_fifth (kind name rlName : Name) (m : Module) (rl : RecordLayout) (idx : Nat) (ad : AxisDescr)
    (h : 5 ≤ idx) (hs : (ad.attr == s "STD_AXIS") = true) :
    stdAxisReport kind name rlName m rl idx ad =
      [.content name kind (s "Referenced RECORD_LAYOUT " ++ rlName ++ s " does not have AXIS_PTS_" ++ s "?" ++ s ".")] := by
  have h1 : rl.axisRefs[idx]? = none := by
    apply List.getElem?_eq_none
    simp [RecordLayout.axisRefs]; omega
  have h2 : axisPtsNames[idx]? = none := by
    apply List.getElem?_eq_none
    simp [axisPtsNames]; omega
  simp [stdAxisReport, hs, h1, h2]

/-- CHARACTERISTIC / TYPEDEF_CHARACTERISTIC: FNC_VALUES of the first record layout of that name, own conversion -/
theorem characteristic_limit_test (kind : Name) (c : Characteristic) (m : Module) (objects : List Name) (direct : Bool)
    (containing : List TypedefStructure) (rl : RecordLayout) (dt : DataType)
    (hrl : m.recordLayout.find? (·.name == c.recordLayout) = some rl) (hf : rl.fncValues = some dt) :
    characteristicCommonReports kind c m objects direct containing =
      missingUnless (s "NO_COMPU_METHOD") kind c.name (s "COMPU_METHOD") c.conversion m.compuMethodNames ++
      axisLoopReports c.name m objects direct containing 0 c.axisDescr ++
      (if c.axisDescr.length != expectedAxisCount c.ctype then
        [.content c.name kind (s "Expected " ++ idxText (expectedAxisCount c.ctype) ++ s " AXIS_DESCR for type " ++
          c.ctype ++ s ", found " ++ idxText c.axisDescr.length)] else []) ++
      (limitReport .characteristic m c.conversion dt c.name kind c.lower c.upper ++
        stdAxisLoop kind c.name c.recordLayout m rl 0 c.axisDescr) := by
  unfold characteristicCommonReports
  have : m.getRecordLayout c.recordLayout = some rl := hrl
  rw [this]
  simp only [hf]

/-- AXIS_PTS: AXIS_PTS_X of the first record layout of the deposit's name -/
theorem axis_pts_limit_test (a : AxisPts) (m : Module) (objects : List Name) (rl : RecordLayout) (dt : DataType)
    (hrl : m.recordLayout.find? (·.name == a.depositRecord) = some rl) (hx : rl.axisPtsX = some dt) :
    checkAxisPts a m objects =
      missingUnless (s "NO_COMPU_METHOD") (s "AXIS_PTS") a.name (s "COMPU_METHOD") a.conversion m.compuMethodNames ++
      missingUnless (s "NO_INPUT_QUANTITY") (s "AXIS_PTS") a.name (s "MEASUREMENT") a.inputQuantity objects ++
      limitReport .axisPts m a.conversion dt a.name (s "AXIS_PTS") a.lower a.upper ++
      checkFunctionList m a.functionList ++ checkRefMemorySegment m a.refMemorySegment := by
  unfold checkAxisPts
  have : m.getRecordLayout a.depositRecord = some rl := hrl
  rw [this]
  simp only [hx]

/-! non-vacuity: a MAP whose second axis is the standard one is tested against AXIS_PTS_Y (SWORD), not against AXIS_PTS_X -/
def demoRl : RecordLayout :=
  { name := s "rl", fncValues := some .ubyte, axisPtsX := some .ubyte, axisPtsY := some .sword, axisPtsZ := none,
    axisPts4 := none, axisPts5 := none }

def comAxis : AxisDescr :=
  { attr := s "COM_AXIS", inputQuantity := s "NO_INPUT_QUANTITY", conversion := s "NO_COMPU_METHOD", lower := 0, upper := 1,
    axisPtsRef := some (s "ap"), curveAxisRef := none }

def stdAxis : AxisDescr :=
  { attr := s "STD_AXIS", inputQuantity := s "NO_INPUT_QUANTITY", conversion := s "NO_COMPU_METHOD", lower := -1000,
    upper := 1000, axisPtsRef := none, curveAxisRef := none }

example : stdAxisLoop (s "CHARACTERISTIC") (s "c") (s "rl") {} demoRl 0 [comAxis, stdAxis] = [] := by decide +kernel
example : stdAxisLoop (s "CHARACTERISTIC") (s "c") (s "rl") {} demoRl 0 [stdAxis, comAxis] =
    [.limit (s "c") (s "AXIS_DESCR") (-1000) 1000 0 255] := by decide +kernel

end A2l.Chk
