import A2lVerif.Lemmas.Lex
/-!
# C03 (tokenizer part) — `tokenize_core` is total and its tokens are well-formed

Property theorems only.  Model: `Model/Lex.lean`, an index-faithful transcription of `tokenize_core`,
`find_block_comment_end`, `find_string_end`, `handle_a2ml`, `separator_check`, `count_newlines`, `is_pathchar`,
`is_identchar`, `is_numchar` of `src/tokenizer.rs` (fixed tree) in which every slice index, sub-slice, `usize`
subtraction and `unwrap` has an explicit `panic` outcome.  The model agrees with the real implementation on the
11 198 recorded inputs (`testdata/difftest.sh`).  The outer loop runs on fuel `len + 1`; `lex_no_hang` shows that
the fuel is never exhausted (every iteration consumes at least one byte).

All theorems are read off `tokenize_post` (Lemmas/Lex.lean), which is proved from a loop invariant `Inv`
preserved by every arm of the main loop (`step_good`).
-/
namespace A2l.Lex

/-- **no panic**: no index out of range, no slice out of range, no `usize` underflow, no failed `unwrap`,
    for every byte string (valid UTF-8 or not) -/
theorem lex_no_panic (b : Bytes) : tokenize b ≠ .panic := by
  intro h; have := tokenize_post b; rw [h] at this; exact this

/-- **termination**: the main loop needs at most `len` iterations (each one consumes at least one byte) -/
theorem lex_no_hang (b : Bytes) : tokenize b ≠ .hang := by
  intro h; have := tokenize_post b; rw [h] at this; exact this

/-- **token invariants**: non-empty in-range spans, monotone line numbers, tokens in order and non-overlapping
    (this includes comment tokens, whose start is moved back over the preceding blanks) -/
theorem lex_inv (b : Bytes) (ts : List Token) (h : tokenize b = .ok ts) :
    (∀ t ∈ ts, t.startpos < t.endpos ∧ t.endpos ≤ b.size) ∧
    ts.Pairwise (fun a c => a.line ≤ c.line) ∧
    ts.Pairwise (fun a c => a.endpos ≤ c.startpos) := by
  have := tokenize_post b; rw [h] at this; exact ⟨this.1, this.2.1, this.2.2.1⟩

/-- **error lines are 1-based** -/
theorem err_line_pos (b : Bytes) (k : ErrKind) (l : Nat) (h : tokenize b = .err k l) : 1 ≤ l := by
  have := tokenize_post b; rw [h] at this; exact this

/-- **token boundaries are char boundaries** when no continuation byte follows an ASCII byte or starts the text
    (`Utf8Ok`, a consequence of UTF-8 validity): this is what makes the `&str` slicing in `handle_a2ml`
    (`&filedata[startpos..endpos]`) and in `get_token_text` panic-free -/
theorem lex_boundaries (b : Bytes) (hu : Utf8Ok b) (ts : List Token) (h : tokenize b = .ok ts) :
    ∀ t ∈ ts, IsCharBoundary b t.startpos ∧ IsCharBoundary b t.endpos := by
  have := tokenize_post b; rw [h] at this
  intro t ht
  have := this.2.2.2.1 hu t ht
  exact ⟨this.1.isCharBoundary, this.2.isCharBoundary⟩

/-- **token lines are 1-based** -/
theorem lex_line_pos (b : Bytes) (ts : List Token) (h : tokenize b = .ok ts) : ∀ t ∈ ts, 1 ≤ t.line := by
  have := tokenize_post b; rw [h] at this; exact this.2.2.2.2.1

/-- **a token behind a comment is not above the comment's last line**: a comment token carries the line on which
    it starts; every later token's line is at least that line plus the number of newline bytes in the comment's span
    (`nlCount b a e` = number of bytes 10 in `b[a..e)`, the total version of the model's `countNewlines`, see
    `countNewlines_eq`; the blanks before `/*` that belong to the span contain no newline) -/
theorem lex_comment_lines (b : Bytes) (ts : List Token) (h : tokenize b = .ok ts) :
    ∀ i j (hi : i < ts.length) (hj : j < ts.length), i < j → ts[i].ttype = .comment →
      ts[i].line + nlCount b ts[i].startpos ts[i].endpos ≤ ts[j].line := by
  have := tokenize_post b; rw [h] at this
  exact List.pairwise_iff_getElem.1 this.2.2.2.2.2

/-- `nlCount` is what the model's `count_newlines(&filebytes[a..e])` computes -/
example (b : Bytes) (a e : Nat) (h1 : a ≤ e) (h2 : e ≤ b.size) : countNewlines b a e = .ok (nlCount b a e) :=
  countNewlines_eq h1 h2

/-! ### non-vacuity -/

/-- `/begin A2ML x /end A2ML` -/
def sampleA2ml : Bytes :=
  #[47, 98, 101, 103, 105, 110, 32, 65, 50, 77, 76, 32, 120, 32, 47, 101, 110, 100, 32, 65, 50, 77, 76]

example : tokenize sampleA2ml = .ok
    [{ ttype := .begin, startpos := 0, endpos := 6, line := 1 },
     { ttype := .identifier, startpos := 7, endpos := 11, line := 1 },
     { ttype := .string, startpos := 11, endpos := 13, line := 1 },
     { ttype := .end_, startpos := 14, endpos := 18, line := 1 },
     { ttype := .identifier, startpos := 19, endpos := 23, line := 1 }] := by decide +kernel

/-- `"é" // é`: the comment token starts at the blank before `//`, directly after the string token -/
def sampleUtf8 : Bytes := #[34, 0xC3, 0xA9, 34, 32, 47, 47, 32, 0xC3, 0xA9]

example : tokenize sampleUtf8 = .ok
    [{ ttype := .string, startpos := 0, endpos := 4, line := 1 },
     { ttype := .comment, startpos := 4, endpos := 10, line := 1 }] := by decide +kernel

example : Utf8Ok sampleUtf8 := by
  intro p h; simp only [sampleUtf8, List.size_toArray, List.length_cons, List.length_nil] at h
  have : p = 0 ∨ p = 1 ∨ p = 2 ∨ p = 3 ∨ p = 4 ∨ p = 5 ∨ p = 6 ∨ p = 7 ∨ p = 8 ∨ p = 9 := by omega
  rcases this with h | h | h | h | h | h | h | h | h | h <;> subst h <;> decide +revert

/-- `x /*\n\n*/ y`: the comment starts on line 1 (span `[1, 8)`, two newlines), `y` is on line 3 -/
def sampleComment : Bytes := #[120, 32, 47, 42, 10, 10, 42, 47, 32, 121]

example : tokenize sampleComment = .ok
    [{ ttype := .identifier, startpos := 0, endpos := 1, line := 1 },
     { ttype := .comment, startpos := 1, endpos := 8, line := 1 },
     { ttype := .identifier, startpos := 9, endpos := 10, line := 3 }] ∧ nlCount sampleComment 1 8 = 2 := by
  decide +kernel

/-- the errors are reachable -/
example : tokenize #[47, 42] = .err .UnclosedComment 1 := by decide +kernel
example : tokenize #[10, 34, 97] = .err .UnclosedString 2 := by decide +kernel
example : tokenize #[34, 34, 97] = .err .MissingWhitespace 1 := by decide +kernel
example : tokenize #[48, 120] = .err .InvalidNumericalConstant 1 := by decide +kernel
example : tokenize #[10, 10, 36] = .err .InvalidA2lToken 3 := by decide +kernel

/-- `lex_boundaries` needs its hypothesis: in `/begin A2ML\x80` (not UTF-8) the A2ML string token starts at
    the continuation byte -/
example : tokenize #[47, 98, 101, 103, 105, 110, 32, 65, 50, 77, 76, 0x80] = .ok
    [{ ttype := .begin, startpos := 0, endpos := 6, line := 1 },
     { ttype := .identifier, startpos := 7, endpos := 11, line := 1 },
     { ttype := .string, startpos := 11, endpos := 12, line := 1 }] := by decide +kernel

/-! ### the defect of the pinned tree

In the pinned tree `handle_a2ml` advanced over a "solitary `/`" with an unguarded `bytepos += 1` (also when the
inner scan had already reached the end of input, leaving `bytepos = len + 1`), and the trailing trim indexed
`filebytes[bytepos - 1]` without the `bytepos > startpos` guard.  `/begin A2ML x` panicked. -/
namespace Pinned

/-- the pinned `while !done && bytepos < datalen` loop (fuel-bounded; only the last arm differs) -/
def a2mlLoop (b : Bytes) : Nat → Nat → Out Nat
  | 0, pos => .ok pos
  | fuel + 1, pos =>
    if pos < b.size then
      let p1 := skipWhile b notSlash pos
      match startsWith b p1 kwSlashSlash with
      | .panic => .panic
      | .ok true => a2mlLoop b fuel (skipWhile b notNewline (p1 + 2))
      | .ok false =>
        match startsWith b p1 kwSlashStar with
        | .panic => .panic
        | .ok true =>
          if b.size = 0 then .panic
          else
            match a2mlBlockLoop b (p1 + 2) with
            | .panic => .panic
            | .ok p2 => a2mlLoop b fuel (if p2 + 2 > b.size then b.size else p2 + 2)
        | .ok false =>
          match startsWith b p1 kwSlashEnd with
          | .panic => .panic
          | .ok true => .ok p1
          | .ok false => a2mlLoop b fuel (p1 + 1)          -- unguarded `bytepos += 1`
    else .ok pos

/-- the pinned trim loop: `while ws(filebytes[bytepos - 1]) && … { bytepos -= 1 }` -/
def trimLoop (b : Bytes) : Nat → Out Nat
  | 0 => .panic                                            -- `bytepos - 1` underflows
  | p + 1 =>
    match b[p]? with
    | none => .panic                                       -- index out of range
    | some c => if isWs c && c != 13 && c != 10 then trimLoop b p else .ok (p + 1)

def a2mlBody (b : Bytes) (startpos : Nat) : Out Nat :=
  match a2mlLoop b (b.size + 1) startpos with
  | .panic => .panic
  | .ok p => trimLoop b p

end Pinned

/-- `/begin A2ML x` -/
def sampleUnclosedA2ml : Bytes := #[47, 98, 101, 103, 105, 110, 32, 65, 50, 77, 76, 32, 120]

/-- the pinned code leaves `bytepos = len + 1` and panics on `filebytes[bytepos - 1]` … -/
theorem pinned_a2ml_panics :
    Pinned.a2mlLoop sampleUnclosedA2ml 14 11 = .ok 14 ∧ Pinned.a2mlBody sampleUnclosedA2ml 11 = .panic := by
  decide +kernel

/-- … the fixed code does not -/
example : a2mlBody sampleUnclosedA2ml 11 = .ok 13 := by decide +kernel
example : tokenize sampleUnclosedA2ml = .ok
    [{ ttype := .begin, startpos := 0, endpos := 6, line := 1 },
     { ttype := .identifier, startpos := 7, endpos := 11, line := 1 },
     { ttype := .string, startpos := 11, endpos := 13, line := 1 }] := by decide +kernel

end A2l.Lex
