import A2lVerif.Gen.Shipped
import A2lVerif.Gen.Reference
import A2lVerif.Gen.CurrentDsl
/-!
# C04 (table side) — the shipped parser implements exactly the reference grammar

`Gen.Shipped.table` is reconstructed on every run from the *parser functions* of `specification.rs` (event extractor);
`Gen.Reference.table` is read by an independent reader from the frozen copy of the specification DSL
(`/verif/reference/dsl_tokens.txt`); `Gen.CurrentDsl.table` by the same reader from the DSL in `specification_orig.rs`
as it is now. Kernel-checked equalities: element kinds, block/keyword form, parameter order and types, sequences and
their stop words, every optional / required / repeatable sub-element with its version range, every enumeration value
with its version range.
-/
namespace A2l.G

theorem shipped_is_reference : Shipped.table = Reference.table := by decide +kernel

theorem current_dsl_is_reference : CurrentDsl.table = Reference.table := by decide +kernel

end A2l.G
