import A2lVerif.Lemmas.Encoding
/-!
# C17 — the loaded model does not depend on the file's text encoding

Property theorems only; model in Model/Encoding.lean (`decode_raw_bytes` cascade + BOM strip of `loader::load`).
Quantification: every A2L text (first character basic ASCII, no NUL characters — all of Unicode otherwise, any length
and therefore every length residue mod 4), all ten encodings; every byte string for totality and the Latin-1 fallback.
-/

namespace A2l.Enc

/-- UTF-32 and UTF-16 code-unit round trips, both byte orders, all of Unicode -/
theorem decode32_encode32 (be : Bool) (s : List Char) : decode32 be (encode32 be s) = some s := sorry
theorem decode16_encode16 (be : Bool) (s : List Char) : fromUtf16 (units16 be (encode16 be s)) = some s := sorry
theorem utf8_encode8 (s : List Char) : utf8? (encode8 s) = some s := sorry

/-- **Encoding independence.** For every A2L text and each of the ten encodings, what the loader hands to the
    tokenizer is the text itself. -/
theorem load_encode (e : Encoding) (s : List Char) (hs : A2lText s) : loadText (encode e s) = s := sorry

/-- the detection cascade picks the right decoder: stated per family, BOM kept by `decodeRaw`, stripped by `load` -/
theorem decodeRaw_encode_nobom (s : List Char) (hs : A2lText s) :
    decodeRaw (encode .utf8 s) = s ∧ decodeRaw (encode .utf16le s) = s ∧ decodeRaw (encode .utf16be s) = s ∧
    decodeRaw (encode .utf32le s) = s ∧ decodeRaw (encode .utf32be s) = s := sorry

theorem decodeRaw_encode_bom (s : List Char) (hs : A2lText s) :
    decodeRaw (encode .utf8Bom s) = bom :: s ∧ decodeRaw (encode .utf16leBom s) = bom :: s ∧
    decodeRaw (encode .utf16beBom s) = bom :: s ∧ decodeRaw (encode .utf32leBom s) = bom :: s ∧
    decodeRaw (encode .utf32beBom s) = bom :: s := sorry

/-- **Latin-1 fallback**: bytes that none of the Unicode decoders accepts are read as Latin-1, one character per byte. -/
theorem latin1_fallback (b : Bytes) (h32 : try32 b = none) (h16 : try16 b = none) (h8 : utf8? b = none) :
    decodeRaw b = latin1 b ∧ (decodeRaw b).length = b.length := sorry

/-- in particular: odd-length input that is not valid UTF-8 is always Latin-1 -/
theorem latin1_of_odd_invalid (b : Bytes) (hodd : b.length % 2 = 1) (h8 : utf8? b = none) :
    decodeRaw b = latin1 b := sorry

/-- **Totality** is by construction (every function of the model is total and has no `panic` outcome); what can be
    stated is that every byte string decodes to one of the four interpretations. -/
theorem decodeRaw_cases (b : Bytes) :
    (∃ s, try32 b = some s ∧ decodeRaw b = s) ∨ (∃ s, try16 b = some s ∧ decodeRaw b = s) ∨
    (∃ s, utf8? b = some s ∧ decodeRaw b = s) ∨ decodeRaw b = latin1 b := sorry

/-! ## non-vacuity: a text with non-ASCII and non-BMP characters satisfies the hypotheses -/
example : A2lText ['A', 'é', Char.ofNat 0x1F600, '"'] := sorry

/-- the hypothesis "no NUL" cannot be dropped: UTF-8 `"A\0"` is read as UTF-16 -/
theorem nul_matters : decodeRaw (encode .utf8 ['A', Char.ofNat 0]) ≠ ['A', Char.ofNat 0] := sorry

end A2l.Enc
