import A2lVerif.Lemmas.Encoding
/-!
# C17 — the loaded model does not depend on the file's text encoding

Property theorems only; model in Model/Encoding.lean (`decode_raw_bytes` cascade + BOM strip of `loader::load`).
Quantification: every A2L text (first character basic ASCII, no NUL characters — all of Unicode otherwise, any length
and therefore every length residue mod 4), all ten encodings; every byte string for totality and the Latin-1 fallback.
-/

namespace A2l.Enc

/-- UTF-32 and UTF-16 code-unit round trips, both byte orders, all of Unicode -/
theorem decode32_encode32 (be : Bool) (s : List Char) : decode32 be (encode32 be s) = some s :=
  decode32_roundtrip be s
theorem decode16_encode16 (be : Bool) (s : List Char) : fromUtf16 (units16 be (encode16 be s)) = some s :=
  decode16_roundtrip be s
theorem utf8_encode8 (s : List Char) : utf8? (encode8 s) = some s :=
  utf8_roundtrip s

/-- **Encoding independence.** For every A2L text and each of the ten encodings, what the loader hands to the
    tokenizer is the text itself. -/
theorem load_encode (e : Encoding) (s : List Char) (hs : A2lText s) : loadText (encode e s) = s := by
  unfold loadText
  cases e <;> simp only [encode]
  · rw [decodeRaw_utf8 s hs, stripBom_a2l s hs]
  · rw [decodeRaw_utf8Bom s hs, stripBom_bom]
  · rw [decodeRaw_utf16le s hs, stripBom_a2l s hs]
  · rw [decodeRaw_utf16be s hs, stripBom_a2l s hs]
  · rw [decodeRaw_utf16leBom s hs, stripBom_bom]
  · rw [decodeRaw_utf16beBom s hs, stripBom_bom]
  · rw [decodeRaw_utf32le s hs, stripBom_a2l s hs]
  · rw [decodeRaw_utf32be s hs, stripBom_a2l s hs]
  · rw [decodeRaw_utf32leBom s hs, stripBom_bom]
  · rw [decodeRaw_utf32beBom s hs, stripBom_bom]

/-- the detection cascade picks the right decoder: stated per family, BOM kept by `decodeRaw`, stripped by `load` -/
theorem decodeRaw_encode_nobom (s : List Char) (hs : A2lText s) :
    decodeRaw (encode .utf8 s) = s ∧ decodeRaw (encode .utf16le s) = s ∧ decodeRaw (encode .utf16be s) = s ∧
    decodeRaw (encode .utf32le s) = s ∧ decodeRaw (encode .utf32be s) = s :=
  ⟨decodeRaw_utf8 s hs, decodeRaw_utf16le s hs, decodeRaw_utf16be s hs, decodeRaw_utf32le s hs,
    decodeRaw_utf32be s hs⟩

theorem decodeRaw_encode_bom (s : List Char) (hs : A2lText s) :
    decodeRaw (encode .utf8Bom s) = bom :: s ∧ decodeRaw (encode .utf16leBom s) = bom :: s ∧
    decodeRaw (encode .utf16beBom s) = bom :: s ∧ decodeRaw (encode .utf32leBom s) = bom :: s ∧
    decodeRaw (encode .utf32beBom s) = bom :: s :=
  ⟨decodeRaw_utf8Bom s hs, decodeRaw_utf16leBom s hs, decodeRaw_utf16beBom s hs, decodeRaw_utf32leBom s hs,
    decodeRaw_utf32beBom s hs⟩

/-- **Latin-1 fallback**: bytes that none of the Unicode decoders accepts are read as Latin-1, one character per byte. -/
theorem latin1_fallback (b : Bytes) (h32 : try32 b = none) (h16 : try16 b = none) (h8 : utf8? b = none) :
    decodeRaw b = latin1 b ∧ (decodeRaw b).length = b.length := by
  have h : decodeRaw b = latin1 b := by simp only [decodeRaw, h32, h16, h8]
  exact ⟨h, by rw [h]; simp only [latin1, List.length_map]⟩

/-- in particular: odd-length input that is not valid UTF-8 is always Latin-1 -/
theorem latin1_of_odd_invalid (b : Bytes) (hodd : b.length % 2 = 1) (h8 : utf8? b = none) :
    decodeRaw b = latin1 b := by
  have h32 : try32 b = none := by
    unfold try32; rw [if_neg (by omega)]
  have h16 : try16 b = none := by
    unfold try16; rw [if_neg (by omega)]
  exact (latin1_fallback b h32 h16 h8).1

/-- **Totality** is by construction (every function of the model is total and has no `panic` outcome); what can be
    stated is that every byte string decodes to one of the four interpretations. -/
theorem decodeRaw_cases (b : Bytes) :
    (∃ s, try32 b = some s ∧ decodeRaw b = s) ∨ (∃ s, try16 b = some s ∧ decodeRaw b = s) ∨
    (∃ s, utf8? b = some s ∧ decodeRaw b = s) ∨ decodeRaw b = latin1 b := by
  cases h32 : try32 b with
  | some s => exact Or.inl ⟨s, rfl, decodeRaw_of_try32 b s h32⟩
  | none =>
    cases h16 : try16 b with
    | some s => exact Or.inr (Or.inl ⟨s, rfl, decodeRaw_of_try16 b s h32 h16⟩)
    | none =>
      cases h8 : utf8? b with
      | some s => exact Or.inr (Or.inr (Or.inl ⟨s, rfl, decodeRaw_of_utf8 b s h32 h16 h8⟩))
      | none => exact Or.inr (Or.inr (Or.inr (latin1_fallback b h32 h16 h8).1))

/-! ## non-vacuity: a text with non-ASCII and non-BMP characters satisfies the hypotheses -/
example : A2lText ['A', 'é', Char.ofNat 0x1F600, '"'] where
  head := ⟨'A', _, rfl, by decide, by decide⟩
  nonul := by
    intro c hc
    simp only [List.mem_cons, List.not_mem_nil, or_false] at hc
    rcases hc with rfl | rfl | rfl | rfl <;> decide

/-- the hypothesis "no NUL" cannot be dropped: UTF-8 `"A\0"` is read as UTF-16 -/
theorem nul_matters : decodeRaw (encode .utf8 ['A', Char.ofNat 0]) ≠ ['A', Char.ofNat 0] := by
  have he : encode .utf8 ['A', Char.ofNat 0] = [0x41, 0x00] := by decide
  have hd : decodeRaw [0x41, 0x00] = ['A'] := by decide
  rw [he, hd]
  intro h
  exact absurd (congrArg List.length h) (by decide)

end A2l.Enc
