import A2lVerif.Lemmas.Sort14
/-!
# C14 — sort() is a pure reordering into the documented canonical order

Property theorems only; model in Model/Sort.lean. Quantification: every module (any number of sections and elements,
any uids / lines / names, duplicates included unless stated).
-/
namespace A2l.Srt

/-- well-formedness of the model state: an `Option<T>` section holds at most one element -/
def WF (m : Module) : Prop := ∀ s ∈ m.sections, s.kind = .single → s.elems.length ≤ 1

/-- **pure reordering**: every section keeps exactly its elements (as a permutation), with unchanged tag, name and
    payload; only layout uids change. Comments are dropped (documented behaviour of `sort()`). -/
theorem sort_sections_perm (m : Module) :
    (sort m).sections.length = m.sections.length ∧
    ∀ i (h : i < m.sections.length) (h' : i < (sort m).sections.length),
      ((sort m).sections[i]).kind = (m.sections[i]).kind ∧
      (((sort m).sections[i]).elems.map Elem.key).Perm ((m.sections[i]).elems.map Elem.key) :=
  ⟨length_sortSections 1 m.sections, fun i h h' => sortSections_getElem 1 m.sections i h h'⟩

/-- after `sort()` the uids are 1, 2, 3, ... along the sections (singles consume one uid whether present or not):
    in particular non-zero and strictly increasing along the concatenation of the sections -/
theorem sort_uids_increasing (m : Module) (hwf : WF m) :
    ((sort m).all.map (·.uid)).Pairwise (· < ·) ∧ ∀ e ∈ (sort m).all, e.uid ≠ 0 := by
  have h := sortSections_uids 1 m.sections hwf
  simp only [sort, Module.all, List.append_nil]
  refine ⟨h.1, fun e he => ?_⟩
  have := h.2 e.uid (List.mem_map_of_mem he)
  omega

/-- elements whose uids are non-zero and strictly increasing along the sections are written in exactly that order
    (this is also what a reload produces: the parser numbers elements in file order) -/
theorem writeOrder_of_increasing (m : Module)
    (h : (m.all.map (·.uid)).Pairwise (· < ·)) (h0 : ∀ e ∈ m.all, e.uid ≠ 0) :
    writeOrder m = m.all := mergeSort_writerLe_of_increasing m.all h h0

/-- **the written order after sort() is the documented canonical order**: sections in sequence, names ascending
    within each named section (payloads, names, tags unchanged) -/
theorem sort_write_order (m : Module) (hwf : WF m) :
    (writeOrder (sort m)).map Elem.key = (canonical m).map Elem.key := by
  have h := sort_uids_increasing m hwf
  rw [writeOrder_of_increasing (sort m) h.1 h.2, canonical_eq]
  simp only [sort, Module.all, List.append_nil]
  exact sortSections_key 1 m.sections

/-- within a named section of the sorted module, names ascend -/
theorem sort_names_ascending (m : Module) (s : Section) (hs : s ∈ (sort m).sections) (hk : s.kind = .byName) :
    s.elems.Pairwise (fun a b => a.name ≤ b.name) := sortSections_names 1 m.sections s hs hk

/-- **sorting a second time changes nothing** -/
theorem sort_idempotent (m : Module) : sort (sort m) = sort m := by
  simp only [sort, sortSections_idem]

/-! ## non-vacuity -/
example :
    let m : Module := { sections := [⟨.single, []⟩, ⟨.keep, [⟨"IF_DATA", "#0", 9, 4, 0⟩]⟩,
        ⟨.byName, [⟨"MEASUREMENT", "b", 3, 7, 1⟩, ⟨"MEASUREMENT", "a", 0, 0, 2⟩]⟩], comments := [⟨"//", "c", 5, 6, 3⟩] }
    (writeOrder (sort m)).map (·.name) = ["#0", "a", "b"] := by
  intro m
  have hwf : WF m := by
    intro s hs hk
    simp [m] at hs
    rcases hs with rfl | rfl | rfl <;> simp at hk ⊢
  have h := sort_uids_increasing m hwf
  rw [writeOrder_of_increasing (sort m) h.1 h.2]
  have hba : ¬ ("b" ≤ "a") := by decide
  simp [m, sort, sortSections, sortSection, assignSeq, Module.all, List.mergeSort, nameLe,
    List.MergeSort.Internal.splitInTwo, hba]

end A2l.Srt
