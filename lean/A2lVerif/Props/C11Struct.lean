import A2lVerif.Lemmas.CheckerSpec
import A2lVerif.Lemmas.CheckerGroups
/-!
# C11 — check(): total, sound and complete — on the structural model of `checker.rs`

`Props/C11.lean` states soundness and completeness for the abstract reference graph. This file states the property for
`Model/Checker.lean`, the function-by-function model of `checker.rs` (which list is searched for which field, the order of
the reports, every place where the Rust code indexes or unwraps as an explicit `Out.panic`), which the correspondence
check compares with the real `check()` report by report (`chkfull`).

* `check_never_panics` — for every list of modules (any duplicates, any number of AXIS_DESCR, empty lists, no
  MOD_PAR, groups listing themselves, ...) `check` returns a report list; the three panic sites of the code —
  `strip_prefix("THIS.").unwrap()`, `.expect("all groups should be in the groupinfo map")`, `gi.parents[0]` — are
  unreachable. (`axis_refs.get(idx)` is modelled with `[idx]?`; the seeded change that turns it into `axis_refs[idx]`
  breaks the correspondence and, in the model, this theorem.)
* `reports_exactly_the_dangling_references` — the target names of the cross-reference reports of a module are, in order,
  exactly the targets of the sites of `sitesOf m` that do not resolve. `sitesOf` is the declarative specification:
  every covered reference with its target name space, the three reserved words, and the `THIS.` convention.
* corollaries `consistent_module_no_report`, `report_is_dangling` (soundness), `dangling_is_reported` (completeness),
  `one_corruption_one_report`.
* `group_structure_adds_no_other_xref` / `missing_sub_group_reported_twice`: an observation the proof exposes — a
  SUB_GROUP entry that is no GROUP is diagnosed by `check_group` and again by `check_group_structure`.
-/
namespace A2l.Chk

/-! ## the specification (definitions in `Lemmas/CheckerSpec.lean`, restated by `rfl`) -/

example (reserved target : Name) (space : List Name) :
    convSite reserved target space = ⟨target, target == reserved || space.contains target⟩ := rfl
example (target : Name) (space : List Name) : nameSite target space = ⟨target, space.contains target⟩ := rfl
example (ss : List Site) : dangling ss = (ss.filter fun x => !x.resolves).map (·.target) := rfl

/-- the objects name space: AXIS_PTS ∪ BLOB ∪ CHARACTERISTIC ∪ INSTANCE ∪ MEASUREMENT -/
example (m : Module) : m.objects =
    m.axisPts.map (·.name) ++ m.blob ++ m.characteristic.map (·.name) ++ m.instance_.map (·.name) ++
      m.measurement.map (·.name) := rfl
example (m : Module) : m.compuTabs = m.compuTab ++ m.compuVtab ++ m.compuVtabRange := rfl
example (m : Module) : m.typedefs =
    m.typedefAxis.map (·.name) ++ m.typedefBlob ++ m.typedefMeasurement.map (·.name) ++
      m.typedefCharacteristic.map (·.name) ++ m.typedefStructure.map (·.name) := rfl

/-- AXIS_DESCR: input quantity → objects (`NO_INPUT_QUANTITY`), conversion → COMPU_METHOD (`NO_COMPU_METHOD`),
    AXIS_PTS_REF / CURVE_AXIS_REF → objects or, under the `THIS.` rule, components of every containing structure -/
example (m : Module) (direct : Bool) (containing : List TypedefStructure) (ad : AxisDescr) :
    axisDescrSites m direct containing ad =
      [convSite (s "NO_INPUT_QUANTITY") ad.inputQuantity m.objects,
       convSite (s "NO_COMPU_METHOD") ad.conversion m.compuMethodNames] ++
      optThisSite ad.axisPtsRef m.objects direct containing ++ optThisSite ad.curveAxisRef m.objects direct containing := rfl

example (target : Name) (objects : List Name) (direct : Bool) (containing : List TypedefStructure) :
    thisSite target objects direct containing =
      match (if !direct && !containing.isEmpty then stripPrefix? (s "THIS.") target else none) with
      | some comp => ⟨comp, isValidStructureComponent comp containing⟩
      | none => nameSite target objects := rfl

example (m : Module) (c : Characteristic) : characteristicSites m c =
    charCommonSites m true [] c ++ optSite c.comparisonQuantity m.objects ++ listSites c.dependent m.objects ++
    listSites c.mapList m.objects ++ listSites c.virtualChar m.objects ++ listSites c.functionList m.functionNames ++
    memSegSite m c.refMemorySegment := rfl

example (m : Module) (cm : CompuMethod) : compuMethodSites m cm =
    optSite cm.compuTabRef m.compuTabs ++ optSite cm.refUnit m.unit ++ optSite cm.statusStringRef m.compuTabs := rfl

example (m : Module) (g : Group) : groupSites m g =
    listSites g.refChar m.objects ++ listSites g.refMeas m.objects ++ listSites g.functionList m.functionNames ++
    listSites g.subGroup m.groupNames := rfl

example (m : Module) (t : Transformer) : transformerSites m t =
    [convSite (s "NO_INVERSE_TRANSFORMER") t.inverse m.transformerNames] ++ listSites t.inObjects m.objects ++
    listSites t.outObjects m.objects := rfl

/-! ## the theorems -/

/-- **totality**: no panic site of `checker.rs` is reachable, for any model -/
theorem check_never_panics (ms : List Module) : ∃ r, check ms = .ok r := check_ok ms

/-- **sound and complete, with order and multiplicity**: the reported target names are exactly the targets of the covered
    reference sites that do not resolve in their target name space -/
theorem reports_exactly_the_dangling_references (m : Module) (r : List Report) (h : checkModule m = .ok r) :
    xrefTargets r = dangling (sitesOf m) := checkModule_xrefTargets m r h

/-- several modules: each module is judged against its own name spaces -/
theorem reports_per_module (ms : List Module) (r : List Report) (h : check ms = .ok r) :
    xrefTargets r = ms.flatMap fun m => dangling (sitesOf m) := by
  induction ms generalizing r with
  | nil => simp [check, forEachOut] at h; subst h; rfl
  | cons m rest ih =>
    simp only [check, forEachOut] at h
    cases hm : checkModule m with
    | panic => simp [hm] at h
    | ok r1 =>
      cases hr : forEachOut checkModule rest with
      | panic => simp [hm, hr] at h
      | ok r2 =>
        simp only [hm, hr, Out.ok.injEq] at h
        subst h
        rw [xrefTargets_append, List.flatMap_cons, checkModule_xrefTargets m r1 hm, ih r2 hr]

/-- **a fully consistent file yields no cross-reference report** -/
theorem consistent_module_no_report (m : Module) (r : List Report) (h : checkModule m = .ok r)
    (hc : ∀ st ∈ sitesOf m, st.resolves = true) : xrefTargets r = [] := by
  rw [reports_exactly_the_dangling_references m r h]
  simp only [dangling, List.map_eq_nil_iff, List.filter_eq_nil_iff]
  intro st hst
  simp [hc st hst]

/-- **soundness**: every reported name is the target of a covered reference that does not resolve -/
theorem report_is_dangling (m : Module) (r : List Report) (h : checkModule m = .ok r) (t : Name)
    (ht : t ∈ xrefTargets r) : ∃ st ∈ sitesOf m, st.resolves = false ∧ st.target = t := by
  rw [reports_exactly_the_dangling_references m r h] at ht
  simp only [dangling, List.mem_map, List.mem_filter] at ht
  obtain ⟨st, ⟨hst, hr⟩, rfl⟩ := ht
  exact ⟨st, hst, by simpa using hr, rfl⟩

/-- **completeness**: every covered reference that does not resolve is reported with its target name -/
theorem dangling_is_reported (m : Module) (r : List Report) (h : checkModule m = .ok r) (st : Site)
    (hst : st ∈ sitesOf m) (hr : st.resolves = false) : st.target ∈ xrefTargets r := by
  rw [reports_exactly_the_dangling_references m r h]
  simp only [dangling, List.mem_map, List.mem_filter]
  exact ⟨st, ⟨hst, by simp [hr]⟩, rfl⟩

/-- **one corrupted reference, one report**: if exactly one site does not resolve, the report names exactly its target -/
theorem one_corruption_one_report (m : Module) (r : List Report) (h : checkModule m = .ok r)
    (pre post : List Site) (st : Site) (hs : sitesOf m = pre ++ st :: post)
    (hpre : ∀ x ∈ pre, x.resolves = true) (hpost : ∀ x ∈ post, x.resolves = true) (hst : st.resolves = false) :
    xrefTargets r = [st.target] := by
  rw [reports_exactly_the_dangling_references m r h, hs]
  have hnil : ∀ l : List Site, (∀ x ∈ l, x.resolves = true) → dangling l = [] := by
    intro l hl
    simp only [dangling, List.map_eq_nil_iff, List.filter_eq_nil_iff]
    intro x hx
    simp [hl x hx]
  rw [dangling_append, hnil pre hpre, show st :: post = [st] ++ post from rfl, dangling_append, hnil post hpost]
  simp [dangling, hst]

/-- the cross-reference reports of `check_group_structure` are the SUB_GROUP entries that name no GROUP — the same
    sites `check_group` has already diagnosed (a missing sub-group yields two reports) -/
theorem missing_sub_group_reported_twice (m : Module) (r : List Report) (h : checkGroupStructure m.group = .ok r) :
    xrefTargets r = dangling (m.group.flatMap fun g => listSites g.subGroup m.groupNames) :=
  xt_groupStructure m r h

/-! ## the group structure test (`GroupStructureError`) -/

/-- the groups that list `k` under SUB_GROUP — once per listing, in list order -/
example (gs : List Group) (k : Name) :
    parentsOf gs k = gs.flatMap fun g => ((g.subGroup.getD []).filter (· == k)).map fun _ => g.name := rfl

/-- the verdict on one group is a function of its ROOT flag and of the groups that list it: ROOT and listed (by several /
    by one group), not ROOT and listed more than once, not ROOT and listed by nobody -/
example (name : Name) (root : Bool) (parents : List Name) : groupVerdict name root parents =
    if root && decide (parents.length > 1) then [.groupStructure name (s "root-multi") parents]
    else if root && parents.length == 1 then [.groupStructure name (s "root-one") (parents.take 1)]
    else if !root && decide (parents.length > 1) then [.groupStructure name (s "multi") parents]
    else if !root && parents.isEmpty then [.groupStructure name (s "orphan") []]
    else [] := rfl

/-- **`check_group_structure` computes exactly this** — the `HashMap` bookkeeping (insert per group, `get_mut` + push per
    SUB_GROUP entry, `get` per group) is functionally correct: the result is the missing sub-groups followed by one
    verdict per group, from the ROOT flag the map holds for the group's name (`rootOf`: with duplicate names that of the
    LAST group of the name) and the parents of that name -/
theorem group_structure_closed_form (gs : List Group) :
    checkGroupStructure gs = .ok ((groupLink gs (groupInit gs)).2 ++ gs.flatMap (verdictFor gs)) :=
  checkGroupStructure_eq gs

example (gs : List Group) (g : Group) : verdictFor gs g =
    match rootOf gs g.name with
    | some r => groupVerdict g.name r (parentsOf gs g.name)
    | none => [] := rfl

/-- with pairwise different group names every group is judged by its own ROOT flag -/
theorem group_judged_by_own_flag (gs : List Group) (hnd : (gs.map (·.name)).Nodup) (g : Group) (hg : g ∈ gs) :
    verdictFor gs g = groupVerdict g.name g.root (parentsOf gs g.name) := by
  unfold verdictFor
  rw [rootOf_of_nodup gs hnd g hg]

/-- a well-formed group forest — different names, every ROOT group listed by nobody, every other group listed exactly
    once — yields no `GroupStructureError` -/
theorem well_formed_forest_no_verdict (gs : List Group) (hnd : (gs.map (·.name)).Nodup)
    (h : ∀ g ∈ gs, (parentsOf gs g.name).length = if g.root then 0 else 1) :
    checkGroupStructure gs = .ok (groupLink gs (groupInit gs)).2 := by
  rw [group_structure_closed_form]
  congr 1
  have : gs.flatMap (verdictFor gs) = [] := by
    apply List.flatMap_eq_nil_iff.2
    intro g hg
    rw [group_judged_by_own_flag gs hnd g hg]
    have hl := h g hg
    cases hr : g.root
    · -- not ROOT: exactly one parent
      simp only [hr, Bool.false_eq_true, if_false] at hl
      rcases hp : parentsOf gs g.name with _ | ⟨p, _ | ⟨q, r⟩⟩
      · simp [hp] at hl
      · simp [groupVerdict, hp]
      · simp [hp] at hl
    · simp only [hr, if_true] at hl
      have hp : parentsOf gs g.name = [] := List.eq_nil_of_length_eq_zero hl
      simp [groupVerdict, hp]
  rw [this, List.append_nil]

/-- a group that is not ROOT and that no group lists is reported as an orphan (different names) -/
theorem orphan_is_reported (gs : List Group) (hnd : (gs.map (·.name)).Nodup) (g : Group) (hg : g ∈ gs)
    (hroot : g.root = false) (hnone : parentsOf gs g.name = []) :
    ∃ r, checkGroupStructure gs = .ok r ∧ Report.groupStructure g.name (s "orphan") [] ∈ r := by
  refine ⟨_, group_structure_closed_form gs, ?_⟩
  apply List.mem_append_right
  apply List.mem_flatMap.2
  refine ⟨g, hg, ?_⟩
  rw [group_judged_by_own_flag gs hnd g hg]
  simp [groupVerdict, hroot, hnone]

/-! ## non-vacuity: a module with one characteristic whose sixth AXIS_DESCR is a standard axis (the input that made the
    pinned tree panic), a dangling conversion, a `THIS.` reference outside a typedef, a group listing itself and a
    missing sub-group -/

def demoAxis (conv : String) : AxisDescr :=
  { attr := s "STD_AXIS", inputQuantity := s "NO_INPUT_QUANTITY", conversion := s conv, lower := 0, upper := 1,
    axisPtsRef := none, curveAxisRef := none }

def demoChar : Characteristic :=
  { name := s "c", ctype := s "CUBE_5", recordLayout := s "rl", conversion := s "NO_COMPU_METHOD", lower := 0,
    upper := 255,
    axisDescr := [demoAxis "NO_COMPU_METHOD", demoAxis "cm", demoAxis "NO_COMPU_METHOD", demoAxis "NO_COMPU_METHOD",
      demoAxis "NO_COMPU_METHOD", { (demoAxis "NO_COMPU_METHOD") with axisPtsRef := some (s "THIS.x") }] }

def demoLayout : RecordLayout :=
  { name := s "rl", fncValues := some .ubyte, axisPtsX := some .ubyte, axisPtsY := none, axisPtsZ := none,
    axisPts4 := none, axisPts5 := none }

def demoGroup : Group :=
  { name := s "g", root := true, refChar := some [s "c"], refMeas := none, functionList := none,
    subGroup := some [s "g", s "nogroup"] }

def demo : Module := { characteristic := [demoChar], recordLayout := [demoLayout], group := [demoGroup] }

example : (match checkModule demo with | .ok r => xrefTargets r | .panic => [s "PANIC"]) =
    [s "cm", s "THIS.x", s "nogroup", s "nogroup"] := by decide +kernel

example : dangling (sitesOf demo) = [s "cm", s "THIS.x", s "nogroup", s "nogroup"] := by decide +kernel

/-- the demo group lists itself and is ROOT: one parent (itself) -/
example : parentsOf demo.group (s "g") = [s "g"] ∧ rootOf demo.group (s "g") = some true := by decide +kernel

end A2l.Chk
