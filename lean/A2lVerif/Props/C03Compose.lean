import A2lVerif.Props.C03Lex
import A2lVerif.Props.C03Parse
/-!
# C03 (composition) — the tokenizer's output satisfies what the parser theorems assume

`Props/C03Parse.lean` proves that the generic parser never panics on a token array with `Tree.TokOk`.
Here `TokOk` is derived from the theorems about the tokenizer model (`Props/C03Lex.lean`: `lex_inv`, `lex_line_pos`,
`lex_comment_lines`) for any conversion `conv : Lex.Token → Tree.PTok` of byte spans to parser tokens that is
`Faithful`: it keeps line and type, gives a non-empty text to a non-empty identifier span, and decoding preserves the
number of newline characters of the span.  Corollary: tokenizer + parser never panic (`load_no_panic`).
-/
namespace A2l

/-- the conversion of a tokenizer token (a byte span of `b`) to a parser token (decoded text) is faithful.
    The clauses about the text only concern tokens with a non-empty span inside `b`. -/
structure Faithful (b : Lex.Bytes) (conv : Lex.Token → Tree.PTok) : Prop where
  line : ∀ t, (conv t).line = t.line
  ty : ∀ t, (conv t).ty = Lex.tokCode t.ttype
  ident_ne : ∀ t, t.startpos < t.endpos → t.endpos ≤ b.size → (conv t).ty = 0 → (conv t).text ≠ []
  newlines : ∀ t, t.startpos < t.endpos → t.endpos ≤ b.size →
    Tree.countNewlines (conv t).text = Lex.nlCount b t.startpos t.endpos

/-- the token type codes are those of `Tree.PTok.ty` -/
example : Lex.tokCode .identifier = 0 ∧ Lex.tokCode .begin = 1 ∧ Lex.tokCode .end_ = 2 ∧ Lex.tokCode .include = 3 ∧
    Lex.tokCode .string = 4 ∧ Lex.tokCode .number = 5 ∧ Lex.tokCode .comment = 6 := ⟨rfl, rfl, rfl, rfl, rfl, rfl, rfl⟩

/-- **the tokenizer establishes the parser's hypothesis about the tokens** -/
theorem tokOk_of_lex (b : Lex.Bytes) (ts : List Lex.Token) (h : Lex.tokenize b = .ok ts)
    (conv : Lex.Token → Tree.PTok) (hc : Faithful b conv) : Tree.TokOk (ts.map conv).toArray := by
  have hinv := Lex.lex_inv b ts h
  have hlp := Lex.lex_line_pos b ts h
  have hcl := Lex.lex_comment_lines b ts h
  have hmono := List.pairwise_iff_getElem.1 hinv.2.1
  refine ⟨?_, ?_, ?_, ?_⟩
  · intro i hi
    simp only [List.size_toArray, List.length_map] at hi
    simp only [List.getElem_toArray, List.getElem_map, hc.line]
    exact hlp _ (List.getElem_mem hi)
  · intro i j hi hj hij
    simp only [List.size_toArray, List.length_map] at hi hj
    simp only [List.getElem_toArray, List.getElem_map, hc.line]
    by_cases heq : i = j
    · subst heq; exact Nat.le_refl _
    · exact hmono i j hi hj (by omega)
  · intro i hi
    simp only [List.size_toArray, List.length_map] at hi
    simp only [List.getElem_toArray, List.getElem_map]
    exact hc.ident_ne _ (hinv.1 _ (List.getElem_mem hi)).1 (hinv.1 _ (List.getElem_mem hi)).2
  · intro i j hi hj hij hty
    simp only [List.size_toArray, List.length_map] at hi hj
    simp only [List.getElem_toArray, List.getElem_map, hc.line, hc.ty] at hty ⊢
    have hspan := hinv.1 _ (List.getElem_mem hi)
    rw [hc.newlines _ hspan.1 hspan.2]
    exact hcl i j hi hj hij (Lex.tokCode_eq_six.1 hty)

/-- **tokenizer + parser never panic**: for every byte string on which the tokenizer succeeds with at least one
    token (`load_impl` returns `EmptyFileError` otherwise), every faithful conversion of the tokens, every grammar
    table that passes `tableOk`, well-behaved `special` parsers, strict or not: `parse_file` does not panic.
    (The tokenizer itself never panics: `Lex.lex_no_panic`.) -/
theorem load_no_panic (b : Lex.Bytes) (ts : List Lex.Token) (h : Lex.tokenize b = .ok ts) (hne : ts ≠ [])
    (conv : Lex.Token → Tree.PTok) (hc : Faithful b conv)
    (e : Tree.Env) (he : e.toks = (ts.map conv).toArray)
    (ht : Tree.tableOk e.table e.known = true) (hsp : Tree.SpecialOk e) :
    Tree.runParseFile e ≠ .panic := by
  apply Tree.parseFile_no_panic e (by rw [he]; exact tokOk_of_lex b ts h conv hc) ht hsp
  rw [he]
  simp only [List.size_toArray, List.length_map]
  intro h0
  exact hne (List.eq_nil_of_length_eq_zero h0)

/-! ### non-vacuity: a faithful conversion exists -/

/-- decode a span byte by byte (Latin-1; enough to show that `Faithful` is satisfiable) -/
def convLatin1 (b : Lex.Bytes) (t : Lex.Token) : Tree.PTok :=
  { ty := Lex.tokCode t.ttype, line := t.line, sym := 0,
    text := (b.extract t.startpos t.endpos).toList.map fun c => Char.ofNat c.toNat }

theorem ofNat_eq_newline (c : UInt8) : (Char.ofNat c.toNat = '\n') ↔ c = 10 := by
  constructor
  · intro h
    have hv : c.toNat.isValidChar := Or.inl (by have := c.toNat_lt; omega)
    have h2 := congrArg Char.toNat h
    simp [Char.ofNat, hv, Char.ofNatAux, Char.toNat] at h2
    apply UInt8.toNat_inj.1
    simpa using h2
  · intro h; subst h; rfl

theorem foldl_congr_fun {α} (f g : Nat → α → Nat) (h : ∀ n a, f n a = g n a) (l : List α) (n : Nat) :
    l.foldl f n = l.foldl g n := by
  induction l generalizing n with
  | nil => rfl
  | cons a l ih => simp [List.foldl_cons, h, ih]

theorem convLatin1_faithful (b : Lex.Bytes) : Faithful b (convLatin1 b) where
  line := fun _ => rfl
  ty := fun _ => rfl
  ident_ne := by
    intro t h1 h2 _ h
    have := congrArg List.length h
    simp [convLatin1] at this
    omega
  newlines := by
    intro t h1 h2
    simp only [convLatin1, Tree.countNewlines, Lex.nlCount, List.foldl_map, ← Array.foldl_toList]
    apply foldl_congr_fun
    intro n c
    by_cases hc : c = 10
    · subst hc; rfl
    · have : ¬ Char.ofNat c.toNat = '\n' := fun h => hc ((ofNat_eq_newline c).1 h)
      simp [hc, this]

/-- the hypotheses of `tokOk_of_lex` are satisfiable: a concrete input, a concrete conversion -/
example : Tree.TokOk ((match Lex.tokenize Lex.sampleComment with | .ok ts => ts | _ => []).map
    (convLatin1 Lex.sampleComment)).toArray := by
  have h : Lex.tokenize Lex.sampleComment = .ok
      (match Lex.tokenize Lex.sampleComment with | .ok ts => ts | _ => []) := by decide +kernel
  exact tokOk_of_lex _ _ h _ (convLatin1_faithful _)

end A2l
