import A2lVerif.Lemmas.Merge
/-! C08 — merge: what happens to A's nodes, to B's nodes and to the names (model `A2l.Mg.merge`). -/
namespace A2l.Mg

/-- C08.4 `fresh_terminates`: `make_unique_name` stops at candidate number `k ≤ |orig| + |merge| + 1` (the fuel
    `|orig| + |merge| + 2` of the model is never used up: every earlier candidate was taken, the `k`-th is free), and
    the name it returns is used neither in A's nor in B's namespace. -/
theorem fresh_terminates (c : String) (orig merge : List Node) :
    ∃ k, 1 ≤ k ∧ k ≤ orig.length + merge.length + 1 ∧ makeUniqueName c orig merge = mergeName c k ∧
      (∀ j, 1 ≤ j → j < k → nameTaken orig merge (mergeName c j) = true) ∧
      nameTaken orig merge (mergeName c k) = false ∧
      makeUniqueName c orig merge ∉ orig.map (·.name) ∧ makeUniqueName c orig merge ∉ merge.map (·.name) := by
  obtain ⟨k, h1, h2, h3, h4, h5⟩ := makeUniqueName_spec c orig merge
  exact ⟨k, h1, h2, h3, h5, h4, makeUniqueName_not_mem c orig merge⟩

/-- the result does not depend on the fuel once it exceeds `|orig| + |merge|` -/
theorem fresh_fuel_irrelevant (c : String) (orig merge : List Node) (fuel : Nat) (h : orig.length + merge.length + 1 ≤ fuel) :
    uniqueLoop (nameTaken orig merge) c fuel 1 = makeUniqueName c orig merge := by
  obtain ⟨k, h1, h2, _, h4, _⟩ := makeUniqueName_spec c orig merge
  exact uniqueLoop_fuel_irrelevant _ c _ _ 1 k h1 (by omega) (by omega) h4

/-- the candidates are pairwise different, also across base names (injectivity of the renaming) -/
theorem fresh_injective {c₁ c₂ : String} {i j : Nat} (hi : 1 ≤ i) (hj : 1 ≤ j) (h : mergeName c₁ i = mergeName c₂ j) :
    c₁ = c₂ ∧ i = j := by
  have := mergeName_base_inj h
  subst this
  exact ⟨rfl, mergeName_inj hi hj h⟩

/-- C08.1 `a_preserved`: the result is `A' ++ new` where `A'` is A node by node: same tag and name; the references
    are unchanged except that FUNCTION and GROUP nodes may gain some at the end; the hash is unchanged except for a
    MOD_PAR that received parts of B's MOD_PAR (`"*"` = unknown). -/
theorem a_preserved (a b : Module) : ∃ A' new, merge a b = A' ++ new ∧ Pointwise Pres a A' :=
  ext_mergeSt a b

/-- in particular every node of A outside FUNCTION / GROUP / MOD_PAR is a node of the result, unchanged -/
theorem a_preserved_plain (a b : Module) (n : Node) (hn : n ∈ a) (h1 : n.tag ≠ "FUNCTION") (h2 : n.tag ≠ "GROUP")
    (h3 : n.tag ≠ "MOD_PAR") : n ∈ merge a b := by
  obtain ⟨A', new, e, hp⟩ := ext_mergeSt a b
  obtain ⟨n', hn', hpres⟩ := hp.mem_left hn
  have := hpres.eq_of_plain h1 h2 h3
  show n ∈ (mergeSt a b).a
  rw [e]; exact List.mem_append_left _ (this ▸ hn')

/-- and A's nodes keep their positions -/
theorem a_preserved_length (a b : Module) : a.length ≤ (merge a b).length := by
  obtain ⟨A', new, e, hp⟩ := ext_mergeSt a b
  show a.length ≤ (mergeSt a b).a.length
  rw [e, List.length_append, ← hp.length_eq]; omega

/-- C08.3 `names_unique`: names unique per namespace in A and in B ⟹ unique per namespace in the result -/
theorem names_unique (a b : Module) (ha : UniqueNames a) (hb : UniqueNames b) : UniqueNames (merge a b) :=
  (nuinv_mergeSt ha hb).ua

/-- C08.2 `b_represented`: (names unique per namespace in A and in B) every node `x` of B in one of the namespaces with
    `calculate_item_actions` (UNIT, COMPU_TAB/VTAB/VTAB_RANGE, COMPU_METHOD, RECORD_LAYOUT, the objects, the typedefs, FRAME,
    TRANSFORMER) has a representative `y` in the result with `x`'s tag and hash, whose name is `rep … x.name`: `x.name` itself
    or a fresh `x.name.MERGE<k>`; `y` is either
    * a node of A with `x`'s name which is identical to `x` as it was when compared (`renAll ps x`: `x` after the renames `ps`
      made by the passes before the comparison), or
    * an added node (its name is not a name of A's namespace) carrying `x`'s references after all renames. -/
theorem b_represented (a b : Module) (ha : UniqueNames a) (hb : UniqueNames b) (ns : Ns) (hns : ns.std)
    (x : Node) (hx : x ∈ b) (hxt : x.tag ∈ ns.tags) :
    ∃ y ∈ merge a b, y.tag = x.tag ∧ y.hash = x.hash ∧ y.name = rep (mergeSt a b).plans ns x.name ∧
      (y.name = x.name ∨ ∃ k, 1 ≤ k ∧ y.name = mergeName x.name k) ∧
      ((y ∈ a ∧ y.name = x.name ∧ ∃ ps, ps <:+ (mergeSt a b).plans ∧ y = renAll ps x) ∨
       (y.name ∉ names ns a ∧ y.refs = (renAll (mergeSt a b).plans x).refs)) :=
  (minv_mergeSt ha hb).rep ns (std_mem_finalKeys hns) (tags_mem_finalMoved ns) x hx hxt

/-- FUNCTION and GROUP are merged by name: every FUNCTION / GROUP of B has a node of its kind and name in the result
    (A's node of that name, possibly with more references, or B's node). More generally the own name of every named node of
    B stays defined in its namespace. -/
theorem b_represented_by_name (a b : Module) (ha : UniqueNames a) (hb : UniqueNames b) (ns : Ns)
    (x : Node) (hx : x ∈ b) (hxt : x.tag ∈ ns.tags) : ∃ z ∈ merge a b, z.tag ∈ ns.tags ∧ z.name = x.name :=
  (minv_mergeSt ha hb).own ns (tags_mem_finalMoved ns) x hx hxt

/-- Without unique names in B the statement is false: of two B-elements with one name only the last decides whether
    "the name" is added; here the first one (hash `h1`) is lost. -/
theorem b_represented_counterexample :
    let a : Module := [⟨"MEASUREMENT", "x", "h2", []⟩]
    let b : Module := [⟨"MEASUREMENT", "x", "h1", []⟩, ⟨"MEASUREMENT", "x", "h2", []⟩]
    merge a b = a ∧ ¬ ∃ y ∈ merge a b, y.hash = "h1" := by decide

/-- C08.5 `merge_empty_right` -/
theorem merge_empty_right (a : Module) : merge a [] = a := mergeSt_empty_right a

/-- C08.5 `merge_self` (names unique per namespace) -/
theorem merge_self (a : Module) (ha : UniqueNames a) : merge a a = a := mergeSt_self a ha

/-- without unique names `merge A A = A` fails: the second `x` is compared with the first one and marks the name `x` as
    "rename and add"; the first `x` of B takes the new name (`rename_table.remove`), the second is added under its old name -/
theorem merge_self_counterexample :
    let a : Module := [⟨"MEASUREMENT", "x", "h1", []⟩, ⟨"MEASUREMENT", "x", "h2", []⟩]
    merge a a = a ++ [⟨"MEASUREMENT", "x.MERGE", "h1", []⟩, ⟨"MEASUREMENT", "x", "h2", []⟩] := by decide

/-- C08.5 `merge_empty_left`: merging into the empty module gives B's nodes, kind by kind in the order of the passes
    (`finalMoved`), provided B is well-formed (`WellFormedB`). Nodes of kinds that `merge_modules` does not handle are dropped
    (they do not occur in `finalMoved`). -/
theorem merge_empty_left (b : Module) (hw : WellFormedB b) : merge [] b = byKinds finalMoved b :=
  mergeSt_empty_left b hw

/-- … so the result is a permutation of B when all kinds of B are handled -/
theorem merge_empty_left_perm (b : Module) (hw : WellFormedB b) (hk : ∀ n ∈ b, n.tag ∈ finalMoved) :
    (merge [] b).Perm b := by
  rw [merge_empty_left b hw]
  have hnd : finalMoved.Nodup := by decide
  have := flatMap_filter_perm b finalMoved hnd
  refine this.trans (List.Perm.of_eq ?_)
  apply List.filter_eq_self.mpr
  intro n hn
  simpa [hasTag] using hk n hn

/-- the unrestricted statement is false: a second USER_RIGHTS with the same `user_level_id` (hash) is dropped, as is a
    second MOD_COMMON, and a kind unknown to `merge_modules` -/
theorem merge_empty_left_counterexample :
    merge [] [⟨"USER_RIGHTS", "", "h", []⟩, ⟨"USER_RIGHTS", "", "h", [⟨"RefGroup.identifier_list", "g"⟩]⟩] =
      [⟨"USER_RIGHTS", "", "h", []⟩] ∧
    merge [] [⟨"MOD_COMMON", "", "h1", []⟩, ⟨"MOD_COMMON", "", "h2", []⟩] = [⟨"MOD_COMMON", "", "h1", []⟩] ∧
    merge [] [⟨"FOO", "x", "h", []⟩] = [] := by decide

/-! non-vacuity -/

/-- a conflict in a shared namespace across kinds, with a pre-existing `x.MERGE`: the hypotheses hold and a rename to
    `x.MERGE2` happens -/
example :
    let a : Module := [⟨"MEASUREMENT", "x", "h1", []⟩, ⟨"BLOB", "x.MERGE", "h0", []⟩]
    let b : Module := [⟨"CHARACTERISTIC", "x", "h2", []⟩, ⟨"FUNCTION", "f", "h3", [⟨"RefCharacteristic.identifier_list", "x"⟩]⟩]
    UniqueNames a ∧ UniqueNames b ∧
    merge a b = a ++ [⟨"CHARACTERISTIC", "x.MERGE2", "h2", []⟩,
                      ⟨"FUNCTION", "f", "h3", [⟨"RefCharacteristic.identifier_list", "x.MERGE2"⟩]⟩] :=
  ⟨uniqueNames_of_check (by decide), uniqueNames_of_check (by decide), by decide⟩

end A2l.Mg
