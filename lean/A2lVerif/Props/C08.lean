import A2lVerif.Lemmas.Merge
/-! C08 — merge: what happens to A's nodes, to B's nodes and to the names (model `A2l.Mg.merge`). -/
namespace A2l.Mg

/-- C08.4 `fresh_terminates`: `make_unique_name` stops at candidate number `k ≤ |orig| + |merge| + 1` (the fuel
    `|orig| + |merge| + 2` of the model is never used up: every earlier candidate was taken, the `k`-th is free), and
    the name it returns is used neither in A's nor in B's namespace. -/
theorem fresh_terminates (c : String) (orig merge : List Node) :
    ∃ k, 1 ≤ k ∧ k ≤ orig.length + merge.length + 1 ∧ makeUniqueName c orig merge = mergeName c k ∧
      (∀ j, 1 ≤ j → j < k → nameTaken orig merge (mergeName c j) = true) ∧
      nameTaken orig merge (mergeName c k) = false ∧
      makeUniqueName c orig merge ∉ orig.map (·.name) ∧ makeUniqueName c orig merge ∉ merge.map (·.name) := by
  obtain ⟨k, h1, h2, h3, h4, h5⟩ := makeUniqueName_spec c orig merge
  exact ⟨k, h1, h2, h3, h5, h4, makeUniqueName_not_mem c orig merge⟩

/-- the result does not depend on the fuel once it exceeds `|orig| + |merge|` -/
theorem fresh_fuel_irrelevant (c : String) (orig merge : List Node) (fuel : Nat) (h : orig.length + merge.length + 1 ≤ fuel) :
    uniqueLoop (nameTaken orig merge) c fuel 1 = makeUniqueName c orig merge := by
  obtain ⟨k, h1, h2, _, h4, _⟩ := makeUniqueName_spec c orig merge
  exact uniqueLoop_fuel_irrelevant _ c _ _ 1 k h1 (by omega) (by omega) h4

/-- the candidates are pairwise different, also across base names (injectivity of the renaming) -/
theorem fresh_injective {c₁ c₂ : String} {i j : Nat} (hi : 1 ≤ i) (hj : 1 ≤ j) (h : mergeName c₁ i = mergeName c₂ j) :
    c₁ = c₂ ∧ i = j := by
  have := mergeName_base_inj h
  subst this
  exact ⟨rfl, mergeName_inj hi hj h⟩

/-- C08.1 `a_preserved`: the result is `A' ++ new` where `A'` is A node by node: same tag and name; the references
    are unchanged except that FUNCTION and GROUP nodes may gain some at the end; the hash is unchanged except for a
    MOD_PAR that received parts of B's MOD_PAR (`"*"` = unknown). -/
theorem a_preserved (a b : Module) : ∃ A' new, merge a b = A' ++ new ∧ Pointwise Pres a A' :=
  ext_mergeSt a b

/-- in particular every node of A outside FUNCTION / GROUP / MOD_PAR is a node of the result, unchanged -/
theorem a_preserved_plain (a b : Module) (n : Node) (hn : n ∈ a) (h1 : n.tag ≠ "FUNCTION") (h2 : n.tag ≠ "GROUP")
    (h3 : n.tag ≠ "MOD_PAR") : n ∈ merge a b := by
  obtain ⟨A', new, e, hp⟩ := ext_mergeSt a b
  obtain ⟨n', hn', hpres⟩ := hp.mem_left hn
  have := hpres.eq_of_plain h1 h2 h3
  show n ∈ (mergeSt a b).a
  rw [e]; exact List.mem_append_left _ (this ▸ hn')

/-- and A's nodes keep their positions -/
theorem a_preserved_length (a b : Module) : a.length ≤ (merge a b).length := by
  obtain ⟨A', new, e, hp⟩ := ext_mergeSt a b
  show a.length ≤ (mergeSt a b).a.length
  rw [e, List.length_append, ← hp.length_eq]; omega

/-- C08.3 `names_unique`: names unique per namespace in A and in B ⟹ unique per namespace in the result -/
theorem names_unique (a b : Module) (ha : UniqueNames a) (hb : UniqueNames b) : UniqueNames (merge a b) :=
  (nuinv_mergeSt ha hb).ua

/-- C08.2 `b_represented`: (names unique per namespace in A and in B) every node `x` of B in one of the namespaces with
    `calculate_item_actions` (UNIT, COMPU_TAB/VTAB/VTAB_RANGE, COMPU_METHOD, RECORD_LAYOUT, the objects, the typedefs, FRAME,
    TRANSFORMER) has a representative `y` in the result with `x`'s tag and hash, whose name is `rep … x.name`: `x.name` itself
    or a fresh `x.name.MERGE<k>`; `y` carries `x`'s references after ALL renames (so it is identical to `x` as B's module
    finally describes it), and it is either a node of A with `x`'s name or an added node whose name is not a name of A's
    namespace. (With the fixpoint loops of the fixed code the comparison happens after all renames; the old statement —
    identical to `renAll ps x` for a suffix `ps` of the log — follows with `ps` = the whole log.) -/
theorem b_represented (a b : Module) (ha : UniqueNames a) (hb : UniqueNames b) (ns : Ns) (hns : ns.std)
    (x : Node) (hx : x ∈ b) (hxt : x.tag ∈ ns.tags) :
    ∃ y ∈ merge a b, y.tag = x.tag ∧ y.hash = x.hash ∧ y.name = rep (mergeSt a b).plans ns x.name ∧
      (y.name = x.name ∨ ∃ k, 1 ≤ k ∧ y.name = mergeName x.name k) ∧
      y.refs = (renAll (mergeSt a b).plans x).refs ∧
      ((y ∈ a ∧ y.name = x.name) ∨ y.name ∉ names ns a) := by
  obtain ⟨sv, h⟩ := minv_mergeSt ha hb
  exact h.rep ns (std_mem_finalKeys hns) (tags_mem_finalMoved ns) x hx hxt

theorem node_ext {x y : Node} (h1 : x.tag = y.tag) (h2 : x.name = y.name) (h3 : x.hash = y.hash) (h4 : x.refs = y.refs) :
    x = y := by
  cases x; cases y; simp_all

/-- the statement of the previous round (before the fix), verbatim: it still holds -/
theorem b_represented_old_form (a b : Module) (ha : UniqueNames a) (hb : UniqueNames b) (ns : Ns) (hns : ns.std)
    (x : Node) (hx : x ∈ b) (hxt : x.tag ∈ ns.tags) :
    ∃ y ∈ merge a b, y.tag = x.tag ∧ y.hash = x.hash ∧ y.name = rep (mergeSt a b).plans ns x.name ∧
      (y.name = x.name ∨ ∃ k, 1 ≤ k ∧ y.name = mergeName x.name k) ∧
      ((y ∈ a ∧ y.name = x.name ∧ ∃ ps, ps <:+ (mergeSt a b).plans ∧ y = renAll ps x) ∨
       (y.name ∉ names ns a ∧ y.refs = (renAll (mergeSt a b).plans x).refs)) := by
  obtain ⟨y, hy, h1, h2, h3, h4, h5, h6⟩ := b_represented a b ha hb ns hns x hx hxt
  refine ⟨y, hy, h1, h2, h3, h4, ?_⟩
  rcases h6 with ⟨h6a, h6b⟩ | h6
  · exact .inl ⟨h6a, h6b, _, List.suffix_refl _, node_ext h1 h6b h2 h5⟩
  · exact .inr ⟨h6, h5⟩

/-- FUNCTION and GROUP are merged by name: every FUNCTION / GROUP of B has a node of its kind and name in the result
    (A's node of that name, possibly with more references, or B's node). More generally the own name of every named node of
    B stays defined in its namespace. -/
theorem b_represented_by_name (a b : Module) (ha : UniqueNames a) (hb : UniqueNames b) (ns : Ns)
    (x : Node) (hx : x ∈ b) (hxt : x.tag ∈ ns.tags) : ∃ z ∈ merge a b, z.tag ∈ ns.tags ∧ z.name = x.name := by
  obtain ⟨sv, h⟩ := minv_mergeSt ha hb
  exact h.own ns (tags_mem_finalMoved ns) x hx hxt

/-- Without unique names in B the statement is false in the namespaces with a single round (here COMPU_METHOD): of two
    B-elements with one name only the last decides whether "the name" is added; the first one (hash `h1`) is lost.
    In the namespaces with the loop the forcing step adds it (renamed) — and the second one once more under its old name. -/
theorem b_represented_counterexample :
    (let a : Module := [⟨"COMPU_METHOD", "x", "h2", []⟩]
     let b : Module := [⟨"COMPU_METHOD", "x", "h1", []⟩, ⟨"COMPU_METHOD", "x", "h2", []⟩]
     merge a b = a ∧ ¬ ∃ y ∈ merge a b, y.hash = "h1") ∧
    (let a : Module := [⟨"MEASUREMENT", "x", "h2", []⟩]
     let b : Module := [⟨"MEASUREMENT", "x", "h1", []⟩, ⟨"MEASUREMENT", "x", "h2", []⟩]
     merge a b = a ++ [⟨"MEASUREMENT", "x.MERGE", "h1", []⟩, ⟨"MEASUREMENT", "x", "h2", []⟩]) := by decide

/-- C08.5 `merge_empty_right` -/
theorem merge_empty_right (a : Module) : merge a [] = a := mergeSt_empty_right a

/-- C08.5 `merge_self` (names unique per namespace) -/
theorem merge_self (a : Module) (ha : UniqueNames a) : merge a a = a := mergeSt_self a ha

/-- without unique names `merge A A = A` fails: the second `x` is compared with the first one and marks the name `x` as
    "rename and add"; the first `x` of B takes the new name (`rename_table.remove`), the second is added under its old name -/
theorem merge_self_counterexample :
    let a : Module := [⟨"MEASUREMENT", "x", "h1", []⟩, ⟨"MEASUREMENT", "x", "h2", []⟩]
    merge a a = a ++ [⟨"MEASUREMENT", "x.MERGE", "h1", []⟩, ⟨"MEASUREMENT", "x", "h2", []⟩] := by decide

/-- C08.5 `merge_empty_left`: merging into the empty module gives B's nodes, kind by kind in the order of the passes
    (`finalMoved`), provided B is well-formed (`WellFormedB`). Nodes of kinds that `merge_modules` does not handle are dropped
    (they do not occur in `finalMoved`). -/
theorem merge_empty_left (b : Module) (hw : WellFormedB b) : merge [] b = byKinds finalMoved b :=
  mergeSt_empty_left b hw

/-- … so the result is a permutation of B when all kinds of B are handled -/
theorem merge_empty_left_perm (b : Module) (hw : WellFormedB b) (hk : ∀ n ∈ b, n.tag ∈ finalMoved) :
    (merge [] b).Perm b := by
  rw [merge_empty_left b hw]
  have hnd : finalMoved.Nodup := by decide
  have := flatMap_filter_perm b finalMoved hnd
  refine this.trans (List.Perm.of_eq ?_)
  apply List.filter_eq_self.mpr
  intro n hn
  simpa [hasTag] using hk n hn

/-- the unrestricted statement is false: a second USER_RIGHTS with the same `user_level_id` (hash) is dropped, as is a
    second MOD_COMMON, and a kind unknown to `merge_modules` -/
theorem merge_empty_left_counterexample :
    merge [] [⟨"USER_RIGHTS", "", "h", []⟩, ⟨"USER_RIGHTS", "", "h", [⟨"RefGroup.identifier_list", "g"⟩]⟩] =
      [⟨"USER_RIGHTS", "", "h", []⟩] ∧
    merge [] [⟨"MOD_COMMON", "", "h1", []⟩, ⟨"MOD_COMMON", "", "h2", []⟩] = [⟨"MOD_COMMON", "", "h1", []⟩] ∧
    merge [] [⟨"FOO", "x", "h", []⟩] = [] := by decide

/-! non-vacuity -/

-- a conflict in a shared namespace across kinds, with a pre-existing `x.MERGE`: the hypotheses hold and a rename to
-- `x.MERGE2` happens
set_option maxRecDepth 4000 in
example :
    let a : Module := [⟨"MEASUREMENT", "x", "h1", []⟩, ⟨"BLOB", "x.MERGE", "h0", []⟩]
    let b : Module := [⟨"CHARACTERISTIC", "x", "h2", []⟩, ⟨"FUNCTION", "f", "h3", [⟨"RefCharacteristic.identifier_list", "x"⟩]⟩]
    UniqueNames a ∧ UniqueNames b ∧
    merge a b = a ++ [⟨"CHARACTERISTIC", "x.MERGE2", "h2", []⟩,
                      ⟨"FUNCTION", "f", "h3", [⟨"RefCharacteristic.identifier_list", "x.MERGE2"⟩]⟩] :=
  ⟨uniqueNames_of_check (by decide), uniqueNames_of_check (by decide), by decide⟩

/-! ### the fixpoint loops of `merge_unit`, `merge_objects`, `merge_transformer` -/

/-- `actions_fixpoint_terminates`: with the fuel `Σ |items of B in the namespaces of the loop| + 1` that `planLoop` passes,
    the loop ends by itself: it makes `k ≤ fuel` rounds (`loopRounds` counts them with the same fuel and does not return
    `none`), more fuel does not change the result, and the result is a fixpoint — computing the actions once more on the final
    merge module yields no rename that is not already in the accumulated table. -/
theorem actions_fixpoint_terminates (a b : Module) (nss : List Ns) (hn : nss.Nodup) :
    (∃ k, loopRounds a nss (loopFuel nss b) b (fun _ => []) = some k ∧ 1 ≤ k ∧ k ≤ loopFuel nss b) ∧
    (∀ extra, fixLoop a nss (loopFuel nss b + extra) b (fun _ => []) = fixLoop a nss (loopFuel nss b) b (fun _ => [])) ∧
    (∀ ns ∈ nss, ∀ k v,
      (calcActions (nsNodes ns a) (nsNodes ns (fixLoop a nss (loopFuel nss b) b (fun _ => [])).1)).ren.get k = some v →
      (((fixLoop a nss (loopFuel nss b) b (fun _ => [])).2 ns).ren.get k).isSome = true) := by
  have hli := li_init a b nss
  have hfuel := loopMeasure_le_fuel b nss (fun _ => [])
  refine ⟨?_, ?_, ?_⟩
  · obtain ⟨k, hk, h1, h2⟩ := loopRounds_spec hn (loopFuel nss b) b (fun _ => []) hli hfuel
    exact ⟨k, hk, h1, by omega⟩
  · intro extra
    exact fixLoop_fuel_irrelevant hn _ _ b _ hli (by omega) hfuel
  · exact (fixLoop_spec hn (loopFuel nss b) b (fun _ => []) hli hfuel).1.conf

/-- the loops used by `merge_modules`: UNIT; objects + typedefs; TRANSFORMER -/
theorem actions_fixpoint_terminates_used :
    [Ns.unit].Nodup ∧ [Ns.object, Ns.typedef].Nodup ∧ [Ns.transformer].Nodup := by decide

/-- `renamed_are_merged`: after the plan step of a loop every name in the rename table has action `true` (the forcing step),
    so an element whose references were redirected to a new name is merged under that name -/
theorem renamed_are_merged (nss : List Ns) (hn : nss.Nodup) (st : St) (ns : Ns) (hns : ns ∈ nss) (n : String)
    (h : (((planLoop nss st).plan ns).ren.get n).isSome = true) : ((planLoop nss st).plan ns).act.get n = some true := by
  have hs := planLoop_spec nss hn st
  rw [St.plan_planEntries hs.plans_eq, if_pos hns] at h ⊢
  rw [hs.act ns hns n, h]; rfl

/-- The forcing step is needed: here A's `u` refers to a (dangling) `v.MERGE`. Round 1 renames B's `u` and `v` (both
    differ from A's), which turns B's `u` into a twin of A's `u`: the last round (the second) gives `u` the action `false`,
    although the references to `u` were redirected to `u.MERGE`; the forcing step adds it. (A has a dangling reference
    here; the loop itself makes 2 rounds.) -/
theorem renamed_are_merged_needed :
    let a : Module := [⟨"UNIT", "u", "h", [⟨"RefUnit.unit", "v.MERGE"⟩]⟩, ⟨"UNIT", "v", "h1", []⟩]
    let b : Module := [⟨"UNIT", "u", "h", [⟨"RefUnit.unit", "v"⟩]⟩, ⟨"UNIT", "v", "h2", []⟩]
    let res := fixLoop a [.unit] (loopFuel [.unit] b) b (fun _ => [])
    loopRounds a [.unit] (loopFuel [.unit] b) b (fun _ => []) = some 2 ∧
    (res.2 .unit).ren.get "u" = some "u.MERGE" ∧
    (calcActions (nsNodes .unit a) (nsNodes .unit res.1)).act.get "u" = some false ∧
    (res.2 .unit).act.get "u" = some true ∧
    merge a b = a ++ [⟨"UNIT", "u.MERGE", "h", [⟨"RefUnit.unit", "v.MERGE"⟩]⟩, ⟨"UNIT", "v.MERGE", "h2", []⟩] :=
  ⟨by decide, by decide, by decide, by decide, by decide⟩

end A2l.Mg
