import A2lVerif.Lemmas.Limits
/-!
# C12 — check(): limit plausibility follows data type and conversion

Property theorems only; model in Model/Limits.lean (exact rational arithmetic). Quantification: all 11 data types,
all coefficients in ℚ, all declared limits.
-/

namespace A2l.Lim

theorem datatypeLimits_le (dt : DataType) : (datatypeLimits dt).1 ≤ (datatypeLimits dt).2 := datatypeLimits_fst_le_snd dt

/-- identity and table conversions, and a missing / unresolved conversion: the raw range of the data type -/
theorem direct_range (dt : DataType) :
    calcLimits .direct dt = some (datatypeLimits dt) ∧ calcLimits .absent dt = some (datatypeLimits dt) := ⟨calcLimits_direct dt, calcLimits_absent dt⟩

/-- **LINEAR a·x+b, either sign of a**: the calculated limits are exactly the minimum and the maximum of a·x+b over
    the raw range of the data type. -/
theorem linear_range (a b : Rat) (dt : DataType) :
    ∃ L U, calcLimits (.linear (some (a, b))) dt = some (L, U) ∧
      (∀ x, (datatypeLimits dt).1 ≤ x → x ≤ (datatypeLimits dt).2 → L ≤ a * x + b ∧ a * x + b ≤ U) ∧
      (∃ x, (datatypeLimits dt).1 ≤ x ∧ x ≤ (datatypeLimits dt).2 ∧ a * x + b = L) ∧
      (∃ x, (datatypeLimits dt).1 ≤ x ∧ x ≤ (datatypeLimits dt).2 ∧ a * x + b = U) := by
  rw [calcLimits_linear]
  exact linear_interval a b _ _ (datatypeLimits_fst_le_snd dt)

/-- **linear special case of RAT_FUNC** (INT = (b·PHYS + c)/f, inverted): the calculated limits bound exactly the
    physical values whose raw value lies in the raw range. -/
theorem ratfunc_linear_range (b c f : Rat) (hb : b ≠ 0) (hf : f ≠ 0) (dt : DataType) :
    ∃ L U, calcLimits (.ratFunc (some (0, b, c, 0, 0, f))) dt = some (L, U) ∧
      ∀ x, ((datatypeLimits dt).1 ≤ (b * x + c) / f ∧ (b * x + c) / f ≤ (datatypeLimits dt).2) ↔ (L ≤ x ∧ x ≤ U) := by
  rw [calcLimits_ratFunc_linear b c f hb hf]
  exact ratfunc_interval b c f _ _ hb hf (datatypeLimits_fst_le_snd dt)

/-- **the decision**, for each of the five carriers: an error is reported exactly when a declared limit lies outside
    the calculated range by more than the relative tolerance. -/
theorem error_iff (carrier : Carrier) (conv : Conv) (dt : DataType)
    (ex cl : Rat × Rat) (h : calcLimits conv dt = some cl) :
    reportsError carrier conv dt ex = some true ↔
      (ex.1 < cl.1 - ratAbs (cl.1 * tol) ∨ ex.2 > cl.2 + ratAbs (cl.2 * tol)) := by
  rw [reportsError_of_calc carrier conv dt ex cl h, ← limitsValid_eq_false_iff]
  simp

/-- TYPEDEF_MEASUREMENT decides like MEASUREMENT (it compared without tolerance before the fix recorded in
    DESIGN 9.4: declared limits outside the range by less than the tolerance were reported for this carrier only) -/
theorem typedef_measurement_same_decision (conv : Conv) (dt : DataType) (ex : Rat × Rat) :
    reportsError .typedefMeasurement conv dt ex = reportsError .measurement conv dt ex := by
  unfold reportsError
  cases calcLimits conv dt <;> rfl

/-- the comparison without tolerance is the stricter one: whatever it accepts, the tolerant one accepts; and the two
    differ (UBYTE range 0..255, declared upper limit 255.0001) -/
theorem strict_implies_tolerant (ex cl : Rat × Rat) (h : limitsValidStrict ex cl = true) : limitsValid ex cl = true := by
  rw [← Bool.not_eq_false, limitsValid_eq_false_iff]
  rw [← Bool.not_eq_false, limitsValidStrict_eq_false_iff] at h
  rintro (h1 | h1)
  · exact h (.inl (by linarith [ratAbs_nonneg (cl.1 * tol)]))
  · exact h (.inr (by linarith [ratAbs_nonneg (cl.2 * tol)]))

theorem tolerant_not_strict :
    limitsValid (0, 2550001 / 10000) (0, 255) = true ∧ limitsValidStrict (0, 2550001 / 10000) (0, 255) = false := by
  decide +kernel

/-- declared limits inside the calculated range never cause an error, for any carrier -/
theorem inside_no_error (carrier : Carrier) (conv : Conv) (dt : DataType) (ex cl : Rat × Rat)
    (h : calcLimits conv dt = some cl) (h1 : cl.1 ≤ ex.1) (h2 : ex.2 ≤ cl.2) :
    reportsError carrier conv dt ex = some false := by
  rw [reportsError_of_calc carrier conv dt ex cl h]
  have hv : limitsValid ex cl = true := by
    rw [← Bool.not_eq_false, limitsValid_eq_false_iff]
    rintro (h | h)
    · linarith [ratAbs_nonneg (cl.1 * tol)]
    · linarith [ratAbs_nonneg (cl.2 * tol)]
  simp [hv]

/-- declared limits outside by more than the tolerance always cause an error, for any carrier -/
theorem outside_error (carrier : Carrier) (conv : Conv) (dt : DataType) (ex cl : Rat × Rat)
    (h : calcLimits conv dt = some cl)
    (hout : ex.1 < cl.1 - ratAbs (cl.1 * tol) ∨ ex.2 > cl.2 + ratAbs (cl.2 * tol)) :
    reportsError carrier conv dt ex = some true := by
  rw [reportsError_of_calc carrier conv dt ex cl h]
  have hv : limitsValid ex cl = false := (limitsValid_eq_false_iff ex cl).2 hout
  simp [hv]

/-- **conversions that are not evaluated (FORM, general RAT_FUNC) never cause a limit error**, for any declared
    limits representable as finite `f64` values. General = everything but the invertible linear case `(b·x + c) / f` with
    `b ≠ 0` and `f ≠ 0`: the constant function `b = 0` included (see `constant_ratfunc_never_errors`). -/
theorem not_evaluated_never_errors (carrier : Carrier) (dt : DataType) (ex : Rat × Rat)
    (h1 : -maxF64 ≤ ex.1) (h2 : ex.2 ≤ maxF64) :
    reportsError carrier .form dt ex = some false ∧
    ∀ a b c d e f : Rat, ¬(a = 0 ∧ d = 0 ∧ e = 0 ∧ f ≠ 0 ∧ b ≠ 0) →
      reportsError carrier (.ratFunc (some (a, b, c, d, e, f))) dt ex = some false := 
  ⟨inside_no_error carrier .form dt ex _ (calcLimits_form dt) h1 h2,
   fun a b c d e f hn =>
    inside_no_error carrier _ dt ex _ (calcLimits_ratFunc_general a b c d e f dt hn) h1 h2⟩

/-- `COEFFS 0 0 c 0 0 f` (a constant; nothing to invert) is not evaluated: no limit error whatever is declared. Before the
    fix recorded in DESIGN 9.4 the code divided by `b = 0` here and reported every declared pair against NaN limits. -/
theorem constant_ratfunc_never_errors (carrier : Carrier) (dt : DataType) (c f : Rat) (ex : Rat × Rat)
    (h1 : -maxF64 ≤ ex.1) (h2 : ex.2 ≤ maxF64) :
    reportsError carrier (.ratFunc (some (0, 0, c, 0, 0, f))) dt ex = some false :=
  (not_evaluated_never_errors carrier dt ex h1 h2).2 0 0 c 0 0 f (fun h => h.2.2.2.2 rfl)

/-- the model never answers "cannot follow" any more -/
theorem calcLimits_total (conv : Conv) (dt : DataType) : ∃ cl, calcLimits conv dt = some cl := by
  rcases h : datatypeLimits dt with ⟨lo, hi⟩
  cases conv with
  | absent => exact ⟨_, rfl⟩
  | direct => exact ⟨_, rfl⟩
  | form => exact ⟨_, rfl⟩
  | linear o =>
    cases o with
    | none => exact ⟨_, rfl⟩
    | some p =>
      obtain ⟨a, b⟩ := p
      rw [calcLimits_linear]
      split <;> exact ⟨_, rfl⟩
  | ratFunc o =>
    cases o with
    | none => exact ⟨_, rfl⟩
    | some p =>
      obtain ⟨a, b, c, d, e, f⟩ := p
      by_cases hc : a = 0 ∧ d = 0 ∧ e = 0 ∧ f ≠ 0 ∧ b ≠ 0
      · obtain ⟨rfl, rfl, rfl, hf, hb⟩ := hc
        rw [calcLimits_ratFunc_linear b c f hb hf]
        split <;> exact ⟨_, rfl⟩
      · exact ⟨_, calcLimits_ratFunc_general a b c d e f dt hc⟩

/-! ## non-vacuity -/
example : calcLimits (.linear (some (-1, 0))) .ubyte = some (-255, 0) := by
  rw [calcLimits_linear]; norm_num [datatypeLimits]
example : calcLimits (.ratFunc (some (0, -2, 1, 0, 0, 4))) .sbyte = some (-507 / 2, 513 / 2) := by
  rw [calcLimits_ratFunc_linear _ _ _ (by norm_num) (by norm_num)]; norm_num [datatypeLimits]
example : reportsError .measurement (.linear (some (-1, 0))) .ubyte (-255, 0) = some false := by
  have h : calcLimits (.linear (some (-1, 0))) .ubyte = some (-255, 0) := by
    rw [calcLimits_linear]; norm_num [datatypeLimits]
  exact inside_no_error _ _ _ _ _ h (le_refl _) (le_refl _)
example : reportsError .measurement (.linear (some (-1, 0))) .ubyte (-256, 0) = some true := by
  have h : calcLimits (.linear (some (-1, 0))) .ubyte = some (-255, 0) := by
    rw [calcLimits_linear]; norm_num [datatypeLimits]
  refine outside_error _ _ _ _ _ h (Or.inl ?_)
  norm_num [ratAbs, tol]

/-! ## the defect repaired by the `fix:` commit for C12 (kept as a witness)
The pinned code computed, for a < 0, `upper = a*lower + b; lower = a*upper + b` — the second line reads the upper
limit that the first line has just overwritten. -/
def linearUnfixed (a b : Rat) (dt : DataType) : Rat × Rat :=
  let (lo, _hi) := datatypeLimits dt
  let upper := a * lo + b
  (a * upper + b, upper)

theorem linearUnfixed_wrong :
    linearUnfixed (-1) 0 .ubyte = (0, 0) ∧
    ¬ (∀ x : Rat, 0 ≤ x → x ≤ 255 → (linearUnfixed (-1) 0 .ubyte).1 ≤ -1 * x + 0) := by
  have h : linearUnfixed (-1) 0 .ubyte = (0, 0) := by
    norm_num [linearUnfixed, datatypeLimits]
  refine ⟨h, fun hall => ?_⟩
  have := hall 255 (by norm_num) (by norm_num)
  rw [h] at this
  norm_num at this

end A2l.Lim
