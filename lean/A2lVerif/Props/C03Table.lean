import A2lVerif.Props.C03Parse
import A2lVerif.Gen.Shipped
import A2lVerif.Gen.Symbols
/-! # C03 — the regenerated table of the shipped code satisfies the hypothesis of the panic-freedom theorems
    (re-checked by the kernel whenever the translator produces a different table) -/
namespace A2l.Tree
open A2l.G

def shippedKnown : Known := ⟨symA2lFile, symAsap2Version, symTagAsap2Version⟩

theorem shipped_tableOk : tableOk Shipped.table shippedKnown = true := by decide +kernel

end A2l.Tree
