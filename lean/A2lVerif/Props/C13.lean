import A2lVerif.Lemmas.ItemList
/-!
# C13 — ItemList: name index and positions stay coherent under every operation

Property theorems only. `IL` mirrors `a2lfile/src/itemlist.rs` (Model/ItemList.lean); the specification is a
plain vector of names (`specStep`, `specIndex`). Quantification: every state satisfying the invariant, every
operation with every argument, every history — no bound on lengths.
-/

namespace A2l.IL

/-- the invariant, spelled out (definition lives in Lemmas/ItemList.lean) -/
theorem inv_iff (l : IL) : l.Inv ↔
    ((∀ i (h : i < l.items.length), l.map.get l.items[i] = some i) ∧
     (∀ k i, l.map.get k = some i → l.items[i]? = some k)) := Iff.rfl

theorem inv_empty : empty.Inv := empty_inv

/-- names are unique in every coherent list -/
theorem inv_nodup {l : IL} (h : l.Inv) : l.items.Nodup := h.nodup

/-- **Lookup coherence.** In a coherent list, lookup by name is linear search in the vector. -/
theorem index_eq_spec {l : IL} (h : l.Inv) (k : String) : l.index k = specIndex l.items k :=
  h.index_eq_spec k

theorem get_eq_spec {l : IL} (h : l.Inv) (k : String) :
    l.get k = .ok (if k ∈ l.items then some k else none) := h.get_eq_spec k

theorem containsKey_eq_spec {l : IL} (h : l.Inv) (k : String) : l.containsKey k = decide (k ∈ l.items) :=
  h.containsKey_eq_spec k

/-- every stored element is reachable by its name, at the position the list reports -/
theorem reachable {l : IL} (h : l.Inv) (i : Nat) (hi : i < l.items.length) :
    l.index l.items[i] = some i ∧ l.get l.items[i] = .ok (some l.items[i]) := by
  refine ⟨h.1 i hi, ?_⟩
  rw [h.get_eq_spec, if_pos (List.getElem_mem hi)]

/-- **renaming an element to the name it already has changes nothing**: the list stays coherent, holds the same names,
    and the element is still found by its name at its position (the remove-old / insert-new order of `rename_item`
    matters exactly here: inserting first and removing afterwards would drop the element from the index) -/
theorem rename_to_same_name {l : IL} (h : l.Inv) (i : Nat) (n : String) (hi : l.items[i]? = some n) :
    (l.renameItem i n).Inv ∧ (l.renameItem i n).items = l.items ∧ (l.renameItem i n).index n = some i := by
  have hinv := renameItem_inv l i n h (Or.inr hi)
  have hitems : (l.renameItem i n).items = l.items := by
    rw [renameItem_items]
    obtain ⟨hlt, hget⟩ := List.getElem?_eq_some_iff.1 hi
    apply List.ext_getElem (by simp)
    intro j h1 h2
    by_cases hj : i = j
    · subst hj; simp [hget]
    · simp [List.getElem_set, hj]
  refine ⟨hinv, hitems, ?_⟩
  obtain ⟨hlt, hget⟩ := List.getElem?_eq_some_iff.1 hi
  have hlt' : i < (l.renameItem i n).items.length := by rw [hitems]; exact hlt
  have := (reachable hinv i hlt').1
  have hn : (l.renameItem i n).items[i] = n := by simp [hitems, hget]
  rwa [hn] at this

/-- names that are not stored (removed, renamed away) are not reachable -/
theorem unreachable {l : IL} (h : l.Inv) (k : String) (hk : k ∉ l.items) :
    l.index k = none ∧ l.get k = .ok none ∧ l.containsKey k = false := by
  refine ⟨h.get_none hk, ?_, ?_⟩
  · rw [h.get_eq_spec, if_neg hk]
  · rw [h.containsKey_eq_spec, decide_eq_false hk]

/-- **One step**: for every operation and argument that keeps names unique, the operation does not panic,
    re-establishes the invariant, and acts on the item vector exactly like the plain-vector specification
    (including its return value). -/
theorem step_ok {l : IL} (h : l.Inv) (op : Op) (hop : OpOk l.items op) :
    ∃ l' r, step l op = .ok (l', r) ∧ l'.Inv ∧ (l'.items, r) = specStep l.items op := by
  cases op with
  | push x => exact ⟨_, _, rfl, push_inv l x h hop, rfl⟩
  | pop => exact ⟨l.pop.1, l.pop.2, rfl, pop_inv l h, pop_spec l⟩
  | swapRemove k => exact swapRemove_ok l k h
  | swapRemoveIdx i =>
    exact ⟨(l.swapRemoveIdx i).1, (l.swapRemoveIdx i).2, rfl, swapRemoveIdx_inv l i h, swapRemoveIdx_spec l i⟩
  | truncate n =>
    exact ⟨_, _, rfl, truncate_inv l n h, by rw [truncate_items]; rfl⟩
  | retain keep => exact ⟨_, _, rfl, retain_inv l _ h, rfl⟩
  | sortAsc => exact ⟨_, _, rfl, sortBy_inv l _ h, rfl⟩
  | sortDesc => exact ⟨_, _, rfl, sortBy_inv l _ h, rfl⟩
  | rename i n =>
    exact ⟨_, _, rfl, renameItem_inv l i n h hop, by rw [renameItem_items]; rfl⟩
  | extend xs =>
    exact ⟨_, _, rfl, extend_inv l xs h hop.1 hop.2, by rw [extend_items]; rfl⟩
  | clear => exact ⟨_, _, rfl, clear_inv l, rfl⟩
  | collect xs =>
    exact ⟨_, _, rfl, collect_inv xs hop, by rw [collect_items]; rfl⟩

/-- **No operation panics**, for any in-range or out-of-range argument, on a coherent list — even when the
    argument would introduce a duplicate name. -/
theorem step_no_panic {l : IL} (h : l.Inv) (op : Op) : step l op ≠ .panic := by
  cases op with
  | swapRemove k =>
    obtain ⟨l', r, hs, _⟩ := swapRemove_ok l k h
    show l.swapRemove k ≠ .panic
    rw [hs]; exact fun he => by cases he
  | _ => exact fun he => by cases he

/-- histories that keep names unique, judged on the specification side -/
def HistOk : List String → List Op → Prop
  | _, [] => True
  | xs, op :: ops => OpOk xs op ∧ HistOk (specStep xs op).1 ops

def specRun : List String → List Op → List String
  | xs, [] => xs
  | xs, op :: ops => specRun (specStep xs op).1 ops

/-- **Every history**: by induction over the operation list. -/
theorem run_ok (ops : List Op) {l : IL} (h : l.Inv) (hops : HistOk l.items ops) :
    ∃ l', run l ops = .ok l' ∧ l'.Inv ∧ l'.items = specRun l.items ops := by
  induction ops generalizing l with
  | nil => exact ⟨l, rfl, h, rfl⟩
  | cons op ops ih =>
    obtain ⟨hop, hrest⟩ := hops
    obtain ⟨l1, r, hs, h1, hspec⟩ := step_ok h op hop
    have hitems : l1.items = (specStep l.items op).1 := congrArg Prod.fst hspec
    rw [← hitems] at hrest
    obtain ⟨l', hr, hinv, hit⟩ := ih h1 hrest
    refine ⟨l', ?_, hinv, ?_⟩
    · simp only [run, hs]; exact hr
    · rw [hit, hitems]; rfl

theorem run_from_empty_ok (ops : List Op) (hops : HistOk [] ops) :
    ∃ l', run empty ops = .ok l' ∧ l'.Inv ∧ l'.items = specRun [] ops :=
  run_ok ops inv_empty hops

/-! ## non-vacuity -/

/-- a concrete non-trivial coherent state reached by a history using most operations -/
example : HistOk [] [.push "b", .push "a", .push "c", .swapRemove "b", .sortAsc, .rename 0 "z", .pop,
    .extend ["q", "r"], .swapRemoveIdx 2, .truncate 1, .retain ["z"]] := by
  simp [HistOk, OpOk, specStep, specIndex, vecSwapRemove, leAsc, List.mergeSort]

/-! ## the defect repaired by the `fix:` commit for C13 (kept as a witness)

The pinned code wrote `self.map.insert(self.items[index].get_name().to_string(), index)` unconditionally after
`Vec::swap_remove`; removing the *last* element then indexes one past the end. -/
def swapRemoveIdxUnfixed (l : IL) (index : Nat) : Out (IL × Option String) :=
  match l.items[index]? with
  | none => .ok (l, none)
  | some item =>
    let items' := vecSwapRemove l.items index
    let map1 := l.map.erase item
    match items'[index]? with
    | some sw => .ok ({ items := items', map := map1.insert sw index }, some item)
    | none => .panic

theorem swapRemoveIdxUnfixed_last_panics :
    (collect ["a"]).Inv ∧ swapRemoveIdxUnfixed (collect ["a"]) 0 = .panic :=
  ⟨collect_inv ["a"] (by simp), rfl⟩

end A2l.IL
