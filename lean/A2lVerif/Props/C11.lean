import A2lVerif.Model.Graph
/-!
# C11 — check(): reference diagnostics are sound, complete and total

Property theorems over the reference-graph model (Model/Graph.lean). Totality and purity are by construction here
(`refReport` is a total function of an immutable value); on the real code they are established by the sweep in the
harness (catch_unwind, model compared before/after) and, for the one panic site that existed, by the `fix:` commit.
-/
namespace A2l.Gr

/-- **sound and complete**: a name is reported exactly when some covered reference names it and it does not exist in
    that reference's target namespace -/
theorem report_iff (m : Module) (t : String) :
    t ∈ refReport m ↔ ∃ r ∈ m.refs, r.covered = true ∧ r.target = t ∧ m.has r.ns r.target = false := by
  simp only [refReport, List.mem_map, List.mem_filter, Bool.and_eq_true, Bool.not_eq_eq_eq_not, Bool.not_true]
  constructor
  · rintro ⟨r, ⟨hr, hc, hh⟩, rfl⟩; exact ⟨r, hr, hc, rfl, hh⟩
  · rintro ⟨r, hr, hc, rfl, hh⟩; exact ⟨r, ⟨hr, hc, hh⟩, rfl⟩

/-- **a fully consistent file yields an empty report** -/
theorem consistent_empty (m : Module) (h : consistent m = true) : refReport m = [] := by
  simp only [refReport, List.map_eq_nil_iff, List.filter_eq_nil_iff, Bool.and_eq_true, Bool.not_eq_eq_eq_not,
    Bool.not_true, not_and, Bool.not_eq_false]
  intro r hr _
  simp only [consistent, List.all_eq_true] at h
  exact h r hr

/-- **corrupting one covered reference to a name that does not exist yields a report naming exactly that target**,
    and nothing else when the file was consistent -/
theorem corrupt_one (m : Module) (h : consistent m = true) (pre post : List Ref) (r : Ref) (bad : String)
    (hm : m.refs = pre ++ r :: post) (hc : r.covered = true) (hbad : m.has r.ns bad = false) :
    refReport { m with refs := pre ++ { r with target := bad } :: post } = [bad] := by
  simp only [consistent, List.all_eq_true, hm, List.mem_append, List.mem_cons] at h
  have hpre : ∀ x ∈ pre, m.has x.ns x.target = true := fun x hx => h x (Or.inl hx)
  have hpost : ∀ x ∈ post, m.has x.ns x.target = true := fun x hx => h x (Or.inr (Or.inr hx))
  -- `has` only looks at the definitions
  have hhas : ∀ (rs : List Ref) ns n, Module.has { m with refs := rs } ns n = m.has ns n := fun _ _ _ => rfl
  have hf : ∀ l : List Ref, (∀ x ∈ l, m.has x.ns x.target = true) →
      l.filter (fun x => x.covered && !m.has x.ns x.target) = [] := by
    intro l hl
    simp only [List.filter_eq_nil_iff, Bool.and_eq_true, Bool.not_eq_eq_eq_not, Bool.not_true, not_and, Bool.not_eq_false]
    intro x hx _
    exact hl x hx
  simp only [refReport, hhas, List.filter_append, List.filter_cons]
  rw [hf pre hpre, hf post hpost]
  simp [hc, hbad]

/-- the report never invents names: every reported name is the target of a reference of the module -/
theorem report_subset (m : Module) : ∀ t ∈ refReport m, ∃ r ∈ m.refs, r.target = t := by
  intro t ht
  obtain ⟨r, hr, _, ht', _⟩ := (report_iff m t).1 ht
  exact ⟨r, hr, ht'⟩

/-! non-vacuity -/
example : consistent ⟨[(0, "a"), (1, "cm")], [⟨1, true, "cm"⟩, ⟨0, false, "a"⟩]⟩ = true := by decide
example : refReport ⟨[(0, "a")], [⟨1, true, "cm"⟩, ⟨0, true, "a"⟩, ⟨0, false, "zz"⟩]⟩ = ["cm"] := by decide


/-! ### the `THIS.` convention -/

theorem validComponent_iff (x : String) (cont : List (List String)) :
    validComponent x cont = true ↔ ∀ comps ∈ cont, x ∈ comps := by
  simp [validComponent, List.all_eq_true]

/-- under the rule the report is a plain filter of the references -/
theorem thisReport_rule (c : ThisCase) (hd : c.direct = false) (hc : c.containing ≠ []) :
    thisReport c = c.refs.filterMap fun x => if validComponent x c.containing = true then none else some x := by
  have hne : c.containing.isEmpty = false := by
    cases h : c.containing with
    | nil => exact absurd h hc
    | cons _ _ => rfl
  unfold thisReport
  congr 1
  funext x
  simp [hd, hne]

/-- when the rule applies (typedef not used directly, contained in at least one structure): `x` is reported exactly when
    some `THIS.x` reference exists and some containing structure has no component `x` -/
theorem this_report_iff (c : ThisCase) (hd : c.direct = false) (hc : c.containing ≠ []) (t : String) :
    t ∈ thisReport c ↔ t ∈ c.refs ∧ ∃ comps ∈ c.containing, t ∉ comps := by
  rw [thisReport_rule c hd hc, List.mem_filterMap]
  constructor
  · rintro ⟨x, hx, h⟩
    by_cases hv : validComponent x c.containing = true
    · simp [hv] at h
    · simp only [hv, Bool.false_eq_true, ↓reduceIte, Option.some.injEq] at h
      subst h
      refine ⟨hx, ?_⟩
      rw [validComponent_iff] at hv
      simpa using hv
  · rintro ⟨hx, comps, hcm, hn⟩
    refine ⟨t, hx, ?_⟩
    have hv : ¬ validComponent t c.containing = true := by
      rw [validComponent_iff]
      exact fun h => hn (h comps hcm)
    simp [hv]

/-- a typedef all of whose `THIS.x` name a component of every containing structure yields no report -/
theorem this_consistent_empty (c : ThisCase) (hd : c.direct = false) (hc : c.containing ≠ [])
    (h : ∀ x ∈ c.refs, ∀ comps ∈ c.containing, x ∈ comps) : thisReport c = [] := by
  apply List.eq_nil_iff_forall_not_mem.2
  intro t ht
  obtain ⟨hx, comps, hcm, hn⟩ := (this_report_iff c hd hc t).1 ht
  exact hn (h t hx comps hcm)

theorem filterMap_valid_nil (cont : List (List String)) (l : List String)
    (hl : ∀ y ∈ l, validComponent y cont = true) :
    l.filterMap (fun y => if validComponent y cont = true then none else some y) = [] := by
  induction l with
  | nil => rfl
  | cons a l ih =>
    simp only [List.filterMap_cons, hl a (List.mem_cons_self ..), ↓reduceIte]
    exact ih fun y hy => hl y (List.mem_cons_of_mem _ hy)

/-- renaming one `THIS.x` to a component that one containing structure lacks yields exactly that name -/
theorem this_corrupt_one (c : ThisCase) (hd : c.direct = false) (hc : c.containing ≠ [])
    (h : ∀ x ∈ c.refs, ∀ comps ∈ c.containing, x ∈ comps) (pre post : List String) (x bad : String)
    (hr : c.refs = pre ++ x :: post) (comps : List String) (hcm : comps ∈ c.containing) (hbad : bad ∉ comps) :
    thisReport { c with refs := pre ++ bad :: post } = [bad] := by
  have hv : ∀ y ∈ c.refs, validComponent y c.containing = true := fun y hy =>
    (validComponent_iff y c.containing).2 (h y hy)
  have hbadv : ¬ validComponent bad c.containing = true := by
    rw [validComponent_iff]
    exact fun hall => hbad (hall comps hcm)
  rw [thisReport_rule { c with refs := pre ++ bad :: post } hd hc]
  show (pre ++ bad :: post).filterMap (fun y => if validComponent y c.containing = true then none else some y) = [bad]
  rw [List.filterMap_append, List.filterMap_cons,
      filterMap_valid_nil c.containing pre (fun y hy => hv y (by rw [hr]; exact List.mem_append_left _ hy)),
      filterMap_valid_nil c.containing post
        (fun y hy => hv y (by rw [hr]; exact List.mem_append_right _ (List.mem_cons_of_mem _ hy)))]
  simp [hbadv]

/-- when the rule does not apply (the typedef is used directly by an INSTANCE, or no structure contains it), `THIS.x` is an
    ordinary name: it is reported, with its prefix, exactly when no object of that name exists -/
theorem this_fallback_iff (c : ThisCase) (h : c.direct = true ∨ c.containing = []) (t : String) :
    t ∈ thisReport c ↔ ∃ x ∈ c.refs, x ∉ c.objects ∧ t = "THIS." ++ x := by
  have hcond : (!c.direct && !c.containing.isEmpty) = false := by
    rcases h with h | h
    · simp [h]
    · simp [h]
  simp only [thisReport, hcond, Bool.false_eq_true, ↓reduceIte, List.mem_filterMap]
  constructor
  · rintro ⟨x, hx, h'⟩
    split at h'
    · cases h'
    · rename_i ho
      cases h'
      exact ⟨x, hx, by simpa using ho, rfl⟩
  · rintro ⟨x, hx, ho, rfl⟩
    refine ⟨x, hx, ?_⟩
    simp [ho]

/-! non-vacuity: two containing structures, `ax` is a component of only one of them -/
example : thisReport ⟨false, [], [(true, ["ax", "cv"]), (true, ["cv"]), (false, [])], ["ax", "cv"]⟩ = ["ax"] := by decide
example : thisReport ⟨true, ["cv"], [(true, ["ax"])], ["ax", "cv"]⟩ = ["THIS.ax"] := by decide
example : (⟨false, [], [(true, ["ax", "cv"]), (true, ["cv"])], ["cv"]⟩ : ThisCase).containing ≠ [] := by decide

end A2l.Gr
