import A2lVerif.Model.Graph
/-!
# C11 — check(): reference diagnostics are sound, complete and total

Property theorems over the reference-graph model (Model/Graph.lean). Totality and purity are by construction here
(`refReport` is a total function of an immutable value); on the real code they are established by the sweep in the
harness (catch_unwind, model compared before/after) and, for the one panic site that existed, by the `fix:` commit.
-/
namespace A2l.Gr

/-- **sound and complete**: a name is reported exactly when some covered reference names it and it does not exist in
    that reference's target namespace -/
theorem report_iff (m : Module) (t : String) :
    t ∈ refReport m ↔ ∃ r ∈ m.refs, r.covered = true ∧ r.target = t ∧ m.has r.ns r.target = false := by
  simp only [refReport, List.mem_map, List.mem_filter, Bool.and_eq_true, Bool.not_eq_eq_eq_not, Bool.not_true]
  constructor
  · rintro ⟨r, ⟨hr, hc, hh⟩, rfl⟩; exact ⟨r, hr, hc, rfl, hh⟩
  · rintro ⟨r, hr, hc, rfl, hh⟩; exact ⟨r, ⟨hr, hc, hh⟩, rfl⟩

/-- **a fully consistent file yields an empty report** -/
theorem consistent_empty (m : Module) (h : consistent m = true) : refReport m = [] := by
  simp only [refReport, List.map_eq_nil_iff, List.filter_eq_nil_iff, Bool.and_eq_true, Bool.not_eq_eq_eq_not,
    Bool.not_true, not_and, Bool.not_eq_false]
  intro r hr _
  simp only [consistent, List.all_eq_true] at h
  exact h r hr

/-- **corrupting one covered reference to a name that does not exist yields a report naming exactly that target**,
    and nothing else when the file was consistent -/
theorem corrupt_one (m : Module) (h : consistent m = true) (pre post : List Ref) (r : Ref) (bad : String)
    (hm : m.refs = pre ++ r :: post) (hc : r.covered = true) (hbad : m.has r.ns bad = false) :
    refReport { m with refs := pre ++ { r with target := bad } :: post } = [bad] := by
  simp only [consistent, List.all_eq_true, hm, List.mem_append, List.mem_cons] at h
  have hpre : ∀ x ∈ pre, m.has x.ns x.target = true := fun x hx => h x (Or.inl hx)
  have hpost : ∀ x ∈ post, m.has x.ns x.target = true := fun x hx => h x (Or.inr (Or.inr hx))
  -- `has` only looks at the definitions
  have hhas : ∀ (rs : List Ref) ns n, Module.has { m with refs := rs } ns n = m.has ns n := fun _ _ _ => rfl
  have hf : ∀ l : List Ref, (∀ x ∈ l, m.has x.ns x.target = true) →
      l.filter (fun x => x.covered && !m.has x.ns x.target) = [] := by
    intro l hl
    simp only [List.filter_eq_nil_iff, Bool.and_eq_true, Bool.not_eq_eq_eq_not, Bool.not_true, not_and, Bool.not_eq_false]
    intro x hx _
    exact hl x hx
  simp only [refReport, hhas, List.filter_append, List.filter_cons]
  rw [hf pre hpre, hf post hpost]
  simp [hc, hbad]

/-- the report never invents names: every reported name is the target of a reference of the module -/
theorem report_subset (m : Module) : ∀ t ∈ refReport m, ∃ r ∈ m.refs, r.target = t := by
  intro t ht
  obtain ⟨r, hr, _, ht', _⟩ := (report_iff m t).1 ht
  exact ⟨r, hr, ht'⟩

/-! non-vacuity -/
example : consistent ⟨[(0, "a"), (1, "cm")], [⟨1, true, "cm"⟩, ⟨0, false, "a"⟩]⟩ = true := by decide
example : refReport ⟨[(0, "a")], [⟨1, true, "cm"⟩, ⟨0, true, "a"⟩, ⟨0, false, "zz"⟩]⟩ = ["cm"] := by decide

end A2l.Gr
