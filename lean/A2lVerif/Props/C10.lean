import A2lVerif.Lemmas.Cleanup
import A2lVerif.Lemmas.CleanupTerm
/-!
# C10 — cleanup(): only unreferenced helper objects are removed, nothing new dangles

Property theorems over the reference-graph model of `cleanup` (`Model/Cleanup.lean`, which mirrors
`src/cleanup.rs` and `src/cleanup/*.rs` and agrees with the implementation on the recorded inputs, see
`testdata/difftest.sh`). Vocabulary (`Model/Cleanup.lean`): `helperTags` (the deletable keywords), `Ns`/`Ns.tags`
(name spaces), `siteNs` (target name space of a reference field), `defines`, `resolves`, `consistent`, `wellSited`;
`key n = (n.tag, n.name)` and `repair` are in `Lemmas/Cleanup.lean`.
-/
namespace A2l.Cl

/-- a child that `cleanup` never deletes -/
def nonHelper (n : Node) : Bool := !helperTags.contains n.tag

/-! ## 1. only helpers are removed -/

/-- **only helpers are removed**: the children after `cleanup` are, as (keyword, name) pairs, a sublist of the
    children before (nothing is added, renamed or reordered), and the children that are not GROUP, FUNCTION,
    COMPU_METHOD, COMPU_TAB, COMPU_VTAB, COMPU_VTAB_RANGE, UNIT or RECORD_LAYOUT are all still there, in order. -/
theorem only_helpers_removed (m : Module) :
    ((cleanup m).map key).Sublist (m.map key) ∧
    ((cleanup m).filter nonHelper).map key = (m.filter nonHelper).map key := by
  refine ⟨keys_cleanup m, ?_⟩
  have := only_nh_cleanup m
  unfold only nh at this
  unfold nonHelper
  rw [this, List.map_map]
  apply List.map_congr_left
  intro n _
  rfl

/-! ## 2. objects and typedefs are altered only at fields that were already dangling -/

/-- the references of a repaired child, explicitly -/
theorem repair_refs (m : Module) (n : Node) :
    (repair m n).refs = n.refs.filter fun r =>
      (!convRepairSel.contains (n.tag, r.site) || (namesOf ["COMPU_METHOD"] m).contains r.target) &&
      (!funcRefSel.contains (n.tag, r.site) || (namesOf ["FUNCTION"] m).contains r.target) := by
  unfold repair dropIn
  simp only [List.filter_filter]

/-- **objects and typedefs are altered only at fields that were already dangling** — exact form: the non-helper
    children after `cleanup` are the non-helper children before, each one `repair`ed; `repair` keeps keyword and
    name, keeps a sublist of the references (`repair_refs`: a filter), and every reference it drops was dangling
    in `m`: a FUNCTION_LIST entry naming no FUNCTION of `m`, or a conversion naming no COMPU_METHOD of `m`. -/
theorem objects_refs_only_repaired (m : Module) :
    (cleanup m).filter nonHelper = (m.filter nonHelper).map (repair m) ∧
    ∀ n : Node, (repair m n).tag = n.tag ∧ (repair m n).name = n.name ∧ (repair m n).refs.Sublist n.refs ∧
      ∀ r ∈ n.refs, r ∉ (repair m n).refs → resolves m r = false := by
  refine ⟨only_nh_cleanup m, fun n => ⟨rfl, rfl, ?_, ?_⟩⟩
  · rw [repair_refs]; exact List.filter_sublist
  · intro r hr hnot
    unfold repair at hnot
    rw [mem_dropIn_refs, mem_dropIn_refs] at hnot
    simp only [dropIn_tag] at hnot
    by_cases hf : (n.tag, r.site) ∈ funcRefSel ∧ (namesOf ["FUNCTION"] m).contains r.target = false
    · obtain ⟨hs, hk⟩ := hf
      have hns : siteNs r.site = some .function := by
        simp only [funcRefSel, List.mem_cons, Prod.mk.injEq, List.not_mem_nil, or_false] at hs
        rcases hs with h | h | h | h | h <;> rw [h.2] <;> decide
      unfold resolves
      rw [hns]
      exact hk
    · by_cases hc : (n.tag, r.site) ∈ convRepairSel ∧ (namesOf ["COMPU_METHOD"] m).contains r.target = false
      · obtain ⟨hs, hk⟩ := hc
        have hns : siteNs r.site = some .compuMethod := by
          simp only [convRepairSel, List.mem_cons, Prod.mk.injEq, List.not_mem_nil, or_false] at hs
          rcases hs with h | h | h | h | h | h | h | h <;> rw [h.2] <;> decide
        unfold resolves
        rw [hns]
        exact hk
      · exfalso
        apply hnot
        refine ⟨⟨hr, fun hs => ?_⟩, fun hs => ?_⟩
        · cases hk : (namesOf ["FUNCTION"] m).contains r.target
          · exact absurd ⟨hs, hk⟩ hf
          · rfl
        · cases hk : (namesOf ["COMPU_METHOD"] m).contains r.target
          · exact absurd ⟨hs, hk⟩ hc
          · rfl

/-! ## 3. no new dangling reference -/

/-- **nothing that remains refers to something that was removed**: in a module whose references to deletable
    children sit in the fields where the grammar allows them (`wellSited`: e.g. a conversion only in AXIS_PTS,
    AXIS_DESCR, CHARACTERISTIC, MEASUREMENT, the TYPEDEFs and OVERWRITE; see `refSel`), every reference that is
    left after `cleanup` and whose target existed before still has its target.

    `wellSited` is needed because the model's children are arbitrary (keyword, field) combinations: `cleanup` only
    looks at the fields of `refSel`, so a COMPU_METHOD referenced only from, say, a `Measurement.conversion` field
    of a FRAME would be deleted. All recorded inputs are `wellSited` (checked by the driver). No uniqueness of
    names is needed. -/
theorem no_new_dangling_ref (m : Module) (hw : wellSited m = true) :
    ∀ n' ∈ cleanup m, ∀ r ∈ n'.refs, resolves m r = true → resolves (cleanup m) r = true := by
  intro n' hn' r hr hres
  unfold resolves at hres ⊢
  cases hns : siteNs r.site with
  | none => rfl
  | some ns =>
    rw [hns] at hres
    simp only [List.contains_iff_mem] at hres ⊢
    refine pres_cleanup ns m n' hn' r hr ⟨hns, ?_⟩ hres
    obtain ⟨n, hn, ht, _, hrs⟩ := sub_cleanup m n' hn'
    unfold wellSited at hw
    rw [List.all_eq_true] at hw
    have := hw n hn
    rw [List.all_eq_true] at this
    rw [← ht]
    exact this r (hrs r hr)

/-- **cleanup keeps a consistent module consistent** -/
theorem no_new_dangling (m : Module) (hw : wellSited m = true) (hc : consistent m = true) :
    consistent (cleanup m) = true := by
  unfold consistent
  rw [List.all_eq_true]
  intro n' hn'
  rw [List.all_eq_true]
  intro r hr
  apply no_new_dangling_ref m hw n' hn' r hr
  obtain ⟨n, hn, _, _, hrs⟩ := sub_cleanup m n' hn'
  unfold consistent at hc
  rw [List.all_eq_true] at hc
  have := hc n hn
  rw [List.all_eq_true] at this
  exact this r (hrs r hr)

/-- `wellSited` cannot be dropped: a COMPU_METHOD referenced from a field where the grammar has no conversion -/
theorem no_new_dangling_counterexample :
    let m : Module := [⟨"FRAME", "f", [⟨"Measurement.conversion", "cm"⟩]⟩, ⟨"COMPU_METHOD", "cm", []⟩]
    consistent m = true ∧ wellSited m = false ∧ consistent (cleanup m) = false := by
  decide

/-! ## 4. what remains is referenced -/

/-- every UNIT that is left is reachable from the REF_UNIT of a COMPU_METHOD that is left, through REF_UNITs of
    UNITs that are left (`UReach`, `Lemmas/Cleanup.lean`) -/
theorem remaining_unit_reachable (m : Module) (x : Node) (hx : x ∈ cleanup m) (ht : x.tag = "UNIT") :
    UReach (cleanup m) (targetsOf unitUseSel (cleanup m)) x.name := cleanup_unit_reachable m x hx ht

/-- **all unreferenced ones are removed**: a COMPU_METHOD, conversion table, UNIT or RECORD_LAYOUT that is left
    after `cleanup` is referenced by a child that is left, through one of the fields of its name space (`refSel`):
    a COMPU_METHOD by a conversion of an object or typedef, a conversion table by the COMPU_TAB_REF or
    STATUS_STRING_REF of a COMPU_METHOD, a UNIT by the REF_UNIT of a COMPU_METHOD or of a UNIT, a RECORD_LAYOUT by
    an object, typedef or MOD_COMMON. No hypothesis is needed. -/
theorem removed_unreferenced (m : Module) (x : Node) (hx : x ∈ cleanup m) (ns : Ns)
    (hns : ns ∈ [Ns.compuMethod, Ns.convTab, Ns.unit, Ns.recordLayout]) (ht : x.tag ∈ ns.tags) :
    ∃ sel, refSel ns = some sel ∧ ∃ n ∈ cleanup m, ∃ r ∈ n.refs, (n.tag, r.site) ∈ sel ∧ r.target = x.name := by
  have hx3 : x ∈ cleanupCompuMethods (cleanupFunctions (cleanupGroups m)) := (mem_retainNodes.1 hx).1
  simp only [List.mem_cons, List.not_mem_nil, or_false] at hns
  rcases hns with rfl | rfl | rfl | rfl
  · refine ⟨_, rfl, ?_⟩
    have := cc_compuMethod hx3 (by simpa [Ns.tags] using ht)
    rw [← targetsOf_cleanupRecordLayouts _ _ (by decide)] at this
    exact mem_targetsOf.1 this
  · refine ⟨_, rfl, ?_⟩
    have := cc_tab hx3 ht
    rw [← targetsOf_cleanupRecordLayouts _ _ (by decide)] at this
    exact mem_targetsOf.1 this
  · refine ⟨_, rfl, ?_⟩
    have hU : x.tag = "UNIT" := by simpa [Ns.tags] using ht
    have := remaining_unit_reachable m x hx hU
    generalize x.name = t at this
    cases this with
    | base h =>
      obtain ⟨n, hn, r, hr, hs, hrt⟩ := mem_targetsOf.1 h
      simp only [unitUseSel, List.mem_singleton] at hs
      exact ⟨n, hn, r, hr, by rw [hs]; exact List.mem_cons_self, hrt⟩
    | @step u r hu hut _ hr hs =>
      exact ⟨u, hu, r, hr, by simp [hut, hs], rfl⟩
  · refine ⟨_, rfl, ?_⟩
    exact mem_targetsOf.1 (rl_recordLayout hx (by simpa [Ns.tags] using ht))

/-- the converse for GROUPs and FUNCTIONs: a GROUP that is left is named by a USER_RIGHTS/REF_GROUP or still has a
    sub group, measurement or characteristic; a FUNCTION that is left is named by a FUNCTION_LIST (of an AXIS_PTS,
    CHARACTERISTIC, MEASUREMENT or GROUP that is left) or still has content -/
theorem empty_groups_functions_removed (m : Module) (x : Node) (hx : x ∈ cleanup m) :
    (x.tag = "GROUP" → x.name ∈ targetsOf groupWL.usedSel (cleanup m) ∨ isEmpty groupWL x = false) ∧
    (x.tag = "FUNCTION" → x.name ∈ targetsOf functionWL.usedSel (cleanup m) ∨ isEmpty functionWL x = false) := by
  have hd := queuesDrained_true m
  unfold queuesDrained at hd
  rw [Bool.and_eq_true] at hd
  exact ⟨fun ht => not_queueable (cleanup_no_queueable_group m hd.1 x hx) ht,
    fun ht => not_queueable (cleanup_no_queueable_function m hd.2 x hx) ht⟩

/-! ## 5. idempotence -/

/-- **the model's fuel is never exhausted**: both work queues (`delete_empty_groups`, the function cleanup) are
    always drained, so the fuel-bounded `loop` of the model computes what the unbounded Rust `while let` computes,
    and the Rust loops terminate (the number of pops is bounded by `fuel`, see `work_queue_pops_exponential` for
    how large it can get). -/
theorem work_queues_drained (m : Module) : queuesDrained m = true := queuesDrained_true m

/-- **`cleanup` is idempotent**, for every module: no uniqueness of names, no `wellSited`, no other hypothesis. -/
theorem idempotent (m : Module) : cleanup (cleanup m) = cleanup m :=
  idem_cleanup m (queuesDrained_true m)

/-! ## non-vacuity -/

/-- a chain UNIT `u2` ← UNIT `u1` ← COMPU_METHOD `cm` ← MEASUREMENT, a conversion table, a record layout, a used and
    an empty group/function pair, plus unreferenced helpers of every kind and one dangling conversion -/
def sample : Module :=
  [⟨"UNIT", "u1", [⟨"RefUnit.unit", "u2"⟩]⟩, ⟨"UNIT", "u2", []⟩, ⟨"UNIT", "u3", [⟨"RefUnit.unit", "u2"⟩]⟩,
   ⟨"COMPU_METHOD", "cm", [⟨"RefUnit.unit", "u1"⟩, ⟨"CompuTabRef.conversion_table", "vt"⟩]⟩,
   ⟨"COMPU_METHOD", "cm_unused", [⟨"RefUnit.unit", "u3"⟩]⟩,
   ⟨"COMPU_VTAB", "vt", []⟩, ⟨"COMPU_TAB", "ct_unused", []⟩,
   ⟨"RECORD_LAYOUT", "rl", []⟩, ⟨"RECORD_LAYOUT", "rl_unused", []⟩,
   ⟨"MEASUREMENT", "me", [⟨"Measurement.conversion", "cm"⟩, ⟨"FunctionList.name_list", "f1"⟩]⟩,
   ⟨"MEASUREMENT", "me2", [⟨"Measurement.conversion", "missing"⟩]⟩,
   ⟨"CHARACTERISTIC", "ch", [⟨"Characteristic.deposit", "rl"⟩, ⟨"Characteristic.conversion", "cm"⟩]⟩,
   ⟨"FUNCTION", "f1", []⟩, ⟨"FUNCTION", "f2", [⟨"SubFunction.identifier_list", "f3"⟩]⟩, ⟨"FUNCTION", "f3", []⟩,
   ⟨"GROUP", "g1", [⟨"RefMeasurement.identifier_list", "me"⟩, ⟨"SubGroup.identifier_list", "g2"⟩]⟩,
   ⟨"GROUP", "g2", []⟩, ⟨"GROUP", "g3", []⟩,
   ⟨"USER_RIGHTS", "-", [⟨"RefGroup.identifier_list", "g3"⟩]⟩]

example : cleanup sample =
  [⟨"UNIT", "u1", [⟨"RefUnit.unit", "u2"⟩]⟩, ⟨"UNIT", "u2", []⟩,
   ⟨"COMPU_METHOD", "cm", [⟨"RefUnit.unit", "u1"⟩, ⟨"CompuTabRef.conversion_table", "vt"⟩]⟩,
   ⟨"COMPU_VTAB", "vt", []⟩,
   ⟨"RECORD_LAYOUT", "rl", []⟩,
   ⟨"MEASUREMENT", "me", [⟨"Measurement.conversion", "cm"⟩, ⟨"FunctionList.name_list", "f1"⟩]⟩,
   ⟨"MEASUREMENT", "me2", []⟩,
   ⟨"CHARACTERISTIC", "ch", [⟨"Characteristic.deposit", "rl"⟩, ⟨"Characteristic.conversion", "cm"⟩]⟩,
   ⟨"FUNCTION", "f1", []⟩,
   ⟨"GROUP", "g1", [⟨"RefMeasurement.identifier_list", "me"⟩]⟩,
   ⟨"GROUP", "g3", []⟩,
   ⟨"USER_RIGHTS", "-", [⟨"RefGroup.identifier_list", "g3"⟩]⟩] := by decide

/-- the hypotheses of the theorems hold for the sample: well sited, queues drained; it is not consistent before
    (`me2` has a dangling conversion) and consistent afterwards -/
example : wellSited sample = true ∧ queuesDrained sample = true ∧ consistent sample = false ∧
    consistent (cleanup sample) = true := by decide

/-- the same module without the dangling conversion is consistent, so `no_new_dangling` is not vacuous -/
example : consistent (sample.filter fun n => n.name != "me2") = true ∧
    wellSited (sample.filter fun n => n.name != "me2") = true := by decide

/-! ## a finding about the work queue -/

/-- chain of `k + 1` groups, each listing the previous one twice as sub group; group 0 is empty -/
def chain (k : Nat) : Module :=
  (List.range (k + 1)).map fun i =>
    ⟨"GROUP", toString i,
      if i = 0 then [] else [⟨"SubGroup.identifier_list", toString (i - 1)⟩, ⟨"SubGroup.identifier_list", toString (i - 1)⟩]⟩

/-- **the work queue of `delete_empty_groups` pops an exponential number of indices**: an item is pushed once per
    entry naming a deleted item, and every pop of an empty item pushes its (empty) owners again. For the chain of
    `k + 1` groups there are `2^(k+1) - 1` pops (here k = 5: 63 pops for 6 groups); the same holds for
    SUB_FUNCTION. The result is still correct (all six groups are deleted). -/
theorem work_queue_pops_exponential :
    (runLoop groupWL (chain 5)).2.1.length = 63 ∧ (runLoop groupWL (chain 5)).2.2 = true ∧ cleanup (chain 5) = [] := by
  decide

end A2l.Cl
