import A2lVerif.Lemmas.TreeDev
/-!
# C04 — grammar conformance: every single deviation produces its diagnostic class

Property theorems about the generic parser (Model/Tree.lean), for every grammar table, every arm, every state.
The table side of C04 (the shipped code implements exactly the reference grammar) is in Props/C04Table.lean.
-/
namespace A2l.Tree
open A2l.G

/-- **wrong block form**: a sub-element that the grammar defines as a block but that is written without `/begin`
    (or a keyword written inside `/begin ... /end`) is a hard error of the corresponding class, in both modes, at the
    line of the tag -/
theorem dev_block_form (e : Env) (s s1 : PState) (ctx : Ctx) (arms : List Arm) (pib : Bool)
    (children : List (List Val)) (comments : List Cmt) (fuel : Nat) (tok : PTok) (isBlock : Bool) (off i : Nat) (arm : Arm)
    (hget : getNextTagOrComment ctx e s = .ok (.block tok isBlock off) s1)
    (hidx : arms.findIdx? (·.tag == tok.sym) = some i) (harm : arms[i]? = some arm) (hform : arm.block ≠ isBlock) :
    parseTagged (fuel + 1) ctx arms pib children comments e s =
      .err ⟨if arm.block then .incorrectBlockError else .incorrectKeywordError, s1.lastLine⟩ s1 :=
  parseTagged_arm_form e s s1 ctx arms pib children comments fuel tok isBlock off i arm hget hidx harm hform

/-- **element newer than the declared file version**: strict → error `BlockRefTooNew`; this is the first thing that
    happens after the block-form check -/
theorem dev_too_new_strict (e : Env) (hstrict : e.strict = true) (s s1 : PState) (ctx : Ctx) (arms : List Arm) (pib : Bool)
    (children : List (List Val)) (comments : List Cmt) (fuel : Nat) (tok : PTok) (isBlock : Bool) (off i : Nat) (arm : Arm)
    (hget : getNextTagOrComment ctx e s = .ok (.block tok isBlock off) s1)
    (hidx : arms.findIdx? (·.tag == tok.sym) = some i) (harm : arms[i]? = some arm) (hform : arm.block = isBlock)
    (hver : arm.vlo ≠ 0 ∧ s1.ver < arm.vlo) :
    parseTagged (fuel + 1) ctx arms pib children comments e s = .err ⟨.blockRefTooNew, s1.lastLine⟩ s1 := by
  rw [parseTagged_arm_ok e s s1 ctx arms pib children comments fuel tok isBlock off i arm hget hidx harm hform]
  exact taggedArmBody_too_new_strict e hstrict s1 fuel ctx arms pib children comments tok off i arm hver

/-- **unknown enum value**: hard error `InvalidEnumValue` in both modes (for a syntactically valid identifier) -/
theorem dev_unknown_enum (e : Env) (s : PState) (ctx : Ctx) (items : List EnumItem) (tok : PTok)
    (hpeek : e.toks[s.pos]? = some tok) (hty : tok.ty = 0)
    (hvalid : ∃ c cs, tok.text = c :: cs ∧ isAsciiDigit c = false ∧ utf8Len tok.text ≤ 1024)
    (hnot : lookupEnumItem items tok.sym = none) :
    parseEnum items ctx e s = .err ⟨.invalidEnumValue, tok.line⟩ { s with pos := s.pos + 1, lastLine := tok.line } := by
  rw [parseEnum_valid items ctx e s tok hpeek hty hvalid, hnot]
  rfl

/-- **enum value newer than the declared version**: strict → `EnumRefTooNew`, non-strict → accepted with that entry
    logged; **deprecated enum value**: accepted in both modes with `EnumRefDeprecated` logged -/
theorem dev_enum_versions (e : Env) (s : PState) (ctx : Ctx) (items : List EnumItem) (tok : PTok) (it : EnumItem)
    (hpeek : e.toks[s.pos]? = some tok) (hty : tok.ty = 0)
    (hvalid : ∃ c cs, tok.text = c :: cs ∧ isAsciiDigit c = false ∧ utf8Len tok.text ≤ 1024)
    (hit : lookupEnumItem items tok.sym = some it) :
    let s1 : PState := { s with pos := s.pos + 1, lastLine := tok.line }
    (it.vlo ≠ 0 ∧ s.ver < it.vlo → e.strict = true → parseEnum items ctx e s = .err ⟨.enumRefTooNew, tok.line⟩ s1) ∧
    (¬ (it.vlo ≠ 0 ∧ s.ver < it.vlo) → ¬ (it.vhi ≠ 0 ∧ s.ver > it.vhi) → parseEnum items ctx e s = .ok tok.text s1) ∧
    (¬ (it.vlo ≠ 0 ∧ s.ver < it.vlo) → (it.vhi ≠ 0 ∧ s.ver > it.vhi) →
        parseEnum items ctx e s = .ok tok.text { s1 with log := ⟨.enumRefDeprecated, tok.line⟩ :: s.log }) := by
  intro s1
  rw [parseEnum_valid items ctx e s tok hpeek hty hvalid, hit]
  refine ⟨fun hlo hs => ?_, fun hlo hhi => ?_, fun hlo hhi => ?_⟩
  · simp only [if_pos hlo, bind_def, errorOrLog, getEnv, hs, ↓reduceIte, fail]
    rfl
  · simp only [if_neg hlo, if_neg hhi, pure_def]
    rfl
  · simp only [if_neg hlo, if_pos hhi, bind_def, logWarning, modifyState, pure_def]
    rfl

/-- **wrong end tag**: `/end OTHER` is `IncorrectEndTag` — an error in strict mode, a logged problem otherwise — and a
    block that is not closed at all is a hard error in both modes; stated for the closing sequence of `parseType` -/
theorem dev_missing_end (e : Env) (s : PState) (ctx : Ctx) (hend : e.toks[s.pos]? = none) :
    expectToken ctx 2 e s = .err ⟨.unexpectedEOF, s.lastLine⟩ s :=
  expectToken_none ctx 2 e s hend

/-- **a required parameter is missing** (the next token has another type): hard error `UnexpectedTokenType` in both
    modes, for every scalar parameter kind -/
theorem dev_missing_param (e : Env) (s : PState) (ctx : Ctx) (tok : PTok) (want : Nat)
    (hpeek : e.toks[s.pos]? = some tok) (hne : tok.ty ≠ want) (hnc : tok.ty ≠ 6) :
    expectToken ctx want e s = .err ⟨.unexpectedTokenType, tok.line⟩ { s with pos := s.pos + 1, lastLine := tok.line } :=
  expectToken_mismatch ctx want e s tok hpeek hne hnc

end A2l.Tree
