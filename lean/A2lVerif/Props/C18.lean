import A2lVerif.Lemmas.IfDataTop
import A2lVerif.Lemmas.IfDataWrite
import A2lVerif.Lemmas.IfDataUid
import A2lVerif.Lemmas.IfDataConf
import A2lVerif.Lemmas.IfDataEnc
import A2lVerif.Props.C03Parse
import A2lVerif.Props.C06
/-!
# C18 — IF_DATA is interpreted exactly as the applicable A2ML definition says

Property theorems only. Models: Model/A2ml.lean (`a2ml.rs`: tokenizer and parser of the definition), Model/IfData.lean
(`ifdata.rs`: the type-directed interpreter and the fallback; `GenericIfData::write`; the blocks `A2ML`, `IF_DATA`).
Proofs: Lemmas/A2ml.lean, Lemmas/IfData*.lean. Quantification: every definition (`Spec`), every token array, every
parser state; no bounds.

What "values survive load and write unchanged" means here (`interp_values_roundtrip`, `write_renders_values`):
the text written for the stored data is the concatenation of `white space ++ rendering` of a list of values
(`values`, in the order in which they are written), and this list agrees, element by element and in order, with the
tokens that were consumed, comments left out (`span`): identifiers, tags and enum items have the token's text; a
string has the token's unescaped content; `/begin` and `/end` correspond to Begin / End tokens; an integer written as
`(v, hex)` of type `w` comes from a Number token for which `get_integer::<w>` returns exactly `(v, hex)` (Props/Scalars
then says that `v` is the literal's value resp. its two's complement reading and that the notation flag is kept); a
float is written with the text that `add_float` prints for the `f32` / `f64` read from the token (the float codec is
a parameter of the model, DESIGN.md 2.2). One tolerated deviation is part of `agree`: the non-strict reader accepts an
identifier where the definition has a string, with a diagnostic, and writes it back as a quoted string.

History. Five defects (four of them recorded as refuted statements in the first version of this file) were FIXED in the Rust code
(testdata/fixes.diff, testdata/fix5.diff), and the model follows the fixed code:
* a comment between two items of uninterpreted content ended `parse_unknown_taggedstruct` and made the whole load fail
  with `InvalidBegin`; `unknown_values_roundtrip` needed the hypothesis "no comment directly in front of a /begin".
  Now the comment is skipped; the hypothesis is gone (`unknown_comment_between_blocks_kept` is the old counterexample,
  now accepted).
* a comment directly in front of the closing `/end` made conforming content invalid. Now comments are consumed before
  the check: `trailing_comments_harmless`.
* an array whose element can be empty was repeated `dim` times: `array_zero_width_stops`.
* `1e999` (and `1e300` for a `float` member) was read as infinity and written as `inf`; now `MalformedNumber` (on the
  model side the float codec parameters simply have no entry for such a token).
* a member of a tagged struct that is not defined as `("TAG" ...)*` was accepted any number of times; now the second
  occurrence is `InvalidMultiplicityTooMany` (which ends the attempt to interpret the content): `duplicate_member_rejected`,
  and `Conf` has the same restriction.
Statements that are still FALSE for the code as it is (kept as theorems with a concrete input):
* `conforming_accepted_needs_unambiguity`: the sequence loop is greedy, so an instance of a definition in which a
  sequence is followed by a member of the same token class is not recognised (inherent in the format).
  `valid_implies_conforming` is the half of `conforming_accepted` that holds without side conditions.
* `specialSim_false_for_ifdata`: the hypothesis `SpecialSim` of Props/C06.lean does NOT hold for the real IF_DATA
  parser (a strict load silently turns a recoverable problem inside IF_DATA into "block invalid").
-/
namespace A2l.IfData
open A2l.Tree A2l.Aml A2l.G A2l.Sc

/-! ## the definitions (checked by `rfl`: these lines are the definitions) -/

/-- the written values of the scalar variants -/
example (top : Bool) (w off : Nat) (v : Int) (hex : Bool) : values top (.int w off v hex) = [.int w v hex] := rfl
example (top : Bool) (off : Nat) (txt : List Char) : values top (.float off txt) = [.f32 txt] := rfl
example (top : Bool) (off : Nat) (txt : List Char) : values top (.double off txt) = [.f64 txt] := rfl
example (top : Bool) (off : Nat) (s : List Char) : values top (.str off s) = [.str s] := rfl
example (top : Bool) (off : Nat) (s : List Char) : values top (.enumItem off s) = [.ident s] := rfl
/-- a tagged item: `/begin` (blocks only), the tag, the data, `/end` and the tag again (blocks only) -/
example (it : TItem Gen) (rest : List (TItem Gen)) : valuesT (it :: rest) =
    (if it.isBlock then [.begin_] else []) ++ [.ident it.tag] ++ values true it.data ++
      (if it.isBlock then [.end_, .ident it.tag] else []) ++ valuesT rest := by rw [valuesT]

/-- when does a written value say what a token says -/
theorem agree_def (strict : Bool) (f32 : List Char → Option (List Char)) (w : WV) (t : PTok) :
    agree strict f32 w t =
    (match w with
     | .ident s => t.ty = 0 ∧ t.text = s
     | .str s => (t.ty = 4 ∧ unescape (stripQuotes t.text) = .ok s) ∨ (strict = false ∧ t.ty = 0 ∧ t.text = s)
     | .int w v hex => t.ty = 5 ∧ parseInt (intTyOf w) t.text = some (v, hex)
     | .f32 txt => t.ty = 5 ∧ f32 t.text = some txt
     | .f64 txt => t.ty = 5 ∧ t.fl = some txt
     | .begin_ => t.ty = 1
     | .end_ => t.ty = 2) := by
  cases w <;> rfl

theorem span_def (toks : Array PTok) (a b : Nat) :
    span toks a b = ((toks.toList.drop a).take (b - a)).filter (fun t => t.ty ≠ 6) := rfl

theorem Rel_def (e : Env) (f32 : List Char → Option (List Char)) (s s' : PState) (ws : List WV) :
    Rel e f32 s s' ws ↔
      (s.pos ≤ s'.pos ∧ s'.pos ≤ e.toks.size ∧ All2 (agree e.strict f32) ws (span e.toks s.pos s'.pos)) := Iff.rfl

theorem AtEnd_def (e : Env) (s : PState) : AtEnd e s ↔ ∃ t, e.toks[s.pos]? = some t ∧ t.ty = 2 := Iff.rfl
theorem NonEmpty_def (e : Env) (s : PState) : NonEmpty e s ↔ ∃ t, e.toks[s.pos]? = some t ∧ t.ty ≠ 2 := Iff.rfl

theorem EndBehindComments_def (e : Env) (p : Nat) : EndBehindComments e p ↔
    ∃ q, p ≤ q ∧ (∀ i, p ≤ i → i < q → ∃ t, e.toks[i]? = some t ∧ t.ty = 6) ∧ ∃ t, e.toks[q]? = some t ∧ t.ty = 2 :=
  Iff.rfl
theorem Accepts_def (e : Env) (f32 : List Char → Option (List Char)) (ctx : Ctx) (sp : Spec) (p : Nat) :
    Accepts e f32 ctx sp p ↔
      ∃ s0 g s1, s0.pos = p ∧ itemP f32 sp ctx e s0 = .ok g s1 ∧ EndBehindComments e s1.pos := Iff.rfl

/-- "structurally balanced", read independently of the parser: a scanner with a stack of open tags -/
theorem balanced_def (toks : Array PTok) (p : Nat) : balanced toks p = scan .normal [] (toks.toList.drop p) := rfl
theorem scan_def (m : Mode) (st : List (List Char)) (l : List PTok) : scan m st l =
    (match m, st, l with
     | _, _, [] => false
     | .normal, st, t :: rest =>
       if t.ty = 1 then scan .beginTag st rest
       else if t.ty = 2 then (match st with | [] => true | _ :: _ => scan .endTag st rest)
       else scan .normal st rest
     | .beginTag, st, t :: rest =>
       if t.ty = 6 then scan .beginTag st rest
       else if t.ty = 0 then scan .normal (t.text :: st) rest
       else false
     | .endTag, st, t :: rest =>
       if t.ty = 6 then scan .endTag st rest
       else if t.ty = 0 then
         (match st with | tag :: st' => if t.text = tag then scan .normal st' rest else false | [] => false)
       else false) := by
  cases l with
  | nil => cases m <;> rfl
  | cons t rest => cases m <;> rfl

theorem NoInc_def (e : Env) : NoInc e ↔ ∀ (i : Nat) (t : PTok), e.toks[i]? = some t → t.ty ≠ 3 := Iff.rfl
theorem AtomsOk_def (e : Env) : AtomsOk e ↔ ∀ (i : Nat) (t : PTok), e.toks[i]? = some t →
    t.ty ≤ 6 ∧ (t.ty = 5 → NumOk t) ∧ (t.ty = 0 → e.strict = true → IdentOk t) := Iff.rfl
theorem NumOk_def (t : PTok) : NumOk t ↔
    ((parseInt (intTyOf 2) t.text).isSome ∨ (parseInt (intTyOf 3) t.text).isSome ∨
     (parseInt (intTyOf 7) t.text).isSome ∨ t.fl.isSome) := Iff.rfl

/-- `parser.a2mlspec` at cursor position `p`: the built-in specification(s) first, then one entry per A2ML block
    before `p` whose text parses -/
theorem specsAt_def (builtin : List Spec) (toks : Array PTok) (p : Nat) :
    specsAt builtin toks p = builtin ++ fileSpecs toks p := rfl

/-! ## examples used below -/

def tk (ty : Nat) (text : List Char) (line : Nat := 1) (fl : Option (List Char) := none) : PTok :=
  { ty := ty, text := text, line := line, sym := noSym, fl := fl }

/-- `block "IF_DATA" taggedunion { "X" struct { uint; char[10]; float; }; block "B" taggedstruct { ("T" uchar)*; }; };` -/
def exSpec : Spec :=
  .taggedUnion [⟨['X'], .struct [.int 5, .array (.int 0) 10, .float], false, false⟩,
                ⟨['B'], .taggedStruct [⟨['T'], .int 4, false, true⟩], true, false⟩]

/-- `X 0x10 "ab" 1.5 /end ...` -/
def exToks : Array PTok :=
  #[tk 0 ['X'], tk 5 "0x10".toList, tk 4 "\"ab\"".toList, tk 5 "1.5".toList 1 (some "1.5".toList), tk 2 "/end".toList,
    tk 0 "IF_DATA".toList]

def exF32 : List Char → Option (List Char) := fun t => if t = "1.5".toList then some "1.5".toList else none

def exCtx : Ctx := ⟨"IF_DATA".toList, 0, 1⟩

/-- `G 1 /begin A "s" /end A 2.5 /end ...`: content that `exSpec` does not describe -/
def exGarbage : Array PTok :=
  #[tk 0 ['G'], tk 5 ['1'], tk 1 "/begin".toList, tk 0 ['A'], tk 4 "\"s\"".toList, tk 2 "/end".toList, tk 0 ['A'],
    tk 5 "2.5".toList 1 (some "2.5".toList), tk 2 "/end".toList, tk 0 "IF_DATA".toList]

/-- `X /begin A 2 /end A /* c */ /begin B 3 /end B /end ...` -/
def cexToks : Array PTok :=
  #[tk 0 ['X'], tk 1 "/begin".toList, tk 0 ['A'], tk 5 ['2'], tk 2 "/end".toList, tk 0 ['A'],
    tk 6 "/* c */".toList, tk 1 "/begin".toList, tk 0 ['B'], tk 5 ['3'], tk 2 "/end".toList, tk 0 ['B'],
    tk 2 "/end".toList, tk 0 "IF_DATA".toList]

/-- tokens on one line satisfy what the parser relies on (`TokOk`) -/
theorem tokOk_of_lines (toks : Array PTok)
    (h : ∀ i (h : i < toks.size), toks[i].line = 1 ∧ (toks[i].ty = 0 → toks[i].text ≠ []) ∧
      (toks[i].ty = 6 → countNewlines toks[i].text = 0)) : TokOk toks := by
  refine ⟨?_, ?_, ?_, ?_⟩
  · intro i hi; rw [(h i hi).1]; exact Nat.le_refl _
  · intro i j hi hj _; rw [(h i hi).1, (h j hj).1]; exact Nat.le_refl _
  · intro i hi; exact (h i hi).2.1
  · intro i j hi hj _ h6; rw [(h i hi).1, (h j hj).1, (h i hi).2.2 h6]; exact Nat.le_refl _

theorem noInc_of (toks : Array PTok) (strict : Bool) (h : ∀ i (h : i < toks.size), toks[i].ty ≠ 3) :
    NoInc (specialEnv toks strict) := by
  intro i t ht
  have hlt := lt_of_getElem?_some ht
  rw [show (specialEnv toks strict).toks = toks from rfl, getElem?_pos toks i hlt] at ht
  cases ht
  exact h i hlt

/-- result summaries that `decide` can compare -/
def resOf (r : PRes (Option Gen × Bool)) : Option (List WV × Bool × Nat) :=
  match r with | .ok (some g, v) s => some (values true g, v, s.pos) | _ => none
def errOf {α : Type} (r : PRes α) : Option DK := match r with | .err d _ => some d.kind | _ => none
def isFuel {α : Type} (r : PRes α) : Bool := match r with | .fuel => true | _ => false
def endPos {α : Type} (r : PRes α) : Option Nat := match r with | .ok _ s => some s.pos | _ => none

/-! ## 5a. the A2ML definition parser is total -/

/-- **`a2ml_total`**: `parse_a2ml` (tokenizer and parser) returns a definition or an error for every text: the result
    type has no panic (the Rust code never indexes: it works on iterators), and the recursion budgets that the model
    uses (`tokenize`: one more than the number of characters; `parseToks`: `parseFuel n = 4 * n + 8` for `n` tokens,
    at most four calls happen between two consumed tokens) are never exhausted. -/
theorem a2ml_total (cs : List Char) : (∃ sp, parseA2ml cs = .ok sp) ∨ parseA2ml cs = .err := by
  cases h : parseA2ml cs with
  | ok sp => exact .inl ⟨sp, rfl⟩
  | err => exact .inr rfl
  | fuel => exact absurd h (parseA2ml_ne_fuel cs)

theorem a2ml_tokenize_total (cs : List Char) : tokenize cs ≠ .fuel := tokenize_ne_fuel cs
theorem a2ml_parse_total (toks : List ATok) : parseToks toks ≠ .fuel := parseToks_ne_fuel toks
theorem parseFuel_def (n : Nat) : parseFuel n = 4 * n + 8 := rfl

def dumpOf (r : Aml.PRes) : Option (List Char) := match r with | .ok sp => some (dumpSpec sp) | _ => none

example : tokenize "uint; /* c */ \"T\"".toList = .ok [.kuint, .semicolon, .tag ['T']] := by decide
/-- `struct S { uint; char[10]; }; block "IF_DATA" taggedunion { "X" struct S; };` -/
example : dumpOf (parseToks [.kstruct, .ident ['S'], .ocurly, .kuint, .semicolon, .kchar, .osquare, .constant 10, .csquare,
    .semicolon, .ccurly, .semicolon, .kblock, .tag "IF_DATA".toList, .ktaggedunion, .ocurly, .tag ['X'], .kstruct,
    .ident ['S'], .semicolon, .ccurly, .semicolon]) = some "tu{(\"X\" 0 0 struct{uint arr[10 char] })}".toList := by decide
/-- `block "IF_DATA" taggedunion { block "B" taggedstruct { ("T" uchar)*; }; };` -/
example : dumpOf (parseToks [.kblock, .tag "IF_DATA".toList, .ktaggedunion, .ocurly,
    .kblock, .tag ['B'], .ktaggedstruct, .ocurly, .oround, .tag ['T'], .kuchar, .cround, .repeat_, .semicolon, .ccurly,
    .semicolon, .ccurly, .semicolon]) = some "tu{(\"B\" 1 0 ts{(\"T\" 0 1 uchar)})}".toList := by decide
/-- `block "IF_DATA" struct { uint };`: the `;` behind the member is missing -/
example : dumpOf (parseToks [.kblock, .tag "IF_DATA".toList, .kstruct, .ocurly, .kuint, .ccurly, .semicolon]) = none := by
  decide

/-! ## 1. interpreted content: every value is what the tokens say -/

/-- **`interp_values_roundtrip`**: if `parse_ifdata` flags the content as valid, then it stopped in front of the
    closing `/end`, it stored data, and the values that are written for this data are, one by one and in order, what
    the non-comment tokens between the start and that `/end` say (see the file header for what that means for each
    kind of value). For every list of definitions (built-in first, then those of the A2ML blocks: `specsAt`), every
    token array, every start state, both modes. -/
theorem interp_values_roundtrip (e : Env) (f32 : List Char → Option (List Char)) (specs : List Spec) (ctx : Ctx)
    (s s' : PState) (r : Option Gen) (h : parseIfdata f32 specs ctx e s = .ok (r, true) s') :
    ∃ g, r = some g ∧ AtEnd e s' ∧ s.pos ≤ s'.pos ∧
      All2 (agree e.strict f32) (values true g) (span e.toks s.pos s'.pos) := by
  obtain ⟨g, hr, hrel, hend⟩ := parseIfdata_valid_ok h
  exact ⟨g, hr, hend, hrel.1, hrel.2.2⟩

example : resOf (parseIfdata exF32 [exSpec] exCtx (specialEnv exToks true) {}) =
    some ([.ident ['X'], .int 5 16 true, .str ['a', 'b'], .f32 "1.5".toList], true, 4) := by decide

/-- the same for every construct of a definition on its own (scalars, `char[n]` strings, arrays, enums, structs,
    sequences, tagged structs, tagged unions, blocks): what `parse_ifdata_item` returns for the definition `sp` -/
theorem item_values_roundtrip (e : Env) (f32 : List Char → Option (List Char)) (sp : Spec) (ctx : Ctx)
    (s s' : PState) (g : Gen) (hs : s.pos ≤ e.toks.size) (h : itemP f32 sp ctx e s = .ok g s') :
    Rel e f32 s s' (values false g) := itemP_ok f32 sp ctx s g s' hs h

example : endPos (itemP exF32 exSpec exCtx (specialEnv exToks true) {}) = some 4 := by decide

/-- in strict mode the tolerated deviation does not exist: a written string always comes from a String token -/
theorem agree_strict (f32 : List Char → Option (List Char)) (s : List Char) (t : PTok) (h : agree true f32 (.str s) t) :
    t.ty = 4 ∧ unescape (stripQuotes t.text) = .ok s := by
  rcases h with h | ⟨h, _⟩
  · exact h
  · cases h

/-- **the writer**: the text that `GenericIfData::write` produces is `white space ++ rendering` for each of the
    values `values top g`, in that order (`pieces` pairs every value with its white space), provided the tagged items
    carry non-zero uids that increase along every list (`UidOk`): then the stable sort by uid in `add_group` keeps
    the order. -/
theorem write_renders_values (top : Bool) (indent : Nat) (g : Gen) (h : UidOk g) :
    writeG top indent g = (pieces top indent g).flatMap renderPiece ∧
    (pieces top indent g).map (·.2) = values top g :=
  ⟨writeG_render top indent g h, pieces_values top indent g⟩

/-- ... and the data that `parse_ifdata` stores (valid or not) satisfies `UidOk`: `sequential_id` only grows and every
    tagged item takes the next id. So for everything the parser produces, the written text is the rendering of
    `values true g` in order (with `interp_values_roundtrip` / `unknown_values_roundtrip`: of what the tokens say). -/
theorem stored_data_written_in_order (e : Env) (f32 : List Char → Option (List Char)) (specs : List Spec) (ctx : Ctx)
    (s s' : PState) (g : Gen) (valid : Bool) (h : parseIfdata f32 specs ctx e s = .ok (some g, valid) s')
    (indent : Nat) :
    write indent g = (pieces true indent g).flatMap renderPiece ∧ (pieces true indent g).map (·.2) = values true g :=
  write_renders_values true indent g (parseIfdata_uidOk h)

/-- **the encoding at the hook boundary loses nothing**: the generic parser stores the `Val` that the `special` hook
    returns; the IF_DATA model encodes its `GenericIfData` as `enc g`, the writer hook decodes it: `dec (enc g) = some g`,
    and the hook writes `ifdata_items.write(indent - 1)` of exactly the data that was parsed. -/
theorem enc_roundtrip (g : Gen) : dec (enc g) = some g := dec_enc g

theorem hook_writes_stored_data (tyA2ml ty ty' indent : Nat) (info : Info) (g : Gen) (valid : Bool) (h : ty ≠ tyA2ml) :
    specialWrite tyA2ml ty indent (.block ty' info (encIfData (some g) valid) [] []) = write (indent - 1) g :=
  specialWrite_ifdata tyA2ml ty ty' indent info g valid h

example : dec (enc (.block 1 [.taggedUnion [⟨1, 7, 0, 0, ['X'], .block 1 [.int 5 0 16 true, .float 1 ['1']], true⟩]])) =
    some (.block 1 [.taggedUnion [⟨1, 7, 0, 0, ['X'], .block 1 [.int 5 0 16 true, .float 1 ['1']], true⟩]]) := dec_enc _

example : write 2 (.block 1 [.taggedUnion [⟨1, 7, 0, 0, ['X'], .block 1 [.int 5 0 16 true, .str 1 ['a']], false⟩]]) =
    " X 0x10\n      \"a\"".toList := by
  rw [write, (write_renders_values true 2 _ (by simp [UidOk, UidOkL, UidOkT])).1]
  decide

/-! ## 2. content that no definition describes -/

/-- **`unknown_values_roundtrip`**. When no applicable definition accepts non-empty content (`htry`) and the content
    is balanced, then `parse_ifdata` succeeds through the fallback: the block is flagged invalid, the fallback stopped
    in front of the closing `/end`, and the values written for the uninterpreted data are what the tokens say (numbers
    are read as `i32`, else `i64`, else `u64`, else `f64`; identifiers are kept as identifiers). The other hypotheses
    say that the tokens are what the tokenizer produces: lines (`TokOk`), no Include token, seven token kinds, every
    Number token is a number (a literal like `1e999` is not: `MalformedNumber`), and in strict mode identifiers are
    valid identifiers (`AtomsOk`).
    (Before the fix of `parse_unknown_taggedstruct` this needed "no comment directly in front of a /begin".) -/
theorem unknown_values_roundtrip (toks : Array PTok) (strict : Bool) (f32 : List Char → Option (List Char))
    (specs : List Spec) (ctx : Ctx) (s s1 : PState)
    (hk : TokOk toks) (hni : NoInc (specialEnv toks strict)) (hat : AtomsOk (specialEnv toks strict))
    (hne : NonEmpty (specialEnv toks strict) s)
    (htry : trySpecs f32 ctx specs (specialEnv toks strict) s = .ok none s1)
    (hbal : balanced toks s.pos = true) :
    ∃ g s', parseIfdata f32 specs ctx (specialEnv toks strict) s = .ok (some g, false) s' ∧
      AtEnd (specialEnv toks strict) s' ∧ Rel (specialEnv toks strict) f32 s s' (values true g) := by
  obtain ⟨hp, heq⟩ := parseIfdata_fallback hne htry
  obtain ⟨t, ht, _⟩ := hne
  have hlt : s.pos < toks.size := lt_of_getElem?_some ht
  obtain ⟨g, s', hr, hend, hrel⟩ := (unknownStart_balanced toks strict f32 hk (by omega) hni hat ctx s1
    (by rw [hp]; omega)).1 (by rw [hp]; exact hbal)
  refine ⟨g, s', ?_, hend, hrel.fromPos hp.symm⟩
  rw [heq, bind_eq, hr]
  rfl

/-- ... and when the content is not balanced, the fallback, and with it `parse_ifdata`, returns an error: it never
    panics and never loops -/
theorem unbalanced_is_error (toks : Array PTok) (strict : Bool) (f32 : List Char → Option (List Char))
    (specs : List Spec) (ctx : Ctx) (s s1 : PState)
    (hk : TokOk toks) (hni : NoInc (specialEnv toks strict)) (hat : AtomsOk (specialEnv toks strict))
    (hne : NonEmpty (specialEnv toks strict) s)
    (htry : trySpecs f32 ctx specs (specialEnv toks strict) s = .ok none s1)
    (hbal : balanced toks s.pos = false) :
    ∃ d s', parseIfdata f32 specs ctx (specialEnv toks strict) s = .err d s' := by
  obtain ⟨hp, heq⟩ := parseIfdata_fallback hne htry
  obtain ⟨t, ht, _⟩ := hne
  have hlt : s.pos < toks.size := lt_of_getElem?_some ht
  obtain ⟨d, s', hr⟩ := (unknownStart_balanced toks strict f32 hk (by omega) hni hat ctx s1
    (by rw [hp]; omega)).2 (by rw [hp]; exact hbal)
  exact ⟨d, s', by rw [heq, bind_eq, hr]⟩

/-- the fallback alone, both directions at once: on well-formed tokens it succeeds exactly on balanced content -/
theorem fallback_iff_balanced (toks : Array PTok) (strict : Bool) (hk : TokOk toks) (hne : toks.size ≠ 0)
    (hni : NoInc (specialEnv toks strict)) (hat : AtomsOk (specialEnv toks strict)) (ctx : Ctx) (s : PState)
    (hs : s.pos ≤ toks.size) :
    (∃ g s', unknownStart ctx (specialEnv toks strict) s = .ok g s') ↔ balanced toks s.pos = true := by
  have h := unknownStart_balanced toks strict (fun _ => none) hk (Nat.pos_of_ne_zero hne) hni hat ctx s hs
  constructor
  · rintro ⟨g, s', hr⟩
    cases hb : balanced toks s.pos with
    | true => rfl
    | false =>
      obtain ⟨d, s'', hr'⟩ := h.2 hb
      rw [hr] at hr'; cases hr'
  · intro hb
    obtain ⟨g, s', hr, _⟩ := h.1 hb
    exact ⟨g, s', hr⟩

/-- the counterexample of the first version of this file (`X /begin A 2 /end A /* c */ /begin B 3 /end B`: one comment
    between two inner blocks; the unfixed code failed with `InvalidBegin`): now kept, all values in order -/
theorem unknown_comment_between_blocks_kept :
    balanced cexToks 0 = true ∧
    resOf (parseIfdata exF32 [exSpec] exCtx (specialEnv cexToks false) {}) =
      some ([.ident ['X'], .begin_, .ident ['A'], .int 2 2 false, .end_, .ident ['A'],
             .begin_, .ident ['B'], .int 2 3 false, .end_, .ident ['B']], false, 12) :=
  ⟨by decide, by decide +kernel⟩

example : balanced exGarbage 0 = true := by decide
example : resOf (parseIfdata exF32 [exSpec] exCtx (specialEnv exGarbage false) {}) =
    some ([.ident ['G'], .int 2 1 false, .begin_, .ident ['A'], .str ['s'], .end_, .ident ['A'], .f64 "2.5".toList],
      false, 8) := by decide +kernel
/-- not balanced (the inner block is closed with the wrong tag): an error -/
example : errOf (parseIfdata exF32 [exSpec] exCtx (specialEnv
    #[tk 0 ['G'], tk 1 "/begin".toList, tk 0 ['A'], tk 2 "/end".toList, tk 0 ['B'], tk 2 "/end".toList] false) {}) =
    some .incorrectEndTag := by decide

/-! ## 3. the validity flag -/

/-- **`valid_iff_interp`**: the flag is true exactly when the content is not empty (the next token exists and is not
    `/end`) and the interpreter of some applicable definition, started at the content, succeeds and stops in front
    of a `/end`. "Started at the content" means: from any parser state whose cursor is there; the attempts that
    `parse_ifdata` makes one after the other start from states that differ in `last_token_position`,
    `sequential_id` and the log, and the interpreter's control flow depends on the cursor only (Lemmas/IfDataSim). -/
theorem valid_iff_interp (e : Env) (f32 : List Char → Option (List Char)) (specs : List Spec) (ctx : Ctx)
    (s s' : PState) (r : Option Gen) (valid : Bool) (h : parseIfdata f32 specs ctx e s = .ok (r, valid) s') :
    valid = true ↔ NonEmpty e s ∧ ∃ sp ∈ specs, Accepts e f32 ctx sp s.pos :=
  parseIfdata_valid_iff h

/-- the interpreter's verdict does not depend on the parts of the state that earlier attempts change -/
theorem interp_depends_on_cursor_only (e : Env) (f32 : List Char → Option (List Char)) (sp : Spec) (ctx : Ctx)
    (s t : PState) (hp : s.pos = t.pos) : Sim Any (itemP f32 sp ctx e s) (itemP f32 sp ctx e t) :=
  itemP_sim f32 sp ctx s t hp

example : NonEmpty (specialEnv exToks true) {} ∧ Accepts (specialEnv exToks true) exF32 exCtx exSpec 0 := by
  refine ⟨⟨_, rfl, by decide⟩, {}, ?_⟩
  have hpos : endPos (itemP exF32 exSpec exCtx (specialEnv exToks true) {}) = some 4 := by decide
  cases h : itemP exF32 exSpec exCtx (specialEnv exToks true) {} with
  | ok g s1 =>
    rw [h] at hpos
    have hp : s1.pos = 4 := by simpa [endPos] using hpos
    refine ⟨g, s1, rfl, rfl, 4, by omega, fun i h1 h2 => by omega, tk 2 "/end".toList, rfl, rfl⟩
  | err d s1 => rw [h] at hpos; cases hpos
  | panic => rw [h] at hpos; cases hpos
  | fuel => rw [h] at hpos; cases hpos

/-- **`trailing_comments_harmless`** (the positive form of what used to be the counterexample
    `conforming_accepted_needs_no_trailing_comment`): if the interpreter of an applicable definition, started at the
    content, succeeds and behind the place where it stops there is nothing but comments up to a `/end` token, then
    the block is flagged valid. -/
theorem trailing_comments_harmless (e : Env) (f32 : List Char → Option (List Char)) (specs : List Spec) (ctx : Ctx)
    (s s' : PState) (r : Option Gen) (valid : Bool) (h : parseIfdata f32 specs ctx e s = .ok (r, valid) s')
    (hne : NonEmpty e s) (sp : Spec) (hsp : sp ∈ specs) (s0 s1 : PState) (g : Gen) (hp : s0.pos = s.pos)
    (hi : itemP f32 sp ctx e s0 = .ok g s1) (q : Nat) (hq : s1.pos ≤ q)
    (hc : ∀ i, s1.pos ≤ i → i < q → ∃ t, e.toks[i]? = some t ∧ t.ty = 6)
    (hend : ∃ t, e.toks[q]? = some t ∧ t.ty = 2) : valid = true :=
  (valid_iff_interp e f32 specs ctx s s' r valid h).2 ⟨hne, sp, hsp, s0, g, s1, hp, hi, q, hq, hc, hend⟩

/-- `X 0x10 "ab" 1.5 /* c */ /end ...`: `exToks` with a comment in front of the closing `/end` -/
def exToksComment : Array PTok :=
  #[tk 0 ['X'], tk 5 "0x10".toList, tk 4 "\"ab\"".toList, tk 5 "1.5".toList 1 (some "1.5".toList), tk 6 "/* c */".toList,
    tk 2 "/end".toList, tk 0 "IF_DATA".toList]

/-- the old counterexample: valid now, the same values as without the comment, the cursor in front of `/end` -/
example : resOf (parseIfdata exF32 [exSpec] exCtx (specialEnv exToksComment true) {}) =
    some ([.ident ['X'], .int 5 16 true, .str ['a', 'b'], .f32 "1.5".toList], true, 5) := by decide +kernel

/-! ## 4. `ifdata_cleanup` -/

/-- **`cleanup_exact`**: `remove_unknown_ifdata_from_list` keeps exactly the blocks whose flag is set, in their order
    and unchanged (`List.filter`) -/
theorem cleanup_exact {α : Type} (valid : α → Bool) (l : List α) : removeUnknown valid l = l.filter valid :=
  removeUnknown_eq_filter valid l

theorem cleanup_mem {α : Type} (valid : α → Bool) (l : List α) (x : α) :
    x ∈ removeUnknown valid l ↔ x ∈ l ∧ valid x = true := by
  rw [cleanup_exact, List.mem_filter]

theorem cleanup_order {α : Type} (valid : α → Bool) (l : List α) : (removeUnknown valid l).Sublist l := by
  rw [cleanup_exact]; exact List.filter_sublist

example : removeUnknown (fun p : Nat × Bool => p.2) [(1, true), (2, false), (3, true)] = [(1, true), (3, true)] := by
  decide

/-! ## 5b. the IF_DATA interpreter is total -/

/-- **`ifdata_total`**: on tokens as the tokenizer produces them (`TokOk`: lines are positive and increasing,
    identifiers are not empty; no Include token: `parse_unknown_ifdata` would spin on one), from a cursor inside the
    token array, the hand-written parsers of `A2ML` and `IF_DATA` blocks never reach a panic site
    (`get_line_offset`, `undo_get_token`, `text.as_bytes()[0]`) and never exhaust the budgets of the model: the loops
    of `expect_token`, comment skipping, sequences and tagged structs get `toks.size + 1` iterations (every
    iteration consumes a token), the fallback gets `unknownFuel toks.size = 3 * toks.size + 8` nested calls (at most
    three calls per consumed token), the A2ML parser the budget of `a2ml_total`. -/
theorem ifdata_total (toks : Array PTok) (strict : Bool) (hk : TokOk toks) (hne : toks.size ≠ 0)
    (hni : NoInc (specialEnv toks strict))
    (tyA2ml : Nat) (f32 : List Char → Option (List Char)) (builtin : List Spec)
    (ty : Nat) (ctx : Ctx) (off : Nat) (s : PState) (hs : s.pos ≤ toks.size) :
    special tyA2ml f32 builtin ty ctx off toks strict s ≠ .panic ∧
    special tyA2ml f32 builtin ty ctx off toks strict s ≠ .fuel := by
  have := good_total (special_good True (cfgS toks strict hk (Nat.pos_of_ne_zero hne)) (fun _ _ => hni)
    tyA2ml f32 builtin ty ctx off s (fun _ => hs))
  exact ⟨this.1, this.2.1⟩

/-- the same for `parse_ifdata` alone, for any list of definitions -/
theorem parseIfdata_total (toks : Array PTok) (strict : Bool) (hk : TokOk toks) (hne : toks.size ≠ 0)
    (hni : NoInc (specialEnv toks strict)) (f32 : List Char → Option (List Char)) (specs : List Spec)
    (ctx : Ctx) (s : PState) (hs : s.pos ≤ toks.size) :
    parseIfdata f32 specs ctx (specialEnv toks strict) s ≠ .panic ∧
    parseIfdata f32 specs ctx (specialEnv toks strict) s ≠ .fuel := by
  have := good_total (parseIfdata_good (F := True) (cfgS toks strict hk (Nat.pos_of_ne_zero hne)) (fun _ _ => hni)
    f32 specs ctx s (fun _ => hs))
  exact ⟨this.1, this.2.1⟩

theorem unknownFuel_def (n : Nat) : unknownFuel n = 3 * n + 8 := rfl

/-- **`array_zero_width_stops`**: the array loop runs the interpreter of the element at most `dim` times AND at most
    once more than the number of tokens it consumes (so at most `toks.size + 1` times), whatever `dim` is: it stops
    after the first element that consumes nothing. (None of the budgets above mentions `dim`: the array loop is
    structurally recursive on `dim` and needs no budget; before the fix its running time and the memory for the
    result were proportional to `dim`, which comes from the A2ML text and can be `i32::MAX`.) -/
theorem array_zero_width_stops (e : Env) (f32 : List Char → Option (List Char)) (of : Spec) (dim : Nat) (ctx : Ctx)
    (s s' : PState) (vs : List Gen) (hs : s.pos ≤ e.toks.size)
    (h : itemP f32 (.array of dim) ctx e s = .ok (.array vs) s') :
    vs.length ≤ dim ∧ vs.length ≤ s'.pos - s.pos + 1 ∧ vs.length ≤ e.toks.size + 1 := by
  have h1 := itemP_array_length f32 of dim ctx s s' (.array vs) hs h vs rfl
  have h2 := (itemP_ok f32 (.array of dim) ctx s (.array vs) s' hs h).2.1
  exact ⟨h1.1, h1.2, by omega⟩

/-- `taggedunion { "X" uint; }[2147483647]` on `X 1 /end`: the first element takes `X 1`, the second is empty, stop -/
example : resOf (parseIfdata exF32 [.array (.taggedUnion [⟨['X'], .int 5, false, false⟩]) 2147483647] exCtx
    (specialEnv #[tk 0 ['X'], tk 5 ['1'], tk 2 "/end".toList, tk 0 "IF_DATA".toList] true) {}) =
    some ([.ident ['X'], .int 5 1 false], true, 2) := by decide +kernel

/-- the hypotheses are satisfiable: the example tokens, an IF_DATA block (`ty = 1`, the type `A2ml` being 0) -/
example : special 0 exF32 [exSpec] 1 exCtx 0 exToks true {} ≠ .panic ∧
    special 0 exF32 [exSpec] 1 exCtx 0 exToks true {} ≠ .fuel :=
  ifdata_total exToks true (tokOk_of_lines exToks (by decide)) (by decide) (noInc_of exToks true (by decide))
    0 exF32 [exSpec] 1 exCtx 0 {} (by decide)

/-- without the hypothesis on Include tokens the statement is false: `parse_unknown_ifdata` does not consume an Include
    token (`A2lTokenType::Include => {}`), the loop never ends. (The tokenizer never hands one to the parser.) -/
example : isFuel (parseIfdata exF32 [] exCtx (specialEnv #[tk 3 "/include".toList, tk 2 "/end".toList] false) {}) = true := by
  decide +kernel

/-! ## 6. the hypotheses of C03 / C06 about the `special` parsers hold for the real ones -/

/-- **`special_ok`**: the instance of `Env.special` (Model/IfData.lean: `A2ml::parse` for the type `A2ml`,
    `IfData::parse` otherwise) satisfies `SpecialOk` of Props/C03Parse.lean: no panic, the cursor stays in range and
    does not move backwards, the log is only extended. -/
theorem special_ok (e : Env) (tyA2ml : Nat) (f32 : List Char → Option (List Char)) (builtin : List Spec)
    (hsp : e.special = special tyA2ml f32 builtin) (hk : TokOk e.toks) (hne : e.toks.size ≠ 0) : SpecialOk e :=
  special_specialOk e tyA2ml f32 builtin hsp hk hne

example : SpecialOk { toks := exToks, strict := true, table := [], special := special 0 exF32 [exSpec] } :=
  special_ok _ 0 exF32 [exSpec] rfl (tokOk_of_lines exToks (by decide)) (by decide)

/-- corollary: `parse_file` with the real `special` parsers never panics (Props/C03Parse.lean `parseFile_no_panic`
    without its hypothesis `hsp`) -/
theorem parseFile_no_panic_real (e : Env) (tyA2ml : Nat) (f32 : List Char → Option (List Char)) (builtin : List Spec)
    (hsp : e.special = special tyA2ml f32 builtin) (hk : TokOk e.toks) (ht : tableOk e.table e.known = true)
    (hne : e.toks.size ≠ 0) : runParseFile e ≠ .panic :=
  parseFile_no_panic e hk ht (special_ok e tyA2ml f32 builtin hsp hk hne) hne

/-- corollary: cursor range and log monotonicity of `parseType` with the real `special` parsers -/
theorem parseType_pos_real (e : Env) (tyA2ml : Nat) (f32 : List Char → Option (List Char)) (builtin : List Spec)
    (hsp : e.special = special tyA2ml f32 builtin) (hk : TokOk e.toks) (ht : tableOk e.table e.known = true)
    (hne : e.toks.size ≠ 0) (fuel : Nat) (ty : Nat) (ctx : Ctx) (off : Nat) (s : PState) (hs : s.pos ≤ e.toks.size) :
    (∀ v s', parseType fuel ty ctx off e s = .ok v s' → s.pos ≤ s'.pos ∧ s'.pos ≤ e.toks.size) ∧
    (∀ d s', parseType fuel ty ctx off e s = .err d s' → s'.pos ≤ e.toks.size) :=
  parseType_pos e hk ht (special_ok e tyA2ml f32 builtin hsp hk hne) fuel ty ctx off s hs

/-- **the `hsp` / `hspe` hypotheses of `strict_log_only_warnings`** hold for the real `special` parsers: in strict mode
    they add nothing but deprecation notices to the log (in fact nothing at all), whether they succeed or fail -/
theorem special_strict_ok (e : Env) (tyA2ml : Nat) (f32 : List Char → Option (List Char)) (builtin : List Spec)
    (hsp : e.special = special tyA2ml f32 builtin) (hstrict : e.strict = true) :
    (∀ ty ctx off s v s', e.special ty ctx off e.toks e.strict s = .ok v s' →
      ∃ l, s'.log = l ++ s.log ∧ ∀ d ∈ l, d.kind = .blockRefDeprecated ∨ d.kind = .enumRefDeprecated) ∧
    (∀ ty ctx off s d s', e.special ty ctx off e.toks e.strict s = .err d s' →
      ∃ l, s'.log = l ++ s.log ∧ ∀ d ∈ l, d.kind = .blockRefDeprecated ∨ d.kind = .enumRefDeprecated) := by
  rw [hsp, hstrict]
  exact ⟨fun ty ctx off s v s' h => (special_strict_log e.toks tyA2ml f32 builtin ty ctx off s).1 v s' h,
         fun ty ctx off s d s' h => (special_strict_log e.toks tyA2ml f32 builtin ty ctx off s).2 d s' h⟩

/-- corollary: `strict_log_only_warnings` with the real `special` parsers -/
theorem strict_log_only_warnings_real (e : Env) (tyA2ml : Nat) (f32 : List Char → Option (List Char))
    (builtin : List Spec) (hsp : e.special = special tyA2ml f32 builtin) (hstrict : e.strict = true)
    (fuel : Nat) (ty : Nat) (ctx : Ctx) (off : Nat) (s : PState) (v : Val) (s' : PState)
    (h : parseType fuel ty ctx off e s = .ok v s') :
    ∃ l, s'.log = l ++ s.log ∧ ∀ d ∈ l, d.kind = .blockRefDeprecated ∨ d.kind = .enumRefDeprecated :=
  strict_log_only_warnings e hstrict (special_strict_ok e tyA2ml f32 builtin hsp hstrict).1
    (special_strict_ok e tyA2ml f32 builtin hsp hstrict).2 fuel ty ctx off s v s' h

/-- `block "IF_DATA" taggedunion { "X" char[2]; };` -/
def simSpec : Spec := .taggedUnion [⟨['X'], .array (.int 0) 2, false, false⟩]
/-- `X abc /end IF_DATA`: an identifier where the definition has a string -/
def simToks : Array PTok := #[tk 0 ['X'], tk 0 "abc".toList, tk 2 "/end".toList, tk 0 "IF_DATA".toList]
def simEnv (strict : Bool) : Env :=
  { toks := simToks, strict := strict, table := [], special := special 0 exF32 [simSpec] }

/-- the `ifdata_valid` flag of the value that the `special` hook returns for an IF_DATA block -/
def validOf (r : PRes Val) : Option Bool :=
  match r with
  | .ok (.block _ _ fields _ _) _ => (decIfData fields).map (·.2)
  | _ => none

/-- **`SpecialSim` (the hypothesis of the C06 theorems about the `special` parsers) is FALSE for the real IF_DATA
    parser**, so those theorems do not become unconditional. In strict mode a recoverable problem inside IF_DATA
    (here: an identifier where the definition has a string) does not make the load fail: the error only ends the
    attempt to interpret the content, the fallback keeps it, and the strict load SUCCEEDS with the block flagged
    invalid and without any diagnostic; the non-strict load succeeds with a diagnostic and the block flagged valid
    (and writes `"abc"` where the strict load writes `abc`). Confirmed on the Rust library. -/
theorem specialSim_false_for_ifdata : ¬ SpecialSim (simEnv true) := by
  intro h
  have h2 := (h 1 exCtx 0 {}).2.1
  have hs : validOf ((simEnv true).special 1 exCtx 0 (simEnv true).toks true {}) = some false := by decide +kernel
  have hn : validOf ((simEnv true).special 1 exCtx 0 (simEnv true).toks false {}) = some true := by decide +kernel
  cases hr : (simEnv true).special 1 exCtx 0 (simEnv true).toks true {} with
  | ok v s' =>
    have := h2 v s' hr
    rw [this] at hn
    rw [hr] at hs
    rw [hs] at hn
    cases hn
  | err d s' => rw [hr] at hs; cases hs
  | panic => rw [hr] at hs; cases hs
  | fuel => rw [hr] at hs; cases hs

/-! ## 7. the A2ML rules read declaratively

`Conf strict f32 sp l` (Lemmas/IfDataConf.lean, an inductive relation written from the A2ML rules and independent of
the interpreter): the comment-free token list `l` is an instance of the definition `sp`: scalars by token class and
range, `char[n]` strings, arrays element by element, enum items by name, struct members in order, sequences with any
number of elements, tagged structs with any number of members of which those not defined as `("TAG" ...)*` occur at
most once, tagged members by tag and block-ness, blocks closed by `/end TAG`. -/

/-- the rules for the scalars and strings, as an illustration that `Conf` is what it is meant to be -/
example (strict : Bool) (f32 : List Char → Option (List Char)) (w : Nat) (t : PTok) (r : Int × Bool)
    (h5 : t.ty = 5) (hp : parseInt (intTyOf w) t.text = some r) : Conf strict f32 (.int w) [t] := .int h5 hp
example (strict : Bool) (f32 : List Char → Option (List Char)) (items : List Spec) (l : List PTok)
    (h : ConfAll strict f32 items l) : Conf strict f32 (.struct items) l := .struct h
example (strict : Bool) (f32 : List Char → Option (List Char)) (items : List (Tagged Spec)) (tg : Tagged Spec)
    (b t e t' : PTok) (body : List PTok) (h1 : lookupTagged items t.text = some tg) (h2 : tg.isBlock = true)
    (hb : b.ty = 1) (ht : t.ty = 0) (hbody : Conf strict f32 tg.item body) (he : e.ty = 2) (ht' : t'.ty = 0)
    (htag : t'.text = t.text) : ConfTag strict f32 items (b :: t :: body ++ [e, t']) t.text :=
  .block h1 h2 hb ht hbody he ht' htag

/-- **`valid_implies_conforming`** (one half of `conforming_accepted`): whatever `parse_ifdata` flags as valid is,
    comments left out, an instance of one of the applicable definitions, up to the closing `/end`. -/
theorem valid_implies_conforming (e : Env) (f32 : List Char → Option (List Char)) (specs : List Spec) (ctx : Ctx)
    (s s' : PState) (r : Option Gen) (h : parseIfdata f32 specs ctx e s = .ok (r, true) s') :
    ∃ sp ∈ specs, Conf e.strict f32 sp (span e.toks s.pos s'.pos) := valid_conforms h

/-- ... and for a single definition: what `parse_ifdata_item` consumes is an instance of it -/
theorem item_implies_conforming (e : Env) (f32 : List Char → Option (List Char)) (sp : Spec) (ctx : Ctx)
    (s s' : PState) (g : Gen) (hs : s.pos ≤ e.toks.size) (h : itemP f32 sp ctx e s = .ok g s') :
    Conf e.strict f32 sp (span e.toks s.pos s'.pos) := (itemP_conf f32 sp ctx s g s' hs h).2.2

theorem TagsOk_def (rep : List Char → Bool) (tags : List (List Char)) :
    TagsOk rep tags ↔ tags.Pairwise (fun a b => a = b → rep a = true) := Iff.rfl
theorem repOf_def (items : List (Tagged Spec)) (tag : List Char) :
    repOf items tag = (match lookupTagged items tag with | some t => t.rep | none => false) := rfl

/-- **`duplicate_member_rejected`**: what the interpreter accepts for a tagged struct never has two items of a member
    that is not defined as `("TAG" ...)*`: the tags of the items are pairwise different except for repeating members.
    (`parse_ifdata_taggedstruct` returns `InvalidMultiplicityTooMany` after it has read the second item; inside
    `parse_ifdata` this only ends the attempt, the content is then kept by the fallback and flagged invalid. The
    same restriction is part of `Conf`, so `valid_implies_conforming` says it for nested tagged structs as well.) -/
theorem duplicate_member_rejected (e : Env) (f32 : List Char → Option (List Char)) (items : List (Tagged Spec))
    (ctx : Ctx) (s s' : PState) (g : Gen) (h : itemP f32 (.taggedStruct items) ctx e s = .ok g s') :
    ∃ vs, g = .taggedStruct vs ∧ (vs.map (·.tag)).Pairwise (fun a b => a = b → repOf items a = true) :=
  itemP_taggedStruct_tagsOk f32 items ctx s s' g h

/-- `block "IF_DATA" taggedstruct { "A" uint; ("R" uint)*; };` -/
def dupSpec : Spec := .taggedStruct [⟨['A'], .int 5, false, false⟩, ⟨['R'], .int 5, false, true⟩]

/-- `R 1 R 2 A 3 /end`: the repeating member twice: valid -/
example : resOf (parseIfdata exF32 [dupSpec] exCtx (specialEnv
    #[tk 0 ['R'], tk 5 ['1'], tk 0 ['R'], tk 5 ['2'], tk 0 ['A'], tk 5 ['3'], tk 2 "/end".toList, tk 0 "IF_DATA".toList]
    true) {}) =
    some ([.ident ['R'], .int 5 1 false, .ident ['R'], .int 5 2 false, .ident ['A'], .int 5 3 false], true, 6) := by
  decide +kernel
/-- `A 1 R 2 A 3 /end`: the non-repeating member twice: not accepted by the definition, kept as uninterpreted data
    (the fallback reads identifiers and `i32` numbers), flagged invalid -/
example : resOf (parseIfdata exF32 [dupSpec] exCtx (specialEnv
    #[tk 0 ['A'], tk 5 ['1'], tk 0 ['R'], tk 5 ['2'], tk 0 ['A'], tk 5 ['3'], tk 2 "/end".toList, tk 0 "IF_DATA".toList]
    true) {}) =
    some ([.ident ['A'], .int 2 1 false, .ident ['R'], .int 2 2 false, .ident ['A'], .int 2 3 false], false, 6) := by
  decide +kernel
/-- the error that ends the attempt -/
example : errOf (itemP exF32 dupSpec exCtx (specialEnv
    #[tk 0 ['A'], tk 5 ['1'], tk 0 ['A'], tk 5 ['3'], tk 2 "/end".toList, tk 0 "IF_DATA".toList] true) {}) =
    some .invalidMultiplicityTooMany := by decide +kernel

/-- `struct { taggedstruct { "A" (uint)*; }; uint; }`: a greedy sequence followed by a member of the same token class -/
def ambSpec : Spec := .struct [.taggedStruct [⟨['A'], .seq (.int 5), false, false⟩], .int 5]
/-- `A 1 2 /end ...` -/
def ambToks : Array PTok := #[tk 0 ['A'], tk 5 ['1'], tk 5 ['2'], tk 2 "/end".toList, tk 0 "IF_DATA".toList]

/-- the other half of `conforming_accepted` ("conforming content is recognised as valid") is FALSE without a side
    condition on the definition: `A 1 2` is an instance of `ambSpec` (the sequence takes `1`, the member `uint` takes
    `2`), but the interpreter's sequence loop is greedy, takes both numbers, the member then finds `/end`, and the
    block is flagged invalid. -/
theorem conforming_accepted_needs_unambiguity :
    Conf true exF32 ambSpec (span ambToks 0 3) ∧
    resOf (parseIfdata exF32 [ambSpec] exCtx (specialEnv ambToks true) {}) =
      some ([.ident ['A'], .int 2 1 false, .int 2 2 false], false, 3) := by
  refine ⟨?_, by decide +kernel⟩
  have hs : span ambToks 0 3 = [tk 0 ['A'], tk 5 ['1']] ++ ([tk 5 ['2']] ++ []) := by rfl
  rw [hs]
  refine .struct (.cons (.taggedStruct (tags := [['A']]) ?_ (List.pairwise_singleton _ _))
    (.cons (.int (r := (2, false)) rfl (by decide)) .nil))
  show ConfTags _ _ _ ([tk 0 ['A'], tk 5 ['1']] ++ []) _
  refine .cons (.kw (tg := ⟨['A'], .seq (.int 5), false, false⟩) (by rfl) rfl rfl ?_) .nil
  show Conf _ _ _ ([tk 5 ['1']] ++ [])
  exact .seq (n := 1) (.succ (.int (r := (1, false)) rfl (by decide)) .zero)

end A2l.IfData
