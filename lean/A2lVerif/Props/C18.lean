import A2lVerif.Lemmas.IfDataTop
import A2lVerif.Lemmas.IfDataWrite
import A2lVerif.Lemmas.IfDataUid
import A2lVerif.Lemmas.IfDataConf
import A2lVerif.Props.C03Parse
import A2lVerif.Props.C06
/-!
# C18 — IF_DATA is interpreted exactly as the applicable A2ML definition says

Property theorems only. Models: Model/A2ml.lean (`a2ml.rs`: tokenizer and parser of the definition), Model/IfData.lean
(`ifdata.rs`: the type-directed interpreter and the fallback; `GenericIfData::write`; the blocks `A2ML`, `IF_DATA`).
Proofs: Lemmas/A2ml.lean, Lemmas/IfData*.lean. Quantification: every definition (`Spec`), every token array, every
parser state; no bounds.

What "values survive load and write unchanged" means here (`interp_values_roundtrip`, `write_renders_values`):
the text written for the stored data is the concatenation of `white space ++ rendering` of a list of values
(`values`, in the order in which they are written), and this list agrees, element by element and in order, with the
tokens that were consumed, comments left out (`span`): identifiers, tags and enum items have the token's text; a
string has the token's unescaped content; `/begin` and `/end` correspond to Begin / End tokens; an integer written as
`(v, hex)` of type `w` comes from a Number token for which `get_integer::<w>` returns exactly `(v, hex)` (Props/Scalars
then says that `v` is the literal's value resp. its two's complement reading and that the notation flag is kept); a
float is written with the text that `add_float` prints for the `f32` / `f64` read from the token (the float codec is
a parameter of the model, DESIGN.md 2.2). One tolerated deviation is part of `agree`: the non-strict reader accepts an
identifier where the definition has a string, with a diagnostic, and writes it back as a quoted string.

Statements that are FALSE for the code as it is (each kept as a theorem with a concrete input, all three inputs
confirmed on the Rust library):
* `unknown_values_roundtrip_as_drafted_false`: balanced content that no definition describes is NOT always kept: one
  comment between the `/end TAG` of an inner block and the next `/begin` makes `parse_unknown_taggedstruct` fail with
  `InvalidBegin`, and with it the whole load. The corrected theorem has the hypothesis `NoCommentBeforeBegin`.
* `conforming_accepted_needs_no_trailing_comment`: conforming content is NOT always recognised as valid: a comment
  directly in front of the closing `/end` of the IF_DATA block makes `parse_ifdata_from_spec` give up; the block is
  flagged invalid and `ifdata_cleanup()` removes it.
* `conforming_accepted_needs_unambiguity`: the sequence loop is greedy, so an instance of a definition in which a
  sequence is followed by a member of the same token class is not recognised (this one is inherent in the format).
`valid_implies_conforming` is the half of `conforming_accepted` that holds without side conditions.
* `specialSim_false_for_ifdata`: the hypothesis `SpecialSim` of Props/C06.lean does NOT hold for the real IF_DATA
  parser (a strict load silently turns a recoverable problem inside IF_DATA into "block invalid").
-/
namespace A2l.IfData
open A2l.Tree A2l.Aml A2l.G A2l.Sc

/-! ## the definitions (checked by `rfl`: these lines are the definitions) -/

/-- the written values of the scalar variants -/
example (top : Bool) (w off : Nat) (v : Int) (hex : Bool) : values top (.int w off v hex) = [.int w v hex] := rfl
example (top : Bool) (off : Nat) (txt : List Char) : values top (.float off txt) = [.f32 txt] := rfl
example (top : Bool) (off : Nat) (txt : List Char) : values top (.double off txt) = [.f64 txt] := rfl
example (top : Bool) (off : Nat) (s : List Char) : values top (.str off s) = [.str s] := rfl
example (top : Bool) (off : Nat) (s : List Char) : values top (.enumItem off s) = [.ident s] := rfl
/-- a tagged item: `/begin` (blocks only), the tag, the data, `/end` and the tag again (blocks only) -/
example (it : TItem Gen) (rest : List (TItem Gen)) : valuesT (it :: rest) =
    (if it.isBlock then [.begin_] else []) ++ [.ident it.tag] ++ values true it.data ++
      (if it.isBlock then [.end_, .ident it.tag] else []) ++ valuesT rest := by rw [valuesT]

/-- when does a written value say what a token says -/
theorem agree_def (strict : Bool) (f32 : List Char → Option (List Char)) (w : WV) (t : PTok) :
    agree strict f32 w t =
    (match w with
     | .ident s => t.ty = 0 ∧ t.text = s
     | .str s => (t.ty = 4 ∧ unescape (stripQuotes t.text) = .ok s) ∨ (strict = false ∧ t.ty = 0 ∧ t.text = s)
     | .int w v hex => t.ty = 5 ∧ parseInt (intTyOf w) t.text = some (v, hex)
     | .f32 txt => t.ty = 5 ∧ f32 t.text = some txt
     | .f64 txt => t.ty = 5 ∧ t.fl = some txt
     | .begin_ => t.ty = 1
     | .end_ => t.ty = 2) := by
  cases w <;> rfl

theorem span_def (toks : Array PTok) (a b : Nat) :
    span toks a b = ((toks.toList.drop a).take (b - a)).filter (fun t => t.ty ≠ 6) := rfl

theorem Rel_def (e : Env) (f32 : List Char → Option (List Char)) (s s' : PState) (ws : List WV) :
    Rel e f32 s s' ws ↔
      (s.pos ≤ s'.pos ∧ s'.pos ≤ e.toks.size ∧ All2 (agree e.strict f32) ws (span e.toks s.pos s'.pos)) := Iff.rfl

theorem AtEnd_def (e : Env) (s : PState) : AtEnd e s ↔ ∃ t, e.toks[s.pos]? = some t ∧ t.ty = 2 := Iff.rfl
theorem NonEmpty_def (e : Env) (s : PState) : NonEmpty e s ↔ ∃ t, e.toks[s.pos]? = some t ∧ t.ty ≠ 2 := Iff.rfl

theorem Accepts_def (e : Env) (f32 : List Char → Option (List Char)) (ctx : Ctx) (sp : Spec) (p : Nat) :
    Accepts e f32 ctx sp p ↔ ∃ s0 g s1, s0.pos = p ∧ itemP f32 sp ctx e s0 = .ok g s1 ∧ AtEnd e s1 := Iff.rfl

/-- "structurally balanced", read independently of the parser: a scanner with a stack of open tags -/
theorem balanced_def (toks : Array PTok) (p : Nat) : balanced toks p = scan .normal [] (toks.toList.drop p) := rfl
theorem scan_def (m : Mode) (st : List (List Char)) (l : List PTok) : scan m st l =
    (match m, st, l with
     | _, _, [] => false
     | .normal, st, t :: rest =>
       if t.ty = 1 then scan .beginTag st rest
       else if t.ty = 2 then (match st with | [] => true | _ :: _ => scan .endTag st rest)
       else scan .normal st rest
     | .beginTag, st, t :: rest =>
       if t.ty = 6 then scan .beginTag st rest
       else if t.ty = 0 then scan .normal (t.text :: st) rest
       else false
     | .endTag, st, t :: rest =>
       if t.ty = 6 then scan .endTag st rest
       else if t.ty = 0 then
         (match st with | tag :: st' => if t.text = tag then scan .normal st' rest else false | [] => false)
       else false) := by
  cases l with
  | nil => cases m <;> rfl
  | cons t rest => cases m <;> rfl

theorem NoInc_def (e : Env) : NoInc e ↔ ∀ (i : Nat) (t : PTok), e.toks[i]? = some t → t.ty ≠ 3 := Iff.rfl
theorem NoCommentBeforeBegin_def (e : Env) : NoCommentBeforeBegin e ↔
    ∀ (i : Nat) (t t' : PTok), e.toks[i]? = some t → e.toks[i + 1]? = some t' → t.ty = 6 → t'.ty ≠ 1 := Iff.rfl
theorem AtomsOk_def (e : Env) : AtomsOk e ↔ ∀ (i : Nat) (t : PTok), e.toks[i]? = some t →
    t.ty ≤ 6 ∧ (t.ty = 5 → NumOk t) ∧ (t.ty = 0 → e.strict = true → IdentOk t) := Iff.rfl
theorem NumOk_def (t : PTok) : NumOk t ↔
    ((parseInt (intTyOf 2) t.text).isSome ∨ (parseInt (intTyOf 3) t.text).isSome ∨
     (parseInt (intTyOf 7) t.text).isSome ∨ t.fl.isSome) := Iff.rfl

/-- `parser.a2mlspec` at cursor position `p`: the built-in specification(s) first, then one entry per A2ML block
    before `p` whose text parses -/
theorem specsAt_def (builtin : List Spec) (toks : Array PTok) (p : Nat) :
    specsAt builtin toks p = builtin ++ fileSpecs toks p := rfl

/-! ## examples used below -/

def tk (ty : Nat) (text : List Char) (line : Nat := 1) (fl : Option (List Char) := none) : PTok :=
  { ty := ty, text := text, line := line, sym := noSym, fl := fl }

/-- `block "IF_DATA" taggedunion { "X" struct { uint; char[10]; float; }; block "B" taggedstruct { ("T" uchar)*; }; };` -/
def exSpec : Spec :=
  .taggedUnion [⟨['X'], .struct [.int 5, .array (.int 0) 10, .float], false, false⟩,
                ⟨['B'], .taggedStruct [⟨['T'], .int 4, false, true⟩], true, false⟩]

/-- `X 0x10 "ab" 1.5 /end ...` -/
def exToks : Array PTok :=
  #[tk 0 ['X'], tk 5 "0x10".toList, tk 4 "\"ab\"".toList, tk 5 "1.5".toList 1 (some "1.5".toList), tk 2 "/end".toList,
    tk 0 "IF_DATA".toList]

def exF32 : List Char → Option (List Char) := fun t => if t = "1.5".toList then some "1.5".toList else none

def exCtx : Ctx := ⟨"IF_DATA".toList, 0, 1⟩

/-- `G 1 /begin A "s" /end A 2.5 /end ...`: content that `exSpec` does not describe -/
def exGarbage : Array PTok :=
  #[tk 0 ['G'], tk 5 ['1'], tk 1 "/begin".toList, tk 0 ['A'], tk 4 "\"s\"".toList, tk 2 "/end".toList, tk 0 ['A'],
    tk 5 "2.5".toList 1 (some "2.5".toList), tk 2 "/end".toList, tk 0 "IF_DATA".toList]

/-- `X /begin A 2 /end A /* c */ /begin B 3 /end B /end ...` -/
def cexToks : Array PTok :=
  #[tk 0 ['X'], tk 1 "/begin".toList, tk 0 ['A'], tk 5 ['2'], tk 2 "/end".toList, tk 0 ['A'],
    tk 6 "/* c */".toList, tk 1 "/begin".toList, tk 0 ['B'], tk 5 ['3'], tk 2 "/end".toList, tk 0 ['B'],
    tk 2 "/end".toList, tk 0 "IF_DATA".toList]

/-- tokens on one line satisfy what the parser relies on (`TokOk`) -/
theorem tokOk_of_lines (toks : Array PTok)
    (h : ∀ i (h : i < toks.size), toks[i].line = 1 ∧ (toks[i].ty = 0 → toks[i].text ≠ []) ∧
      (toks[i].ty = 6 → countNewlines toks[i].text = 0)) : TokOk toks := by
  refine ⟨?_, ?_, ?_, ?_⟩
  · intro i hi; rw [(h i hi).1]; exact Nat.le_refl _
  · intro i j hi hj _; rw [(h i hi).1, (h j hj).1]; exact Nat.le_refl _
  · intro i hi; exact (h i hi).2.1
  · intro i j hi hj _ h6; rw [(h i hi).1, (h j hj).1, (h i hi).2.2 h6]; exact Nat.le_refl _

theorem noInc_of (toks : Array PTok) (strict : Bool) (h : ∀ i (h : i < toks.size), toks[i].ty ≠ 3) :
    NoInc (specialEnv toks strict) := by
  intro i t ht
  have hlt := lt_of_getElem?_some ht
  rw [show (specialEnv toks strict).toks = toks from rfl, getElem?_pos toks i hlt] at ht
  cases ht
  exact h i hlt

/-- result summaries that `decide` can compare -/
def resOf (r : PRes (Option Gen × Bool)) : Option (List WV × Bool × Nat) :=
  match r with | .ok (some g, v) s => some (values true g, v, s.pos) | _ => none
def errOf {α : Type} (r : PRes α) : Option DK := match r with | .err d _ => some d.kind | _ => none
def isFuel {α : Type} (r : PRes α) : Bool := match r with | .fuel => true | _ => false
def endPos {α : Type} (r : PRes α) : Option Nat := match r with | .ok _ s => some s.pos | _ => none

/-! ## 5a. the A2ML definition parser is total -/

/-- **`a2ml_total`**: `parse_a2ml` (tokenizer and parser) returns a definition or an error for every text: the result
    type has no panic (the Rust code never indexes: it works on iterators), and the recursion budgets that the model
    uses (`tokenize`: one more than the number of characters; `parseToks`: `parseFuel n = 4 * n + 8` for `n` tokens,
    at most four calls happen between two consumed tokens) are never exhausted. -/
theorem a2ml_total (cs : List Char) : (∃ sp, parseA2ml cs = .ok sp) ∨ parseA2ml cs = .err := by
  cases h : parseA2ml cs with
  | ok sp => exact .inl ⟨sp, rfl⟩
  | err => exact .inr rfl
  | fuel => exact absurd h (parseA2ml_ne_fuel cs)

theorem a2ml_tokenize_total (cs : List Char) : tokenize cs ≠ .fuel := tokenize_ne_fuel cs
theorem a2ml_parse_total (toks : List ATok) : parseToks toks ≠ .fuel := parseToks_ne_fuel toks
theorem parseFuel_def (n : Nat) : parseFuel n = 4 * n + 8 := rfl

def dumpOf (r : Aml.PRes) : Option (List Char) := match r with | .ok sp => some (dumpSpec sp) | _ => none

example : tokenize "uint; /* c */ \"T\"".toList = .ok [.kuint, .semicolon, .tag ['T']] := by decide
/-- `struct S { uint; char[10]; }; block "IF_DATA" taggedunion { "X" struct S; };` -/
example : dumpOf (parseToks [.kstruct, .ident ['S'], .ocurly, .kuint, .semicolon, .kchar, .osquare, .constant 10, .csquare,
    .semicolon, .ccurly, .semicolon, .kblock, .tag "IF_DATA".toList, .ktaggedunion, .ocurly, .tag ['X'], .kstruct,
    .ident ['S'], .semicolon, .ccurly, .semicolon]) = some "tu{(\"X\" 0 0 struct{uint arr[10 char] })}".toList := by decide
/-- `block "IF_DATA" taggedunion { block "B" taggedstruct { ("T" uchar)*; }; };` -/
example : dumpOf (parseToks [.kblock, .tag "IF_DATA".toList, .ktaggedunion, .ocurly,
    .kblock, .tag ['B'], .ktaggedstruct, .ocurly, .oround, .tag ['T'], .kuchar, .cround, .repeat_, .semicolon, .ccurly,
    .semicolon, .ccurly, .semicolon]) = some "tu{(\"B\" 1 0 ts{(\"T\" 0 1 uchar)})}".toList := by decide
/-- `block "IF_DATA" struct { uint };`: the `;` behind the member is missing -/
example : dumpOf (parseToks [.kblock, .tag "IF_DATA".toList, .kstruct, .ocurly, .kuint, .ccurly, .semicolon]) = none := by
  decide

/-! ## 1. interpreted content: every value is what the tokens say -/

/-- **`interp_values_roundtrip`**: if `parse_ifdata` flags the content as valid, then it stopped in front of the
    closing `/end`, it stored data, and the values that are written for this data are, one by one and in order, what
    the non-comment tokens between the start and that `/end` say (see the file header for what that means for each
    kind of value). For every list of definitions (built-in first, then those of the A2ML blocks: `specsAt`), every
    token array, every start state, both modes. -/
theorem interp_values_roundtrip (e : Env) (f32 : List Char → Option (List Char)) (specs : List Spec) (ctx : Ctx)
    (s s' : PState) (r : Option Gen) (h : parseIfdata f32 specs ctx e s = .ok (r, true) s') :
    ∃ g, r = some g ∧ AtEnd e s' ∧ s.pos ≤ s'.pos ∧
      All2 (agree e.strict f32) (values true g) (span e.toks s.pos s'.pos) := by
  obtain ⟨g, hr, hrel, hend⟩ := parseIfdata_valid_ok h
  exact ⟨g, hr, hend, hrel.1, hrel.2.2⟩

example : resOf (parseIfdata exF32 [exSpec] exCtx (specialEnv exToks true) {}) =
    some ([.ident ['X'], .int 5 16 true, .str ['a', 'b'], .f32 "1.5".toList], true, 4) := by decide

/-- the same for every construct of a definition on its own (scalars, `char[n]` strings, arrays, enums, structs,
    sequences, tagged structs, tagged unions, blocks): what `parse_ifdata_item` returns for the definition `sp` -/
theorem item_values_roundtrip (e : Env) (f32 : List Char → Option (List Char)) (sp : Spec) (ctx : Ctx)
    (s s' : PState) (g : Gen) (hs : s.pos ≤ e.toks.size) (h : itemP f32 sp ctx e s = .ok g s') :
    Rel e f32 s s' (values false g) := itemP_ok f32 sp ctx s g s' hs h

example : endPos (itemP exF32 exSpec exCtx (specialEnv exToks true) {}) = some 4 := by decide

/-- in strict mode the tolerated deviation does not exist: a written string always comes from a String token -/
theorem agree_strict (f32 : List Char → Option (List Char)) (s : List Char) (t : PTok) (h : agree true f32 (.str s) t) :
    t.ty = 4 ∧ unescape (stripQuotes t.text) = .ok s := by
  rcases h with h | ⟨h, _⟩
  · exact h
  · cases h

/-- **the writer**: the text that `GenericIfData::write` produces is `white space ++ rendering` for each of the
    values `values top g`, in that order (`pieces` pairs every value with its white space), provided the tagged items
    carry non-zero uids that increase along every list (`UidOk`): then the stable sort by uid in `add_group` keeps
    the order. -/
theorem write_renders_values (top : Bool) (indent : Nat) (g : Gen) (h : UidOk g) :
    writeG top indent g = (pieces top indent g).flatMap renderPiece ∧
    (pieces top indent g).map (·.2) = values top g :=
  ⟨writeG_render top indent g h, pieces_values top indent g⟩

/-- ... and the data that `parse_ifdata` stores (valid or not) satisfies `UidOk`: `sequential_id` only grows and every
    tagged item takes the next id. So for everything the parser produces, the written text is the rendering of
    `values true g` in order (with `interp_values_roundtrip` / `unknown_values_roundtrip`: of what the tokens say). -/
theorem stored_data_written_in_order (e : Env) (f32 : List Char → Option (List Char)) (specs : List Spec) (ctx : Ctx)
    (s s' : PState) (g : Gen) (valid : Bool) (h : parseIfdata f32 specs ctx e s = .ok (some g, valid) s')
    (indent : Nat) :
    write indent g = (pieces true indent g).flatMap renderPiece ∧ (pieces true indent g).map (·.2) = values true g :=
  write_renders_values true indent g (parseIfdata_uidOk h)

example : write 2 (.block 1 [.taggedUnion [⟨1, 7, 0, 0, ['X'], .block 1 [.int 5 0 16 true, .str 1 ['a']], false⟩]]) =
    " X 0x10\n      \"a\"".toList := by
  rw [write, (write_renders_values true 2 _ (by simp [UidOk, UidOkL, UidOkT])).1]
  decide

/-! ## 2. content that no definition describes -/

/-- the draft of `unknown_values_roundtrip` ("content that does not conform but is structurally balanced is kept as
    uninterpreted data") is FALSE for the code as it is: `X /begin A 2 /end A /* c */ /begin B 3 /end B` is balanced,
    every token is well-formed, and `parse_unknown_ifdata_start` fails with `InvalidBegin` (confirmed on the Rust
    library: `load_from_string` returns "/begin in block X is not followed by a valid tag"). The loop of
    `parse_unknown_taggedstruct` ends when `get_next_tag_or_comment` returns the comment (which is consumed), and the
    check behind the loop then sees an unused `/begin`. With two comments in a row the content is accepted. -/
theorem unknown_values_roundtrip_as_drafted_false :
    ¬ ∀ (toks : Array PTok) (strict : Bool) (ctx : Ctx) (s : PState),
      TokOk toks → NoInc (specialEnv toks strict) → AtomsOk (specialEnv toks strict) → s.pos ≤ toks.size →
      balanced toks s.pos = true → ∃ g s', unknownStart ctx (specialEnv toks strict) s = .ok g s' := by
  intro h
  have hk : TokOk cexToks := tokOk_of_lines cexToks (by decide)
  have hni : NoInc (specialEnv cexToks false) := by
    intro i t ht
    have hlt := lt_of_getElem?_some ht
    rw [show (specialEnv cexToks false).toks = cexToks from rfl, getElem?_pos cexToks i hlt] at ht
    cases ht
    exact (show ∀ i (h : i < cexToks.size), cexToks[i].ty ≠ 3 by decide) i hlt
  have hat : AtomsOk (specialEnv cexToks false) := by
    intro i t ht
    have hlt := lt_of_getElem?_some ht
    rw [show (specialEnv cexToks false).toks = cexToks from rfl, getElem?_pos cexToks i hlt] at ht
    cases ht
    have := (show ∀ i (h : i < cexToks.size), cexToks[i].ty ≤ 6 ∧ (cexToks[i].ty = 5 → NumOk cexToks[i]) by decide) i hlt
    exact ⟨this.1, this.2, fun _ h => by cases h⟩
  obtain ⟨g, s', hr⟩ := h cexToks false exCtx {} hk hni hat (by decide) (by decide)
  have : errOf (unknownStart exCtx (specialEnv cexToks false) {}) = some .invalidBegin := by decide
  rw [hr] at this
  cases this

example : balanced cexToks 0 = true := by decide
example : errOf (unknownStart exCtx (specialEnv cexToks false) {}) = some .invalidBegin := by decide

/-- **`unknown_values_roundtrip`** (CORRECTED: hypothesis `hcb`, no comment directly in front of a `/begin`, added).
    When no applicable definition accepts non-empty content (`htry`) and the content is balanced, then `parse_ifdata`
    succeeds through the fallback: the block is flagged invalid, the fallback stopped in front of the closing `/end`,
    and the values written for the uninterpreted data are what the tokens say (numbers are read as `i32`, else `i64`,
    else `u64`, else `f64`; identifiers are kept as identifiers). The other hypotheses say that the tokens are what
    the tokenizer produces: lines (`TokOk`), no Include token, seven token kinds, every Number token is a number, and
    in strict mode identifiers are valid identifiers (`AtomsOk`). -/
theorem unknown_values_roundtrip (toks : Array PTok) (strict : Bool) (f32 : List Char → Option (List Char))
    (specs : List Spec) (ctx : Ctx) (s s1 : PState)
    (hk : TokOk toks) (hni : NoInc (specialEnv toks strict)) (hat : AtomsOk (specialEnv toks strict))
    (hcb : NoCommentBeforeBegin (specialEnv toks strict))
    (hne : NonEmpty (specialEnv toks strict) s)
    (htry : trySpecs f32 ctx specs (specialEnv toks strict) s = .ok none s1)
    (hbal : balanced toks s.pos = true) :
    ∃ g s', parseIfdata f32 specs ctx (specialEnv toks strict) s = .ok (some g, false) s' ∧
      AtEnd (specialEnv toks strict) s' ∧ Rel (specialEnv toks strict) f32 s s' (values true g) := by
  obtain ⟨hp, heq⟩ := parseIfdata_fallback hne htry
  obtain ⟨t, ht, _⟩ := hne
  have hlt : s.pos < toks.size := lt_of_getElem?_some ht
  obtain ⟨g, s', hr, hend, hrel⟩ := (unknownStart_balanced toks strict f32 hk (by omega) hni hat hcb ctx s1
    (by rw [hp]; omega)).1 (by rw [hp]; exact hbal)
  refine ⟨g, s', ?_, hend, hrel.fromPos hp.symm⟩
  rw [heq, bind_eq, hr]
  rfl

/-- ... and when the content is not balanced, the fallback, and with it `parse_ifdata`, returns an error: it never
    panics and never loops (this direction needs neither `hcb` nor the shape of the content) -/
theorem unbalanced_is_error (toks : Array PTok) (strict : Bool) (f32 : List Char → Option (List Char))
    (specs : List Spec) (ctx : Ctx) (s s1 : PState)
    (hk : TokOk toks) (hni : NoInc (specialEnv toks strict)) (hat : AtomsOk (specialEnv toks strict))
    (hcb : NoCommentBeforeBegin (specialEnv toks strict))
    (hne : NonEmpty (specialEnv toks strict) s)
    (htry : trySpecs f32 ctx specs (specialEnv toks strict) s = .ok none s1)
    (hbal : balanced toks s.pos = false) :
    ∃ d s', parseIfdata f32 specs ctx (specialEnv toks strict) s = .err d s' := by
  obtain ⟨hp, heq⟩ := parseIfdata_fallback hne htry
  obtain ⟨t, ht, _⟩ := hne
  have hlt : s.pos < toks.size := lt_of_getElem?_some ht
  obtain ⟨d, s', hr⟩ := (unknownStart_balanced toks strict f32 hk (by omega) hni hat hcb ctx s1
    (by rw [hp]; omega)).2 (by rw [hp]; exact hbal)
  exact ⟨d, s', by rw [heq, bind_eq, hr]⟩

example : balanced exGarbage 0 = true := by decide
example : resOf (parseIfdata exF32 [exSpec] exCtx (specialEnv exGarbage false) {}) =
    some ([.ident ['G'], .int 2 1 false, .begin_, .ident ['A'], .str ['s'], .end_, .ident ['A'], .f64 "2.5".toList],
      false, 8) := by decide +kernel
/-- not balanced (the inner block is closed with the wrong tag): an error -/
example : errOf (parseIfdata exF32 [exSpec] exCtx (specialEnv
    #[tk 0 ['G'], tk 1 "/begin".toList, tk 0 ['A'], tk 2 "/end".toList, tk 0 ['B'], tk 2 "/end".toList] false) {}) =
    some .incorrectEndTag := by decide

/-! ## 3. the validity flag -/

/-- **`valid_iff_interp`**: the flag is true exactly when the content is not empty (the next token exists and is not
    `/end`) and the interpreter of some applicable definition, started at the content, succeeds and stops in front
    of a `/end`. "Started at the content" means: from any parser state whose cursor is there; the attempts that
    `parse_ifdata` makes one after the other start from states that differ in `last_token_position`,
    `sequential_id` and the log, and the interpreter's control flow depends on the cursor only (Lemmas/IfDataSim). -/
theorem valid_iff_interp (e : Env) (f32 : List Char → Option (List Char)) (specs : List Spec) (ctx : Ctx)
    (s s' : PState) (r : Option Gen) (valid : Bool) (h : parseIfdata f32 specs ctx e s = .ok (r, valid) s') :
    valid = true ↔ NonEmpty e s ∧ ∃ sp ∈ specs, Accepts e f32 ctx sp s.pos :=
  parseIfdata_valid_iff h

/-- the interpreter's verdict does not depend on the parts of the state that earlier attempts change -/
theorem interp_depends_on_cursor_only (e : Env) (f32 : List Char → Option (List Char)) (sp : Spec) (ctx : Ctx)
    (s t : PState) (hp : s.pos = t.pos) : Sim Any (itemP f32 sp ctx e s) (itemP f32 sp ctx e t) :=
  itemP_sim f32 sp ctx s t hp

example : NonEmpty (specialEnv exToks true) {} ∧ Accepts (specialEnv exToks true) exF32 exCtx exSpec 0 := by
  refine ⟨⟨_, rfl, by decide⟩, {}, ?_⟩
  have hpos : endPos (itemP exF32 exSpec exCtx (specialEnv exToks true) {}) = some 4 := by decide
  cases h : itemP exF32 exSpec exCtx (specialEnv exToks true) {} with
  | ok g s1 =>
    rw [h] at hpos
    have hp : s1.pos = 4 := by simpa [endPos] using hpos
    exact ⟨g, s1, rfl, rfl, tk 2 "/end".toList, by show exToks[s1.pos]? = _; rw [hp]; rfl, rfl⟩
  | err d s1 => rw [h] at hpos; cases hpos
  | panic => rw [h] at hpos; cases hpos
  | fuel => rw [h] at hpos; cases hpos

/-! ## 4. `ifdata_cleanup` -/

/-- **`cleanup_exact`**: `remove_unknown_ifdata_from_list` keeps exactly the blocks whose flag is set, in their order
    and unchanged (`List.filter`) -/
theorem cleanup_exact {α : Type} (valid : α → Bool) (l : List α) : removeUnknown valid l = l.filter valid :=
  removeUnknown_eq_filter valid l

theorem cleanup_mem {α : Type} (valid : α → Bool) (l : List α) (x : α) :
    x ∈ removeUnknown valid l ↔ x ∈ l ∧ valid x = true := by
  rw [cleanup_exact, List.mem_filter]

theorem cleanup_order {α : Type} (valid : α → Bool) (l : List α) : (removeUnknown valid l).Sublist l := by
  rw [cleanup_exact]; exact List.filter_sublist

example : removeUnknown (fun p : Nat × Bool => p.2) [(1, true), (2, false), (3, true)] = [(1, true), (3, true)] := by
  decide

/-! ## 5b. the IF_DATA interpreter is total -/

/-- **`ifdata_total`**: on tokens as the tokenizer produces them (`TokOk`: lines are positive and increasing,
    identifiers are not empty; no Include token: `parse_unknown_ifdata` would spin on one), from a cursor inside the
    token array, the hand-written parsers of `A2ML` and `IF_DATA` blocks never reach a panic site
    (`get_line_offset`, `undo_get_token`, `text.as_bytes()[0]`) and never exhaust the budgets of the model: the loops
    of `expect_token`, comment skipping, sequences and tagged structs get `toks.size + 1` iterations (every
    iteration consumes a token), the fallback gets `unknownFuel toks.size = 3 * toks.size + 8` nested calls (at most
    three calls per consumed token), the A2ML parser the budget of `a2ml_total`. -/
theorem ifdata_total (toks : Array PTok) (strict : Bool) (hk : TokOk toks) (hne : toks.size ≠ 0)
    (hni : NoInc (specialEnv toks strict))
    (tyA2ml : Nat) (f32 : List Char → Option (List Char)) (builtin : List Spec)
    (ty : Nat) (ctx : Ctx) (off : Nat) (s : PState) (hs : s.pos ≤ toks.size) :
    special tyA2ml f32 builtin ty ctx off toks strict s ≠ .panic ∧
    special tyA2ml f32 builtin ty ctx off toks strict s ≠ .fuel := by
  have := good_total (special_good True (cfgS toks strict hk (Nat.pos_of_ne_zero hne)) (fun _ _ => hni)
    tyA2ml f32 builtin ty ctx off s (fun _ => hs))
  exact ⟨this.1, this.2.1⟩

/-- the same for `parse_ifdata` alone, for any list of definitions -/
theorem parseIfdata_total (toks : Array PTok) (strict : Bool) (hk : TokOk toks) (hne : toks.size ≠ 0)
    (hni : NoInc (specialEnv toks strict)) (f32 : List Char → Option (List Char)) (specs : List Spec)
    (ctx : Ctx) (s : PState) (hs : s.pos ≤ toks.size) :
    parseIfdata f32 specs ctx (specialEnv toks strict) s ≠ .panic ∧
    parseIfdata f32 specs ctx (specialEnv toks strict) s ≠ .fuel := by
  have := good_total (parseIfdata_good (F := True) (cfgS toks strict hk (Nat.pos_of_ne_zero hne)) (fun _ _ => hni)
    f32 specs ctx s (fun _ => hs))
  exact ⟨this.1, this.2.1⟩

theorem unknownFuel_def (n : Nat) : unknownFuel n = 3 * n + 8 := rfl

/-- the hypotheses are satisfiable: the example tokens, an IF_DATA block (`ty = 1`, the type `A2ml` being 0) -/
example : special 0 exF32 [exSpec] 1 exCtx 0 exToks true {} ≠ .panic ∧
    special 0 exF32 [exSpec] 1 exCtx 0 exToks true {} ≠ .fuel :=
  ifdata_total exToks true (tokOk_of_lines exToks (by decide)) (by decide) (noInc_of exToks true (by decide))
    0 exF32 [exSpec] 1 exCtx 0 {} (by decide)

/-- without the hypothesis on Include tokens the statement is false: `parse_unknown_ifdata` does not consume an Include
    token (`A2lTokenType::Include => {}`), the loop never ends. (The tokenizer never hands one to the parser.) -/
example : isFuel (parseIfdata exF32 [] exCtx (specialEnv #[tk 3 "/include".toList, tk 2 "/end".toList] false) {}) = true := by
  decide +kernel

/-! ## 6. the hypotheses of C03 / C06 about the `special` parsers hold for the real ones -/

/-- **`special_ok`**: the instance of `Env.special` (Model/IfData.lean: `A2ml::parse` for the type `A2ml`,
    `IfData::parse` otherwise) satisfies `SpecialOk` of Props/C03Parse.lean: no panic, the cursor stays in range and
    does not move backwards, the log is only extended. -/
theorem special_ok (e : Env) (tyA2ml : Nat) (f32 : List Char → Option (List Char)) (builtin : List Spec)
    (hsp : e.special = special tyA2ml f32 builtin) (hk : TokOk e.toks) (hne : e.toks.size ≠ 0) : SpecialOk e :=
  special_specialOk e tyA2ml f32 builtin hsp hk hne

example : SpecialOk { toks := exToks, strict := true, table := [], special := special 0 exF32 [exSpec] } :=
  special_ok _ 0 exF32 [exSpec] rfl (tokOk_of_lines exToks (by decide)) (by decide)

/-- corollary: `parse_file` with the real `special` parsers never panics (Props/C03Parse.lean `parseFile_no_panic`
    without its hypothesis `hsp`) -/
theorem parseFile_no_panic_real (e : Env) (tyA2ml : Nat) (f32 : List Char → Option (List Char)) (builtin : List Spec)
    (hsp : e.special = special tyA2ml f32 builtin) (hk : TokOk e.toks) (ht : tableOk e.table e.known = true)
    (hne : e.toks.size ≠ 0) : runParseFile e ≠ .panic :=
  parseFile_no_panic e hk ht (special_ok e tyA2ml f32 builtin hsp hk hne) hne

/-- corollary: cursor range and log monotonicity of `parseType` with the real `special` parsers -/
theorem parseType_pos_real (e : Env) (tyA2ml : Nat) (f32 : List Char → Option (List Char)) (builtin : List Spec)
    (hsp : e.special = special tyA2ml f32 builtin) (hk : TokOk e.toks) (ht : tableOk e.table e.known = true)
    (hne : e.toks.size ≠ 0) (fuel : Nat) (ty : Nat) (ctx : Ctx) (off : Nat) (s : PState) (hs : s.pos ≤ e.toks.size) :
    (∀ v s', parseType fuel ty ctx off e s = .ok v s' → s.pos ≤ s'.pos ∧ s'.pos ≤ e.toks.size) ∧
    (∀ d s', parseType fuel ty ctx off e s = .err d s' → s'.pos ≤ e.toks.size) :=
  parseType_pos e hk ht (special_ok e tyA2ml f32 builtin hsp hk hne) fuel ty ctx off s hs

/-- **the `hsp` / `hspe` hypotheses of `strict_log_only_warnings`** hold for the real `special` parsers: in strict mode
    they add nothing but deprecation notices to the log (in fact nothing at all), whether they succeed or fail -/
theorem special_strict_ok (e : Env) (tyA2ml : Nat) (f32 : List Char → Option (List Char)) (builtin : List Spec)
    (hsp : e.special = special tyA2ml f32 builtin) (hstrict : e.strict = true) :
    (∀ ty ctx off s v s', e.special ty ctx off e.toks e.strict s = .ok v s' →
      ∃ l, s'.log = l ++ s.log ∧ ∀ d ∈ l, d.kind = .blockRefDeprecated ∨ d.kind = .enumRefDeprecated) ∧
    (∀ ty ctx off s d s', e.special ty ctx off e.toks e.strict s = .err d s' →
      ∃ l, s'.log = l ++ s.log ∧ ∀ d ∈ l, d.kind = .blockRefDeprecated ∨ d.kind = .enumRefDeprecated) := by
  rw [hsp, hstrict]
  exact ⟨fun ty ctx off s v s' h => (special_strict_log e.toks tyA2ml f32 builtin ty ctx off s).1 v s' h,
         fun ty ctx off s d s' h => (special_strict_log e.toks tyA2ml f32 builtin ty ctx off s).2 d s' h⟩

/-- corollary: `strict_log_only_warnings` with the real `special` parsers -/
theorem strict_log_only_warnings_real (e : Env) (tyA2ml : Nat) (f32 : List Char → Option (List Char))
    (builtin : List Spec) (hsp : e.special = special tyA2ml f32 builtin) (hstrict : e.strict = true)
    (fuel : Nat) (ty : Nat) (ctx : Ctx) (off : Nat) (s : PState) (v : Val) (s' : PState)
    (h : parseType fuel ty ctx off e s = .ok v s') :
    ∃ l, s'.log = l ++ s.log ∧ ∀ d ∈ l, d.kind = .blockRefDeprecated ∨ d.kind = .enumRefDeprecated :=
  strict_log_only_warnings e hstrict (special_strict_ok e tyA2ml f32 builtin hsp hstrict).1
    (special_strict_ok e tyA2ml f32 builtin hsp hstrict).2 fuel ty ctx off s v s' h

/-- `block "IF_DATA" taggedunion { "X" char[2]; };` -/
def simSpec : Spec := .taggedUnion [⟨['X'], .array (.int 0) 2, false, false⟩]
/-- `X abc /end IF_DATA`: an identifier where the definition has a string -/
def simToks : Array PTok := #[tk 0 ['X'], tk 0 "abc".toList, tk 2 "/end".toList, tk 0 "IF_DATA".toList]
def simEnv (strict : Bool) : Env :=
  { toks := simToks, strict := strict, table := [], special := special 0 exF32 [simSpec] }

/-- the `ifdata_valid` flag of the value that the `special` hook returns for an IF_DATA block -/
def validOf (r : PRes Val) : Option Bool :=
  match r with
  | .ok (.block _ _ fields _ _) _ => (decIfData fields).map (·.2)
  | _ => none

/-- **`SpecialSim` (the hypothesis of the C06 theorems about the `special` parsers) is FALSE for the real IF_DATA
    parser**, so those theorems do not become unconditional. In strict mode a recoverable problem inside IF_DATA
    (here: an identifier where the definition has a string) does not make the load fail: the error only ends the
    attempt to interpret the content, the fallback keeps it, and the strict load SUCCEEDS with the block flagged
    invalid and without any diagnostic; the non-strict load succeeds with a diagnostic and the block flagged valid
    (and writes `"abc"` where the strict load writes `abc`). Confirmed on the Rust library. -/
theorem specialSim_false_for_ifdata : ¬ SpecialSim (simEnv true) := by
  intro h
  have h2 := (h 1 exCtx 0 {}).2.1
  have hs : validOf ((simEnv true).special 1 exCtx 0 (simEnv true).toks true {}) = some false := by decide +kernel
  have hn : validOf ((simEnv true).special 1 exCtx 0 (simEnv true).toks false {}) = some true := by decide +kernel
  cases hr : (simEnv true).special 1 exCtx 0 (simEnv true).toks true {} with
  | ok v s' =>
    have := h2 v s' hr
    rw [this] at hn
    rw [hr] at hs
    rw [hs] at hn
    cases hn
  | err d s' => rw [hr] at hs; cases hs
  | panic => rw [hr] at hs; cases hs
  | fuel => rw [hr] at hs; cases hs

/-! ## 7. the A2ML rules read declaratively

`Conf strict f32 sp l` (Lemmas/IfDataConf.lean, an inductive relation written from the A2ML rules and independent of
the interpreter): the comment-free token list `l` is an instance of the definition `sp`: scalars by token class and
range, `char[n]` strings, arrays element by element, enum items by name, struct members in order, sequences and
tagged structs with any number of elements, tagged members by tag and block-ness, blocks closed by `/end TAG`. -/

/-- the rules for the scalars and strings, as an illustration that `Conf` is what it is meant to be -/
example (strict : Bool) (f32 : List Char → Option (List Char)) (w : Nat) (t : PTok) (r : Int × Bool)
    (h5 : t.ty = 5) (hp : parseInt (intTyOf w) t.text = some r) : Conf strict f32 (.int w) [t] := .int h5 hp
example (strict : Bool) (f32 : List Char → Option (List Char)) (items : List Spec) (l : List PTok)
    (h : ConfAll strict f32 items l) : Conf strict f32 (.struct items) l := .struct h
example (strict : Bool) (f32 : List Char → Option (List Char)) (items : List (Tagged Spec)) (tg : Tagged Spec)
    (b t e t' : PTok) (body : List PTok) (h1 : lookupTagged items t.text = some tg) (h2 : tg.isBlock = true)
    (hb : b.ty = 1) (ht : t.ty = 0) (hbody : Conf strict f32 tg.item body) (he : e.ty = 2) (ht' : t'.ty = 0)
    (htag : t'.text = t.text) : ConfTag strict f32 items (b :: t :: body ++ [e, t']) :=
  .block h1 h2 hb ht hbody he ht' htag

/-- **`valid_implies_conforming`** (one half of `conforming_accepted`): whatever `parse_ifdata` flags as valid is,
    comments left out, an instance of one of the applicable definitions, up to the closing `/end`. -/
theorem valid_implies_conforming (e : Env) (f32 : List Char → Option (List Char)) (specs : List Spec) (ctx : Ctx)
    (s s' : PState) (r : Option Gen) (h : parseIfdata f32 specs ctx e s = .ok (r, true) s') :
    ∃ sp ∈ specs, Conf e.strict f32 sp (span e.toks s.pos s'.pos) := valid_conforms h

/-- ... and for a single definition: what `parse_ifdata_item` consumes is an instance of it -/
theorem item_implies_conforming (e : Env) (f32 : List Char → Option (List Char)) (sp : Spec) (ctx : Ctx)
    (s s' : PState) (g : Gen) (hs : s.pos ≤ e.toks.size) (h : itemP f32 sp ctx e s = .ok g s') :
    Conf e.strict f32 sp (span e.toks s.pos s'.pos) := (itemP_conf f32 sp ctx s g s' hs h).2.2

/-- `struct { taggedstruct { "A" (uint)*; }; uint; }`: a greedy sequence followed by a member of the same token class -/
def ambSpec : Spec := .struct [.taggedStruct [⟨['A'], .seq (.int 5), false, false⟩], .int 5]
/-- `A 1 2 /end ...` -/
def ambToks : Array PTok := #[tk 0 ['A'], tk 5 ['1'], tk 5 ['2'], tk 2 "/end".toList, tk 0 "IF_DATA".toList]

/-- the other half of `conforming_accepted` ("conforming content is recognised as valid") is FALSE without a side
    condition on the definition: `A 1 2` is an instance of `ambSpec` (the sequence takes `1`, the member `uint` takes
    `2`), but the interpreter's sequence loop is greedy, takes both numbers, the member then finds `/end`, and the
    block is flagged invalid. -/
theorem conforming_accepted_needs_unambiguity :
    Conf true exF32 ambSpec (span ambToks 0 3) ∧
    resOf (parseIfdata exF32 [ambSpec] exCtx (specialEnv ambToks true) {}) =
      some ([.ident ['A'], .int 2 1 false, .int 2 2 false], false, 3) := by
  refine ⟨?_, by decide +kernel⟩
  have hs : span ambToks 0 3 = [tk 0 ['A'], tk 5 ['1']] ++ ([tk 5 ['2']] ++ []) := by rfl
  rw [hs]
  refine .struct (.cons (.taggedStruct ?_) (.cons (.int (r := (2, false)) rfl (by decide)) .nil))
  show ConfTags _ _ _ ([tk 0 ['A'], tk 5 ['1']] ++ [])
  refine .cons (.kw (tg := ⟨['A'], .seq (.int 5), false, false⟩) (by rfl) rfl rfl ?_) .nil
  show Conf _ _ _ ([tk 5 ['1']] ++ [])
  exact .seq (n := 1) (.succ (.int (r := (1, false)) rfl (by decide)) .zero)

/-- `X 0x10 "ab" 1.5 /* c */ /end ...`: `exToks` with a comment in front of the closing `/end` -/
def exToksComment : Array PTok :=
  #[tk 0 ['X'], tk 5 "0x10".toList, tk 4 "\"ab\"".toList, tk 5 "1.5".toList 1 (some "1.5".toList), tk 6 "/* c */".toList,
    tk 2 "/end".toList, tk 0 "IF_DATA".toList]

/-- ... and it is FALSE even for an unambiguous definition when a comment stands directly in front of the closing
    `/end`: `parse_ifdata_from_spec` peeks at the next token, finds the comment instead of `/end`, and gives up; the
    content is then kept by the fallback and flagged invalid, so `ifdata_cleanup()` removes a conforming block.
    (Confirmed on the Rust library: `/begin IF_DATA X 1 "a" /* c */ /end IF_DATA` loads with `ifdata_valid = false`.)
    A completeness theorem therefore needs both side conditions; it is not proved here. -/
theorem conforming_accepted_needs_no_trailing_comment :
    span exToksComment 0 5 = span exToks 0 4 ∧
    (∃ sp ∈ [exSpec], Conf true exF32 sp (span exToks 0 4)) ∧
    resOf (parseIfdata exF32 [exSpec] exCtx (specialEnv exToksComment true) {}) =
      some ([.ident ['X'], .int 2 16 true, .str ['a', 'b'], .f64 "1.5".toList], false, 5) := by
  refine ⟨by rfl, ?_, by decide +kernel⟩
  have h : resOf (parseIfdata exF32 [exSpec] exCtx (specialEnv exToks true) {}) =
      some ([.ident ['X'], .int 5 16 true, .str ['a', 'b'], .f32 "1.5".toList], true, 4) := by decide
  cases hr : parseIfdata exF32 [exSpec] exCtx (specialEnv exToks true) {} with
  | ok rv s' =>
    obtain ⟨r, v⟩ := rv
    rw [hr] at h
    cases r with
    | none => cases h
    | some g =>
      have hv : v = true ∧ s'.pos = 4 := by
        simp only [resOf, Option.some.injEq, Prod.mk.injEq] at h
        exact ⟨h.2.1, h.2.2⟩
      rw [hv.1] at hr
      have := valid_implies_conforming _ _ _ _ _ _ _ hr
      rw [hv.2] at this
      exact this
  | err d s' => rw [hr] at h; cases h
  | panic => rw [hr] at h; cases h
  | fuel => rw [hr] at h; cases h

end A2l.IfData
