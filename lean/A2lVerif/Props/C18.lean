import A2lVerif.Lemmas.IfDataTop
import A2lVerif.Lemmas.IfDataDepth
import A2lVerif.Lemmas.IfDataFuel
import A2lVerif.Lemmas.IfDataWrite
import A2lVerif.Lemmas.IfDataUid
import A2lVerif.Lemmas.IfDataConf
import A2lVerif.Lemmas.IfDataEnc
import A2lVerif.Lemmas.A2mlDepth
import A2lVerif.Props.C03Parse
import A2lVerif.Props.C06
/-!
# C18 — IF_DATA is interpreted exactly as the applicable A2ML definition says

Property theorems only. Models: Model/A2ml.lean (`a2ml.rs`: tokenizer and parser of the definition), Model/IfData.lean
(`ifdata.rs`: the type-directed interpreter and the fallback; `GenericIfData::write`; the blocks `A2ML`, `IF_DATA`).
Proofs: Lemmas/A2ml.lean, Lemmas/IfData*.lean. Quantification: every definition (`Spec`), every token array, every
parser state; no bounds.

What "values survive load and write unchanged" means here (`interp_values_roundtrip`, `write_renders_values`):
the text written for the stored data is the concatenation of `white space ++ rendering` of a list of values
(`values`, in the order in which they are written), and this list agrees, element by element and in order, with the
tokens that were consumed, comments left out (`span`): identifiers, tags and enum items have the token's text; a
string has the token's unescaped content; `/begin` and `/end` correspond to Begin / End tokens; an integer written as
`(v, hex)` of type `w` comes from a Number token for which `get_integer::<w>` returns exactly `(v, hex)` (Props/Scalars
then says that `v` is the literal's value resp. its two's complement reading and that the notation flag is kept); a
float is written with the text that `add_float` prints for the `f32` / `f64` read from the token (the float codec is
a parameter of the model, DESIGN.md 2.2). One tolerated deviation is part of `agree`: the non-strict reader accepts an
identifier where the definition has a string, with a diagnostic, and writes it back as a quoted string.

History. Six defects (four of them recorded as refuted statements in the first version of this file) were FIXED in the Rust code
(testdata/fixes.diff, testdata/fix5.diff, testdata/rust_fix.diff), and the model follows the fixed code:
* the A2ML definition parser and the IF_DATA interpreter recurse once per level of a type, and the depth of a type was
  unlimited (a few kilobytes of `struct { struct { ...` or a chain of references overflowed the stack). Now a type of
  more than `MAX_NESTING_DEPTH = 100` levels is an error of `parse_a2ml`: section 5a' (`parse_depth_bounded`,
  `parse_at_depth_bounded`, `parse_stored_types_bounded`, `nested_structs_limit`, `array_dims_limit`,
  `reference_counts_with_its_depth`). No statement of this file had to be weakened: none of them claimed that a
  particular deep definition is accepted. (The other half of that fix, the depth limit of uninterpreted IF_DATA
  content, `NestingTooDeep`, is in Model/IfData.lean `unknownIfdata`.)
* a comment between two items of uninterpreted content ended `parse_unknown_taggedstruct` and made the whole load fail
  with `InvalidBegin`; `unknown_values_roundtrip` needed the hypothesis "no comment directly in front of a /begin".
  Now the comment is skipped; the hypothesis is gone (`unknown_comment_between_blocks_kept` is the old counterexample,
  now accepted).
* a comment directly in front of the closing `/end` made conforming content invalid. Now comments are consumed before
  the check: `trailing_comments_harmless`.
* an array whose element can be empty was repeated `dim` times: `array_zero_width_stops`.
* `1e999` (and `1e300` for a `float` member) was read as infinity and written as `inf`; now `MalformedNumber` (on the
  model side the float codec parameters simply have no entry for such a token).
* a member of a tagged struct that is not defined as `("TAG" ...)*` was accepted any number of times; now the second
  occurrence is `InvalidMultiplicityTooMany` (which ends the attempt to interpret the content): `duplicate_member_rejected`,
  and `Conf` has the same restriction.
A sixth change (testdata/rust_fix.diff): uninterpreted content nested thousands of blocks deep overflowed the stack
(`parse_unknown_ifdata` and `parse_unknown_taggedstruct` call each other once per level). Now the depth is limited to
`MAX_NESTING_DEPTH = 100`: block number 101 is refused with the new error `NestingTooDeep`. The model follows
(`maxNestingDepth`, the `depth` parameter of `unknownIfdata` / `unknownTaggedstruct` / `unknownTsLoop`). Consequences here:
* `unknown_values_roundtrip` and `fallback_iff_balanced` have the additional hypothesis / conjunct `nestingOk` (at most
  100 blocks open at the same time: a counter over the `/begin` and `/end` tokens); `too_deep_is_error` is the other
  side; `fallback_verdict` is the complete case distinction (`verdictAt`: the scanner with the limit built in).
* new: `fallback_depth_bounded` (the stored tree has height at most `2 * (101 - depth)`, whatever the input is),
  `fallback_fuel_independent` (the model's recursion budget is not observable), `nesting_boundary` (`n` blocks inside each other: kept for `n ≤ 100`, `NestingTooDeep` for every `n > 100`).
Statements that are still FALSE for the code as it is (kept as theorems with a concrete input):
* `conforming_accepted_needs_unambiguity`: the sequence loop is greedy, so an instance of a definition in which a
  sequence is followed by a member of the same token class is not recognised (inherent in the format).
  `valid_implies_conforming` is the half of `conforming_accepted` that holds without side conditions.
* `specialSim_false_for_ifdata`: the hypothesis `SpecialSim` of Props/C06.lean does NOT hold for the real IF_DATA
  parser (a strict load silently turns a recoverable problem inside IF_DATA into "block invalid").
-/
namespace A2l.IfData
open A2l.Tree A2l.Aml A2l.G A2l.Sc

/-! ## the definitions (checked by `rfl`: these lines are the definitions) -/

/-- the written values of the scalar variants -/
example (top : Bool) (w off : Nat) (v : Int) (hex : Bool) : values top (.int w off v hex) = [.int w v hex] := rfl
example (top : Bool) (off : Nat) (txt : List Char) : values top (.float off txt) = [.f32 txt] := rfl
example (top : Bool) (off : Nat) (txt : List Char) : values top (.double off txt) = [.f64 txt] := rfl
example (top : Bool) (off : Nat) (s : List Char) : values top (.str off s) = [.str s] := rfl
example (top : Bool) (off : Nat) (s : List Char) : values top (.enumItem off s) = [.ident s] := rfl
/-- a tagged item: `/begin` (blocks only), the tag, the data, `/end` and the tag again (blocks only) -/
example (it : TItem Gen) (rest : List (TItem Gen)) : valuesT (it :: rest) =
    (if it.isBlock then [.begin_] else []) ++ [.ident it.tag] ++ values true it.data ++
      (if it.isBlock then [.end_, .ident it.tag] else []) ++ valuesT rest := by rw [valuesT]

/-- when does a written value say what a token says -/
theorem agree_def (strict : Bool) (f32 : List Char → Option (List Char)) (w : WV) (t : PTok) :
    agree strict f32 w t =
    (match w with
     | .ident s => t.ty = 0 ∧ t.text = s
     | .str s => (t.ty = 4 ∧ unescape (stripQuotes t.text) = .ok s) ∨ (strict = false ∧ t.ty = 0 ∧ t.text = s)
     | .int w v hex => t.ty = 5 ∧ parseInt (intTyOf w) t.text = some (v, hex)
     | .f32 txt => t.ty = 5 ∧ f32 t.text = some txt
     | .f64 txt => t.ty = 5 ∧ t.fl = some txt
     | .begin_ => t.ty = 1
     | .end_ => t.ty = 2) := by
  cases w <;> rfl

theorem span_def (toks : Array PTok) (a b : Nat) :
    span toks a b = ((toks.toList.drop a).take (b - a)).filter (fun t => t.ty ≠ 6) := rfl

theorem Rel_def (e : Env) (f32 : List Char → Option (List Char)) (s s' : PState) (ws : List WV) :
    Rel e f32 s s' ws ↔
      (s.pos ≤ s'.pos ∧ s'.pos ≤ e.toks.size ∧ All2 (agree e.strict f32) ws (span e.toks s.pos s'.pos)) := Iff.rfl

theorem AtEnd_def (e : Env) (s : PState) : AtEnd e s ↔ ∃ t, e.toks[s.pos]? = some t ∧ t.ty = 2 := Iff.rfl
theorem NonEmpty_def (e : Env) (s : PState) : NonEmpty e s ↔ ∃ t, e.toks[s.pos]? = some t ∧ t.ty ≠ 2 := Iff.rfl

theorem EndBehindComments_def (e : Env) (p : Nat) : EndBehindComments e p ↔
    ∃ q, p ≤ q ∧ (∀ i, p ≤ i → i < q → ∃ t, e.toks[i]? = some t ∧ t.ty = 6) ∧ ∃ t, e.toks[q]? = some t ∧ t.ty = 2 :=
  Iff.rfl
theorem Accepts_def (e : Env) (f32 : List Char → Option (List Char)) (ctx : Ctx) (sp : Spec) (p : Nat) :
    Accepts e f32 ctx sp p ↔
      ∃ s0 g s1, s0.pos = p ∧ itemP f32 sp ctx e s0 = .ok g s1 ∧ EndBehindComments e s1.pos := Iff.rfl

/-- "structurally balanced", read independently of the parser: a scanner with a stack of open tags -/
theorem balanced_def (toks : Array PTok) (p : Nat) : balanced toks p = scan .normal [] (toks.toList.drop p) := rfl
theorem scan_def (m : Mode) (st : List (List Char)) (l : List PTok) : scan m st l =
    (match m, st, l with
     | _, _, [] => false
     | .normal, st, t :: rest =>
       if t.ty = 1 then scan .beginTag st rest
       else if t.ty = 2 then (match st with | [] => true | _ :: _ => scan .endTag st rest)
       else scan .normal st rest
     | .beginTag, st, t :: rest =>
       if t.ty = 6 then scan .beginTag st rest
       else if t.ty = 0 then scan .normal (t.text :: st) rest
       else false
     | .endTag, st, t :: rest =>
       if t.ty = 6 then scan .endTag st rest
       else if t.ty = 0 then
         (match st with | tag :: st' => if t.text = tag then scan .normal st' rest else false | [] => false)
       else false) := by
  cases l with
  | nil => cases m <;> rfl
  | cons t rest => cases m <;> rfl

/-- the nesting limit, and "at most `MAX_NESTING_DEPTH` blocks are open at the same time" read independently of the
    parser and of the scanner: a counter that looks at the Begin and End tokens only -/
theorem maxNestingDepth_def : maxNestingDepth = 100 := rfl
theorem nestingOk_def (toks : Array PTok) (p : Nat) :
    nestingOk toks p = depthOk maxNestingDepth 0 (toks.toList.drop p) := rfl
theorem depthOk_def (lim cur : Nat) (l : List PTok) : depthOk lim cur l =
    (match l with
     | [] => true
     | t :: rest =>
       if t.ty = 1 then decide (cur < lim) && depthOk lim (cur + 1) rest
       else if t.ty = 2 then (match cur with | 0 => true | c + 1 => depthOk lim c rest)
       else depthOk lim cur rest) := by
  cases l <;> rfl

/-- the scanner with the limit built in: three verdicts; the tag behind the `/begin` that would open block number
    `lim + 1` ends the scan with `tooDeep` -/
theorem verdictAt_def (toks : Array PTok) (p : Nat) :
    verdictAt toks p = scanV maxNestingDepth .normal [] (toks.toList.drop p) := rfl
theorem scanV_def (lim : Nat) (m : Mode) (st : List (List Char)) (l : List PTok) : scanV lim m st l =
    (match m, st, l with
     | _, _, [] => .reject
     | .normal, st, t :: rest =>
       if t.ty = 1 then scanV lim .beginTag st rest
       else if t.ty = 2 then (match st with | [] => .accept | _ :: _ => scanV lim .endTag st rest)
       else scanV lim .normal st rest
     | .beginTag, st, t :: rest =>
       if t.ty = 6 then scanV lim .beginTag st rest
       else if t.ty = 0 then (if lim ≤ st.length then .tooDeep else scanV lim .normal (t.text :: st) rest)
       else .reject
     | .endTag, st, t :: rest =>
       if t.ty = 6 then scanV lim .endTag st rest
       else if t.ty = 0 then
         (match st with | tag :: st' => if t.text = tag then scanV lim .normal st' rest else .reject | [] => .reject)
       else .reject) := by
  cases l with
  | nil => cases m <;> rfl
  | cons t rest => cases m <;> rfl

/-- `accept` = balanced and not nested too deep; on balanced content `tooDeep` = nested too deep; what is not
    balanced is never accepted (it is `reject` or `tooDeep`, whichever problem comes first) -/
theorem verdict_accept_iff (toks : Array PTok) (p : Nat) :
    verdictAt toks p = .accept ↔ balanced toks p = true ∧ nestingOk toks p = true := verdictAt_accept_iff toks p
theorem verdict_tooDeep_of_balanced (toks : Array PTok) (p : Nat) (hb : balanced toks p = true)
    (hd : nestingOk toks p = false) : verdictAt toks p = .tooDeep := verdictAt_tooDeep_of toks p hb hd

/-- the height of a `GenericIfData` tree (a leaf is 1): the number of nested calls that a walk over the tree makes -/
theorem genDepth_def (g : Gen) : genDepth g =
    (match g with
     | .array items => genDepthL items + 1
     | .seq items => genDepthL items + 1
     | .struct _ items => genDepthL items + 1
     | .block _ items => genDepthL items + 1
     | .taggedStruct items => genDepthT items + 1
     | .taggedUnion items => genDepthT items + 1
     | _ => 1) := by
  cases g <;> rw [genDepth]
theorem genDepthL_def (l : List Gen) : genDepthL l =
    (match l with | [] => 0 | g :: rest => max (genDepth g) (genDepthL rest)) := by
  cases l <;> rw [genDepthL]
theorem genDepthT_def (l : List (TItem Gen)) : genDepthT l =
    (match l with | [] => 0 | it :: rest => max (genDepth it.data) (genDepthT rest)) := by
  cases l <;> rw [genDepthT]

theorem NoInc_def (e : Env) : NoInc e ↔ ∀ (i : Nat) (t : PTok), e.toks[i]? = some t → t.ty ≠ 3 := Iff.rfl
theorem AtomsOk_def (e : Env) : AtomsOk e ↔ ∀ (i : Nat) (t : PTok), e.toks[i]? = some t →
    t.ty ≤ 6 ∧ (t.ty = 5 → NumOk t) ∧ (t.ty = 0 → e.strict = true → IdentOk t) := Iff.rfl
theorem NumOk_def (t : PTok) : NumOk t ↔
    ((parseInt (intTyOf 2) t.text).isSome ∨ (parseInt (intTyOf 3) t.text).isSome ∨
     (parseInt (intTyOf 7) t.text).isSome ∨ t.fl.isSome) := Iff.rfl

/-- `parser.a2mlspec` at cursor position `p`: the built-in specification(s) first, then one entry per A2ML block
    before `p` whose text parses -/
theorem specsAt_def (builtin : List Spec) (toks : Array PTok) (p : Nat) :
    specsAt builtin toks p = builtin ++ fileSpecs toks p := rfl

/-! ## examples used below -/

def tk (ty : Nat) (text : List Char) (line : Nat := 1) (fl : Option (List Char) := none) : PTok :=
  { ty := ty, text := text, line := line, sym := noSym, fl := fl }

/-- `block "IF_DATA" taggedunion { "X" struct { uint; char[10]; float; }; block "B" taggedstruct { ("T" uchar)*; }; };` -/
def exSpec : Spec :=
  .taggedUnion [⟨['X'], .struct [.int 5, .array (.int 0) 10, .float], false, false⟩,
                ⟨['B'], .taggedStruct [⟨['T'], .int 4, false, true⟩], true, false⟩]

/-- `X 0x10 "ab" 1.5 /end ...` -/
def exToks : Array PTok :=
  #[tk 0 ['X'], tk 5 "0x10".toList, tk 4 "\"ab\"".toList, tk 5 "1.5".toList 1 (some "1.5".toList), tk 2 "/end".toList,
    tk 0 "IF_DATA".toList]

def exF32 : List Char → Option (List Char) := fun t => if t = "1.5".toList then some "1.5".toList else none

def exCtx : Ctx := ⟨"IF_DATA".toList, 0, 1⟩

/-- `G 1 /begin A "s" /end A 2.5 /end ...`: content that `exSpec` does not describe -/
def exGarbage : Array PTok :=
  #[tk 0 ['G'], tk 5 ['1'], tk 1 "/begin".toList, tk 0 ['A'], tk 4 "\"s\"".toList, tk 2 "/end".toList, tk 0 ['A'],
    tk 5 "2.5".toList 1 (some "2.5".toList), tk 2 "/end".toList, tk 0 "IF_DATA".toList]

/-- `X /begin A 2 /end A /* c */ /begin B 3 /end B /end ...` -/
def cexToks : Array PTok :=
  #[tk 0 ['X'], tk 1 "/begin".toList, tk 0 ['A'], tk 5 ['2'], tk 2 "/end".toList, tk 0 ['A'],
    tk 6 "/* c */".toList, tk 1 "/begin".toList, tk 0 ['B'], tk 5 ['3'], tk 2 "/end".toList, tk 0 ['B'],
    tk 2 "/end".toList, tk 0 "IF_DATA".toList]

/-- tokens on one line satisfy what the parser relies on (`TokOk`) -/
theorem tokOk_of_lines (toks : Array PTok)
    (h : ∀ i (h : i < toks.size), toks[i].line = 1 ∧ (toks[i].ty = 0 → toks[i].text ≠ []) ∧
      (toks[i].ty = 6 → countNewlines toks[i].text = 0)) : TokOk toks := by
  refine ⟨?_, ?_, ?_, ?_⟩
  · intro i hi; rw [(h i hi).1]; exact Nat.le_refl _
  · intro i j hi hj _; rw [(h i hi).1, (h j hj).1]; exact Nat.le_refl _
  · intro i hi; exact (h i hi).2.1
  · intro i j hi hj _ h6; rw [(h i hi).1, (h j hj).1, (h i hi).2.2 h6]; exact Nat.le_refl _

theorem noInc_of (toks : Array PTok) (strict : Bool) (h : ∀ i (h : i < toks.size), toks[i].ty ≠ 3) :
    NoInc (specialEnv toks strict) := by
  intro i t ht
  have hlt := lt_of_getElem?_some ht
  rw [show (specialEnv toks strict).toks = toks from rfl, getElem?_pos toks i hlt] at ht
  cases ht
  exact h i hlt

/-- result summaries that `decide` can compare -/
def resOf (r : PRes (Option Gen × Bool)) : Option (List WV × Bool × Nat) :=
  match r with | .ok (some g, v) s => some (values true g, v, s.pos) | _ => none
def errOf {α : Type} (r : PRes α) : Option DK := match r with | .err d _ => some d.kind | _ => none
def isFuel {α : Type} (r : PRes α) : Bool := match r with | .fuel => true | _ => false
def endPos {α : Type} (r : PRes α) : Option Nat := match r with | .ok _ s => some s.pos | _ => none

/-! ## 5a. the A2ML definition parser is total -/

/-- **`a2ml_total`**: `parse_a2ml` (tokenizer and parser) returns a definition or an error for every text: the result
    type has no panic (the Rust code never indexes: it works on iterators), and the recursion budgets that the model
    uses (`tokenize`: one more than the number of characters; `parseToks`: `parseFuel n = 4 * n + 8` for `n` tokens,
    at most four calls happen between two consumed tokens) are never exhausted. -/
theorem a2ml_total (cs : List Char) : (∃ sp, parseA2ml cs = .ok sp) ∨ parseA2ml cs = .err := by
  cases h : parseA2ml cs with
  | ok sp => exact .inl ⟨sp, rfl⟩
  | err => exact .inr rfl
  | fuel => exact absurd h (parseA2ml_ne_fuel cs)

theorem a2ml_tokenize_total (cs : List Char) : tokenize cs ≠ .fuel := tokenize_ne_fuel cs
theorem a2ml_parse_total (toks : List ATok) : parseToks toks ≠ .fuel := parseToks_ne_fuel toks
theorem parseFuel_def (n : Nat) : parseFuel n = 4 * n + 8 := rfl

def dumpOf (r : Aml.PRes) : Option (List Char) := match r with | .ok sp => some (dumpSpec sp) | _ => none

example : tokenize "uint; /* c */ \"T\"".toList = .ok [.kuint, .semicolon, .tag ['T']] := by decide
/-- `struct S { uint; char[10]; }; block "IF_DATA" taggedunion { "X" struct S; };` -/
example : dumpOf (parseToks [.kstruct, .ident ['S'], .ocurly, .kuint, .semicolon, .kchar, .osquare, .constant 10, .csquare,
    .semicolon, .ccurly, .semicolon, .kblock, .tag "IF_DATA".toList, .ktaggedunion, .ocurly, .tag ['X'], .kstruct,
    .ident ['S'], .semicolon, .ccurly, .semicolon]) = some "tu{(\"X\" 0 0 struct{uint arr[10 char] })}".toList := by decide
/-- `block "IF_DATA" taggedunion { block "B" taggedstruct { ("T" uchar)*; }; };` -/
example : dumpOf (parseToks [.kblock, .tag "IF_DATA".toList, .ktaggedunion, .ocurly,
    .kblock, .tag ['B'], .ktaggedstruct, .ocurly, .oround, .tag ['T'], .kuchar, .cround, .repeat_, .semicolon, .ccurly,
    .semicolon, .ccurly, .semicolon]) = some "tu{(\"B\" 1 0 ts{(\"T\" 0 1 uchar)})}".toList := by decide
/-- `block "IF_DATA" struct { uint };`: the `;` behind the member is missing -/
example : dumpOf (parseToks [.kblock, .tag "IF_DATA".toList, .kstruct, .ocurly, .kuint, .ccurly, .semicolon]) = none := by
  decide

/-! ## 5a'. the nesting limit of the A2ML definition parser (`MAX_NESTING_DEPTH = 100`)

The A2ML parser and the IF_DATA interpreter recurse once per level of a type; without a limit a hostile definition
overflowed the stack. FIXED in the Rust code (testdata/rust_fix.diff): `parse_aml_*` carry the number of enclosing
levels and refuse a type that would end up more than 100 levels deep; the model follows (`specDepth`, `checkNesting`,
the parameter `depth`). Proofs: Lemmas/A2mlDepth.lean. -/

/-- `spec_depth`, equation by equation: `None` is 0 levels, a scalar or an enum 1, an array dimension and `( )*` add
    one, a struct / tagged struct / tagged union is one more than its deepest member (1 if it has none) -/
theorem specDepth_def :
    specDepth .none = 0 ∧ (∀ w, specDepth (.int w) = 1) ∧ specDepth .float = 1 ∧ specDepth .double = 1 ∧
    (∀ items, specDepth (.enum items) = 1) ∧
    (∀ of dim, specDepth (.array of dim) = specDepth of + 1) ∧ (∀ of, specDepth (.seq of) = specDepth of + 1) ∧
    (∀ items, specDepth (.struct items) = specDepthL items + 1) ∧
    (∀ items, specDepth (.taggedStruct items) = specDepthT items + 1) ∧
    (∀ items, specDepth (.taggedUnion items) = specDepthT items + 1) ∧
    specDepthL [] = 0 ∧ (∀ s rest, specDepthL (s :: rest) = max (specDepth s) (specDepthL rest)) ∧
    specDepthT [] = 0 ∧ (∀ t rest, specDepthT (t :: rest) = max (specDepth (Tagged.item t)) (specDepthT rest)) :=
  ⟨specDepth_none, specDepth_int, specDepth_float, specDepth_double, specDepth_enum, specDepth_array, specDepth_seq,
   specDepth_struct, specDepth_taggedStruct, specDepth_taggedUnion, specDepthL_nil, specDepthL_cons, specDepthT_nil,
   specDepthT_cons⟩

/-- `check_nesting(depth, inner_depth)` is `Ok` exactly when `depth + inner_depth ≤ 100` -/
theorem checkNesting_def (depth inner : Nat) : checkNesting depth inner = true ↔ depth + inner ≤ 100 :=
  checkNesting_iff depth inner

/-- the depth of a struct / tagged type is within `n + 1` exactly when every member is within `n` -/
theorem specDepth_members (n : Nat) (items : List Spec) (titems : List (Tagged Spec)) :
    (specDepth (.struct items) ≤ n + 1 ↔ ∀ s ∈ items, specDepth s ≤ n) ∧
    (specDepth (.taggedStruct titems) ≤ n + 1 ↔ ∀ t ∈ titems, specDepth t.item ≤ n) ∧
    (specDepth (.taggedUnion titems) ≤ n + 1 ↔ ∀ t ∈ titems, specDepth t.item ≤ n) := by
  rw [specDepth_struct, specDepth_taggedStruct, specDepth_taggedUnion, Nat.add_le_add_iff_right,
    Nat.add_le_add_iff_right, specDepthL_le_iff, specDepthT_le_iff]
  exact ⟨Iff.rfl, Iff.rfl, Iff.rfl⟩

example : specDepth exSpec = 4 := by decide

/-- **`parse_at_depth_bounded`** (the inductive form of `parse_depth_bounded`): whatever the parser functions return
    when they are called with `depth` enclosing levels is at most `100 - depth` levels deep. For every recursion
    budget, every set of named types (no assumption about what is stored: a reference is checked where it is used),
    every token list. `parse_aml_type`, `parse_aml_member`, `parse_aml_tagged_def`; the member of a
    `parse_aml_taggedmember`; every member collected by the loops of the struct / tagged struct / tagged union
    (which are called with the depth of their members). -/
theorem parse_at_depth_bounded (fuel : Nat) (types : TypeSet) (depth : Nat) :
    (∀ tok toks r rest, type_ fuel types depth tok toks = .ok r rest → specDepth r.2 ≤ 100 - depth) ∧
    (∀ toks sp rest, member fuel types depth toks = .ok sp rest → specDepth sp ≤ 100 - depth) ∧
    (∀ toks sp rest, taggedDef fuel types depth toks = .ok sp rest → specDepth sp ≤ 100 - depth) ∧
    (∀ ar toks t rest, taggedMember fuel types depth ar toks = .ok t rest → specDepth t.item ≤ 100 - depth) ∧
    (∀ toks items rest, structLoop fuel types depth [] toks = .ok items rest → ∀ s ∈ items, specDepth s ≤ 100 - depth) ∧
    (∀ ar toks items rest, taggedLoop fuel types depth ar [] toks = .ok items rest →
      ∀ t ∈ items, specDepth (Tagged.item t) ≤ 100 - depth) := by
  obtain ⟨h1, h2, h3, h4, h5, h6⟩ := all_depth fuel
  refine ⟨?_, ?_, ?_, ?_, ?_, ?_⟩
  · intro tok toks r rest h; have := h1 types depth tok toks r rest h; omega
  · intro toks sp rest h; have := h6 types depth toks sp rest h; omega
  · intro toks sp rest h; have := h5 types depth toks sp rest h; omega
  · intro ar toks t rest h; exact h4 types depth ar toks t rest h
  · intro toks items rest h s hs
    have := h2 types depth [] toks (fun _ h => by cases h) items rest h s hs
    omega
  · intro ar toks items rest h
    exact h3 types depth ar [] toks (fun _ h => by cases h) items rest h

/-- ... in the sharper form for the three functions that return a type (never `None`): `depth + specDepth ≤ 100`, so
    with 100 or more enclosing levels they return nothing at all -/
theorem parse_at_depth_sum (fuel : Nat) (types : TypeSet) (depth : Nat) :
    (∀ tok toks r rest, type_ fuel types depth tok toks = .ok r rest → depth + specDepth r.2 ≤ 100) ∧
    (∀ toks sp rest, member fuel types depth toks = .ok sp rest → depth + specDepth sp ≤ 100) ∧
    (∀ toks sp rest, taggedDef fuel types depth toks = .ok sp rest → depth + specDepth sp ≤ 100) :=
  ⟨(all_depth fuel).1 types depth, (all_depth fuel).2.2.2.2.2 types depth, (all_depth fuel).2.2.2.2.1 types depth⟩

theorem TypesBounded_def (types : TypeSet) : TypesBounded types ↔
    ((∀ kv ∈ types.enums, specDepth kv.2 ≤ 100) ∧ (∀ kv ∈ types.structs, specDepth kv.2 ≤ 100) ∧
     (∀ kv ∈ types.taggedstructs, specDepth kv.2 ≤ 100) ∧ (∀ kv ∈ types.taggedunions, specDepth kv.2 ≤ 100)) := Iff.rfl

/-- `Reached fuel toks0 types ifdata toks`: a state of the `while` loop of `parse_a2ml` on the token list `toks0`
    (the named types stored so far, the IF_DATA block found so far, the tokens left). These two lines are its
    definition: the initial state, and one iteration = one declaration (`declStep`) and the `;` behind it. -/
example (fuel : Nat) (toks0 : List ATok) : Reached fuel toks0 {} none toks0 := .start
example (fuel : Nat) (toks0 : List ATok) (types types' : TypeSet) (ifdata ifdata' : Option Spec) (tok : ATok)
    (rest rest2 : List ATok) (h : Reached fuel toks0 types ifdata (tok :: rest))
    (hs : declStep fuel types ifdata tok rest = .ok (types', ifdata') (.semicolon :: rest2)) :
    Reached fuel toks0 types' ifdata' rest2 := .step h hs

/-- the result of `parse_a2ml` is the IF_DATA block of a state that the loop reaches with no token left -/
theorem parse_result_reached (toks : List ATok) (S : Spec) (h : parseToks toks = .ok S) :
    ∃ types, Reached (parseFuel toks.length) toks types (some S) [] := parseToks_reached toks S h

/-- **`parse_stored_types_bounded`**: in every state that the loop of `parse_a2ml` reaches, on every token list, every
    named type (`enum`, `struct`, `taggedstruct`, `taggedunion`) and the IF_DATA block are at most 100 levels deep -/
theorem parse_stored_types_bounded (fuel : Nat) (toks0 : List ATok) (types : TypeSet) (ifdata : Option Spec)
    (toks : List ATok) (h : Reached fuel toks0 types ifdata toks) :
    TypesBounded types ∧ ∀ s, ifdata = some s → specDepth s ≤ 100 := reached_bounded h

/-- **`parse_depth_bounded`**: every definition that `parse_a2ml` returns is at most 100 levels deep. This bounds the
    recursion of the IF_DATA interpreter, which descends one level of the definition per call. -/
theorem parse_depth_bounded (cs : List Char) (S : Spec) (h : parseA2ml cs = .ok S) : specDepth S ≤ 100 :=
  parseA2ml_depth cs S h

/-- ... so every definition that the IF_DATA interpreter takes from the file (`fileSpecs`: the A2ML blocks in front of
    the cursor; the other entries of `specsAt` are the built-in ones that the caller of the library supplies) is -/
theorem file_specs_depth_bounded (toks : Array PTok) : ∀ (p : Nat) (sp : Spec), sp ∈ fileSpecs toks p → specDepth sp ≤ 100
  | 0, sp, h => by rw [fileSpecs] at h; cases h
  | p + 1, sp, h => by
    rw [fileSpecs] at h
    rcases List.mem_append.1 h with h | h
    · exact file_specs_depth_bounded toks p sp h
    · split at h
      · split at h
        · split at h
          · rename_i heq
            rcases List.mem_singleton.1 h with rfl
            exact parse_depth_bounded _ _ heq
          · cases h
        · cases h
      · cases h

theorem specHeight_def :
    specHeight .none = 1 ∧ (∀ w, specHeight (.int w) = 1) ∧ specHeight .float = 1 ∧ specHeight .double = 1 ∧
    (∀ items, specHeight (.enum items) = 1) ∧
    (∀ of dim, specHeight (.array of dim) = specHeight of + 1) ∧ (∀ of, specHeight (.seq of) = specHeight of + 1) ∧
    (∀ items, specHeight (.struct items) = specHeightL items + 1) ∧
    (∀ items, specHeight (.taggedStruct items) = specHeightT items + 1) ∧
    (∀ items, specHeight (.taggedUnion items) = specHeightT items + 1) ∧
    specHeightL [] = 0 ∧ (∀ s rest, specHeightL (s :: rest) = max (specHeight s) (specHeightL rest)) ∧
    specHeightT [] = 0 ∧ (∀ t rest, specHeightT (t :: rest) = max (specHeight (Tagged.item t)) (specHeightT rest)) := by
  refine ⟨?_, ?_, ?_, ?_, ?_, ?_, ?_, ?_, ?_, ?_, ?_, ?_, ?_, ?_⟩ <;> intros <;> first | rw [specHeight] | rw [specHeightL] | rw [specHeightT]

/-- **the recursion of the interpreter is bounded**: `parse_ifdata_item` (`itemP`) is structurally recursive over the
    definition (every recursive call is on a direct component: the element of an array or sequence, a member of a
    struct, the member of a tagged item), so the number of its activations that are nested in one another is the
    height of the tree, `specHeight` (every node counts, `None` too). The height is at most one more than the depth,
    hence at most 101 for every definition that comes from an A2ML block. -/
theorem interpreter_recursion_bounded (cs : List Char) (S : Spec) (h : parseA2ml cs = .ok S) : specHeight S ≤ 101 :=
  parseA2ml_height cs S h

theorem specHeight_le_depth (sp : Spec) : specHeight sp ≤ specDepth sp + 1 := specHeight_le sp

/-! ### rejection at the limit -/

/-- the token list and the text of `block "IF_DATA" struct { struct { ... int; ... }; };` with `n` structs, and the
    tree it stands for -/
theorem nest_def :
    nestToks 0 = [.kint] ∧ (∀ n, nestToks (n + 1) = .kstruct :: .ocurly :: (nestToks n ++ [.semicolon, .ccurly])) ∧
    (∀ n, nestDecl n = .kblock :: .tag "IF_DATA".toList :: (nestToks n ++ [.semicolon])) ∧
    nestSpec 0 = .int 1 ∧ (∀ n, nestSpec (n + 1) = .struct [nestSpec n]) ∧
    nestText 0 = ['i', 'n', 't'] ∧
    (∀ n, nestText (n + 1) = ['s', 't', 'r', 'u', 'c', 't', ' ', '{', ' '] ++ nestText n ++ [';', ' ', '}']) ∧
    (∀ n, nestDeclText n =
      ['b', 'l', 'o', 'c', 'k', ' ', '"', 'I', 'F', '_', 'D', 'A', 'T', 'A', '"', ' '] ++ nestText n ++ [';']) :=
  ⟨rfl, fun _ => rfl, fun _ => rfl, rfl, fun _ => rfl, rfl, fun _ => rfl, fun _ => rfl⟩

example : nestDeclText 2 = "block \"IF_DATA\" struct { struct { int; }; };".toList := by decide
example : tokenize (nestDeclText 2) = .ok (nestDecl 2) := tokenize_nest 2
theorem nestSpec_depth (n : Nat) : specDepth (nestSpec n) = n + 1 := specDepth_nestSpec n

/-- **`nested_structs_limit`**: for every `n`, the text `block "IF_DATA" struct { struct { ... int; ... }; };` with
    `n` anonymous structs around `int` (a type of `n + 1` levels) is accepted by `parse_a2ml` when `n ≤ 99`, with the
    expected tree, and rejected when `n ≥ 100` -/
theorem nested_structs_limit (n : Nat) :
    (n ≤ 99 → parseA2ml (nestDeclText n) = .ok (nestSpec n)) ∧ (100 ≤ n → parseA2ml (nestDeclText n) = .err) := by
  rw [parseA2ml_nest]
  exact ⟨fun h => if_pos (by omega), fun h => if_neg (by omega)⟩

/-- the same on the token list -/
theorem nested_structs_limit_toks (n : Nat) :
    (n ≤ 99 → parseToks (nestDecl n) = .ok (nestSpec n)) ∧ (100 ≤ n → parseToks (nestDecl n) = .err) := by
  rw [parseToks_nest]
  exact ⟨fun h => if_pos (by omega), fun h => if_neg (by omega)⟩

/-- inside `depth` enclosing levels: `parse_aml_member` accepts `n` nested structs exactly when `depth + n + 1 ≤ 100`
    (for every sufficient recursion budget; `rest` is what follows, not an array dimension) -/
theorem nested_structs_at_depth (types : TypeSet) (n fuel depth : Nat) (rest : List ATok) (hf : 3 * n + 2 ≤ fuel)
    (hr : ∀ r, rest ≠ .osquare :: r) :
    member fuel types depth (nestToks n ++ rest) = if depth + (n + 1) ≤ 100 then .ok (nestSpec n) rest else .err :=
  member_nest types n fuel depth rest hf hr

/-- the hypothesis `specDepth ≤ 100` of everything that is said about parsed definitions is satisfiable at the
    boundary, and not by every tree: the tree of 100 structs around `int` is 101 levels deep, and no text whatsoever
    makes `parse_a2ml` return it (before the fix the text `nestDeclText 100` did) -/
theorem too_deep_never_parsed (n : Nat) (hn : 100 ≤ n) (cs : List Char) : parseA2ml cs ≠ .ok (nestSpec n) := by
  intro h
  have := parse_depth_bounded cs _ h
  rw [nestSpec_depth] at this
  omega

example : specDepth (nestSpec 99) = 100 ∧ parseA2ml (nestDeclText 99) = .ok (nestSpec 99) :=
  ⟨nestSpec_depth 99, (nested_structs_limit 99).1 (by decide)⟩
example : parseA2ml (nestDeclText 100) = .err := (nested_structs_limit 100).2 (by decide)

/-- **`array_dims_limit`**: `block "IF_DATA" int[1][1]...[1];` with `k` dimensions (a type of `k + 1` levels) is
    accepted when `k ≤ 99` and rejected when `k ≥ 100`; `dimToks k` is `[1]` `k` times, `arrSpec base k` wraps `base`
    in `k` arrays of dimension 1 -/
theorem array_dims_limit (k : Nat) :
    (k ≤ 99 → parseToks (dimDecl k) = .ok (arrSpec (.int 1) k)) ∧ (100 ≤ k → parseToks (dimDecl k) = .err) := by
  rw [parseToks_dims]
  exact ⟨fun h => if_pos (by omega), fun h => if_neg (by omega)⟩

theorem dims_def :
    dimToks 0 = [] ∧ (∀ k, dimToks (k + 1) = .osquare :: .constant 1 :: .csquare :: dimToks k) ∧
    (∀ k, dimDecl k = .kblock :: .tag "IF_DATA".toList :: .kint :: (dimToks k ++ [.semicolon])) ∧
    (∀ base, arrSpec base 0 = base) ∧ (∀ base k, arrSpec base (k + 1) = arrSpec (.array base 1) k) ∧
    (∀ base k, specDepth (arrSpec base k) = specDepth base + k) :=
  ⟨rfl, fun _ => rfl, fun _ => rfl, fun _ => rfl, fun _ _ => rfl, fun base k => specDepth_arrSpec k base⟩

def amlOk (r : Aml.PRes) : Bool := match r with | .ok _ => true | _ => false
def amlErr (r : Aml.PRes) : Bool := match r with | .err => true | _ => false

/-- `struct S <n structs around int>; block "IF_DATA" struct { struct S; };`: a reference to a named type inside one
    enclosing level -/
def refInside (n : Nat) : List ATok :=
  .kstruct :: .ident ['S'] :: (nestToks n).tail ++
    [.semicolon, .kblock, .tag "IF_DATA".toList, .kstruct, .ocurly, .kstruct, .ident ['S'], .semicolon, .ccurly, .semicolon]
/-- `struct S <n structs around int>; block "IF_DATA" struct S;`: the reference at the top -/
def refTop (n : Nat) : List ATok :=
  .kstruct :: .ident ['S'] :: (nestToks n).tail ++
    [.semicolon, .kblock, .tag "IF_DATA".toList, .kstruct, .ident ['S'], .semicolon]

/-- a reference counts with the depth of the type it refers to: `S` of 100 levels (99 structs around `int`) is
    accepted as a definition and as the IF_DATA block itself, but not inside another struct; there `S` of 99 levels
    is the limit. (Before the fix a chain of references was the cheap way to build a deep type.) -/
theorem reference_counts_with_its_depth :
    amlOk (parseToks (refTop 99)) = true ∧ amlErr (parseToks (refTop 100)) = true ∧
    amlOk (parseToks (refInside 98)) = true ∧ amlErr (parseToks (refInside 99)) = true :=
  ⟨by decide +kernel, by decide +kernel, by decide +kernel, by decide +kernel⟩

/-- `taggedstruct { "T" taggedstruct { "T" ... int; ... }; }` with `n` tagged structs -/
def tsNest : Nat → List ATok
  | 0 => [.kint]
  | n + 1 => .ktaggedstruct :: .ocurly :: .tag ['T'] :: (tsNest n ++ [.semicolon, .ccurly])
/-- `block "IF_DATA" ( <member> )*;`: the `( )*` is a level of its own -/
def seqDecl (member : List ATok) : List ATok :=
  .kblock :: .tag "IF_DATA".toList :: .oround :: (member ++ [.cround, .repeat_, .semicolon])

/-- the other constructs at the limit: tagged structs count like structs; `( )*` is one level -/
example : amlOk (parseToks (.kblock :: .tag "IF_DATA".toList :: (tsNest 99 ++ [.semicolon]))) = true := by decide +kernel
example : amlErr (parseToks (.kblock :: .tag "IF_DATA".toList :: (tsNest 100 ++ [.semicolon]))) = true := by decide +kernel
example : amlOk (parseToks (seqDecl (nestToks 98))) = true := by decide +kernel
example : amlErr (parseToks (seqDecl (nestToks 99))) = true := by decide +kernel
example : amlOk (parseToks (seqDecl (.kint :: dimToks 98))) = true := by decide +kernel
example : amlErr (parseToks (seqDecl (.kint :: dimToks 99))) = true := by decide +kernel

/-! ## 1. interpreted content: every value is what the tokens say -/

/-- **`interp_values_roundtrip`**: if `parse_ifdata` flags the content as valid, then it stopped in front of the
    closing `/end`, it stored data, and the values that are written for this data are, one by one and in order, what
    the non-comment tokens between the start and that `/end` say (see the file header for what that means for each
    kind of value). For every list of definitions (built-in first, then those of the A2ML blocks: `specsAt`), every
    token array, every start state, both modes. -/
theorem interp_values_roundtrip (e : Env) (f32 : List Char → Option (List Char)) (specs : List Spec) (ctx : Ctx)
    (s s' : PState) (r : Option Gen) (h : parseIfdata f32 specs ctx e s = .ok (r, true) s') :
    ∃ g, r = some g ∧ AtEnd e s' ∧ s.pos ≤ s'.pos ∧
      All2 (agree e.strict f32) (values true g) (span e.toks s.pos s'.pos) := by
  obtain ⟨g, hr, hrel, hend⟩ := parseIfdata_valid_ok h
  exact ⟨g, hr, hend, hrel.1, hrel.2.2⟩

example : resOf (parseIfdata exF32 [exSpec] exCtx (specialEnv exToks true) {}) =
    some ([.ident ['X'], .int 5 16 true, .str ['a', 'b'], .f32 "1.5".toList], true, 4) := by decide

/-- the same for every construct of a definition on its own (scalars, `char[n]` strings, arrays, enums, structs,
    sequences, tagged structs, tagged unions, blocks): what `parse_ifdata_item` returns for the definition `sp` -/
theorem item_values_roundtrip (e : Env) (f32 : List Char → Option (List Char)) (sp : Spec) (ctx : Ctx)
    (s s' : PState) (g : Gen) (hs : s.pos ≤ e.toks.size) (h : itemP f32 sp ctx e s = .ok g s') :
    Rel e f32 s s' (values false g) := itemP_ok f32 sp ctx s g s' hs h

example : endPos (itemP exF32 exSpec exCtx (specialEnv exToks true) {}) = some 4 := by decide

/-- in strict mode the tolerated deviation does not exist: a written string always comes from a String token -/
theorem agree_strict (f32 : List Char → Option (List Char)) (s : List Char) (t : PTok) (h : agree true f32 (.str s) t) :
    t.ty = 4 ∧ unescape (stripQuotes t.text) = .ok s := by
  rcases h with h | ⟨h, _⟩
  · exact h
  · cases h

/-- **the writer**: the text that `GenericIfData::write` produces is `white space ++ rendering` for each of the
    values `values top g`, in that order (`pieces` pairs every value with its white space), provided the tagged items
    carry non-zero uids that increase along every list (`UidOk`): then the stable sort by uid in `add_group` keeps
    the order. -/
theorem write_renders_values (top : Bool) (indent : Nat) (g : Gen) (h : UidOk g) :
    writeG top indent g = (pieces top indent g).flatMap renderPiece ∧
    (pieces top indent g).map (·.2) = values top g :=
  ⟨writeG_render top indent g h, pieces_values top indent g⟩

/-- ... and the data that `parse_ifdata` stores (valid or not) satisfies `UidOk`: `sequential_id` only grows and every
    tagged item takes the next id. So for everything the parser produces, the written text is the rendering of
    `values true g` in order (with `interp_values_roundtrip` / `unknown_values_roundtrip`: of what the tokens say). -/
theorem stored_data_written_in_order (e : Env) (f32 : List Char → Option (List Char)) (specs : List Spec) (ctx : Ctx)
    (s s' : PState) (g : Gen) (valid : Bool) (h : parseIfdata f32 specs ctx e s = .ok (some g, valid) s')
    (indent : Nat) :
    write indent g = (pieces true indent g).flatMap renderPiece ∧ (pieces true indent g).map (·.2) = values true g :=
  write_renders_values true indent g (parseIfdata_uidOk h)

/-- **the encoding at the hook boundary loses nothing**: the generic parser stores the `Val` that the `special` hook
    returns; the IF_DATA model encodes its `GenericIfData` as `enc g`, the writer hook decodes it: `dec (enc g) = some g`,
    and the hook writes `ifdata_items.write(indent - 1)` of exactly the data that was parsed. -/
theorem enc_roundtrip (g : Gen) : dec (enc g) = some g := dec_enc g

theorem hook_writes_stored_data (tyA2ml ty ty' indent : Nat) (info : Info) (g : Gen) (valid : Bool) (h : ty ≠ tyA2ml) :
    specialWrite tyA2ml ty indent (.block ty' info (encIfData (some g) valid) [] []) = write (indent - 1) g :=
  specialWrite_ifdata tyA2ml ty ty' indent info g valid h

example : dec (enc (.block 1 [.taggedUnion [⟨1, 7, 0, 0, ['X'], .block 1 [.int 5 0 16 true, .float 1 ['1']], true⟩]])) =
    some (.block 1 [.taggedUnion [⟨1, 7, 0, 0, ['X'], .block 1 [.int 5 0 16 true, .float 1 ['1']], true⟩]]) := dec_enc _

example : write 2 (.block 1 [.taggedUnion [⟨1, 7, 0, 0, ['X'], .block 1 [.int 5 0 16 true, .str 1 ['a']], false⟩]]) =
    " X 0x10\n      \"a\"".toList := by
  rw [write, (write_renders_values true 2 _ (by simp [UidOk, UidOkL, UidOkT])).1]
  decide

/-! ## 2. content that no definition describes -/

/-- **`unknown_values_roundtrip`**. When no applicable definition accepts non-empty content (`htry`) and the content
    is balanced and at most `MAX_NESTING_DEPTH = 100` blocks are open at the same time in it (`hdepth`; without this
    bound the statement is false since the nesting limit was introduced: `too_deep_is_error`), then `parse_ifdata`
    succeeds through the fallback: the block is flagged invalid, the fallback stopped
    in front of the closing `/end`, and the values written for the uninterpreted data are what the tokens say (numbers
    are read as `i32`, else `i64`, else `u64`, else `f64`; identifiers are kept as identifiers). The other hypotheses
    say that the tokens are what the tokenizer produces: lines (`TokOk`), no Include token, seven token kinds, every
    Number token is a number (a literal like `1e999` is not: `MalformedNumber`), and in strict mode identifiers are
    valid identifiers (`AtomsOk`).
    (Before the fix of `parse_unknown_taggedstruct` this needed "no comment directly in front of a /begin".) -/
theorem unknown_values_roundtrip (toks : Array PTok) (strict : Bool) (f32 : List Char → Option (List Char))
    (specs : List Spec) (ctx : Ctx) (s s1 : PState)
    (hk : TokOk toks) (hni : NoInc (specialEnv toks strict)) (hat : AtomsOk (specialEnv toks strict))
    (hne : NonEmpty (specialEnv toks strict) s)
    (htry : trySpecs f32 ctx specs (specialEnv toks strict) s = .ok none s1)
    (hbal : balanced toks s.pos = true) (hdepth : nestingOk toks s.pos = true) :
    ∃ g s', parseIfdata f32 specs ctx (specialEnv toks strict) s = .ok (some g, false) s' ∧
      AtEnd (specialEnv toks strict) s' ∧ Rel (specialEnv toks strict) f32 s s' (values true g) := by
  obtain ⟨hp, heq⟩ := parseIfdata_fallback hne htry
  obtain ⟨t, ht, _⟩ := hne
  have hlt : s.pos < toks.size := lt_of_getElem?_some ht
  obtain ⟨g, s', hr, hend, hrel⟩ := (unknownStart_balanced toks strict f32 hk (by omega) hni hat ctx s1
    (by rw [hp]; omega)).1 (by rw [hp]; exact hbal) (by rw [hp]; exact hdepth)
  refine ⟨g, s', ?_, hend, hrel.fromPos hp.symm⟩
  rw [heq, bind_eq, hr]
  rfl

/-- the hypotheses `hbal`, `hdepth` are satisfiable: the example content (one inner block), and 100 blocks inside each
    other; 101 blocks inside each other are balanced but too deep -/
example : balanced exGarbage 0 = true ∧ nestingOk exGarbage 0 = true := by decide +kernel
example : balanced (nestedToks 100) 0 = true ∧ nestingOk (nestedToks 100) 0 = true := by decide +kernel
example : balanced (nestedToks 101) 0 = true ∧ nestingOk (nestedToks 101) 0 = false := by decide +kernel

/-- **`too_deep_is_error`**: balanced content in which more than `MAX_NESTING_DEPTH` blocks are open at the same time
    is not kept: the fallback, and with it `parse_ifdata`, fails with `NestingTooDeep` (so the whole load fails, in
    both modes: the error is not recoverable) -/
theorem too_deep_is_error (toks : Array PTok) (strict : Bool) (f32 : List Char → Option (List Char))
    (specs : List Spec) (ctx : Ctx) (s s1 : PState)
    (hk : TokOk toks) (hni : NoInc (specialEnv toks strict)) (hat : AtomsOk (specialEnv toks strict))
    (hne : NonEmpty (specialEnv toks strict) s)
    (htry : trySpecs f32 ctx specs (specialEnv toks strict) s = .ok none s1)
    (hbal : balanced toks s.pos = true) (hdepth : nestingOk toks s.pos = false) :
    ∃ line s', parseIfdata f32 specs ctx (specialEnv toks strict) s = .err ⟨.nestingTooDeep, line⟩ s' := by
  obtain ⟨hp, heq⟩ := parseIfdata_fallback hne htry
  obtain ⟨t, ht, _⟩ := hne
  have hlt : s.pos < toks.size := lt_of_getElem?_some ht
  obtain ⟨line, s', hr⟩ := (unknownStart_balanced toks strict f32 hk (by omega) hni hat ctx s1
    (by rw [hp]; omega)).2.1 (by rw [hp]; exact hbal) (by rw [hp]; exact hdepth)
  exact ⟨line, s', by rw [heq, bind_eq, hr]⟩

/-- ... and when the content is not balanced, the fallback, and with it `parse_ifdata`, returns an error: it never
    panics and never loops -/
theorem unbalanced_is_error (toks : Array PTok) (strict : Bool) (f32 : List Char → Option (List Char))
    (specs : List Spec) (ctx : Ctx) (s s1 : PState)
    (hk : TokOk toks) (hni : NoInc (specialEnv toks strict)) (hat : AtomsOk (specialEnv toks strict))
    (hne : NonEmpty (specialEnv toks strict) s)
    (htry : trySpecs f32 ctx specs (specialEnv toks strict) s = .ok none s1)
    (hbal : balanced toks s.pos = false) :
    ∃ d s', parseIfdata f32 specs ctx (specialEnv toks strict) s = .err d s' := by
  obtain ⟨hp, heq⟩ := parseIfdata_fallback hne htry
  obtain ⟨t, ht, _⟩ := hne
  have hlt : s.pos < toks.size := lt_of_getElem?_some ht
  obtain ⟨d, s', hr⟩ := (unknownStart_balanced toks strict f32 hk (by omega) hni hat ctx s1
    (by rw [hp]; omega)).2.2 (by rw [hp]; exact hbal)
  exact ⟨d, s', by rw [heq, bind_eq, hr]⟩

/-- the fallback alone, both directions at once: on well-formed tokens it succeeds exactly on balanced content in which
    at most `MAX_NESTING_DEPTH` blocks are open at the same time -/
theorem fallback_iff_balanced (toks : Array PTok) (strict : Bool) (hk : TokOk toks) (hne : toks.size ≠ 0)
    (hni : NoInc (specialEnv toks strict)) (hat : AtomsOk (specialEnv toks strict)) (ctx : Ctx) (s : PState)
    (hs : s.pos ≤ toks.size) :
    (∃ g s', unknownStart ctx (specialEnv toks strict) s = .ok g s') ↔
      (balanced toks s.pos = true ∧ nestingOk toks s.pos = true) := by
  have h := unknownStart_verdict toks strict (fun _ => none) hk (Nat.pos_of_ne_zero hne) hni hat ctx s hs
  rw [← verdict_accept_iff]
  constructor
  · rintro ⟨g, s', hr⟩
    cases hv : verdictAt toks s.pos with
    | accept => rfl
    | tooDeep => obtain ⟨line, s'', hr'⟩ := h.2.1 hv; rw [hr] at hr'; cases hr'
    | reject => obtain ⟨d, s'', hr', _⟩ := h.2.2 hv; rw [hr] at hr'; cases hr'
  · intro hv
    obtain ⟨g, s', hr, _⟩ := h.1 hv
    exact ⟨g, s', hr⟩

/-- **`fallback_verdict`**: the complete case distinction. On well-formed tokens the three ways in which the fallback
    ends are the three verdicts of the scanner with the limit: `accept` — a result, the cursor in front of the closing
    `/end`, all values kept; `tooDeep` — the error `NestingTooDeep`; `reject` — another error. (Whichever problem comes
    first in the token stream decides, in the scanner as in the parser.) -/
theorem fallback_verdict (toks : Array PTok) (strict : Bool) (f32 : List Char → Option (List Char))
    (hk : TokOk toks) (hne : toks.size ≠ 0)
    (hni : NoInc (specialEnv toks strict)) (hat : AtomsOk (specialEnv toks strict)) (ctx : Ctx) (s : PState)
    (hs : s.pos ≤ toks.size) :
    (verdictAt toks s.pos = .accept ↔
      ∃ g s', unknownStart ctx (specialEnv toks strict) s = .ok g s' ∧ AtEnd (specialEnv toks strict) s' ∧
        Rel (specialEnv toks strict) f32 s s' (values true g)) ∧
    (verdictAt toks s.pos = .tooDeep ↔
      ∃ line s', unknownStart ctx (specialEnv toks strict) s = .err ⟨.nestingTooDeep, line⟩ s') ∧
    (verdictAt toks s.pos = .reject ↔
      ∃ d s', unknownStart ctx (specialEnv toks strict) s = .err d s' ∧ d.kind ≠ .nestingTooDeep) := by
  obtain ⟨h1, h2, h3⟩ := unknownStart_verdict toks strict f32 hk (Nat.pos_of_ne_zero hne) hni hat ctx s hs
  refine ⟨⟨h1, ?_⟩, ⟨h2, ?_⟩, ⟨h3, ?_⟩⟩
  · rintro ⟨g, s', hr, _⟩
    cases hv : verdictAt toks s.pos with
    | accept => rfl
    | tooDeep => obtain ⟨line, s'', hr'⟩ := h2 hv; rw [hr] at hr'; cases hr'
    | reject => obtain ⟨d, s'', hr', _⟩ := h3 hv; rw [hr] at hr'; cases hr'
  · rintro ⟨line, s', hr⟩
    cases hv : verdictAt toks s.pos with
    | accept => obtain ⟨g, s'', hr', _⟩ := h1 hv; rw [hr] at hr'; cases hr'
    | tooDeep => rfl
    | reject => obtain ⟨d, s'', hr', hk'⟩ := h3 hv; rw [hr] at hr'; cases hr'; exact absurd rfl hk'
  · rintro ⟨d, s', hr, hk'⟩
    cases hv : verdictAt toks s.pos with
    | accept => obtain ⟨g, s'', hr', _⟩ := h1 hv; rw [hr] at hr'; cases hr'
    | tooDeep => obtain ⟨line, s'', hr'⟩ := h2 hv; rw [hr] at hr'; cases hr'; exact absurd rfl hk'
    | reject => rfl

/-- **`fallback_depth_bounded`**: the fallback never recurses deeper than the limit, and what it returns is a shallow
    tree, whatever the tokens are (no hypothesis on them, any recursion budget of the model). `parse_unknown_ifdata`
    called with `depth = dp` returns nothing when `dp > MAX_NESTING_DEPTH` (it fails at once, `NestingTooDeep`, the parser
    state untouched), and a result has height at most `2 * (MAX_NESTING_DEPTH + 1 - dp)`: a `Struct` and a `TaggedStruct`
    per nested block. Every call that `parse_unknown_taggedstruct` makes is one level deeper (Model/IfData.lean), so
    below a call with `depth = dp` there are at most `MAX_NESTING_DEPTH + 1 - dp` nested calls that return. The height
    bounds the recursion of everything that walks the stored data afterwards (`GenericIfData::write`, `merge_includes`,
    `Drop`). -/
theorem fallback_depth_bounded (e : Env) (fuel : Nat) (ctx : Ctx) (isB : Bool) (dp : Nat) (s : PState) :
    (maxNestingDepth < dp → unknownIfdata (fuel + 1) ctx isB dp [] e s = .err ⟨.nestingTooDeep, s.lastLine⟩ s) ∧
    (∀ g s', unknownIfdata fuel ctx isB dp [] e s = .ok g s' →
      dp ≤ maxNestingDepth ∧ genDepth g ≤ 2 * (maxNestingDepth + 1 - dp)) := by
  constructor
  · intro h
    rcases unknownIfdata_deep (e := e) (fuel + 1) ctx isB dp [] s h with h' | h'
    · rw [unknownIfdata.eq_def] at h'
      dsimp only at h'
      rw [if_pos h] at h'
      cases h'
    · exact h'
  · intro g s' h
    exact ⟨unknownIfdata_ok_depth h, unknownIfdata_genDepth h⟩

/-- **`fallback_fuel_independent`**: the recursion budget of the model (`fuel`, which the Rust code does not have) is
    not observable. A larger budget never changes a result other than "budget exhausted" (any tokens, any arguments);
    `unknownStart` is `unknownStartWith` with the budget `unknownFuel toks.size`; and on well-formed tokens every budget
    from there on gives the same result (`ifdata_total`: that budget is never exhausted). Together with
    `fallback_depth_bounded`: the depth of the recursion is limited by `MAX_NESTING_DEPTH`, not by the budget. -/
theorem fallback_fuel_monotone (e : Env) (fuel fuel' : Nat) (h : fuel ≤ fuel') (ctx : Ctx) (isB : Bool) (dp : Nat)
    (acc : List Gen) (s : PState) (hne : unknownIfdata fuel ctx isB dp acc e s ≠ .fuel) :
    unknownIfdata fuel' ctx isB dp acc e s = unknownIfdata fuel ctx isB dp acc e s :=
  unknownIfdata_fuel_mono h ctx isB dp acc s hne

theorem unknownStart_budget (e : Env) (ctx : Ctx) (s : PState) :
    unknownStart ctx e s = unknownStartWith (unknownFuel e.toks.size) ctx e s := rfl

theorem fallback_fuel_independent (toks : Array PTok) (strict : Bool) (hk : TokOk toks) (hne : toks.size ≠ 0)
    (hni : NoInc (specialEnv toks strict)) (ctx : Ctx) (s : PState) (hs : s.pos ≤ toks.size)
    (fuel : Nat) (hf : unknownFuel toks.size ≤ fuel) :
    unknownStartWith fuel ctx (specialEnv toks strict) s = unknownStart ctx (specialEnv toks strict) s :=
  unknownStartWith_eq toks strict hk (Nat.pos_of_ne_zero hne) hni ctx s hs fuel hf

/-- ... and for `parse_unknown_ifdata_start` and `parse_ifdata`: uninterpreted data that is stored has height at most
    `2 * MAX_NESTING_DEPTH + 4 = 204` (two more levels, `Block` and `TaggedUnion`, when the content starts with an
    identifier) -/
theorem fallback_result_shallow (e : Env) (ctx : Ctx) (s s' : PState) (g : Gen)
    (h : unknownStart ctx e s = .ok g s') : genDepth g ≤ 204 := unknownStart_genDepth h

theorem stored_unknown_data_shallow (e : Env) (f32 : List Char → Option (List Char)) (specs : List Spec) (ctx : Ctx)
    (s s' : PState) (g : Gen) (h : parseIfdata f32 specs ctx e s = .ok (some g, false) s') : genDepth g ≤ 204 :=
  parseIfdata_invalid_genDepth h

example : genDepth (.block 1 [.taggedUnion [⟨1, 7, 0, 0, ['X'], .struct 0 [.int 5 0 16 true, .str 1 ['a']], false⟩]]) = 4 := by
  simp [genDepth, genDepthL, genDepthT]

/-- **`nesting_boundary`**: `n` blocks inside each other (`/begin a /begin a ... /end a /end a /end IF_DATA`,
    `nestedToks n`), for every `n`, in both modes, from any parser state at the start of the content: for
    `n ≤ MAX_NESTING_DEPTH = 100` the fallback keeps the content, for every `n > 100` it fails with `NestingTooDeep`. -/
theorem nesting_boundary (n : Nat) (strict : Bool) (ctx : Ctx) (s : PState) (hs : s.pos = 0) :
    (n ≤ 100 → ∃ g s', unknownStart ctx (specialEnv (nestedToks n) strict) s = .ok g s') ∧
    (100 < n → ∃ line s', unknownStart ctx (specialEnv (nestedToks n) strict) s = .err ⟨.nestingTooDeep, line⟩ s') :=
  unknownStart_nested n strict ctx s hs

theorem nestedToks_def (n : Nat) : nestedToks n = (opens n ++ (closes n ++ [tokEnd, tokIfData])).toArray := rfl
example : opens 2 = [tk 1 "/begin".toList, tk 0 ['a'], tk 1 "/begin".toList, tk 0 ['a']] := rfl
example : closes 2 = [tk 2 "/end".toList, tk 0 ['a'], tk 2 "/end".toList, tk 0 ['a']] := rfl

/-- the boundary on the model itself: 100 blocks inside each other are kept (the cursor ends in front of the closing
    `/end`, token 400), 101 are refused; the error carries the line of the last token read (all tokens are on line 1) -/
example : endPos (unknownStart exCtx (specialEnv (nestedToks 100) true) {}) = some 400 := by decide +kernel
example : (match unknownStart exCtx (specialEnv (nestedToks 101) true) {} with
    | .err d s => some (d, s.pos, s.seqId) | _ => none) = some (⟨.nestingTooDeep, 1⟩, 202, 101) := by decide +kernel

/-- the counterexample of the first version of this file (`X /begin A 2 /end A /* c */ /begin B 3 /end B`: one comment
    between two inner blocks; the unfixed code failed with `InvalidBegin`): now kept, all values in order -/
theorem unknown_comment_between_blocks_kept :
    balanced cexToks 0 = true ∧
    resOf (parseIfdata exF32 [exSpec] exCtx (specialEnv cexToks false) {}) =
      some ([.ident ['X'], .begin_, .ident ['A'], .int 2 2 false, .end_, .ident ['A'],
             .begin_, .ident ['B'], .int 2 3 false, .end_, .ident ['B']], false, 12) :=
  ⟨by decide, by decide +kernel⟩

example : balanced exGarbage 0 = true := by decide
example : resOf (parseIfdata exF32 [exSpec] exCtx (specialEnv exGarbage false) {}) =
    some ([.ident ['G'], .int 2 1 false, .begin_, .ident ['A'], .str ['s'], .end_, .ident ['A'], .f64 "2.5".toList],
      false, 8) := by decide +kernel
/-- not balanced (the inner block is closed with the wrong tag): an error -/
example : errOf (parseIfdata exF32 [exSpec] exCtx (specialEnv
    #[tk 0 ['G'], tk 1 "/begin".toList, tk 0 ['A'], tk 2 "/end".toList, tk 0 ['B'], tk 2 "/end".toList] false) {}) =
    some .incorrectEndTag := by decide

/-! ## 3. the validity flag -/

/-- **`valid_iff_interp`**: the flag is true exactly when the content is not empty (the next token exists and is not
    `/end`) and the interpreter of some applicable definition, started at the content, succeeds and stops in front
    of a `/end`. "Started at the content" means: from any parser state whose cursor is there; the attempts that
    `parse_ifdata` makes one after the other start from states that differ in `last_token_position`,
    `sequential_id` and the log, and the interpreter's control flow depends on the cursor only (Lemmas/IfDataSim). -/
theorem valid_iff_interp (e : Env) (f32 : List Char → Option (List Char)) (specs : List Spec) (ctx : Ctx)
    (s s' : PState) (r : Option Gen) (valid : Bool) (h : parseIfdata f32 specs ctx e s = .ok (r, valid) s') :
    valid = true ↔ NonEmpty e s ∧ ∃ sp ∈ specs, Accepts e f32 ctx sp s.pos :=
  parseIfdata_valid_iff h

/-- the interpreter's verdict does not depend on the parts of the state that earlier attempts change -/
theorem interp_depends_on_cursor_only (e : Env) (f32 : List Char → Option (List Char)) (sp : Spec) (ctx : Ctx)
    (s t : PState) (hp : s.pos = t.pos) : Sim Any (itemP f32 sp ctx e s) (itemP f32 sp ctx e t) :=
  itemP_sim f32 sp ctx s t hp

example : NonEmpty (specialEnv exToks true) {} ∧ Accepts (specialEnv exToks true) exF32 exCtx exSpec 0 := by
  refine ⟨⟨_, rfl, by decide⟩, {}, ?_⟩
  have hpos : endPos (itemP exF32 exSpec exCtx (specialEnv exToks true) {}) = some 4 := by decide
  cases h : itemP exF32 exSpec exCtx (specialEnv exToks true) {} with
  | ok g s1 =>
    rw [h] at hpos
    have hp : s1.pos = 4 := by simpa [endPos] using hpos
    refine ⟨g, s1, rfl, rfl, 4, by omega, fun i h1 h2 => by omega, tk 2 "/end".toList, rfl, rfl⟩
  | err d s1 => rw [h] at hpos; cases hpos
  | panic => rw [h] at hpos; cases hpos
  | fuel => rw [h] at hpos; cases hpos

/-- **`trailing_comments_harmless`** (the positive form of what used to be the counterexample
    `conforming_accepted_needs_no_trailing_comment`): if the interpreter of an applicable definition, started at the
    content, succeeds and behind the place where it stops there is nothing but comments up to a `/end` token, then
    the block is flagged valid. -/
theorem trailing_comments_harmless (e : Env) (f32 : List Char → Option (List Char)) (specs : List Spec) (ctx : Ctx)
    (s s' : PState) (r : Option Gen) (valid : Bool) (h : parseIfdata f32 specs ctx e s = .ok (r, valid) s')
    (hne : NonEmpty e s) (sp : Spec) (hsp : sp ∈ specs) (s0 s1 : PState) (g : Gen) (hp : s0.pos = s.pos)
    (hi : itemP f32 sp ctx e s0 = .ok g s1) (q : Nat) (hq : s1.pos ≤ q)
    (hc : ∀ i, s1.pos ≤ i → i < q → ∃ t, e.toks[i]? = some t ∧ t.ty = 6)
    (hend : ∃ t, e.toks[q]? = some t ∧ t.ty = 2) : valid = true :=
  (valid_iff_interp e f32 specs ctx s s' r valid h).2 ⟨hne, sp, hsp, s0, g, s1, hp, hi, q, hq, hc, hend⟩

/-- `X 0x10 "ab" 1.5 /* c */ /end ...`: `exToks` with a comment in front of the closing `/end` -/
def exToksComment : Array PTok :=
  #[tk 0 ['X'], tk 5 "0x10".toList, tk 4 "\"ab\"".toList, tk 5 "1.5".toList 1 (some "1.5".toList), tk 6 "/* c */".toList,
    tk 2 "/end".toList, tk 0 "IF_DATA".toList]

/-- the old counterexample: valid now, the same values as without the comment, the cursor in front of `/end` -/
example : resOf (parseIfdata exF32 [exSpec] exCtx (specialEnv exToksComment true) {}) =
    some ([.ident ['X'], .int 5 16 true, .str ['a', 'b'], .f32 "1.5".toList], true, 5) := by decide +kernel

/-! ## 4. `ifdata_cleanup` -/

/-- **`cleanup_exact`**: `remove_unknown_ifdata_from_list` keeps exactly the blocks whose flag is set, in their order
    and unchanged (`List.filter`) -/
theorem cleanup_exact {α : Type} (valid : α → Bool) (l : List α) : removeUnknown valid l = l.filter valid :=
  removeUnknown_eq_filter valid l

theorem cleanup_mem {α : Type} (valid : α → Bool) (l : List α) (x : α) :
    x ∈ removeUnknown valid l ↔ x ∈ l ∧ valid x = true := by
  rw [cleanup_exact, List.mem_filter]

theorem cleanup_order {α : Type} (valid : α → Bool) (l : List α) : (removeUnknown valid l).Sublist l := by
  rw [cleanup_exact]; exact List.filter_sublist

/-- **`ifdata_cleanup()` at every place an IF_DATA block can stand**: each of the lists of the module - its own, and those
    of every MEMORY_LAYOUT, MEMORY_SEGMENT, AXIS_PTS, BLOB, CHARACTERISTIC, FRAME, FUNCTION, GROUP, INSTANCE and
    MEASUREMENT - keeps exactly its valid blocks, in their order, and no list appears or disappears -/
theorem cleanup_all_hosts {α : Type} (valid : α → Bool) (h : Hosts α) :
    (h.cleanup valid).lists = h.lists.map (List.filter valid) := by
  have hf : removeUnknown valid = List.filter valid := funext (removeUnknown_eq_filter valid)
  simp only [Hosts.cleanup, Hosts.lists, hf, List.map_append, List.map_cons, List.map_nil]

/-- ... hence nothing invalid is left anywhere and nothing valid is lost anywhere -/
theorem cleanup_all_hosts_mem {α : Type} (valid : α → Bool) (h : Hosts α) (x : α) :
    (∃ l ∈ (h.cleanup valid).lists, x ∈ l) ↔ (∃ l ∈ h.lists, x ∈ l) ∧ valid x = true := by
  rw [cleanup_all_hosts]
  constructor
  · rintro ⟨l, hl, hx⟩
    obtain ⟨l0, hl0, rfl⟩ := List.mem_map.1 hl
    exact ⟨⟨l0, hl0, (List.mem_filter.1 hx).1⟩, (List.mem_filter.1 hx).2⟩
  · rintro ⟨⟨l, hl, hx⟩, hv⟩
    exact ⟨l.filter valid, List.mem_map.2 ⟨l, hl, rfl⟩, List.mem_filter.2 ⟨hx, hv⟩⟩

example : removeUnknown (fun p : Nat × Bool => p.2) [(1, true), (2, false), (3, true)] = [(1, true), (3, true)] := by
  decide

/-! ## 5b. the IF_DATA interpreter is total -/

/-- **`ifdata_total`**: on tokens as the tokenizer produces them (`TokOk`: lines are positive and increasing,
    identifiers are not empty; no Include token: `parse_unknown_ifdata` would spin on one), from a cursor inside the
    token array, the hand-written parsers of `A2ML` and `IF_DATA` blocks never reach a panic site
    (`get_line_offset`, `undo_get_token`, `text.as_bytes()[0]`) and never exhaust the budgets of the model: the loops
    of `expect_token`, comment skipping, sequences and tagged structs get `toks.size + 1` iterations (every
    iteration consumes a token), the fallback gets `unknownFuel toks.size = 3 * toks.size + 8` nested calls (at most
    three calls per consumed token), the A2ML parser the budget of `a2ml_total`. -/
theorem ifdata_total (toks : Array PTok) (strict : Bool) (hk : TokOk toks) (hne : toks.size ≠ 0)
    (hni : NoInc (specialEnv toks strict))
    (tyA2ml : Nat) (f32 : List Char → Option (List Char)) (builtin : List Spec)
    (ty : Nat) (ctx : Ctx) (off : Nat) (s : PState) (hs : s.pos ≤ toks.size) :
    special tyA2ml f32 builtin ty ctx off toks strict s ≠ .panic ∧
    special tyA2ml f32 builtin ty ctx off toks strict s ≠ .fuel := by
  have := good_total (special_good True (cfgS toks strict hk (Nat.pos_of_ne_zero hne)) (fun _ _ => hni)
    tyA2ml f32 builtin ty ctx off s (fun _ => hs))
  exact ⟨this.1, this.2.1⟩

/-- the same for `parse_ifdata` alone, for any list of definitions -/
theorem parseIfdata_total (toks : Array PTok) (strict : Bool) (hk : TokOk toks) (hne : toks.size ≠ 0)
    (hni : NoInc (specialEnv toks strict)) (f32 : List Char → Option (List Char)) (specs : List Spec)
    (ctx : Ctx) (s : PState) (hs : s.pos ≤ toks.size) :
    parseIfdata f32 specs ctx (specialEnv toks strict) s ≠ .panic ∧
    parseIfdata f32 specs ctx (specialEnv toks strict) s ≠ .fuel := by
  have := good_total (parseIfdata_good (F := True) (cfgS toks strict hk (Nat.pos_of_ne_zero hne)) (fun _ _ => hni)
    f32 specs ctx s (fun _ => hs))
  exact ⟨this.1, this.2.1⟩

theorem unknownFuel_def (n : Nat) : unknownFuel n = 3 * n + 8 := rfl

/-- **`array_zero_width_stops`**: the array loop runs the interpreter of the element at most `dim` times AND at most
    once more than the number of tokens it consumes (so at most `toks.size + 1` times), whatever `dim` is: it stops
    after the first element that consumes nothing. (None of the budgets above mentions `dim`: the array loop is
    structurally recursive on `dim` and needs no budget; before the fix its running time and the memory for the
    result were proportional to `dim`, which comes from the A2ML text and can be `i32::MAX`.) -/
theorem array_zero_width_stops (e : Env) (f32 : List Char → Option (List Char)) (of : Spec) (dim : Nat) (ctx : Ctx)
    (s s' : PState) (vs : List Gen) (hs : s.pos ≤ e.toks.size)
    (h : itemP f32 (.array of dim) ctx e s = .ok (.array vs) s') :
    vs.length ≤ dim ∧ vs.length ≤ s'.pos - s.pos + 1 ∧ vs.length ≤ e.toks.size + 1 := by
  have h1 := itemP_array_length f32 of dim ctx s s' (.array vs) hs h vs rfl
  have h2 := (itemP_ok f32 (.array of dim) ctx s (.array vs) s' hs h).2.1
  exact ⟨h1.1, h1.2, by omega⟩

/-- `taggedunion { "X" uint; }[2147483647]` on `X 1 /end`: the first element takes `X 1`, the second is empty, stop -/
example : resOf (parseIfdata exF32 [.array (.taggedUnion [⟨['X'], .int 5, false, false⟩]) 2147483647] exCtx
    (specialEnv #[tk 0 ['X'], tk 5 ['1'], tk 2 "/end".toList, tk 0 "IF_DATA".toList] true) {}) =
    some ([.ident ['X'], .int 5 1 false], true, 2) := by decide +kernel

/-- the hypotheses are satisfiable: the example tokens, an IF_DATA block (`ty = 1`, the type `A2ml` being 0) -/
example : special 0 exF32 [exSpec] 1 exCtx 0 exToks true {} ≠ .panic ∧
    special 0 exF32 [exSpec] 1 exCtx 0 exToks true {} ≠ .fuel :=
  ifdata_total exToks true (tokOk_of_lines exToks (by decide)) (by decide) (noInc_of exToks true (by decide))
    0 exF32 [exSpec] 1 exCtx 0 {} (by decide)

/-- without the hypothesis on Include tokens the statement is false: `parse_unknown_ifdata` does not consume an Include
    token (`A2lTokenType::Include => {}`), the loop never ends. (The tokenizer never hands one to the parser.) -/
example : isFuel (parseIfdata exF32 [] exCtx (specialEnv #[tk 3 "/include".toList, tk 2 "/end".toList] false) {}) = true := by
  decide +kernel

/-! ## 6. the hypotheses of C03 / C06 about the `special` parsers hold for the real ones -/

/-- **`special_ok`**: the instance of `Env.special` (Model/IfData.lean: `A2ml::parse` for the type `A2ml`,
    `IfData::parse` otherwise) satisfies `SpecialOk` of Props/C03Parse.lean: no panic, the cursor stays in range and
    does not move backwards, the log is only extended. -/
theorem special_ok (e : Env) (tyA2ml : Nat) (f32 : List Char → Option (List Char)) (builtin : List Spec)
    (hsp : e.special = special tyA2ml f32 builtin) (hk : TokOk e.toks) (hne : e.toks.size ≠ 0) : SpecialOk e :=
  special_specialOk e tyA2ml f32 builtin hsp hk hne

example : SpecialOk { toks := exToks, strict := true, table := [], special := special 0 exF32 [exSpec] } :=
  special_ok _ 0 exF32 [exSpec] rfl (tokOk_of_lines exToks (by decide)) (by decide)

/-- corollary: `parse_file` with the real `special` parsers never panics (Props/C03Parse.lean `parseFile_no_panic`
    without its hypothesis `hsp`) -/
theorem parseFile_no_panic_real (e : Env) (tyA2ml : Nat) (f32 : List Char → Option (List Char)) (builtin : List Spec)
    (hsp : e.special = special tyA2ml f32 builtin) (hk : TokOk e.toks) (ht : tableOk e.table e.known = true)
    (hne : e.toks.size ≠ 0) : runParseFile e ≠ .panic :=
  parseFile_no_panic e hk ht (special_ok e tyA2ml f32 builtin hsp hk hne) hne

/-- corollary: cursor range and log monotonicity of `parseType` with the real `special` parsers -/
theorem parseType_pos_real (e : Env) (tyA2ml : Nat) (f32 : List Char → Option (List Char)) (builtin : List Spec)
    (hsp : e.special = special tyA2ml f32 builtin) (hk : TokOk e.toks) (ht : tableOk e.table e.known = true)
    (hne : e.toks.size ≠ 0) (fuel : Nat) (ty : Nat) (ctx : Ctx) (off : Nat) (s : PState) (hs : s.pos ≤ e.toks.size) :
    (∀ v s', parseType fuel ty ctx off e s = .ok v s' → s.pos ≤ s'.pos ∧ s'.pos ≤ e.toks.size) ∧
    (∀ d s', parseType fuel ty ctx off e s = .err d s' → s'.pos ≤ e.toks.size) :=
  parseType_pos e hk ht (special_ok e tyA2ml f32 builtin hsp hk hne) fuel ty ctx off s hs

/-- **the `hsp` / `hspe` hypotheses of `strict_log_only_warnings`** hold for the real `special` parsers: in strict mode
    they add nothing but deprecation notices to the log (in fact nothing at all), whether they succeed or fail -/
theorem special_strict_ok (e : Env) (tyA2ml : Nat) (f32 : List Char → Option (List Char)) (builtin : List Spec)
    (hsp : e.special = special tyA2ml f32 builtin) (hstrict : e.strict = true) :
    (∀ ty ctx off s v s', e.special ty ctx off e.toks e.strict s = .ok v s' →
      ∃ l, s'.log = l ++ s.log ∧ ∀ d ∈ l, d.kind = .blockRefDeprecated ∨ d.kind = .enumRefDeprecated) ∧
    (∀ ty ctx off s d s', e.special ty ctx off e.toks e.strict s = .err d s' →
      ∃ l, s'.log = l ++ s.log ∧ ∀ d ∈ l, d.kind = .blockRefDeprecated ∨ d.kind = .enumRefDeprecated) := by
  rw [hsp, hstrict]
  exact ⟨fun ty ctx off s v s' h => (special_strict_log e.toks tyA2ml f32 builtin ty ctx off s).1 v s' h,
         fun ty ctx off s d s' h => (special_strict_log e.toks tyA2ml f32 builtin ty ctx off s).2 d s' h⟩

/-- corollary: `strict_log_only_warnings` with the real `special` parsers -/
theorem strict_log_only_warnings_real (e : Env) (tyA2ml : Nat) (f32 : List Char → Option (List Char))
    (builtin : List Spec) (hsp : e.special = special tyA2ml f32 builtin) (hstrict : e.strict = true)
    (fuel : Nat) (ty : Nat) (ctx : Ctx) (off : Nat) (s : PState) (v : Val) (s' : PState)
    (h : parseType fuel ty ctx off e s = .ok v s') :
    ∃ l, s'.log = l ++ s.log ∧ ∀ d ∈ l, d.kind = .blockRefDeprecated ∨ d.kind = .enumRefDeprecated :=
  strict_log_only_warnings e hstrict (special_strict_ok e tyA2ml f32 builtin hsp hstrict).1
    (special_strict_ok e tyA2ml f32 builtin hsp hstrict).2 fuel ty ctx off s v s' h

/-- `block "IF_DATA" taggedunion { "X" char[2]; };` -/
def simSpec : Spec := .taggedUnion [⟨['X'], .array (.int 0) 2, false, false⟩]
/-- `X abc /end IF_DATA`: an identifier where the definition has a string -/
def simToks : Array PTok := #[tk 0 ['X'], tk 0 "abc".toList, tk 2 "/end".toList, tk 0 "IF_DATA".toList]
def simEnv (strict : Bool) : Env :=
  { toks := simToks, strict := strict, table := [], special := special 0 exF32 [simSpec] }

/-- the `ifdata_valid` flag of the value that the `special` hook returns for an IF_DATA block -/
def validOf (r : PRes Val) : Option Bool :=
  match r with
  | .ok (.block _ _ fields _ _) _ => (decIfData fields).map (·.2)
  | _ => none

/-- **`SpecialSim` (the hypothesis of the C06 theorems about the `special` parsers) is FALSE for the real IF_DATA
    parser**, so those theorems do not become unconditional. In strict mode a recoverable problem inside IF_DATA
    (here: an identifier where the definition has a string) does not make the load fail: the error only ends the
    attempt to interpret the content, the fallback keeps it, and the strict load SUCCEEDS with the block flagged
    invalid and without any diagnostic; the non-strict load succeeds with a diagnostic and the block flagged valid
    (and writes `"abc"` where the strict load writes `abc`). Confirmed on the Rust library. -/
theorem specialSim_false_for_ifdata : ¬ SpecialSim (simEnv true) := by
  intro h
  have h2 := (h 1 exCtx 0 {}).2.1
  have hs : validOf ((simEnv true).special 1 exCtx 0 (simEnv true).toks true {}) = some false := by decide +kernel
  have hn : validOf ((simEnv true).special 1 exCtx 0 (simEnv true).toks false {}) = some true := by decide +kernel
  cases hr : (simEnv true).special 1 exCtx 0 (simEnv true).toks true {} with
  | ok v s' =>
    have := h2 v s' hr
    rw [this] at hn
    rw [hr] at hs
    rw [hs] at hn
    cases hn
  | err d s' => rw [hr] at hs; cases hs
  | panic => rw [hr] at hs; cases hs
  | fuel => rw [hr] at hs; cases hs

/-! ## 7. the A2ML rules read declaratively

`Conf strict f32 sp l` (Lemmas/IfDataConf.lean, an inductive relation written from the A2ML rules and independent of
the interpreter): the comment-free token list `l` is an instance of the definition `sp`: scalars by token class and
range, `char[n]` strings, arrays element by element, enum items by name, struct members in order, sequences with any
number of elements, tagged structs with any number of members of which those not defined as `("TAG" ...)*` occur at
most once, tagged members by tag and block-ness, blocks closed by `/end TAG`. -/

/-- the rules for the scalars and strings, as an illustration that `Conf` is what it is meant to be -/
example (strict : Bool) (f32 : List Char → Option (List Char)) (w : Nat) (t : PTok) (r : Int × Bool)
    (h5 : t.ty = 5) (hp : parseInt (intTyOf w) t.text = some r) : Conf strict f32 (.int w) [t] := .int h5 hp
example (strict : Bool) (f32 : List Char → Option (List Char)) (items : List Spec) (l : List PTok)
    (h : ConfAll strict f32 items l) : Conf strict f32 (.struct items) l := .struct h
example (strict : Bool) (f32 : List Char → Option (List Char)) (items : List (Tagged Spec)) (tg : Tagged Spec)
    (b t e t' : PTok) (body : List PTok) (h1 : lookupTagged items t.text = some tg) (h2 : tg.isBlock = true)
    (hb : b.ty = 1) (ht : t.ty = 0) (hbody : Conf strict f32 tg.item body) (he : e.ty = 2) (ht' : t'.ty = 0)
    (htag : t'.text = t.text) : ConfTag strict f32 items (b :: t :: body ++ [e, t']) t.text :=
  .block h1 h2 hb ht hbody he ht' htag

/-- **`valid_implies_conforming`** (one half of `conforming_accepted`): whatever `parse_ifdata` flags as valid is,
    comments left out, an instance of one of the applicable definitions, up to the closing `/end`. -/
theorem valid_implies_conforming (e : Env) (f32 : List Char → Option (List Char)) (specs : List Spec) (ctx : Ctx)
    (s s' : PState) (r : Option Gen) (h : parseIfdata f32 specs ctx e s = .ok (r, true) s') :
    ∃ sp ∈ specs, Conf e.strict f32 sp (span e.toks s.pos s'.pos) := valid_conforms h

/-- ... and for a single definition: what `parse_ifdata_item` consumes is an instance of it -/
theorem item_implies_conforming (e : Env) (f32 : List Char → Option (List Char)) (sp : Spec) (ctx : Ctx)
    (s s' : PState) (g : Gen) (hs : s.pos ≤ e.toks.size) (h : itemP f32 sp ctx e s = .ok g s') :
    Conf e.strict f32 sp (span e.toks s.pos s'.pos) := (itemP_conf f32 sp ctx s g s' hs h).2.2

theorem TagsOk_def (rep : List Char → Bool) (tags : List (List Char)) :
    TagsOk rep tags ↔ tags.Pairwise (fun a b => a = b → rep a = true) := Iff.rfl
theorem repOf_def (items : List (Tagged Spec)) (tag : List Char) :
    repOf items tag = (match lookupTagged items tag with | some t => t.rep | none => false) := rfl

/-- **`duplicate_member_rejected`**: what the interpreter accepts for a tagged struct never has two items of a member
    that is not defined as `("TAG" ...)*`: the tags of the items are pairwise different except for repeating members.
    (`parse_ifdata_taggedstruct` returns `InvalidMultiplicityTooMany` after it has read the second item; inside
    `parse_ifdata` this only ends the attempt, the content is then kept by the fallback and flagged invalid. The
    same restriction is part of `Conf`, so `valid_implies_conforming` says it for nested tagged structs as well.) -/
theorem duplicate_member_rejected (e : Env) (f32 : List Char → Option (List Char)) (items : List (Tagged Spec))
    (ctx : Ctx) (s s' : PState) (g : Gen) (h : itemP f32 (.taggedStruct items) ctx e s = .ok g s') :
    ∃ vs, g = .taggedStruct vs ∧ (vs.map (·.tag)).Pairwise (fun a b => a = b → repOf items a = true) :=
  itemP_taggedStruct_tagsOk f32 items ctx s s' g h

/-- `block "IF_DATA" taggedstruct { "A" uint; ("R" uint)*; };` -/
def dupSpec : Spec := .taggedStruct [⟨['A'], .int 5, false, false⟩, ⟨['R'], .int 5, false, true⟩]

/-- `R 1 R 2 A 3 /end`: the repeating member twice: valid -/
example : resOf (parseIfdata exF32 [dupSpec] exCtx (specialEnv
    #[tk 0 ['R'], tk 5 ['1'], tk 0 ['R'], tk 5 ['2'], tk 0 ['A'], tk 5 ['3'], tk 2 "/end".toList, tk 0 "IF_DATA".toList]
    true) {}) =
    some ([.ident ['R'], .int 5 1 false, .ident ['R'], .int 5 2 false, .ident ['A'], .int 5 3 false], true, 6) := by
  decide +kernel
/-- `A 1 R 2 A 3 /end`: the non-repeating member twice: not accepted by the definition, kept as uninterpreted data
    (the fallback reads identifiers and `i32` numbers), flagged invalid -/
example : resOf (parseIfdata exF32 [dupSpec] exCtx (specialEnv
    #[tk 0 ['A'], tk 5 ['1'], tk 0 ['R'], tk 5 ['2'], tk 0 ['A'], tk 5 ['3'], tk 2 "/end".toList, tk 0 "IF_DATA".toList]
    true) {}) =
    some ([.ident ['A'], .int 2 1 false, .ident ['R'], .int 2 2 false, .ident ['A'], .int 2 3 false], false, 6) := by
  decide +kernel
/-- the error that ends the attempt -/
example : errOf (itemP exF32 dupSpec exCtx (specialEnv
    #[tk 0 ['A'], tk 5 ['1'], tk 0 ['A'], tk 5 ['3'], tk 2 "/end".toList, tk 0 "IF_DATA".toList] true) {}) =
    some .invalidMultiplicityTooMany := by decide +kernel

/-- `struct { taggedstruct { "A" (uint)*; }; uint; }`: a greedy sequence followed by a member of the same token class -/
def ambSpec : Spec := .struct [.taggedStruct [⟨['A'], .seq (.int 5), false, false⟩], .int 5]
/-- `A 1 2 /end ...` -/
def ambToks : Array PTok := #[tk 0 ['A'], tk 5 ['1'], tk 5 ['2'], tk 2 "/end".toList, tk 0 "IF_DATA".toList]

/-- the other half of `conforming_accepted` ("conforming content is recognised as valid") is FALSE without a side
    condition on the definition: `A 1 2` is an instance of `ambSpec` (the sequence takes `1`, the member `uint` takes
    `2`), but the interpreter's sequence loop is greedy, takes both numbers, the member then finds `/end`, and the
    block is flagged invalid. -/
theorem conforming_accepted_needs_unambiguity :
    Conf true exF32 ambSpec (span ambToks 0 3) ∧
    resOf (parseIfdata exF32 [ambSpec] exCtx (specialEnv ambToks true) {}) =
      some ([.ident ['A'], .int 2 1 false, .int 2 2 false], false, 3) := by
  refine ⟨?_, by decide +kernel⟩
  have hs : span ambToks 0 3 = [tk 0 ['A'], tk 5 ['1']] ++ ([tk 5 ['2']] ++ []) := by rfl
  rw [hs]
  refine .struct (.cons (.taggedStruct (tags := [['A']]) ?_ (List.pairwise_singleton _ _))
    (.cons (.int (r := (2, false)) rfl (by decide)) .nil))
  show ConfTags _ _ _ ([tk 0 ['A'], tk 5 ['1']] ++ []) _
  refine .cons (.kw (tg := ⟨['A'], .seq (.int 5), false, false⟩) (by rfl) rfl rfl ?_) .nil
  show Conf _ _ _ ([tk 5 ['1']] ++ [])
  exact .seq (n := 1) (.succ (.int (r := (1, false)) rfl (by decide)) .zero)

/-! ## known finding `C01-ifdata-integral-float`: the witness on the model -/

/-- `VENDOR 5.0 /end ...` where Rust prints the value of `5.0` as `5` (the `fl` entry of the token) -/
def intFloatToks1 : Array PTok :=
  #[tk 0 "VENDOR".toList, tk 5 "5.0".toList 1 (some ['5']), tk 2 "/end".toList, tk 0 "IF_DATA".toList]
/-- what is written for it, read again: `VENDOR 5 /end ...` -/
def intFloatToks2 : Array PTok :=
  #[tk 0 "VENDOR".toList, tk 5 ['5'] 1 (some ['5']), tk 2 "/end".toList, tk 0 "IF_DATA".toList]

/-- **uninterpreted IF_DATA does not survive a save / reload cycle when it holds a float with an integral value**: the
    first load stores a float (`WV.f64`, printed `5`), the reload of the written text stores the integer 5 — the two
    models differ although the text is stable. (Inside interpreted IF_DATA the definition decides the type.) -/
theorem integral_float_reread_as_integer :
    resOf (parseIfdata exF32 [] exCtx (specialEnv intFloatToks1 false) {}) =
      some ([.ident "VENDOR".toList, .f64 ['5']], false, 2) ∧
    resOf (parseIfdata exF32 [] exCtx (specialEnv intFloatToks2 false) {}) =
      some ([.ident "VENDOR".toList, .int 2 5 false], false, 2) := by
  constructor <;> decide +kernel

/-! ## several definitions: the first one that accepts decides (built-in specification first, then the file's) -/

/-- `parser.a2mlspec`: the built-in specification argument, then the A2ML blocks read so far, in file order -/
example (builtin : List Spec) (toks : Array PTok) (p : Nat) : specsAt builtin toks p = builtin ++ fileSpecs toks p := rfl

/-- **the first definition that accepts the content decides how it is read** — whatever the later ones would make of it
    (with a built-in specification and a different A2ML block in the file that both accept, the values, integer
    notation included, are those of the built-in one) -/
theorem pm_bind_def {α β} (m : Tree.PM α) (f : α → Tree.PM β) (e : Env) (s : PState) :
    (m >>= f) e s = match m e s with
      | .ok a s' => f a e s'
      | .err d s' => .err d s'
      | .panic => .panic
      | .fuel => .fuel := rfl

theorem first_definition_wins (f32 : List Char → Option (List Char)) (ctx : Ctx) (sp : Spec) (rest : List Spec)
    (e : Env) (s s' : PState) (g : Gen) (h : fromSpec f32 ctx sp e s = .ok (some g) s') :
    trySpecs f32 ctx (sp :: rest) e s = .ok (some g) s' := by
  rw [trySpecs, pm_bind_def, h]
  rfl

/-- a definition that does not accept hands over to the next one, from the state its attempt leaves behind -/
theorem rejected_definition_skipped (f32 : List Char → Option (List Char)) (ctx : Ctx) (sp : Spec) (rest : List Spec)
    (e : Env) (s s' : PState) (h : fromSpec f32 ctx sp e s = .ok none s') :
    trySpecs f32 ctx (sp :: rest) e s = trySpecs f32 ctx rest e s' := by
  rw [trySpecs, pm_bind_def, h]

end A2l.IfData
