import A2lVerif.Lemmas.Include
import A2lVerif.Lemmas.TreeSkip
import A2lVerif.Lemmas.IncludeWriter
/-!
# C16 (tokenizer part) — `/include` resolution is plain inline expansion

Property theorems only.  Model: `Model/Include.lean`, an index-faithful transcription of `tokenize` of
`src/tokenizer.rs` (the wrapper of `tokenize_core` that resolves `/include` directives by recursively tokenizing the
included files) and of `make_include_filename` / `load` of `src/loader.rs`, in which every slice, index and `usize`
subtraction has an explicit `panic` outcome; `tokenize_core` is `A2l.Lex.tokenize` (C03).  The file system is an
arbitrary map `fs : Path → Option Bytes`.  `tokenize fs n` is `tokenize_nested(.., depth)` with
`n = MAX_INCLUDE_DEPTH - depth` (the *depth budget*: the number of levels that may still be nested below the
file); the entry point `tokenize(..)` is `tokenizeTop fs = tokenize fs 64`.  At budget `0` a directive with a usable
name is the `IncludeFileError` of a file that cannot be loaded.  The recursion is structural in the budget, so the
model is total (`tokenize_total`); the outcome `.hang` exists only because the lexer model has one (it does not
occur there either: `Lex.lex_no_hang`).  The model agrees with the real implementation on the recorded cases
(`testdata/difftest.sh`).

All theorems hold for every file map, every file name, every content and every depth budget; there is no size
bound.  The budget matters for one kind of result only: an `IncludeFileError` (`depth_budget_irrelevant`); such an
error is that of a reachable missing file — the same under every larger budget
(`missing_include_budget_irrelevant`) — or that of the depth limit (`include_file_error_cases`).  The
self-including file gives the `IncludeFileError` of its innermost level for every budget (`self_include_is_error`).

Specifications (Lemmas/Include.lean): `walk` (the splice as a recursion over the token list, same outcome type as
the model; its recursive call is an `Option`, `none` at budget `0`: `deeper`), `expandToks`/`expand` ((kind, text)
stream of the inline expansion, with the same depth budget), `expandIToks`/`expandI` (the same with file ids).
-/
namespace A2l.Inc
open A2l.Lex (Bytes TokType)

/-! ### 0. the index arithmetic implements the walk -/

/-- the entry point: `tokenize(filename, fileid, filetext)` = `tokenize_nested(.., depth = 0)`, budget 64 -/
theorem tokenize_entry (fs : FS) (fn : Filename) (fid : Nat) (b : Bytes) :
    tokenizeTop fs fn fid b = tokenize fs 64 fn fid b := rfl

/-- **`tokenize` = `tokenize_core`, then the walk**: the vector `include_directives`, the sentinel, the loop
    `for idx in 1..len` with `token_subseq = input_tokens[dirs[idx-1]+1 .. dirs[idx]]`, the quote stripping,
    `&filetext[start..end]` and the depth test compute exactly the list recursion `walk` — for every outcome (ok,
    each error).  The recursive call of the walk is `deeper fs n`: none at budget `0`, `tokenize fs m` at `m + 1` -/
theorem tokenize_is_walk (fs : FS) (n : Nat) (fn : Filename) (fid : Nat) (b : Bytes) :
    tokenize fs n fn fid b =
      match Lex.tokenize b with
      | .err k l => .err (.Lex fn.display k l)
      | .panic => .panic
      | .hang => .hang
      | .ok lt => finish (walk (deeper fs n) fs fn b (lt.map (Tok.ofLex fid)) (St.init fn fid b)) :=
  tokenize_walk fs n fn fid b

theorem deeper_zero (fs : FS) : deeper fs 0 = none := rfl
theorem deeper_succ (fs : FS) (m : Nat) : deeper fs (m + 1) = some (tokenize fs m) := rfl

/-! ### 1. no panic, termination -/

/-- **no panic**: the indices into `include_directives` and `input_tokens`, the slices `input_tokens[a..e]`,
    `filebytes[filename_start]`, `filebytes[filename_end - 1]` and `&filetext[filename_start..filename_end]` are in
    range, at every level of the recursion.  (The last one needs more than non-empty spans: see `lex_quoteOk`.) -/
theorem splice_no_panic (fs : FS) (n : Nat) (fn : Filename) (fid : Nat) (b : Bytes) :
    tokenize fs n fn fid b ≠ .panic :=
  tokenize_no_panic fs n fn fid b

/-- **total**: for every depth budget the result is a token vector or a `TokenizerError` — no panic, and no
    non-termination: the recursion is structural in the budget, and the one `.hang` the model can hand on, that of
    the lexer model, does not occur (`Lex.lex_no_hang`) -/
theorem tokenize_total (fs : FS) (n : Nat) (fn : Filename) (fid : Nat) (b : Bytes) :
    (∃ r, tokenize fs n fn fid b = .ok r) ∨ (∃ e, tokenize fs n fn fid b = .err e) := by
  have h1 := tokenize_no_panic fs n fn fid b
  have h2 := tokenize_no_hang fs n fn fid b
  cases h : tokenize fs n fn fid b with
  | ok r => exact .inl ⟨r, rfl⟩
  | err e => exact .inr ⟨e, rfl⟩
  | panic => exact absurd h h1
  | hang => exact absurd h h2

theorem tokenize_no_hang_no_panic (fs : FS) (n : Nat) (fn : Filename) (fid : Nat) (b : Bytes) :
    tokenize fs n fn fid b ≠ .hang ∧ tokenize fs n fn fid b ≠ .panic :=
  ⟨tokenize_no_hang fs n fn fid b, tokenize_no_panic fs n fn fid b⟩

/-- the lexer fact behind the last slice: the token directly behind `/include`, if it is a String or Identifier
    token that starts with `"`, spans at least two bytes -/
theorem include_name_token (b : Bytes) (ts : List Lex.Token) (h : Lex.tokenize b = .ok ts)
    (i : Nat) (inc nm : Lex.Token) (hi : ts[i]? = some inc) (hn : ts[i + 1]? = some nm)
    (hinc : inc.ttype = .include) (hname : nm.ttype = .string ∨ nm.ttype = .identifier)
    (hq : b[nm.startpos]? = some 34) : nm.startpos + 2 ≤ nm.endpos :=
  Lex.lex_quoteOk b ts h i inc nm hi hn hinc hname hq

/-! ### 2. loading through `/include` yields the flattened token stream -/

/-- **inline expansion**: when the model succeeds, its (kind, text) sequence — the text of a token being the slice
    of the content of the file with the token's file id — is `expand` of the main file (same depth budget): every
    `Include` token followed by a String/Identifier token is replaced by the expansion of the named file, everything
    else is copied -/
theorem splice_eq_expand (fs : FS) (n : Nat) (fn : Filename) (b : Bytes) (r : TokenResult)
    (h : tokenize fs n fn 0 b = .ok r) :
    expand fs n fn.full b = some (r.tokens.map fun t => (t.ttype, tokText r.filedata 0 t)) := by
  obtain ⟨_, h2, _⟩ := tokenize_sim fs n fn 0 b r h
  rw [expandI_kt fs n fn.full 0 b _ h2]
  simp [view3, Item.kt, Function.comp_def]

/-- the same for any initial file id, with the file ids: the model's (kind, file id, text) sequence is `expandI`,
    which gives the file itself the id `fid`, every included file *occurrence* the next free id and the files it
    includes the following ones; the second component is the next free id -/
theorem splice_eq_expand_ids (fs : FS) (n : Nat) (fn : Filename) (fid : Nat) (b : Bytes) (r : TokenResult)
    (h : tokenize fs n fn fid b = .ok r) :
    expandI fs n fn.full fid b =
      some (r.tokens.map (fun t => (t.ttype, t.fileid, tokText r.filedata fid t)), fid + r.filedata.length) :=
  (tokenize_sim fs n fn fid b r h).2.1

/-- the expansion does not depend on the budget once it exists: `expand fs n` is the expansion under every larger
    budget -/
theorem expand_budget_irrelevant (fs : FS) (n k : Nat) (base : Path) (b : Bytes) (out : List (TokType × Bytes))
    (h : expand fs n base b = some out) : expand fs (n + k) base b = some out :=
  expand_mono fs n k base b out h

/-- a successful result contains no `Include` token: every directive has been resolved -/
theorem ok_has_no_include (fs : FS) (n : Nat) (fn : Filename) (fid : Nat) (b : Bytes) (r : TokenResult)
    (h : tokenize fs n fn fid b = .ok r) : ∀ t ∈ r.tokens, t.ttype ≠ .include :=
  (tokenize_sim fs n fn fid b r h).1.noInc

/-! ### 3. a missing include file is an error -/

/-- **missing include**: the content tokenizes to `pre ++ inc :: nm :: post` with an `Include` token `inc` and a
    name token `nm`, the directives in `pre` resolve (`Resolves fs n`: the walk over `pre` under the budget `n`
    succeeds), and the file named by `nm` is not in the map.  Then the result is `IncludeFileError` with the line of
    `nm` and the name as written (quotes stripped) — never a truncated token stream.  For every depth budget. -/
theorem missing_include_is_error (fs : FS) (n : Nat) (fn : Filename) (fid : Nat) (b : Bytes)
    (pre post : List Lex.Token) (inc nm : Lex.Token) (st1 : St)
    (hlex : Lex.tokenize b = .ok (pre ++ inc :: nm :: post))
    (hinc : inc.ttype = .include) (hnm : nm.ttype = .string ∨ nm.ttype = .identifier)
    (hpre : Resolves fs n fn fid b pre st1)
    (hmiss : fs (targetPath fs fn.full b nm) = none) :
    tokenize fs n fn fid b =
      .err (.IncludeFileError fn.display nm.line (nameAt b nm.startpos nm.endpos)) :=
  missing_include fs n fn fid b pre post inc nm st1 hlex hinc hnm hpre (by simp [load, target_full, hmiss])

/-- when is the resolved path missing: the normalised name, the name as written and the name joined to the
    directory of the including file are all absent from the map -/
theorem resolve_missing (fs : FS) (incname base : Path)
    (h1 : fs (normalize incname) = none) (h2 : fs incname = none)
    (h3 : ∀ d, parent base = some d → fs (join d (normalize incname)) = none) :
    fs (makeIncludeFilename fs incname base) = none := by
  unfold makeIncludeFilename
  simp only
  split
  · exact h1
  · split
    · rename_i d hd
      simp only [FS.exists, h3 d hd, Option.isSome_none, Bool.false_eq_true, if_false]
      exact h2
    · exact h2

/-- the first directive of a file (no walk in the statement) -/
theorem missing_first_include_is_error (fs : FS) (n : Nat) (fn : Filename) (fid : Nat) (b : Bytes)
    (pre post : List Lex.Token) (inc nm : Lex.Token)
    (hlex : Lex.tokenize b = .ok (pre ++ inc :: nm :: post))
    (hpre : ∀ t ∈ pre, t.ttype ≠ .include)
    (hinc : inc.ttype = .include) (hnm : nm.ttype = .string ∨ nm.ttype = .identifier)
    (hmiss : fs (targetPath fs fn.full b nm) = none) :
    tokenize fs n fn fid b =
      .err (.IncludeFileError fn.display nm.line (nameAt b nm.startpos nm.endpos)) :=
  missing_include_is_error fs n fn fid b pre post inc nm _ hlex hinc hnm (resolves_of_noInc fs n fn fid b pre hpre) hmiss

/-- an error inside an included file (tokenized with the budget `n`) is the result of the including file (budget
    `n + 1`), unchanged -/
theorem include_error_is_error (fs : FS) (n : Nat) (fn : Filename) (fid : Nat) (b : Bytes)
    (pre post : List Lex.Token) (inc nm : Lex.Token) (st1 : St) (data : Bytes) (e : Err)
    (hlex : Lex.tokenize b = .ok (pre ++ inc :: nm :: post))
    (hinc : inc.ttype = .include) (hnm : nm.ttype = .string ∨ nm.ttype = .identifier)
    (hpre : Resolves fs (n + 1) fn fid b pre st1)
    (hload : load fs (target fs fn b nm).full = some data)
    (herr : tokenize fs n (target fs fn b nm) st1.nextFileid data = .err e) :
    tokenize fs (n + 1) fn fid b = .err e :=
  include_error_propagates fs n fn fid b pre post inc nm st1 data e hlex hinc hnm hpre hload herr

/-- **a reachable directive names a missing file** (`ReachesMissing`: a chain of directives, each the first
    unresolved one of its file, the last one naming a file that is not in the map): the result is the
    `IncludeFileError` of that directive -/
theorem reachable_missing_include_is_error (fs : FS) (n : Nat) (fn : Filename) (fid : Nat) (b : Bytes) (e : Err)
    (h : ReachesMissing fs n fn fid b e) :
    tokenize fs n fn fid b = .err e ∧ ∃ f line incname, e = .IncludeFileError f line incname :=
  ⟨reachesMissing_err fs n fn fid b e h, reachesMissing_is_includeFileError fs n fn fid b e h⟩

/-! ### 3a. the depth limit is an error -/

/-- **depth limit**: at budget `0` (`depth = MAX_INCLUDE_DEPTH`) a directive with a usable name — everything in
    front of it resolving, which at budget `0` means: no directive in front of it — is the `IncludeFileError` of that
    directive (file name of the current file, line of the name token, name as written), whether or not the named
    file exists -/
theorem depth_limit_is_error (fs : FS) (fn : Filename) (fid : Nat) (b : Bytes)
    (pre post : List Lex.Token) (inc nm : Lex.Token)
    (hlex : Lex.tokenize b = .ok (pre ++ inc :: nm :: post))
    (hpre : ∀ t ∈ pre, t.ttype ≠ .include)
    (hinc : inc.ttype = .include) (hnm : nm.ttype = .string ∨ nm.ttype = .identifier) :
    tokenize fs 0 fn fid b =
      .err (.IncludeFileError fn.display nm.line (nameAt b nm.startpos nm.endpos)) :=
  depth_limit fs fn fid b pre post inc nm _ hlex hinc hnm (resolves_of_noInc fs 0 fn fid b pre hpre)

/-- at budget `0` nothing else resolves: a resolving prefix contains no directive -/
theorem resolves_at_limit (fs : FS) (fn : Filename) (fid : Nat) (b : Bytes) (pre : List Lex.Token) (st1 : St)
    (h : Resolves fs 0 fn fid b pre st1) : ∀ t ∈ pre, t.ttype ≠ .include :=
  resolves_zero fs fn fid b pre st1 h

/-- **a chain of nested includes reaches the depth limit** (`ReachesLimit fs n`: a chain of `n` directives, each
    the first unresolved one of its file and naming a loadable file, then a directive with a usable name in the file
    with budget `0`): the result is the `IncludeFileError` of that last directive, handed up unchanged -/
theorem reachable_depth_limit_is_error (fs : FS) (n : Nat) (fn : Filename) (fid : Nat) (b : Bytes) (e : Err)
    (h : ReachesLimit fs n fn fid b e) :
    tokenize fs n fn fid b = .err e ∧ ∃ f line incname, e = .IncludeFileError f line incname :=
  ⟨reachesLimit_err fs n fn fid b e h, reachesLimit_is_includeFileError fs n fn fid b e h⟩

/-- **the two sources of `IncludeFileError`**: every `IncludeFileError` result is that of a reachable missing file or
    that of the depth limit (the converse: `reachable_missing_include_is_error`, `reachable_depth_limit_is_error`) -/
theorem include_file_error_cases (fs : FS) (n : Nat) (fn : Filename) (fid : Nat) (b : Bytes) (f : Path) (line : Nat)
    (incname : Path) (h : tokenize fs n fn fid b = .err (.IncludeFileError f line incname)) :
    ReachesMissing fs n fn fid b (.IncludeFileError f line incname) ∨
    ReachesLimit fs n fn fid b (.IncludeFileError f line incname) :=
  includeFileError_cases fs n fn fid b f line incname h

/-! ### 4. a directive without a file name is an error -/

/-- **incomplete include**: an `Include` token that is the last token, or is followed by a token that is neither
    String nor Identifier (the directives in front of it resolving): `IncompleteIncludeError` with the line of the
    `Include` token — for every depth budget, also `0`: the check comes before the depth test -/
theorem incomplete_include_is_error (fs : FS) (n : Nat) (fn : Filename) (fid : Nat) (b : Bytes)
    (pre post : List Lex.Token) (inc : Lex.Token) (st1 : St)
    (hlex : Lex.tokenize b = .ok (pre ++ inc :: post))
    (hinc : inc.ttype = .include)
    (hpost : post = [] ∨ ∃ x rest, post = x :: rest ∧ ¬ (x.ttype = .string ∨ x.ttype = .identifier))
    (hpre : Resolves fs n fn fid b pre st1) :
    tokenize fs n fn fid b = .err (.IncompleteIncludeError fn.display inc.line) :=
  incomplete_include fs n fn fid b pre post inc st1 hlex hinc hpost hpre

/-! ### 5. a file that includes itself -/

/-- **self include**: `main.a2l` with the content `/include "main.a2l"`.  For every depth budget `n` the result is
    an `IncludeFileError`, not a stack overflow: the file is entered `n + 1` times; the innermost level (budget `0`)
    refuses its directive with `IncludeFileError { filename: "main.a2l", line: 1, incname: "main.a2l" }` — file name
    = display name of that level's file, which is the name written in the directive; line = line of the name token —
    and every level above hands this error on unchanged (`?`).  With the entry point's budget 64: 65 levels. -/
theorem self_include_is_error (fs : FS) (hfs : fs mainName = some selfInc) (n fid : Nat) :
    tokenize fs n { full := mainName, display := mainName } fid selfInc =
      .err (.IncludeFileError mainName 1 mainName) := by
  rw [self_include_aux fs hfs n _ fid rfl]
  simp

/-- the same when the outermost file is displayed under another name `disp`: the error carries the name of the
    innermost level — `disp` only if there is no nested level at all (`n = 0`) -/
theorem self_include_is_error_display (fs : FS) (hfs : fs mainName = some selfInc) (n fid : Nat) (disp : Path) :
    tokenize fs n { full := mainName, display := disp } fid selfInc =
      .err (.IncludeFileError (if n = 0 then disp else mainName) 1 mainName) :=
  self_include_aux fs hfs n _ fid rfl

/-- it is the error of the depth limit -/
theorem self_include_reaches_limit (fs : FS) (hfs : fs mainName = some selfInc) (n fid : Nat) :
    ReachesLimit fs n { full := mainName, display := mainName } fid selfInc
      (.IncludeFileError mainName 1 mainName) := by
  have := self_include_limit_aux fs hfs n { full := mainName, display := mainName } fid rfl
  simpa using this

/-! ### 5a. the depth budget -/

/-- **the budget only matters for `IncludeFileError`**: a result with budget `n` that is not an `IncludeFileError` —
    a token vector, a lexer error, an `IncompleteIncludeError` — is the result with every larger budget -/
theorem depth_budget_irrelevant (fs : FS) (n k : Nat) (fn : Filename) (fid : Nat) (b : Bytes)
    (h : ∀ f line incname, tokenize fs n fn fid b ≠ .err (.IncludeFileError f line incname)) :
    tokenize fs (n + k) fn fid b = tokenize fs n fn fid b :=
  tokenize_budget_mono fs n k fn fid b h

/-- in particular a successful result -/
theorem ok_budget_irrelevant (fs : FS) (n k : Nat) (fn : Filename) (fid : Nat) (b : Bytes) (r : TokenResult)
    (h : tokenize fs n fn fid b = .ok r) : tokenize fs (n + k) fn fid b = .ok r := by
  rw [tokenize_budget_mono fs n k fn fid b (by rw [h]; intro f l i hh; cases hh), h]

/-- **the `IncludeFileError` of a reachable missing file is the result with every larger budget** (the remaining
    case, by `include_file_error_cases`, is the error of the depth limit, which does depend on the budget: see the
    examples below) -/
theorem missing_include_budget_irrelevant (fs : FS) (n k : Nat) (fn : Filename) (fid : Nat) (b : Bytes) (e : Err)
    (h : ReachesMissing fs n fn fid b e) : tokenize fs (n + k) fn fid b = .err e :=
  reachesMissing_err fs (n + k) fn fid b e (reachesMissing_mono fs n k fn fid b e h)

/-! ### 6. file ids -/

/-- **file ids**: in a successful result of `tokenize(filename, fid, text)`
    * there are as many file names as file contents, the first ones are `filename` and `text`;
    * every token's file id lies in `[fid, fid + number of files)` (so its text is defined);
    * the tokens with file id `fid` are exactly the tokens of the file itself (`ownToks`: all tokens except the
      directives), in order — tokens of included files have ids `> fid` (for the main file: `≥ 1`). -/
theorem fileids (fs : FS) (n : Nat) (fn : Filename) (fid : Nat) (b : Bytes) (r : TokenResult)
    (h : tokenize fs n fn fid b = .ok r) :
    r.filenames.length = r.filedata.length ∧ r.filedata[0]? = some b ∧ r.filenames[0]? = some fn ∧
    (∀ t ∈ r.tokens, fid ≤ t.fileid ∧ t.fileid < fid + r.filedata.length) ∧
    (∀ lt, Lex.tokenize b = .ok lt →
      r.tokens.filter (fun t => t.fileid == fid) = (ownToks lt).map (Tok.ofLex fid)) := by
  obtain ⟨h1, _, h3⟩ := tokenize_sim fs n fn fid b r h
  exact ⟨h1.names, h1.first, h1.firstName, h1.range, h3⟩

/-- **own ids**: in the expansion with ids, the file being expanded has id `fid`; an included file occurrence is
    expanded with the next free id `next` and returns the next free id `next1 > next`, all its items have ids in
    `[next, next1)`; the rest of the list continues with `next1`.  Hence different directives of a file get
    disjoint, increasing id blocks, and within a block the same holds recursively. -/
theorem expand_ids (fs : FS) (n : Nat) (base : Path) (fid : Nat) (b : Bytes) (out : List Item) (next' : Nat)
    (h : expandI fs n base fid b = some (out, next')) :
    fid < next' ∧ ∀ i ∈ out, fid ≤ i.2.1 ∧ i.2.1 < next' :=
  expandI_ids fs n base fid b out next' h

/-- the blocks of the directives of one file with the depth budget `n` (`deeperI fs n`: the recursive call of
    `expandI`, none at budget `0`, `expandI fs m` at `m + 1`) -/
theorem expand_ids_blocks (fs : FS) (n : Nat) (base : Path) (b : Bytes) (fid : Nat) (lt : List Lex.Token)
    (next : Nat) (out : List Item) (next' : Nat)
    (h : expandIToks (deeperI fs n) fs base b fid lt next = some (out, next')) :
    next ≤ next' ∧ ∀ i ∈ out, i.2.1 = fid ∨ (next ≤ i.2.1 ∧ i.2.1 < next') :=
  expandIToks_ids _ fs base b fid (deeperI_ids fs n) lt next out next' h

/-! ### non-vacuity -/

/-- `main.a2l`, `s/x.a2l`, `s/y.a2l` -/
def pMain : Path := [109, 97, 105, 110, 46, 97, 50, 108]
def pX : Path := [115, 47, 120, 46, 97, 50, 108]
def pY : Path := [115, 47, 121, 46, 97, 50, 108]
/-- `a /include "s\x.a2l" b` -/
def exMain : Bytes := #[97, 32, 47, 105, 110, 99, 108, 117, 100, 101, 32, 34, 115, 92, 120, 46, 97, 50, 108, 34, 32, 98]
/-- `/include y.a2l c` (relative to the directory `s` of the including file) -/
def exX : Bytes := #[47, 105, 110, 99, 108, 117, 100, 101, 32, 121, 46, 97, 50, 108, 32, 99]
/-- `d` -/
def exY : Bytes := #[100]
def exFs : FS := fun p =>
  if p = pMain then some exMain else if p = pX then some exX else if p = pY then some exY else none

/-- a nested include (quoted name with `\`, unquoted name relative to the including file): `a d c b` with the file
    ids `0 2 1 0`; the display names are the names as written.  Two levels below the main file: budget 2 suffices -/
def exResult : TokenResult :=
    { tokens := [{ ttype := .identifier, startpos := 0, endpos := 1, fileid := 0, line := 1 },
                 { ttype := .identifier, startpos := 0, endpos := 1, fileid := 2, line := 1 },
                 { ttype := .identifier, startpos := 15, endpos := 16, fileid := 1, line := 1 },
                 { ttype := .identifier, startpos := 21, endpos := 22, fileid := 0, line := 1 }],
      filedata := [exMain, exX, exY],
      filenames := [{ full := pMain, display := pMain },
                    { full := pX, display := [115, 92, 120, 46, 97, 50, 108] },
                    { full := pY, display := [121, 46, 97, 50, 108] }] }

theorem exMain_budget2 : tokenize exFs 2 { full := pMain, display := pMain } 0 exMain = .ok exResult := by
  decide +kernel

/-- the same with the entry point's budget 64 (`ok_budget_irrelevant`) -/
example : tokenizeTop exFs { full := pMain, display := pMain } 0 exMain = .ok exResult :=
  ok_budget_irrelevant exFs 2 62 _ 0 exMain _ exMain_budget2

example : expand exFs 2 pMain exMain =
    some [(.identifier, #[97]), (.identifier, #[100]), (.identifier, #[99]), (.identifier, #[98])] := by
  decide +kernel

example : expandI exFs 2 pMain 0 exMain =
    some ([(.identifier, 0, #[97]), (.identifier, 2, #[100]), (.identifier, 1, #[99]), (.identifier, 0, #[98])], 3) := by
  decide +kernel

/-- **the depth error depends on the budget**: with budget 1 the directive of `s\x.a2l` (budget 0) is refused — the
    error names that file and its line although `s/y.a2l` exists; with budget 0 the directive of the main file is
    refused.  With budget 2 the result is a token vector (above). -/
example : tokenize exFs 1 { full := pMain, display := pMain } 0 exMain =
    .err (.IncludeFileError [115, 92, 120, 46, 97, 50, 108] 1 [121, 46, 97, 50, 108]) := by decide +kernel
example : tokenize exFs 0 { full := pMain, display := pMain } 0 exMain =
    .err (.IncludeFileError pMain 1 [115, 92, 120, 46, 97, 50, 108]) := by decide +kernel
example : expand exFs 1 pMain exMain = none := by decide +kernel

/-- hence the former `fuel_irrelevant` (“a result other than `.hang` does not depend on the first argument”) is false
    for the new code: the hypothesis of `depth_budget_irrelevant` cannot be weakened to `≠ .hang` -/
theorem old_fuel_irrelevant_is_false :
    ¬ ∀ (fs : FS) (n k : Nat) (fn : Filename) (fid : Nat) (b : Bytes),
      tokenize fs n fn fid b ≠ .hang → tokenize fs (n + k) fn fid b = tokenize fs n fn fid b := by
  intro h
  have h1 := h exFs 1 1 { full := pMain, display := pMain } 0 exMain (by decide +kernel)
  revert h1
  decide +kernel

/-- and the former `self_include_hangs` is false for the new code (for every budget: `self_include_is_error`) -/
theorem old_self_include_hangs_is_false :
    ¬ ∀ (fs : FS), fs mainName = some selfInc → ∀ n fid : Nat,
      tokenize fs n { full := mainName, display := mainName } fid selfInc = .hang := by
  intro h
  have h1 := h (fun _ => some selfInc) rfl 0 0
  rw [self_include_is_error (fun _ => some selfInc) rfl 0 0] at h1
  cases h1

/-- the self-including file at the entry point (budget 64), and computed for a small budget -/
example : tokenizeTop (fun _ => some selfInc) { full := mainName, display := mainName } 0 selfInc =
    .err (.IncludeFileError mainName 1 mainName) := self_include_is_error _ rfl 64 0
example : tokenize (fun _ => some selfInc) 3 { full := mainName, display := mainName } 0 selfInc =
    .err (.IncludeFileError mainName 1 mainName) := by decide +kernel

/-- a cycle of two files: `a.a2l` = `/include b.a2l`, `b.a2l` = `x /include a.a2l` (second line).  The error names the
    file of the innermost level: with an odd budget that is `b.a2l` (line 2), with an even one `a.a2l` (line 1) -/
def pA : Path := [97, 46, 97, 50, 108]
def pB : Path := [98, 46, 97, 50, 108]
def cycA : Bytes := #[47, 105, 110, 99, 108, 117, 100, 101, 32, 98, 46, 97, 50, 108]
def cycB : Bytes := #[120, 10, 47, 105, 110, 99, 108, 117, 100, 101, 32, 97, 46, 97, 50, 108]
def cycFs : FS := fun p => if p = pA then some cycA else if p = pB then some cycB else none

example : tokenize cycFs 3 { full := pA, display := pA } 0 cycA = .err (.IncludeFileError pB 2 pA) := by
  decide +kernel
example : tokenize cycFs 4 { full := pA, display := pA } 0 cycA = .err (.IncludeFileError pA 1 pB) := by
  decide +kernel
example : tokenizeTop cycFs { full := pA, display := pA } 0 cycA = .err (.IncludeFileError pA 1 pB) := by
  decide +kernel

/-- `a /include nope.a2l` -/
example : tokenize exFs 3 { full := pMain, display := pMain } 0
    #[97, 32, 47, 105, 110, 99, 108, 117, 100, 101, 32, 110, 111, 112, 101, 46, 97, 50, 108] =
    .err (.IncludeFileError pMain 1 [110, 111, 112, 101, 46, 97, 50, 108]) := by decide +kernel

/-- `a /include` and `/include /begin` -/
example : tokenize exFs 3 { full := pMain, display := pMain } 0 #[97, 32, 47, 105, 110, 99, 108, 117, 100, 101] =
    .err (.IncompleteIncludeError pMain 1) := by decide +kernel
example : tokenize exFs 3 { full := pMain, display := pMain } 0
    #[47, 105, 110, 99, 108, 117, 100, 101, 32, 47, 98, 101, 103, 105, 110] =
    .err (.IncompleteIncludeError pMain 1) := by decide +kernel

/-- the hypothesis of `self_include_is_error` is satisfiable -/
example : ∃ fs : FS, fs mainName = some selfInc := ⟨fun _ => some selfInc, rfl⟩

/-- `lex_quoteOk` is about the token *behind `/include`* only: in `/begin A2ML"/end A2ML` the A2ML block token is
    the single byte `"` (it follows an Identifier) — a String token for which the quote stripping of `tokenize`
    would slice `filetext[12..11]` -/
example : Lex.tokenize #[47, 98, 101, 103, 105, 110, 32, 65, 50, 77, 76, 34, 47, 101, 110, 100, 32, 65, 50, 77, 76] = .ok
    [{ ttype := .begin, startpos := 0, endpos := 6, line := 1 },
     { ttype := .identifier, startpos := 7, endpos := 11, line := 1 },
     { ttype := .string, startpos := 11, endpos := 12, line := 1 },
     { ttype := .end_, startpos := 12, endpos := 16, line := 1 },
     { ttype := .identifier, startpos := 17, endpos := 21, line := 1 }] := by decide +kernel

example : incName #[47, 98, 101, 103, 105, 110, 32, 65, 50, 77, 76, 34, 47, 101, 110, 100, 32, 65, 50, 77, 76]
    { ttype := .string, startpos := 11, endpos := 12, fileid := 0, line := 1 } = .panic := by decide +kernel

end A2l.Inc

/-! # C16 (writer part) — elements from include files are written as one `/include` directive per file

Model: `Model/IncludeWriter.lean` (the `incfile` branch of `Writer::add_group`; the text of the elements that are written
is opaque). The items arrive in the writer's order (uid order, i.e. file order after a load, name order after `sort()`). -/
namespace A2l.IncW

example (seen : List (List Char)) (it : Item) (rest : List Item) : go seen (it :: rest) =
    match it.incfile with
    | some f => if seen.contains f then go seen rest else .directive f :: go (f :: seen) rest
    | none => .element it.name :: go seen rest := rfl

/-- **one directive per include file**: no file is named twice, however the elements of different files interleave ... -/
theorem each_include_once (items : List Item) : (directives (addGroup items)).Nodup :=
  nodup_directives_go [] items

/-- ... **and every file that contributed an element is named** (and no other) -/
theorem include_iff_contributes (items : List Item) (f : List Char) :
    f ∈ directives (addGroup items) ↔ ∃ it ∈ items, it.incfile = some f := by
  rw [addGroup, mem_directives_go]
  simp

/-- **the directive stands where the first element of its file stands in the writer's order** (the order in which
    `add_group` receives the items: by uid, position restrictions applied): everything in front of it is the output of the
    items in front of that element, and the file is not named again behind it. With `sort_new_items()` placing a new element
    directly behind an included one this is what keeps the new element behind the directive. -/
theorem directive_at_first_element (pre post : List Item) (it : Item) (f : List Char) (h : it.incfile = some f)
    (hpre : ∀ x ∈ pre, x.incfile ≠ some f) :
    ∃ tail, addGroup (pre ++ it :: post) = addGroup pre ++ Entry.directive f :: tail ∧ f ∉ directives tail :=
  directive_at_first_go pre post it f h hpre

/-- non-vacuity: own element, two elements of one file around an element of another -/
example : addGroup [⟨['a'], none⟩, ⟨['b'], some ['f']⟩, ⟨['c'], some ['g']⟩, ⟨['d'], some ['f']⟩, ⟨['e'], none⟩] =
    [.element ['a'], .directive ['f'], .directive ['g'], .element ['e']] := by decide

/-- **included elements are not written, the others are, in order** -/
theorem only_own_elements_written (items : List Item) :
    elements (addGroup items) = (items.filter fun it => it.incfile.isNone).map (·.name) :=
  elements_go [] items

/-- non-vacuity: two include files whose elements interleave after `sort()` -/
example : addGroup [⟨['a'], some ['1']⟩, ⟨['b'], some ['2']⟩, ⟨['c'], some ['1']⟩, ⟨['d'], none⟩, ⟨['e'], some ['2']⟩] =
    [.directive ['1'], .directive ['2'], .element ['d']] := by decide

end A2l.IncW

/-! # C16 (parser / writer) — a comment that comes from an include file is not written into the main file

After fix b3e6c00 the generated parser marks a comment by the file of its own token (`Model/Tree.lean`, `parseTagged`:
`included := tok.fileid ≠ 0`); the writer skips such comments. Before the fix the mark came from the enclosing block, and
a comment of an include file at MODULE level was written into the main file on every save (and read back twice). -/
namespace A2l.Tree

/-- the comment arm of the tagged loop stores the file mark of the comment TOKEN -/
theorem comment_mark_is_token_file (fuel : Nat) (ctx : Ctx) (arms : List G.Arm) (ch : List (List Val)) (cm : List Cmt)
    (e : Env) (s : PState) (tok : PTok) (off : Nat)
    (h : getNextTagOrComment ctx e s = .ok (.comment tok off) { s with pos := s.pos + 1 }) :
    parseTagged (fuel + 1) ctx arms true ch cm e s =
      parseTagged fuel ctx arms true ch (⟨tok.text, ctx.line, s.seqId + 1, off, tok.fileid ≠ 0⟩ :: cm) e
        { s with pos := s.pos + 1, seqId := s.seqId + 1 } := by
  rw [parseTagged, bind_def, h]
  rfl

/-- the writer skips a comment that is marked as included: nothing is written for it, and the line-comment flag is
    passed on unchanged -/
theorem included_comment_not_written (indent : Nat) (alc : Bool) (item : TagInfo) (rest : List TagInfo)
    (hc : item.isComment = true) (hi : item.included = true) :
    addGroupGo indent alc (item :: rest) = addGroupGo indent alc rest := by
  simp [addGroupGo, hc, hi]

end A2l.Tree
