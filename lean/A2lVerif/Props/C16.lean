import A2lVerif.Lemmas.Include
/-!
# C16 (tokenizer part) — `/include` resolution is plain inline expansion

Property theorems only.  Model: `Model/Include.lean`, an index-faithful transcription of `tokenize` of
`src/tokenizer.rs` (the wrapper of `tokenize_core` that resolves `/include` directives by recursively tokenizing the
included files) and of `make_include_filename` / `load` of `src/loader.rs`, in which every slice, index and `usize`
subtraction has an explicit `panic` outcome; `tokenize_core` is `A2l.Lex.tokenize` (C03).  The file system is an
arbitrary map `fs : Path → Option Bytes`; the recursion runs on fuel (`fuel = 0 → .hang`).  The model agrees
with the real implementation on the 3000 recorded cases (`testdata/difftest.sh`).

All theorems hold for every file map, every file name, every content and every fuel; there is no size bound.
`.hang` at fuel `n` means "the include depth reaches `n`"; a result other than `.hang` does not depend on the fuel
(`fuel_irrelevant`), and the self-including file gives `.hang` for every fuel (`self_include_hangs`).

Specifications (Lemmas/Include.lean): `walk` (the splice as a recursion over the token list, same outcome type as
the model), `expandToks`/`expand` ((kind, text) stream of the inline expansion), `expandIToks`/`expandI` (the same
with file ids).
-/
namespace A2l.Inc
open A2l.Lex (Bytes TokType)

/-! ### 0. the index arithmetic implements the walk -/

/-- **`tokenize` = `tokenize_core`, then the walk**: the vector `include_directives`, the sentinel, the loop
    `for idx in 1..len` with `token_subseq = input_tokens[dirs[idx-1]+1 .. dirs[idx]]`, the quote stripping and
    `&filetext[start..end]` compute exactly the list recursion `walk` — for every outcome (ok, each error, hang) -/
theorem tokenize_is_walk (fs : FS) (n : Nat) (fn : Filename) (fid : Nat) (b : Bytes) :
    tokenize fs (n + 1) fn fid b =
      match Lex.tokenize b with
      | .err k l => .err (.Lex fn.display k l)
      | .panic => .panic
      | .hang => .hang
      | .ok lt => finish (walk (tokenize fs n) fs fn b (lt.map (Tok.ofLex fid)) (St.init fn fid b)) :=
  tokenize_succ fs n fn fid b

/-! ### 1. no panic -/

/-- **no panic**: the indices into `include_directives` and `input_tokens`, the slices `input_tokens[a..e]`,
    `filebytes[filename_start]`, `filebytes[filename_end - 1]` and `&filetext[filename_start..filename_end]` are in
    range, at every level of the recursion.  (The last one needs more than non-empty spans: see `lex_quoteOk`.) -/
theorem splice_no_panic (fs : FS) (n : Nat) (fn : Filename) (fid : Nat) (b : Bytes) :
    tokenize fs n fn fid b ≠ .panic :=
  tokenize_no_panic fs n fn fid b

/-- the lexer fact behind the last slice: the token directly behind `/include`, if it is a String or Identifier
    token that starts with `"`, spans at least two bytes -/
theorem include_name_token (b : Bytes) (ts : List Lex.Token) (h : Lex.tokenize b = .ok ts)
    (i : Nat) (inc nm : Lex.Token) (hi : ts[i]? = some inc) (hn : ts[i + 1]? = some nm)
    (hinc : inc.ttype = .include) (hname : nm.ttype = .string ∨ nm.ttype = .identifier)
    (hq : b[nm.startpos]? = some 34) : nm.startpos + 2 ≤ nm.endpos :=
  Lex.lex_quoteOk b ts h i inc nm hi hn hinc hname hq

/-! ### 2. loading through `/include` yields the flattened token stream -/

/-- **inline expansion**: when the model succeeds, its (kind, text) sequence — the text of a token being the slice
    of the content of the file with the token's file id — is `expand` of the main file: every `Include` token
    followed by a String/Identifier token is replaced by the expansion of the named file, everything else is copied -/
theorem splice_eq_expand (fs : FS) (n : Nat) (fn : Filename) (b : Bytes) (r : TokenResult)
    (h : tokenize fs n fn 0 b = .ok r) :
    expand fs n fn.full b = some (r.tokens.map fun t => (t.ttype, tokText r.filedata 0 t)) := by
  obtain ⟨_, h2, _⟩ := tokenize_sim fs n fn 0 b r h
  rw [expandI_kt fs n fn.full 0 b _ h2]
  simp [view3, Item.kt, Function.comp_def]

/-- the same for any initial file id, with the file ids: the model's (kind, file id, text) sequence is `expandI`,
    which gives the file itself the id `fid`, every included file *occurrence* the next free id and the files it
    includes the following ones; the second component is the next free id -/
theorem splice_eq_expand_ids (fs : FS) (n : Nat) (fn : Filename) (fid : Nat) (b : Bytes) (r : TokenResult)
    (h : tokenize fs n fn fid b = .ok r) :
    expandI fs n fn.full fid b =
      some (r.tokens.map (fun t => (t.ttype, t.fileid, tokText r.filedata fid t)), fid + r.filedata.length) :=
  (tokenize_sim fs n fn fid b r h).2.1

/-- a successful result contains no `Include` token: every directive has been resolved -/
theorem ok_has_no_include (fs : FS) (n : Nat) (fn : Filename) (fid : Nat) (b : Bytes) (r : TokenResult)
    (h : tokenize fs n fn fid b = .ok r) : ∀ t ∈ r.tokens, t.ttype ≠ .include :=
  (tokenize_sim fs n fn fid b r h).1.noInc

/-! ### 3. a missing include file is an error -/

/-- **missing include**: the content tokenizes to `pre ++ inc :: nm :: post` with an `Include` token `inc` and a
    name token `nm`, the directives in `pre` resolve (`Resolves`: the walk over `pre` succeeds), and the file named
    by `nm` is not in the map.  Then the result is `IncludeFileError` with the line of `nm` and the name as written
    (quotes stripped) — never a truncated token stream. -/
theorem missing_include_is_error (fs : FS) (n : Nat) (fn : Filename) (fid : Nat) (b : Bytes)
    (pre post : List Lex.Token) (inc nm : Lex.Token) (st1 : St)
    (hlex : Lex.tokenize b = .ok (pre ++ inc :: nm :: post))
    (hinc : inc.ttype = .include) (hnm : nm.ttype = .string ∨ nm.ttype = .identifier)
    (hpre : Resolves fs n fn fid b pre st1)
    (hmiss : fs (targetPath fs fn.full b nm) = none) :
    tokenize fs (n + 1) fn fid b =
      .err (.IncludeFileError fn.display nm.line (nameAt b nm.startpos nm.endpos)) :=
  missing_include fs n fn fid b pre post inc nm st1 hlex hinc hnm hpre (by simp [load, target_full, hmiss])

/-- when is the resolved path missing: the normalised name, the name as written and the name joined to the
    directory of the including file are all absent from the map -/
theorem resolve_missing (fs : FS) (incname base : Path)
    (h1 : fs (normalize incname) = none) (h2 : fs incname = none)
    (h3 : ∀ d, parent base = some d → fs (join d (normalize incname)) = none) :
    fs (makeIncludeFilename fs incname base) = none := by
  unfold makeIncludeFilename
  simp only
  split
  · exact h1
  · split
    · rename_i d hd
      simp only [FS.exists, h3 d hd, Option.isSome_none, Bool.false_eq_true, if_false]
      exact h2
    · exact h2

/-- the first directive of a file (no walk in the statement) -/
theorem missing_first_include_is_error (fs : FS) (n : Nat) (fn : Filename) (fid : Nat) (b : Bytes)
    (pre post : List Lex.Token) (inc nm : Lex.Token)
    (hlex : Lex.tokenize b = .ok (pre ++ inc :: nm :: post))
    (hpre : ∀ t ∈ pre, t.ttype ≠ .include)
    (hinc : inc.ttype = .include) (hnm : nm.ttype = .string ∨ nm.ttype = .identifier)
    (hmiss : fs (targetPath fs fn.full b nm) = none) :
    tokenize fs (n + 1) fn fid b =
      .err (.IncludeFileError fn.display nm.line (nameAt b nm.startpos nm.endpos)) :=
  missing_include_is_error fs n fn fid b pre post inc nm _ hlex hinc hnm (resolves_of_noInc fs n fn fid b pre hpre) hmiss

/-- an error inside an included file is the result of the including file -/
theorem include_error_is_error (fs : FS) (n : Nat) (fn : Filename) (fid : Nat) (b : Bytes)
    (pre post : List Lex.Token) (inc nm : Lex.Token) (st1 : St) (data : Bytes) (e : Err)
    (hlex : Lex.tokenize b = .ok (pre ++ inc :: nm :: post))
    (hinc : inc.ttype = .include) (hnm : nm.ttype = .string ∨ nm.ttype = .identifier)
    (hpre : Resolves fs n fn fid b pre st1)
    (hload : load fs (target fs fn b nm).full = some data)
    (herr : tokenize fs n (target fs fn b nm) st1.nextFileid data = .err e) :
    tokenize fs (n + 1) fn fid b = .err e :=
  include_error_propagates fs n fn fid b pre post inc nm st1 data e hlex hinc hnm hpre hload herr

/-- **a reachable directive names a missing file** (`ReachesMissing`: a chain of directives, each the first
    unresolved one of its file, the last one naming a file that is not in the map): the result is the
    `IncludeFileError` of that directive -/
theorem reachable_missing_include_is_error (fs : FS) (n : Nat) (fn : Filename) (fid : Nat) (b : Bytes) (e : Err)
    (h : ReachesMissing fs n fn fid b e) :
    tokenize fs n fn fid b = .err e ∧ ∃ f line incname, e = .IncludeFileError f line incname :=
  ⟨reachesMissing_err fs n fn fid b e h, reachesMissing_is_includeFileError fs n fn fid b e h⟩

/-! ### 4. a directive without a file name is an error -/

/-- **incomplete include**: an `Include` token that is the last token, or is followed by a token that is neither
    String nor Identifier (the directives in front of it resolving): `IncompleteIncludeError` with the line of the
    `Include` token -/
theorem incomplete_include_is_error (fs : FS) (n : Nat) (fn : Filename) (fid : Nat) (b : Bytes)
    (pre post : List Lex.Token) (inc : Lex.Token) (st1 : St)
    (hlex : Lex.tokenize b = .ok (pre ++ inc :: post))
    (hinc : inc.ttype = .include)
    (hpost : post = [] ∨ ∃ x rest, post = x :: rest ∧ ¬ (x.ttype = .string ∨ x.ttype = .identifier))
    (hpre : Resolves fs n fn fid b pre st1) :
    tokenize fs (n + 1) fn fid b = .err (.IncompleteIncludeError fn.display inc.line) :=
  incomplete_include fs n fn fid b pre post inc st1 hlex hinc hpost hpre

/-! ### 5. a file that includes itself -/

/-- **self include**: `main.a2l` with the content `/include "main.a2l"`: the model returns `.hang` for every fuel —
    the recursion of the Rust code never ends (stack overflow; the known finding) -/
theorem self_include_hangs (fs : FS) (hfs : fs mainName = some selfInc) (n fid : Nat) :
    tokenize fs n { full := mainName, display := mainName } fid selfInc = .hang :=
  self_include_hangs_aux fs hfs n _ fid rfl

/-- `.hang` is the only outcome that depends on the fuel -/
theorem fuel_irrelevant (fs : FS) (n k : Nat) (fn : Filename) (fid : Nat) (b : Bytes)
    (h : tokenize fs n fn fid b ≠ .hang) : tokenize fs (n + k) fn fid b = tokenize fs n fn fid b :=
  tokenize_fuel_mono fs n k fn fid b h

/-! ### 6. file ids -/

/-- **file ids**: in a successful result of `tokenize(filename, fid, text)`
    * there are as many file names as file contents, the first ones are `filename` and `text`;
    * every token's file id lies in `[fid, fid + number of files)` (so its text is defined);
    * the tokens with file id `fid` are exactly the tokens of the file itself (`ownToks`: all tokens except the
      directives), in order — tokens of included files have ids `> fid` (for the main file: `≥ 1`). -/
theorem fileids (fs : FS) (n : Nat) (fn : Filename) (fid : Nat) (b : Bytes) (r : TokenResult)
    (h : tokenize fs n fn fid b = .ok r) :
    r.filenames.length = r.filedata.length ∧ r.filedata[0]? = some b ∧ r.filenames[0]? = some fn ∧
    (∀ t ∈ r.tokens, fid ≤ t.fileid ∧ t.fileid < fid + r.filedata.length) ∧
    (∀ lt, Lex.tokenize b = .ok lt →
      r.tokens.filter (fun t => t.fileid == fid) = (ownToks lt).map (Tok.ofLex fid)) := by
  obtain ⟨h1, _, h3⟩ := tokenize_sim fs n fn fid b r h
  exact ⟨h1.names, h1.first, h1.firstName, h1.range, h3⟩

/-- **own ids**: in the expansion with ids, the file being expanded has id `fid`; an included file occurrence is
    expanded with the next free id `next` and returns the next free id `next1 > next`, all its items have ids in
    `[next, next1)`; the rest of the list continues with `next1`.  Hence different directives of a file get
    disjoint, increasing id blocks, and within a block the same holds recursively. -/
theorem expand_ids (fs : FS) (n : Nat) (base : Path) (fid : Nat) (b : Bytes) (out : List Item) (next' : Nat)
    (h : expandI fs n base fid b = some (out, next')) :
    fid < next' ∧ ∀ i ∈ out, fid ≤ i.2.1 ∧ i.2.1 < next' :=
  expandI_ids fs n base fid b out next' h

theorem expand_ids_blocks (fs : FS) (n : Nat) (base : Path) (b : Bytes) (fid : Nat) (lt : List Lex.Token)
    (next : Nat) (out : List Item) (next' : Nat)
    (h : expandIToks (expandI fs n) fs base b fid lt next = some (out, next')) :
    next ≤ next' ∧ ∀ i ∈ out, i.2.1 = fid ∨ (next ≤ i.2.1 ∧ i.2.1 < next') :=
  expandIToks_ids _ fs base b fid (expandI_ids fs n) lt next out next' h

/-! ### non-vacuity -/

/-- `main.a2l`, `s/x.a2l`, `s/y.a2l` -/
def pMain : Path := [109, 97, 105, 110, 46, 97, 50, 108]
def pX : Path := [115, 47, 120, 46, 97, 50, 108]
def pY : Path := [115, 47, 121, 46, 97, 50, 108]
/-- `a /include "s\x.a2l" b` -/
def exMain : Bytes := #[97, 32, 47, 105, 110, 99, 108, 117, 100, 101, 32, 34, 115, 92, 120, 46, 97, 50, 108, 34, 32, 98]
/-- `/include y.a2l c` (relative to the directory `s` of the including file) -/
def exX : Bytes := #[47, 105, 110, 99, 108, 117, 100, 101, 32, 121, 46, 97, 50, 108, 32, 99]
/-- `d` -/
def exY : Bytes := #[100]
def exFs : FS := fun p =>
  if p = pMain then some exMain else if p = pX then some exX else if p = pY then some exY else none

/-- a nested include (quoted name with `\`, unquoted name relative to the including file): `a d c b` with the file
    ids `0 2 1 0`; the display names are the names as written -/
example : tokenize exFs 3 { full := pMain, display := pMain } 0 exMain = .ok
    { tokens := [{ ttype := .identifier, startpos := 0, endpos := 1, fileid := 0, line := 1 },
                 { ttype := .identifier, startpos := 0, endpos := 1, fileid := 2, line := 1 },
                 { ttype := .identifier, startpos := 15, endpos := 16, fileid := 1, line := 1 },
                 { ttype := .identifier, startpos := 21, endpos := 22, fileid := 0, line := 1 }],
      filedata := [exMain, exX, exY],
      filenames := [{ full := pMain, display := pMain },
                    { full := pX, display := [115, 92, 120, 46, 97, 50, 108] },
                    { full := pY, display := [121, 46, 97, 50, 108] }] } := by decide +kernel

example : expand exFs 3 pMain exMain =
    some [(.identifier, #[97]), (.identifier, #[100]), (.identifier, #[99]), (.identifier, #[98])] := by
  decide +kernel

example : expandI exFs 3 pMain 0 exMain =
    some ([(.identifier, 0, #[97]), (.identifier, 2, #[100]), (.identifier, 1, #[99]), (.identifier, 0, #[98])], 3) := by
  decide +kernel

/-- with fuel 2 the third level is not reached: `.hang` (and only `.hang` depends on the fuel) -/
example : tokenize exFs 2 { full := pMain, display := pMain } 0 exMain = .hang := by decide +kernel

/-- `a /include nope.a2l` -/
example : tokenize exFs 3 { full := pMain, display := pMain } 0
    #[97, 32, 47, 105, 110, 99, 108, 117, 100, 101, 32, 110, 111, 112, 101, 46, 97, 50, 108] =
    .err (.IncludeFileError pMain 1 [110, 111, 112, 101, 46, 97, 50, 108]) := by decide +kernel

/-- `a /include` and `/include /begin` -/
example : tokenize exFs 3 { full := pMain, display := pMain } 0 #[97, 32, 47, 105, 110, 99, 108, 117, 100, 101] =
    .err (.IncompleteIncludeError pMain 1) := by decide +kernel
example : tokenize exFs 3 { full := pMain, display := pMain } 0
    #[47, 105, 110, 99, 108, 117, 100, 101, 32, 47, 98, 101, 103, 105, 110] =
    .err (.IncompleteIncludeError pMain 1) := by decide +kernel

/-- the hypothesis of `self_include_hangs` is satisfiable -/
example : ∃ fs : FS, fs mainName = some selfInc := ⟨fun _ => some selfInc, rfl⟩

/-- `lex_quoteOk` is about the token *behind `/include`* only: in `/begin A2ML"/end A2ML` the A2ML block token is
    the single byte `"` (it follows an Identifier) — a String token for which the quote stripping of `tokenize`
    would slice `filetext[12..11]` -/
example : Lex.tokenize #[47, 98, 101, 103, 105, 110, 32, 65, 50, 77, 76, 34, 47, 101, 110, 100, 32, 65, 50, 77, 76] = .ok
    [{ ttype := .begin, startpos := 0, endpos := 6, line := 1 },
     { ttype := .identifier, startpos := 7, endpos := 11, line := 1 },
     { ttype := .string, startpos := 11, endpos := 12, line := 1 },
     { ttype := .end_, startpos := 12, endpos := 16, line := 1 },
     { ttype := .identifier, startpos := 17, endpos := 21, line := 1 }] := by decide +kernel

example : incName #[47, 98, 101, 103, 105, 110, 32, 65, 50, 77, 76, 34, 47, 101, 110, 100, 32, 65, 50, 77, 76]
    { ttype := .string, startpos := 11, endpos := 12, fileid := 0, line := 1 } = .panic := by decide +kernel

end A2l.Inc
