import A2lVerif.Lemmas.Sort15
import A2lVerif.Lemmas.Sort15Order
import A2lVerif.Lemmas.Sort15Iter
import A2lVerif.Lemmas.Sort15Push
import A2lVerif.Lemmas.Sort15Hist
import A2lVerif.Props.C14
/-!
# C15 — sort_new_items(): stable placement over arbitrarily long edit histories

Property theorems only; model in Model/Sort.lean with `u32` uids and checked arithmetic (`Out.panic` on overflow).
The full-strength property ("any number of repeated calls, without panic, overflow or reordering") is FALSE for the
code as it is: every call doubles all uids, so the k-th call overflows once maxuid·2^k ≥ 2^32 (`overflow_witness`).
What is proved is the property under the explicit no-overflow hypothesis (`…_partial`), plus the exact growth law.

Two statements carry a hypothesis that the first draft lacked (the draft statements are refuted below by
`iterate_uids_partial_needs_wf` and `overflow_general_needs_hyps`):
* `iterate_uids_partial`, `overflow_general`: `SinglesWF m` — the model type `RSection` lets an `Option<T>` section
  (rules `threaded` / `optionalZero`) hold several elements, but `sortOptional` only renumbers the first;
* `overflow_general`: `1 ≤ k` — `iterate 0 m = .ok m` whatever the uids are.
-/
namespace A2l.Srt
open L15

/-- all uids of the module are small enough for one more call -/
def NoOverflow (m : RModule) : Prop := ∀ e ∈ m.toModule.all, 2 * e.uid + 1 ≤ u32max

/-- the `Option<T>` sections (rules `threaded`, `optionalZero`) hold at most one element, as in the Rust type -/
def SinglesWF (m : RModule) : Prop :=
  ∀ r ∈ m.sections, (r.rule = .threaded ∨ r.rule = .optionalZero) → r.sec.elems.length ≤ 1

/-- under the no-overflow hypothesis one call does not panic -/
theorem sni_ok_partial (m : RModule) (h : NoOverflow m) : ∃ m', sortNewItems m = .ok m' :=
  sortNewItems_ok m h

/-- **growth law for a named list**: a placed element's uid is doubled; a new element (uid 0) gets
    2·(largest placed uid of its list)+1, or stays 0 (= written at the end) if its list has no placed element. -/
theorem objectlist_uids_partial (es es' : List Elem) (h : sortObjectlistNew es = .ok es') :
    (es'.map Elem.key).Perm (es.map Elem.key) ∧
    (∀ e ∈ es, e.uid ≠ 0 → ∃ e' ∈ es', e'.key = e.key ∧ e'.line = e.line ∧ e'.uid = 2 * e.uid) ∧
    (∀ e' ∈ es', e'.uid % 2 = 1 ∨ e'.uid = 0 →
        e'.uid = (if (es.filter (·.uid ≠ 0)).isEmpty then 0
                  else 2 * ((es.filter (·.uid ≠ 0)).map (·.uid)).foldl max 0 + 1)) := by
  have h' : renumber 0 (es.mergeSort newLe) = .ok es' := h
  have hp := List.mergeSort_perm es newLe
  refine ⟨?_, ?_, ?_⟩
  · rw [renumber_keys _ _ _ h']; exact hp.map _
  · intro e he hu
    exact (renumber_grows _ _ _ h' e (List.mem_mergeSort.2 he) hu).2
  · intro e' he' hodd
    have hf := hp.filter (·.uid ≠ 0)
    rw [renumber_new _ 0 es' (pairwise_mergeSort_newLe es) h' e' he' hodd, hf.isEmpty_eq,
      foldl_max_perm (hf.map _)]

set_option linter.unusedVariables false in
/-- doubling all uids does not change how the writer compares two placed elements
    (`ha`, `hb` are not needed by the proof: 2·0 = 0) -/
theorem writerLe_double (a b : Elem) (ha : a.uid ≠ 0) (hb : b.uid ≠ 0) :
    writerLe { a with uid := 2 * a.uid } { b with uid := 2 * b.uid } = writerLe a b := by
  rw [Bool.eq_iff_iff, writerLe_eq, writerLe_eq, lexLe_iff, lexLe_iff]
  by_cases hs : a.tag ≤ b.tag <;> simp only [hs, and_true, and_false, or_false] <;> omega

/-- a new element of a named list with uid 2u+1 is written after every element with uid ≤ 2u and before every
    element with a larger non-zero uid: directly behind the last placed element of its kind -/
theorem writer_places_odd_partial (p e q : Elem) (u : Nat) (hp : p.uid = 2 * u) (hu : u ≠ 0)
    (he : e.uid = 2 * u + 1) (hq : 2 * u + 1 < q.uid) :
    writerLe p e = true ∧ writerLe e p = false ∧ writerLe e q = true ∧ writerLe q e = false := by
  refine ⟨?_, ?_, ?_, ?_⟩
  · rw [writerLe_eq, lexLe_iff]; omega
  · rw [Bool.eq_false_iff, ne_eq, writerLe_eq, lexLe_iff]; omega
  · rw [writerLe_eq, lexLe_iff]; omega
  · rw [Bool.eq_false_iff, ne_eq, writerLe_eq, lexLe_iff]; omega

/-- the writer's order is a permutation of the elements, sorted by `writerLe` -/
theorem writeOrder_perm_sorted (m : Module) :
    (writeOrder m).Perm m.all ∧ (writeOrder m).Pairwise (fun a b => writerLe a b = true) :=
  ⟨List.mergeSort_perm _ _, pairwise_mergeSort_writerLe _⟩

/-! ## the property's first sentence, at the level of the written text -/

/-- placed = has a position of its own; after a call, the elements that were placed before it are those with an even uid
    other than 0 (new elements get an odd uid or stay at 0); `dblE` doubles the uid and changes nothing else -/
example (e : Elem) : placed e = (e.uid != 0) := rfl
example (e : Elem) : wasPlaced e = (e.uid != 0 && e.uid % 2 == 0) := rfl
example (e : Elem) : dblE e = { e with uid := 2 * e.uid } := rfl

/-- the placed uids identify their elements (true after a load and after `sort()`: `sort_uids_increasing`) -/
def PlacedDistinct (m : RModule) : Prop :=
  ∀ a ∈ m.toModule.all, ∀ b ∈ m.toModule.all, a.uid ≠ 0 → a.uid = b.uid → a = b

/-- **`sort_new_items()` never changes the relative output order of the elements that were already placed** — whenever
    the call returns (no overflow): the placed elements are written in the same sequence as before, with nothing but
    their uids (doubled) changed -/
theorem placed_order_stable_partial (m m' : RModule) (h : sortNewItems m = .ok m') (hwf : SinglesWF m)
    (hd : PlacedDistinct m) :
    (writeOrder m'.toModule).filter wasPlaced = ((writeOrder m.toModule).filter placed).map dblE :=
  writeOrder_placed_stable h hwf hd

/-- in particular their sequence of (tag, name, content) is the same -/
theorem placed_keys_stable_partial (m m' : RModule) (h : sortNewItems m = .ok m') (hwf : SinglesWF m)
    (hd : PlacedDistinct m) :
    ((writeOrder m'.toModule).filter wasPlaced).map Elem.key = ((writeOrder m.toModule).filter placed).map Elem.key := by
  rw [placed_order_stable_partial m m' h hwf hd, List.map_map]
  rfl

/-! ### any number of calls -/

/-- after a call that places several new elements of one list these share a uid; the writer keeps them in list order
    and the next call re-sorts the list by (uid, line, name). The invariant that survives a call: no two elements with
    the same (tag, name, content), `Option` sections hold at most one element, and elements of an object list that share
    a uid and a line stand in name order -/
example (m : RModule) (h1 : (m.toModule.all.map Elem.key).Nodup)
    (h2 : ∀ r ∈ m.sections, isSingle r.rule → r.sec.elems.length ≤ 1) (h3 : TieSorted m) : IterInv m := ⟨h1, h2, h3⟩

example (es : List Elem) : TieSortedList es ↔
    ∀ a b, List.Sublist [a, b] es → a.uid ≠ 0 → a.uid = b.uid → a.line = b.line → a.name ≤ b.name := Iff.rfl

/-- a module whose placed uids are distinct (after a load, after `sort()`) satisfies the invariant -/
theorem iterInv_of_distinct (m : RModule) (hk : (m.toModule.all.map Elem.key).Nodup) (hwf : SinglesWF m)
    (hd : PlacedDistinct m) : IterInv m := by
  refine ⟨hk, hwf, ?_⟩
  intro r hr _ a b hab hne hu _
  have ha : a ∈ m.toModule.all := (mem_all_iff m a).2 (.inl ⟨r, hr, hab.subset List.mem_cons_self⟩)
  have hb : b ∈ m.toModule.all :=
    (mem_all_iff m b).2 (.inl ⟨r, hr, hab.subset (List.mem_cons_of_mem _ List.mem_cons_self)⟩)
  rw [hd a ha b hb hne hu]
  exact String.le_refl _

/-- strictly increasing uids identify their elements -/
theorem placedDistinct_of_increasing (m : RModule) (h : (m.toModule.all.map (·.uid)).Pairwise (· < ·)) :
    PlacedDistinct m := by
  intro a ha b hb _ hu
  generalize m.toModule.all = l at h ha hb
  induction l with
  | nil => cases ha
  | cons x xs ih =>
    rw [List.map_cons, List.pairwise_cons] at h
    have hx : ∀ y ∈ xs, x.uid < y.uid := fun y hy => h.1 y.uid (List.mem_map_of_mem hy)
    rcases List.mem_cons.1 ha with rfl | ha' <;> rcases List.mem_cons.1 hb with rfl | hb'
    · rfl
    · have := hx b hb'; omega
    · have := hx a ha'; omega
    · exact ih h.2 ha' hb'

/-- **after `sort()` the invariant holds** (C14: `sort()` numbers the elements 1, 2, 3, ... along the sections): so any
    number of `sort_new_items()` calls that return keeps the written order `sort()` established -/
theorem iterInv_after_sort (rm : RModule) (m : Module) (hwf : WF m) (h : rm.toModule = sort m)
    (hk : (rm.toModule.all.map Elem.key).Nodup) (hs : SinglesWF rm) : IterInv rm :=
  iterInv_of_distinct rm hk hs (placedDistinct_of_increasing rm (by rw [h]; exact (sort_uids_increasing m hwf).1))

/-- the invariant survives a call -/
theorem iterInv_preserved (m m' : RModule) (h : sortNewItems m = .ok m') (hi : IterInv m) : IterInv m' :=
  iterInv_step h hi

/-- placed before the first of k calls = uid not 0 and divisible by 2^k (new elements get odd uids, and every later call
    doubles) -/
example (k : Nat) (e : Elem) : placedK k e = (e.uid != 0 && e.uid % 2 ^ k == 0) := rfl
example (k : Nat) (e : Elem) : dblK k e = { e with uid := 2 ^ k * e.uid } := rfl

/-- **any number of repeated `sort_new_items()` calls — as long as they return, i.e. no uid overflows — never changes
    the relative output order of the elements that were placed at the start**: they are written in the same sequence,
    with nothing but their uids (times 2^k) changed; elements placed by the earlier ones of the k calls included (apply the
    theorem from that call on: the invariant is preserved) -/
theorem placed_order_stable_k_calls_partial (k : Nat) (m m' : RModule) (h : iterate k m = .ok m') (hi : IterInv m) :
    (writeOrder m'.toModule).filter (placedK k) = ((writeOrder m.toModule).filter placed).map (dblK k) :=
  iterate_placed_stable k m m' h hi

/-- one call, ties allowed -/
theorem placed_order_stable_ties_partial (m m' : RModule) (h : sortNewItems m = .ok m') (hi : IterInv m) :
    (writeOrder m'.toModule).filter wasPlaced = ((writeOrder m.toModule).filter placed).map dblE :=
  writeOrder_placed_stable_ties h hi.singles (A2l.ListOrder.nodup_of_map_nodup _ hi.keys) hi.ties

/-! ### insertions between the calls -/

/-- **additions without a position do not disturb the placed elements**: if `m'` holds the elements of `m` in the same
    list order plus elements that are not placed (uid 0: `push` through the API, the elements `merge` moves over with
    their layout reset), the placed elements are written in the same order as before -/
theorem additions_keep_placed_order (m m' : Module) (hsub : List.Sublist m.all m'.all)
    (hperm : (m'.all.filter placed).Perm (m.all.filter placed)) (hnd : m'.all.Nodup) :
    (writeOrder m').filter placed = (writeOrder m).filter placed :=
  writeOrder_placed_of_additions m m' hsub hperm hnd

/-- in particular `push` of a new element into any list of the module -/
theorem push_keeps_placed_order_partial (m : RModule) (i : Nat) (e : Elem) (he : e.uid = 0)
    (hnd : (pushNew m i e).toModule.all.Nodup) :
    (writeOrder (pushNew m i e).toModule).filter placed = (writeOrder m.toModule).filter placed :=
  push_keeps_placed_order m i e he hnd

/-! ### histories: pushes and calls interleaved, any number of either -/

/-- the operations of a history, and how they run -/
example (ops : List Op) (m : RModule) : runOps (.sni :: ops) m =
    (match sortNewItems m with | .panic => .panic | .ok m1 => runOps ops m1) := rfl
example (ops : List Op) (m : RModule) (i : Nat) (e : Elem) : runOps (.push i e :: ops) m = runOps ops (pushNew m i e) := rfl
/-- what the caller of `push` respects: no position, a (tag, name, content) that is not in the module yet, a list (not an
    `Option` field) as target -/
example (ops : List Op) (m : RModule) (i : Nat) (e : Elem) : Admissible (.push i e :: ops) m =
    (e.uid = 0 ∧ e.key ∉ m.toModule.all.map Elem.key ∧ (∀ r, m.sections[i]? = some r → ¬ isSingle r.rule) ∧
      Admissible ops (pushNew m i e)) := rfl
example (ops : List Op) (m : RModule) : Admissible (.sni :: ops) m =
    (∀ m1, sortNewItems m = .ok m1 → Admissible ops m1) := rfl

/-- the invariant survives such a push -/
theorem iterInv_push_fresh (m : RModule) (i : Nat) (e : Elem) (hi : IterInv m) (he : e.uid = 0)
    (hfresh : e.key ∉ m.toModule.all.map Elem.key) (hg : ∀ r, m.sections[i]? = some r → ¬ isSingle r.rule) :
    IterInv (pushNew m i e) :=
  iterInv_push m i e hi he hfresh hg

/-- ... hence every history that returns -/
theorem iterInv_history (ops : List Op) (m m' : RModule) (h : runOps ops m = .ok m') (hi : IterInv m)
    (ha : Admissible ops m) : IterInv m' :=
  iterInv_runOps ops m m' h hi ha

/-- **any number of repeated insert / `sort_new_items()` cycles, in any interleaving — as long as every call returns,
    i.e. no uid overflows — never changes the relative output order of the elements that were placed at the start**:
    after a history with k calls they are written in the same sequence, with nothing but their uids (times 2^k) changed.
    The elements a call placed on the way are covered from that call on (the invariant holds there: `iterInv_history`). -/
theorem placed_order_stable_history_partial (ops : List Op) (m m' : RModule) (h : runOps ops m = .ok m')
    (hi : IterInv m) (ha : Admissible ops m) :
    (writeOrder m'.toModule).filter (placedK (countSni ops)) =
      ((writeOrder m.toModule).filter placed).map (dblK (countSni ops)) :=
  runOps_placed_stable ops m m' h hi ha

/-- the guard on the target cannot be dropped: pushing a second element into an `Option` field breaks the invariant
    (and with it the growth law: `iterate_uids_partial_needs_wf`) -/
theorem push_into_single_breaks_invariant :
    ∃ (m : RModule) (e : Elem), IterInv m ∧ e.uid = 0 ∧ e.key ∉ m.toModule.all.map Elem.key ∧ ¬ IterInv (pushNew m 0 e) := by
  refine ⟨⟨[⟨.threaded, ⟨.single, [⟨"A2ML", "x", 1, 0, 0⟩]⟩⟩], []⟩, ⟨"A2ML", "y", 0, 0, 1⟩, ?_, rfl, ?_, ?_⟩
  · refine ⟨by simp [Module.all, RModule.toModule], ?_, ?_⟩
    · intro r hr _
      simp only [List.mem_singleton] at hr
      subst hr
      simp
    · intro r hr ho
      simp only [List.mem_singleton] at hr
      subst hr
      cases ho
  · simp [Module.all, RModule.toModule, Elem.key]
  · intro hi
    have := hi.singles ⟨.threaded, ⟨.single, [⟨"A2ML", "x", 1, 0, 0⟩, ⟨"A2ML", "y", 0, 0, 1⟩]⟩⟩
      (by simp [pushNew, pushSec]) (.inl rfl)
    simp at this

example (r : RSection) (rs : List RSection) (e : Elem) :
    pushSec (r :: rs) 0 e = { r with sec := { r.sec with elems := r.sec.elems ++ [e] } } :: rs := rfl

/-- **a new element is written directly behind the last placed element of its kind**: whatever the writer puts between
    the element with uid 2u (the doubled last placed one) and a new element with uid 2u+1 has one of these two uids —
    with distinct placed uids these are the other new elements of the same list -/
theorem nothing_between_last_placed_and_new (es l1 mid l2 : List Elem) (p e : Elem) (u : Nat) (hu : u ≠ 0)
    (hs : es.Pairwise (fun a b => writerLe a b = true)) (hes : es = l1 ++ p :: (mid ++ e :: l2))
    (hp : p.uid = 2 * u) (he : e.uid = 2 * u + 1) : ∀ y ∈ mid, y.uid = 2 * u ∨ y.uid = 2 * u + 1 := by
  intro y hy
  subst hes
  have h1 := (List.pairwise_append.1 hs).2.1
  rw [List.pairwise_cons] at h1
  have hpy : writerLe p y = true := h1.1 y (List.mem_append_left _ hy)
  have h2 := (List.pairwise_append.1 h1.2).2.2 y hy e List.mem_cons_self
  rw [writerLe_eq, lexLe_iff] at hpy h2
  omega

/-- ... applied to the writer's output -/
theorem new_directly_behind_last_placed_partial (m : Module) (l1 mid l2 : List Elem) (p e : Elem) (u : Nat) (hu : u ≠ 0)
    (hw : writeOrder m = l1 ++ p :: (mid ++ e :: l2)) (hp : p.uid = 2 * u) (he : e.uid = 2 * u + 1) :
    ∀ y ∈ mid, y.uid = 2 * u ∨ y.uid = 2 * u + 1 :=
  nothing_between_last_placed_and_new _ l1 mid l2 p e u hu (writeOrder_perm_sorted m).2 hw hp he

/-- non-vacuity: one placed MEASUREMENT (uid 4), one new one, one placed UNIT (uid 6) -/
def demoM : RModule :=
  { sections := [⟨.objectList, ⟨.byName, [⟨"MEASUREMENT", "new", 0, 0, 1⟩, ⟨"MEASUREMENT", "old", 4, 10, 2⟩]⟩⟩,
                 ⟨.objectList, ⟨.byName, [⟨"UNIT", "u", 6, 20, 3⟩]⟩⟩], comments := [] }

example : SinglesWF demoM ∧ PlacedDistinct demoM ∧ ∃ m', sortNewItems demoM = .ok m' := by
  refine ⟨?_, ?_, ?_⟩
  · intro r hr hs
    simp [demoM] at hr
    rcases hr with rfl | rfl <;> simp at hs
  · intro a ha b hb hne he
    simp [demoM, Module.all, RModule.toModule] at ha hb
    rcases ha with rfl | rfl | rfl <;> rcases hb with rfl | rfl | rfl <;> simp_all
  · apply sni_ok_partial
    intro e he
    simp [demoM, Module.all, RModule.toModule] at he
    rcases he with rfl | rfl | rfl <;> simp [u32max]

/-! ### a kind without a placed element (known finding C15-end-group) -/

/-- the elements of a list in which nothing is placed stay new (uid 0) through a call - and so through every call:
    they are written behind all placed elements, but are placed again, together with every later new element, each time -/
theorem list_without_placed_stays_new (es : List Elem) (h : ∀ e ∈ es, e.uid = 0) :
    sortObjectlistNew es = .ok (es.mergeSort newLe) ∧ ∀ e ∈ es.mergeSort newLe, e.uid = 0 :=
  sortObjectlistNew_all_new es h

/-- the witness of the finding at the level of the writer: of two elements that are not placed and have no line of
    their own (pushed through the API) the one with the smaller tag is written first, whichever was added first -/
theorem unplaced_smaller_tag_first (a b : Elem) (ha : a.uid = 0) (hb : b.uid = 0) (hl : a.line = b.line)
    (ht : a.tag < b.tag) : writerLe a b = true ∧ writerLe b a = false := by
  rw [writerLe_unplaced a b ha hb, writerLe_unplaced b a hb ha]
  simp only [hl, ↓reduceIte, decide_eq_true_eq, decide_eq_false_iff_not]
  exact ⟨String.not_lt.1 (String.lt_asymm ht), String.not_le.2 ht⟩

/-- FUNCTION fnew, added in the third cycle, against UNIT zz, added in the first: fnew is written first -/
example : writerLe ⟨"FUNCTION", "fnew", 0, 0, 3⟩ ⟨"UNIT", "zz", 0, 0, 1⟩ = true ∧
    writerLe ⟨"UNIT", "zz", 0, 0, 1⟩ ⟨"FUNCTION", "fnew", 0, 0, 3⟩ = false :=
  unplaced_smaller_tag_first _ _ rfl rfl rfl (by decide)

/-- non-vacuity of the history theorem: a push into the MEASUREMENT list of `demoM` followed by a call is admissible,
    starts in the invariant, and returns -/
example : IterInv demoM ∧ Admissible [.push 0 ⟨"MEASUREMENT", "n2", 0, 0, 7⟩, .sni] demoM ∧
    ∃ m', runOps [.push 0 ⟨"MEASUREMENT", "n2", 0, 0, 7⟩, .sni] demoM = .ok m' := by
  refine ⟨?_, ⟨rfl, ?_, ?_, fun _ _ => trivial⟩, ?_⟩
  · apply iterInv_of_distinct
    · simp [demoM, Module.all, RModule.toModule, Elem.key]
    · intro r hr hs
      simp [demoM] at hr
      rcases hr with rfl | rfl <;> simp at hs
    · intro a ha b hb hne he
      simp [demoM, Module.all, RModule.toModule] at ha hb
      rcases ha with rfl | rfl | rfl <;> rcases hb with rfl | rfl | rfl <;> simp_all
  · simp [demoM, Module.all, RModule.toModule, Elem.key]
  · intro r hr
    simp [demoM] at hr
    subst hr
    simp [isSingle]
  · show ∃ m', (match sortNewItems (pushNew demoM 0 ⟨"MEASUREMENT", "n2", 0, 0, 7⟩) with
        | .panic => Out.panic | .ok m1 => runOps [] m1) = Out.ok m'
    obtain ⟨m1, h1⟩ := sni_ok_partial (pushNew demoM 0 ⟨"MEASUREMENT", "n2", 0, 0, 7⟩) (by
      intro e he
      simp [demoM, pushNew, pushSec, Module.all, RModule.toModule] at he
      rcases he with rfl | rfl | rfl | rfl <;> simp [u32max])
    exact ⟨m1, by rw [h1]; rfl⟩

/-- **k consecutive calls**: as long as no call overflows, a placed uid grows exactly by the factor 2^k, for every
    section rule (object lists, optional singles, IF_DATA / USER_RIGHTS, comments).
    (`hwf` is not in the first draft of this statement, which is false without it: `iterate_uids_partial_needs_wf`.) -/
theorem iterate_uids_partial (k : Nat) (m m' : RModule) (hwf : SinglesWF m) (h : iterate k m = .ok m') :
    ∀ e ∈ m.toModule.all, e.uid ≠ 0 → ∃ e' ∈ m'.toModule.all, e'.key = e.key ∧ e'.uid = 2 ^ k * e.uid :=
  fun e he hu => (iterate_step k m m' h hwf e he hu).2

/-- **the negative result**: a two-element module on which the 31st consecutive call panics (checked arithmetic) -/
def witness : RModule :=
  { sections := [⟨.objectList, ⟨.byName, [⟨"MEASUREMENT", "a", 1, 3, 0⟩, ⟨"MEASUREMENT", "b", 2, 4, 1⟩]⟩⟩], comments := [] }

theorem overflow_witness : (∃ m', iterate 30 witness = .ok m') ∧ iterate 31 witness = .panic := by
  have hw : witness = wit 1 := rfl
  have h30 : iterate 30 (wit 1) = .ok (wit (2 ^ 30 * 1)) :=
    wit_iterate 30 1 (by decide) (by simp [u32max])
  rw [hw]
  refine ⟨⟨_, h30⟩, ?_⟩
  show iterate (30 + 1) (wit 1) = .panic
  rw [iterate_add, h30]
  simp only
  rw [iterate, wit_panic _ (by decide) (by simp [u32max]) (by simp [u32max])]

/-- in general: once some placed uid times 2^(k) exceeds the u32 range, k calls cannot all succeed.
    (`hwf` and `hk` are not in the first draft of this statement, which is false without either of them:
    `overflow_general_needs_hyps`.) -/
theorem overflow_general (k : Nat) (m : RModule) (e : Elem) (hwf : SinglesWF m) (hk : 1 ≤ k)
    (he : e ∈ m.toModule.all) (hu : e.uid ≠ 0)
    (hbig : 2 ^ k * e.uid > u32max) : iterate k m = .panic := by
  cases h : iterate k m with
  | panic => rfl
  | ok m' =>
    have := (iterate_step k m m' h hwf e he hu).1 hk
    omega

/-- the same with "all uids are `u32` values" in place of `1 ≤ k` -/
theorem overflow_general' (k : Nat) (m : RModule) (e : Elem) (hwf : SinglesWF m) (hr : e.uid ≤ u32max)
    (he : e ∈ m.toModule.all) (hu : e.uid ≠ 0)
    (hbig : 2 ^ k * e.uid > u32max) : iterate k m = .panic := by
  by_cases hk : 1 ≤ k
  · exact overflow_general k m e hwf hk he hu hbig
  · have : k = 0 := by omega
    subst this; simp at hbig; omega

/-! ## the draft statements without the extra hypotheses are false -/

/-- an `Option<T>` section holding two elements: only the first one is renumbered -/
def cexSingles (u : Nat) : RModule :=
  { sections := [⟨.threaded, ⟨.single, [⟨"A2ML", "x", 1, 0, 0⟩, ⟨"A2ML", "y", u, 0, 1⟩]⟩⟩], comments := [] }

theorem cexSingles_step (u : Nat) : iterate 1 (cexSingles u) =
    .ok ⟨[⟨.threaded, ⟨.single, [⟨"A2ML", "x", 2, 0, 0⟩, ⟨"A2ML", "y", u, 0, 1⟩]⟩⟩], []⟩ := by
  simp [iterate, sortNewItems, cexSingles, sniSections, sortOptional, dbl, doubleAll, u32max]

theorem iterate_uids_partial_needs_wf :
    ¬ ∀ (k : Nat) (m m' : RModule), iterate k m = .ok m' →
      ∀ e ∈ m.toModule.all, e.uid ≠ 0 → ∃ e' ∈ m'.toModule.all, e'.key = e.key ∧ e'.uid = 2 ^ k * e.uid := by
  intro H
  obtain ⟨e', he', hk, hu⟩ := H 1 _ _ (cexSingles_step 3) ⟨"A2ML", "y", 3, 0, 1⟩
    (by simp [cexSingles, Module.all, RModule.toModule]) (by simp)
  simp [Module.all, RModule.toModule] at he'
  rcases he' with rfl | rfl <;> simp [Elem.key] at hk hu

theorem overflow_general_needs_hyps :
    (¬ ∀ (k : Nat) (m : RModule) (e : Elem), SinglesWF m → e ∈ m.toModule.all → e.uid ≠ 0 →
        2 ^ k * e.uid > u32max → iterate k m = .panic) ∧
    (¬ ∀ (k : Nat) (m : RModule) (e : Elem), 1 ≤ k → e ∈ m.toModule.all → e.uid ≠ 0 →
        2 ^ k * e.uid > u32max → iterate k m = .panic) := by
  constructor
  · intro H
    have := H 0 ⟨[⟨.objectList, ⟨.byName, [⟨"M", "x", 4294967296, 0, 0⟩]⟩⟩], []⟩ ⟨"M", "x", 4294967296, 0, 0⟩
      (by simp [SinglesWF]) (by simp [Module.all, RModule.toModule]) (by simp) (by simp [u32max])
    simp [iterate] at this
  · intro H
    have := H 1 (cexSingles 2147483648) ⟨"A2ML", "y", 2147483648, 0, 1⟩ (Nat.le_refl 1)
      (by simp [cexSingles, Module.all, RModule.toModule]) (by simp) (by simp [u32max])
    rw [cexSingles_step] at this
    cases this

end A2l.Srt
