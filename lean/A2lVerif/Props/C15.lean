import A2lVerif.Lemmas.Sort15
/-!
# C15 — sort_new_items(): stable placement over arbitrarily long edit histories

Property theorems only; model in Model/Sort.lean with `u32` uids and checked arithmetic (`Out.panic` on overflow).
The full-strength property ("any number of repeated calls, without panic, overflow or reordering") is FALSE for the
code as it is: every call doubles all uids, so the k-th call overflows once maxuid·2^k ≥ 2^32 (`overflow_witness`).
What is proved is the property under the explicit no-overflow hypothesis (`…_partial`), plus the exact growth law.
-/
namespace A2l.Srt

/-- all uids of the module are small enough for one more call -/
def NoOverflow (m : RModule) : Prop := ∀ e ∈ m.toModule.all, 2 * e.uid + 1 ≤ u32max

/-- under the no-overflow hypothesis one call does not panic -/
theorem sni_ok_partial (m : RModule) (h : NoOverflow m) : ∃ m', sortNewItems m = .ok m' := sorry

/-- **growth law for a named list**: a placed element's uid is doubled; a new element (uid 0) gets
    2·(largest placed uid of its list)+1, or stays 0 (= written at the end) if its list has no placed element. -/
theorem objectlist_uids_partial (es es' : List Elem) (h : sortObjectlistNew es = .ok es') :
    (es'.map Elem.key).Perm (es.map Elem.key) ∧
    (∀ e ∈ es, e.uid ≠ 0 → ∃ e' ∈ es', e'.key = e.key ∧ e'.line = e.line ∧ e'.uid = 2 * e.uid) ∧
    (∀ e' ∈ es', e'.uid % 2 = 1 ∨ e'.uid = 0 →
        e'.uid = (if (es.filter (·.uid ≠ 0)).isEmpty then 0
                  else 2 * ((es.filter (·.uid ≠ 0)).map (·.uid)).foldl max 0 + 1)) := sorry

/-- doubling all uids does not change how the writer compares two placed elements -/
theorem writerLe_double (a b : Elem) (ha : a.uid ≠ 0) (hb : b.uid ≠ 0) :
    writerLe { a with uid := 2 * a.uid } { b with uid := 2 * b.uid } = writerLe a b := sorry

/-- a new element of a named list with uid 2u+1 is written after every element with uid ≤ 2u and before every
    element with a larger non-zero uid: directly behind the last placed element of its kind -/
theorem writer_places_odd_partial (p e q : Elem) (u : Nat) (hp : p.uid = 2 * u) (hu : u ≠ 0)
    (he : e.uid = 2 * u + 1) (hq : 2 * u + 1 < q.uid) :
    writerLe p e = true ∧ writerLe e p = false ∧ writerLe e q = true ∧ writerLe q e = false := sorry

/-- the writer's order is a permutation of the elements, sorted by `writerLe` -/
theorem writeOrder_perm_sorted (m : Module) :
    (writeOrder m).Perm m.all ∧ (writeOrder m).Pairwise (fun a b => writerLe a b = true) := sorry

/-- **k consecutive calls**: as long as no call overflows, a placed uid grows exactly by the factor 2^k, for every
    section rule (object lists, optional singles, IF_DATA / USER_RIGHTS, comments) -/
theorem iterate_uids_partial (k : Nat) (m m' : RModule) (h : iterate k m = .ok m') :
    ∀ e ∈ m.toModule.all, e.uid ≠ 0 → ∃ e' ∈ m'.toModule.all, e'.key = e.key ∧ e'.uid = 2 ^ k * e.uid := sorry

/-- **the negative result**: a two-element module on which the 31st consecutive call panics (checked arithmetic) -/
def witness : RModule :=
  { sections := [⟨.objectList, ⟨.byName, [⟨"MEASUREMENT", "a", 1, 3, 0⟩, ⟨"MEASUREMENT", "b", 2, 4, 1⟩]⟩⟩], comments := [] }

theorem overflow_witness : (∃ m', iterate 30 witness = .ok m') ∧ iterate 31 witness = .panic := sorry

/-- in general: once some placed uid times 2^(k) exceeds the u32 range, k calls cannot all succeed -/
theorem overflow_general (k : Nat) (m : RModule) (e : Elem) (he : e ∈ m.toModule.all) (hu : e.uid ≠ 0)
    (hbig : 2 ^ k * e.uid > u32max) : iterate k m = .panic := sorry

end A2l.Srt
