import A2lVerif.Lemmas.TreeTotal
/-!
# C03 (parser part) — the generic element parser never panics

Property theorems only; model in Model/Tree.lean. Quantification: every grammar table that passes the decidable check
`tableOk`, every token array with the tokenizer's invariants (`TokOk`, which `Props/C03Lex.lean` proves for the output
of the tokenizer model), both strictness modes, every parser state, every fuel.
-/
namespace A2l.Tree
open A2l.G

/-- what the parser relies on about the tokens (all consequences of `lex_inv` and of how tokens are built):
    line numbers are 1-based and non-decreasing, identifier tokens are not empty -/
structure TokOk (toks : Array PTok) : Prop where
  line_pos : ∀ i (h : i < toks.size), 1 ≤ toks[i].line
  line_mono : ∀ i j (hi : i < toks.size) (hj : j < toks.size), i ≤ j → toks[i].line ≤ toks[j].line
  ident_ne : ∀ i (h : i < toks.size), toks[i].ty = 0 → toks[i].text ≠ []

/-- item types only refer to existing types of the right kind -/
def itemOk (tbl : Table) : ItemTy → Bool
  | .enumRef ty => match tbl.lookup ty with | some (.enum _) => true | _ => false
  | .structRef ty => match tbl.lookup ty with | some (.block _ _ _ _) => true | _ => false
  | .arr of _ => itemOk tbl of
  | .seq of _ => itemOk tbl of
  | _ => true

/-- decidable well-formedness of a grammar table as far as panic-freedom is concerned: every reference resolves to a
    type of the expected kind, and the two types the hand-written code names exist with the expected shape -/
def tableOk (tbl : Table) (k : Known) : Bool :=
  tbl.all (fun e => match e.def_ with
    | .block _ items arms _ =>
      items.all (itemOk tbl) &&
      arms.all (fun a => match tbl.lookup a.ty with | some (.block _ _ _ _) => true | some .special => true | _ => false)
    | .enum _ => true
    | _ => true) &&
  (match tbl.lookup k.tyA2lFile with | some (.block _ _ _ _) => true | _ => false) &&
  (match tbl.lookup k.tyAsap2Version with
   | some (.block false [.int _, .int _] [] false) => true | _ => false)

/-- the hand-written parsers of the `special` types (A2ML, IF_DATA) are a parameter of the model: what is assumed
    of them here (and proved of their own model separately) is that they do not panic and keep the cursor in range -/
def SpecialOk (e : Env) : Prop :=
  ∀ ty ctx off s, s.pos ≤ e.toks.size →
    e.special ty ctx off e.toks e.strict s ≠ .panic ∧
    (∀ v s', e.special ty ctx off e.toks e.strict s = .ok v s' → s.pos ≤ s'.pos ∧ s'.pos ≤ e.toks.size ∧ ∃ l, s'.log = l ++ s.log) ∧
    (∀ d s', e.special ty ctx off e.toks e.strict s = .err d s' → s'.pos ≤ e.toks.size ∧ ∃ l, s'.log = l ++ s.log)

/-- **No panic, for any type, state and fuel**: parsing any type of a well-formed table from any in-range cursor
    position never reaches a Rust panic site (index out of range in `get_line_offset`, `token_cursor.back()` at
    position 0, `text.as_bytes()[0]` on an empty identifier, `unescape_string` indexing, a dangling type reference).
    The `special` types are covered by the hypothesis `SpecialOk`. -/
theorem parseType_no_panic (e : Env) (hk : TokOk e.toks) (ht : tableOk e.table e.known = true) (hsp : SpecialOk e)
    (fuel : Nat) (ty : Nat) (ctx : Ctx) (off : Nat) (s : PState) (hs : s.pos ≤ e.toks.size) :
    parseType fuel ty ctx off e s ≠ .panic := sorry

/-- **`parse_file` never panics** (strict or not, valid input or garbage tokens) -/
theorem parseFile_no_panic (e : Env) (hk : TokOk e.toks) (ht : tableOk e.table e.known = true) (hsp : SpecialOk e) :
    runParseFile e ≠ .panic := sorry

/-- the cursor stays in range and never moves behind where the call started -/
theorem parseType_pos (e : Env) (hk : TokOk e.toks) (ht : tableOk e.table e.known = true) (hsp : SpecialOk e)
    (fuel : Nat) (ty : Nat) (ctx : Ctx) (off : Nat) (s : PState) (hs : s.pos ≤ e.toks.size) :
    (∀ v s', parseType fuel ty ctx off e s = .ok v s' → s.pos ≤ s'.pos ∧ s'.pos ≤ e.toks.size) ∧
    (∀ d s', parseType fuel ty ctx off e s = .err d s' → s'.pos ≤ e.toks.size) := sorry

/-- diagnostics are only ever appended: the log of the result extends the log at the start -/
theorem parseType_log_mono (e : Env) (hsp : SpecialOk e) (fuel : Nat) (ty : Nat) (ctx : Ctx) (off : Nat) (s : PState) :
    (∀ v s', parseType fuel ty ctx off e s = .ok v s' → ∃ l, s'.log = l ++ s.log) ∧
    (∀ d s', parseType fuel ty ctx off e s = .err d s' → ∃ l, s'.log = l ++ s.log) := sorry

/-- in strict mode nothing is ever logged by `error_or_log`: the log only receives deprecation warnings -/
theorem strict_log_only_warnings (e : Env) (hstrict : e.strict = true)
    (hsp : ∀ ty ctx off s v s', e.special ty ctx off e.toks e.strict s = .ok v s' →
      ∃ l, s'.log = l ++ s.log ∧ ∀ d ∈ l, d.kind = .blockRefDeprecated ∨ d.kind = .enumRefDeprecated) (fuel : Nat) (ty : Nat) (ctx : Ctx) (off : Nat)
    (s : PState) (v : Val) (s' : PState) (h : parseType fuel ty ctx off e s = .ok v s') :
    ∃ l, s'.log = l ++ s.log ∧ ∀ d ∈ l, d.kind = .blockRefDeprecated ∨ d.kind = .enumRefDeprecated := sorry

end A2l.Tree
