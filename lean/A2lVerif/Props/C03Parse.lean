import A2lVerif.Lemmas.TreeTotal
/-!
# C03 (parser part) — the generic element parser never panics

Property theorems only; model in Model/Tree.lean, proofs in Lemmas/TreeTotal.lean. Quantification: every grammar table
that passes the decidable check `tableOk`, every non-empty token array with the tokenizer's invariants (`TokOk`, which
`Props/C03Lex.lean` proves for the output of the tokenizer model), both strictness modes, every parser state, every fuel.

Four of the five statements were FALSE as first written (hypotheses missing); each is kept below as a refuted
statement (`*_as_written_false`, with the concrete counterexample) next to the corrected theorem:

* `parseType_no_panic`, `parseFile_no_panic`: an EMPTY token array panics in `get_line_offset` (`tokens[0]`), reached
  from `get_next_tag_or_comment` at end of input. The Rust code never gets there: `load_impl` (lib.rs) returns
  `EmptyFileError` when the tokenizer produced no token. Added hypothesis: `e.toks.size ≠ 0`.
* `parseType_no_panic`: `ty` was arbitrary; a `ty` that is not in the table (or names an enum) takes the
  `| _ => panic` arm of the model (no Rust counterpart: there `T::parse` only exists for existing types).
  Added hypothesis: `tyOk e.table ty = true`.
* `parseType_log_mono`: `SpecialOk` only speaks about in-range cursors, the statement had no `s.pos ≤ e.toks.size`.
* `strict_log_only_warnings`: the hypothesis on the `special` parsers only covered their `ok` results, but the log of a
  failed `special` parser survives when a sequence swallows the error (`parseSeq`). Added: the same for `err`.

`TokOk` has one more clause than at first (`comment_lines`), required by the `fix:` version of `get_line_offset`.
-/
namespace A2l.Tree
open A2l.G

/-! ## the hypotheses

The definitions `TokOk`, `itemOk`, `tableOk`, `SpecialOk` (and `tyOk`) live in Lemmas/TreeTotal.lean because the helper
lemmas need them. They are restated here; every line below is checked by `Iff.rfl` / `rfl`, i.e. it is the definition. -/

/-- what the parser relies on about the tokens (all consequences of `lex_inv` and of how tokens are built):
    line numbers are 1-based and non-decreasing, identifier tokens are not empty, the token behind a (multi-line)
    comment is not above the comment's last line -/
theorem TokOk_iff (toks : Array PTok) : TokOk toks ↔
    (∀ i (h : i < toks.size), 1 ≤ toks[i].line) ∧
    (∀ i j (hi : i < toks.size) (hj : j < toks.size), i ≤ j → toks[i].line ≤ toks[j].line) ∧
    (∀ i (h : i < toks.size), toks[i].ty = 0 → toks[i].text ≠ []) ∧
    (∀ i j (hi : i < toks.size) (hj : j < toks.size), i < j → toks[i].ty = 6 →
      toks[i].line + countNewlines toks[i].text ≤ toks[j].line) :=
  ⟨fun h => ⟨h.line_pos, h.line_mono, h.ident_ne, h.comment_lines⟩, fun h => ⟨h.1, h.2.1, h.2.2.1, h.2.2.2⟩⟩

/-- item types only refer to existing types of the right kind -/
example (tbl : Table) (ty : Nat) : itemOk tbl (.enumRef ty) =
    (match tbl.lookup ty with | some (.enum _) => true | _ => false) := rfl
example (tbl : Table) (ty : Nat) : itemOk tbl (.structRef ty) =
    (match tbl.lookup ty with | some (.block _ _ _ _) => true | _ => false) := rfl
example (tbl : Table) (of : ItemTy) (n : Nat) : itemOk tbl (.arr of n) = itemOk tbl of := rfl
example (tbl : Table) (of : ItemTy) (stop : List Nat) : itemOk tbl (.seq of stop) = itemOk tbl of := rfl
example (tbl : Table) : itemOk tbl .ident = true ∧ itemOk tbl .string = true ∧ itemOk tbl .double = true ∧
    itemOk tbl .float = true ∧ (∀ w, itemOk tbl (.int w) = true) ∧ (∀ n, itemOk tbl (.strMax n) = true) :=
  ⟨rfl, rfl, rfl, rfl, fun _ => rfl, fun _ => rfl⟩

/-- a type `parseType` can be called on: a block / keyword / struct, or one of the `special` types -/
example (tbl : Table) (ty : Nat) : tyOk tbl ty =
    (match tbl.lookup ty with | some (.block _ _ _ _) => true | some .special => true | _ => false) := rfl

/-- decidable well-formedness of a grammar table as far as panic-freedom is concerned: every reference resolves to a
    type of the expected kind, and the two types the hand-written code names exist with the expected shape -/
example (tbl : Table) (k : Known) : tableOk tbl k =
    (tbl.all (fun e => match e.def_ with
      | .block _ items arms _ =>
        items.all (itemOk tbl) &&
        arms.all (fun a => match tbl.lookup a.ty with | some (.block _ _ _ _) => true | some .special => true | _ => false)
      | .enum _ => true
      | _ => true) &&
    (match tbl.lookup k.tyA2lFile with | some (.block _ _ _ _) => true | _ => false) &&
    (match tbl.lookup k.tyAsap2Version with
     | some (.block false [.int _, .int _] [] false) => true | _ => false)) := rfl

/-- the hand-written parsers of the `special` types (A2ML, IF_DATA) are a parameter of the model: what is assumed
    of them here (and proved of their own model separately) is that they do not panic and keep the cursor in range -/
theorem SpecialOk_iff (e : Env) : SpecialOk e ↔
    ∀ ty ctx off s, s.pos ≤ e.toks.size →
      e.special ty ctx off e.toks e.strict s ≠ .panic ∧
      (∀ v s', e.special ty ctx off e.toks e.strict s = .ok v s' →
        s.pos ≤ s'.pos ∧ s'.pos ≤ e.toks.size ∧ ∃ l, s'.log = l ++ s.log) ∧
      (∀ d s', e.special ty ctx off e.toks e.strict s = .err d s' →
        s'.pos ≤ e.toks.size ∧ ∃ l, s'.log = l ++ s.log) := Iff.rfl

/-! ## the theorems -/

/-- **No panic, for any type, state and fuel**: parsing any type of a well-formed table from any in-range cursor
    position never reaches a Rust panic site (index out of range in `get_line_offset`, `token_cursor.back()` at
    position 0, `text.as_bytes()[0]` on an empty identifier, `unescape_string` indexing, a dangling type reference).
    The `special` types are covered by the hypothesis `SpecialOk`.
    CORRECTED with respect to the first version: `hne` (token array not empty, guaranteed by `load_impl`) and `hty`
    (`ty` is a block / keyword / struct / special type of the table) were missing; see the refutations below. -/
theorem parseType_no_panic (e : Env) (hk : TokOk e.toks) (ht : tableOk e.table e.known = true) (hsp : SpecialOk e)
    (hne : e.toks.size ≠ 0)
    (fuel : Nat) (ty : Nat) (hty : tyOk e.table ty = true) (ctx : Ctx) (off : Nat) (s : PState)
    (hs : s.pos ≤ e.toks.size) :
    parseType fuel ty ctx off e s ≠ .panic := by
  intro h
  have := (allSafe (cfgFull e hk (Nat.pos_of_ne_zero hne) ht hsp) fuel).type ty ctx off s (fun _ => hty) (fun _ => hs)
  rw [h] at this
  exact this trivial

/-- **`parse_file` never panics** (strict or not, valid input or garbage tokens).
    CORRECTED: `hne` (token array not empty; `load_impl` returns `EmptyFileError` otherwise) was missing. -/
theorem parseFile_no_panic (e : Env) (hk : TokOk e.toks) (ht : tableOk e.table e.known = true) (hsp : SpecialOk e)
    (hne : e.toks.size ≠ 0) :
    runParseFile e ≠ .panic := by
  intro h
  have := parseFile_safe (cfgFull e hk (Nat.pos_of_ne_zero hne) ht hsp) (4 * e.toks.size + 64) {}
    (fun _ => Nat.zero_le _)
  unfold runParseFile at h
  rw [h] at this
  exact this trivial

set_option linter.unusedVariables false in
/-- the cursor stays in range and never moves behind where the call started (as first written; `hk`, `ht` are not
    needed) -/
theorem parseType_pos (e : Env) (hk : TokOk e.toks) (ht : tableOk e.table e.known = true) (hsp : SpecialOk e)
    (fuel : Nat) (ty : Nat) (ctx : Ctx) (off : Nat) (s : PState) (hs : s.pos ≤ e.toks.size) :
    (∀ v s', parseType fuel ty ctx off e s = .ok v s' → s.pos ≤ s'.pos ∧ s'.pos ≤ e.toks.size) ∧
    (∀ d s', parseType fuel ty ctx off e s = .err d s' → s'.pos ≤ e.toks.size) := by
  have := (allSafe (cfgPos e hsp) fuel).type ty ctx off s (fun h => h.elim) (fun _ => hs)
  constructor
  · intro v s' h; rw [h] at this; exact this.1 trivial
  · intro d s' h; rw [h] at this; exact this.1 trivial

/-- diagnostics are only ever appended: the log of the result extends the log at the start.
    CORRECTED: `hs` was missing (`SpecialOk` says nothing about a `special` parser started outside the token array). -/
theorem parseType_log_mono (e : Env) (hsp : SpecialOk e) (fuel : Nat) (ty : Nat) (ctx : Ctx) (off : Nat) (s : PState)
    (hs : s.pos ≤ e.toks.size) :
    (∀ v s', parseType fuel ty ctx off e s = .ok v s' → ∃ l, s'.log = l ++ s.log) ∧
    (∀ d s', parseType fuel ty ctx off e s = .err d s' → ∃ l, s'.log = l ++ s.log) := by
  have := (allSafe (cfgPos e hsp) fuel).type ty ctx off s (fun h => h.elim) (fun _ => hs)
  constructor
  · intro v s' h; rw [h] at this; exact this.2.1
  · intro d s' h; rw [h] at this; exact this.2

/-- in strict mode nothing is ever logged by `error_or_log`: the log only receives deprecation warnings.
    CORRECTED: `hspe` (the assumption on the `special` parsers also for their `err` results) was missing: an error
    inside a sequence element is swallowed by the sequence, the log written before it stays. -/
theorem strict_log_only_warnings (e : Env) (hstrict : e.strict = true)
    (hsp : ∀ ty ctx off s v s', e.special ty ctx off e.toks e.strict s = .ok v s' →
      ∃ l, s'.log = l ++ s.log ∧ ∀ d ∈ l, d.kind = .blockRefDeprecated ∨ d.kind = .enumRefDeprecated)
    (hspe : ∀ ty ctx off s d s', e.special ty ctx off e.toks e.strict s = .err d s' →
      ∃ l, s'.log = l ++ s.log ∧ ∀ d ∈ l, d.kind = .blockRefDeprecated ∨ d.kind = .enumRefDeprecated)
    (fuel : Nat) (ty : Nat) (ctx : Ctx) (off : Nat)
    (s : PState) (v : Val) (s' : PState) (h : parseType fuel ty ctx off e s = .ok v s') :
    ∃ l, s'.log = l ++ s.log ∧ ∀ d ∈ l, d.kind = .blockRefDeprecated ∨ d.kind = .enumRefDeprecated := by
  have := (allSafe (cfgStrict e hstrict (fun ty ctx off s => ⟨hsp ty ctx off s, hspe ty ctx off s⟩)) fuel).type
    ty ctx off s (fun h => h.elim) (fun h => h.elim)
  rw [h] at this
  exact this.2.1

/-! ## the statements as first written, refuted -/

/-- a `special` parser that always fails and changes nothing -/
def cexSpecial : Nat → Ctx → Nat → Array PTok → Bool → PState → PRes Val :=
  fun _ _ _ _ _ s => .err ⟨.a2mlError, 0⟩ s

/-- two types: `A2L_FILE`-like (keyword with a tagged part, no arms) and `ASAP2_VERSION`-like -/
def cexTable : Table := [⟨0, .block false [] [] true⟩, ⟨1, .block false [.int 5, .int 5] [] false⟩]
def cexKnown : Known := ⟨0, 1, 7⟩

/-- the empty token array -/
def cexEnvEmpty : Env := { toks := #[], strict := false, table := cexTable, known := cexKnown, special := cexSpecial }

theorem cexEnvEmpty_tokOk : TokOk cexEnvEmpty.toks :=
  ⟨fun _ h => absurd h (Nat.not_lt_zero _), fun _ _ h => absurd h (Nat.not_lt_zero _),
   fun _ h => absurd h (Nat.not_lt_zero _), fun _ _ h => absurd h (Nat.not_lt_zero _)⟩

theorem cexSpecial_ok (e : Env) (h : e.special = cexSpecial) : SpecialOk e := by
  intro ty ctx off s hs
  rw [h]
  refine ⟨fun h => (by cases h), fun v s' h => (by cases h), fun d s' h => ?_⟩
  cases h
  exact ⟨hs, [], rfl⟩

/-- `parseFile_no_panic` without `hne` is false: the empty token array panics
    (`parse_version` finds nothing, `A2lFile::parse` calls `get_next_tag_or_comment`, which calls `get_line_offset`
    after the failed `get_identifier`: `tokens[0]` on an empty vector) -/
theorem parseFile_no_panic_as_written_false :
    ¬ ∀ (e : Env) (_ : TokOk e.toks) (_ : tableOk e.table e.known = true) (_ : SpecialOk e),
      runParseFile e ≠ .panic := fun h =>
  h cexEnvEmpty cexEnvEmpty_tokOk rfl (cexSpecial_ok _ rfl) rfl

/-- `parseType_no_panic` without `hne` is false, same reason -/
theorem parseType_no_panic_as_written_false :
    ¬ ∀ (e : Env) (_ : TokOk e.toks) (_ : tableOk e.table e.known = true) (_ : SpecialOk e)
      (fuel ty : Nat) (ctx : Ctx) (off : Nat) (s : PState) (_ : s.pos ≤ e.toks.size),
      parseType fuel ty ctx off e s ≠ .panic := fun h =>
  h cexEnvEmpty cexEnvEmpty_tokOk rfl (cexSpecial_ok _ rfl) 3 0 ⟨[], 0, 1⟩ 0 {} (Nat.le_refl _) rfl

/-- one identifier token -/
def cexTok : PTok := { ty := 0, text := ['x'], line := 1, sym := 3 }
def cexEnvOne : Env := { cexEnvEmpty with toks := #[cexTok] }

theorem cexEnvOne_tokOk : TokOk cexEnvOne.toks := by
  have h0 : ∀ i, i < cexEnvOne.toks.size → i = 0 := fun i h => Nat.lt_one_iff.1 h
  refine ⟨?_, ?_, ?_, ?_⟩
  · intro i h; cases h0 i h; exact Nat.le_refl 1
  · intro i j hi hj _; cases h0 i hi; cases h0 j hj; exact Nat.le_refl _
  · intro i h; cases h0 i h; exact fun _ => List.cons_ne_nil 'x' []
  · intro i j hi hj hij; cases h0 i hi; cases h0 j hj; cases hij

/-- `parseType_no_panic` with `hne` but without `hty` is still false: a `ty` outside the table (model-only panic arm) -/
theorem parseType_no_panic_without_hty_false :
    ¬ ∀ (e : Env) (_ : TokOk e.toks) (_ : tableOk e.table e.known = true) (_ : SpecialOk e) (_ : e.toks.size ≠ 0)
      (fuel ty : Nat) (ctx : Ctx) (off : Nat) (s : PState) (_ : s.pos ≤ e.toks.size),
      parseType fuel ty ctx off e s ≠ .panic := fun h =>
  h cexEnvOne cexEnvOne_tokOk rfl (cexSpecial_ok _ rfl) (by decide) 3 99 ⟨[], 0, 1⟩ 0 {} (Nat.zero_le _) rfl

/-- a `special` parser that is well-behaved inside the token array and clears the log outside -/
def cexSpecialOutside : Nat → Ctx → Nat → Array PTok → Bool → PState → PRes Val :=
  fun _ _ _ toks _ s => if s.pos ≤ toks.size then .err ⟨.a2mlError, 0⟩ s else .ok (.arr []) { s with log := [] }
def cexEnvOutside : Env := { toks := #[], strict := false, table := [⟨0, .special⟩], special := cexSpecialOutside }

theorem cexEnvOutside_specialOk : SpecialOk cexEnvOutside := by
  intro ty ctx off s hs
  have h : cexEnvOutside.special ty ctx off cexEnvOutside.toks cexEnvOutside.strict s = .err ⟨.a2mlError, 0⟩ s :=
    if_pos hs
  rw [h]
  refine ⟨fun h => (by cases h), fun v s' h => (by cases h), fun d s' h => ?_⟩
  cases h
  exact ⟨hs, [], rfl⟩

/-- `parseType_log_mono` without `hs` is false -/
theorem parseType_log_mono_as_written_false :
    ¬ ∀ (e : Env) (_ : SpecialOk e) (fuel ty : Nat) (ctx : Ctx) (off : Nat) (s : PState),
      (∀ v s', parseType fuel ty ctx off e s = .ok v s' → ∃ l, s'.log = l ++ s.log) ∧
      (∀ d s', parseType fuel ty ctx off e s = .err d s' → ∃ l, s'.log = l ++ s.log) := by
  intro h
  obtain ⟨l, hl⟩ := (h cexEnvOutside cexEnvOutside_specialOk 1 0 ⟨[], 0, 1⟩ 0
    { pos := 1, log := [⟨.a2mlError, 0⟩] }).1 (.arr []) { pos := 1, log := [] } rfl
  have := congrArg List.length hl
  simp at this

/-- a `special` parser that logs and fails -/
def cexSpecialLogErr : Nat → Ctx → Nat → Array PTok → Bool → PState → PRes Val :=
  fun _ _ _ _ _ s => .err ⟨.a2mlError, 0⟩ { s with log := ⟨.a2mlError, 0⟩ :: s.log }
/-- type 0: a keyword whose parameter is a sequence of struct 1; struct 1 has a tagged part with one arm (tag 3)
    of the special type 2 (a well-formed table) -/
def cexTableSeq : Table :=
  [⟨0, .block false [.seq (.structRef 1) []] [] false⟩,
   ⟨1, .block false [] [⟨3, 2, false, false, false, 0, 0⟩] true⟩,
   ⟨2, .special⟩]
def cexEnvSeq : Env :=
  { toks := #[cexTok], strict := true, table := cexTableSeq, known := ⟨0, 0, 0⟩, special := cexSpecialLogErr }

/-- `strict_log_only_warnings` without `hspe` is false: the sequence swallows the error of the special parser,
    what it logged stays in the log of a successful parse -/
theorem strict_log_only_warnings_as_written_false :
    ¬ ∀ (e : Env) (_ : e.strict = true)
      (_ : ∀ ty ctx off s v s', e.special ty ctx off e.toks e.strict s = .ok v s' →
        ∃ l, s'.log = l ++ s.log ∧ ∀ d ∈ l, d.kind = .blockRefDeprecated ∨ d.kind = .enumRefDeprecated)
      (fuel ty : Nat) (ctx : Ctx) (off : Nat) (s : PState) (v : Val) (s' : PState)
      (_ : parseType fuel ty ctx off e s = .ok v s'),
      ∃ l, s'.log = l ++ s.log ∧ ∀ d ∈ l, d.kind = .blockRefDeprecated ∨ d.kind = .enumRefDeprecated := by
  intro h
  have hres : ∃ v s', parseType 10 0 ⟨[], 0, 1⟩ 0 cexEnvSeq {} = .ok v s' ∧ s'.log = [⟨.a2mlError, 0⟩] :=
    ⟨_, _, rfl, rfl⟩
  obtain ⟨v, s', hv, hlog⟩ := hres
  obtain ⟨l, hl, hd⟩ := h cexEnvSeq rfl (fun ty ctx off s v s' h => by cases h) 10 0 ⟨[], 0, 1⟩ 0 {} v s' hv
  rw [hlog] at hl
  have hl' : l = [⟨.a2mlError, 0⟩] := by
    have : ({} : PState).log = [] := rfl
    rw [this, List.append_nil] at hl
    exact hl.symm
  have := hd ⟨.a2mlError, 0⟩ (by rw [hl']; exact List.mem_singleton.2 rfl)
  rcases this with h | h <;> cases h

end A2l.Tree
