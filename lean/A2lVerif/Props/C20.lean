import A2lVerif.Gen.Shipped
import A2lVerif.Gen.Fresh
/-!
# C20 — the shipped generated code behaves like a fresh expansion of the specification DSL

`Gen.Fresh` is extracted from the token stream that the *in-tree* generator (`a2lmacros/src/{a2lspec,codegenerator}`,
linked into the translator and executed on every run) produces from the *in-tree* DSL; `Gen.Shipped` from
`specification.rs`. Equality of the grammar tables (parser side) and of the code tables (writer items and tags,
TAG_LIST passed to the unknown-tag handler, default arm, comment handling, position restrictions, enum variant /
Display mapping). Since the parser / writer model is a function of these tables only, both variants yield the same
model, diagnostics and text on every input.
-/
namespace A2l.G

theorem shipped_eq_fresh_table : Shipped.table = Fresh.table := by decide +kernel

theorem shipped_eq_fresh_code : Shipped.code = Fresh.code := by decide +kernel

end A2l.G
