/-! Shared basics of the executable model. Import-free (core only) so that the driver links as a `lean_exe`. -/

namespace A2l

/-- Outcome of a modelled Rust function: a value, or a panic at a place where the Rust code indexes, slices,
    unwraps or does checked arithmetic. -/
inductive Out (α : Type) where
  | ok : α → Out α
  | panic : Out α
  deriving Repr, DecidableEq, Inhabited

namespace Out
@[inline] def bind {α β} (x : Out α) (f : α → Out β) : Out β :=
  match x with
  | ok a => f a
  | panic => panic
instance : Monad Out where
  pure := ok
  bind := bind
def isOk {α} : Out α → Bool
  | ok _ => true
  | panic => false
end Out

/-- Association-list map (models `HashMap<String, usize>`; `Std.HashMap` does not reduce in the kernel). -/
abbrev Map := List (String × Nat)
def Map.get (m : Map) (k : String) : Option Nat := (m.find? (·.1 == k)).map (·.2)
def Map.insert (m : Map) (k : String) (v : Nat) : Map := (k, v) :: m.filter (·.1 != k)
def Map.erase (m : Map) (k : String) : Map := m.filter (·.1 != k)
def Map.contains (m : Map) (k : String) : Bool := (m.get k).isSome

/-- hex helpers for the line protocol -/
def hexDigit (n : Nat) : Char :=
  if n < 10 then Char.ofNat (48 + n) else Char.ofNat (87 + n)
def hexVal (c : Char) : Option Nat :=
  if '0' ≤ c ∧ c ≤ '9' then some (c.toNat - 48)
  else if 'a' ≤ c ∧ c ≤ 'f' then some (c.toNat - 87)
  else if 'A' ≤ c ∧ c ≤ 'F' then some (c.toNat - 55)
  else none
def hexDecodeAux : List Char → List UInt8 → Option (List UInt8)
  | [], acc => some acc.reverse
  | [_], _ => none
  | a :: b :: rest, acc =>
    match hexVal a, hexVal b with
    | some x, some y => hexDecodeAux rest (UInt8.ofNat (x * 16 + y) :: acc)
    | _, _ => none
def hexDecode (s : String) : Option (List UInt8) :=
  if s == "-" then some [] else hexDecodeAux s.toList []
def hexEncode (bs : List UInt8) : String :=
  if bs.isEmpty then "-" else
  String.ofList (bs.foldr (fun b acc => hexDigit (b.toNat / 16) :: hexDigit (b.toNat % 16) :: acc) [])

end A2l
