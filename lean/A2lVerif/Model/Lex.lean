import A2lVerif.Model.Basic
/-! Executable model of `tokenize_core` (a2lfile `src/tokenizer.rs`) and of every function it calls.

The model mirrors the Rust code: same loops, same index arithmetic.  Every place where the Rust code
indexes a slice, takes a sub-slice, subtracts on `usize` or unwraps is modelled with an explicit `panic`
outcome, unless the index is guarded by the bounds test of the very same `while`/`if` condition
(`while bytepos < datalen && p(filebytes[bytepos])`), in which case the guard is used as the proof of the
index.  `u32` line arithmetic is modelled with `Nat`.  Core Lean only (compiled into the driver). -/

namespace A2l.Lex

abbrev Bytes := Array UInt8

inductive TokType where
  | identifier | begin | end_ | include | string | number | comment
  deriving DecidableEq, Repr, Inhabited

structure Token where
  ttype : TokType
  startpos : Nat
  endpos : Nat
  line : Nat
  deriving DecidableEq, Repr, Inhabited

/-- the `TokenizerError` variants that `tokenize_core` can produce -/
inductive ErrKind where
  | InvalidA2lToken | InvalidNumericalConstant | UnclosedComment | UnclosedString | MissingWhitespace
  deriving DecidableEq, Repr, Inhabited

/-- outcome of `tokenize_core` -/
inductive Res where
  | ok (toks : List Token)
  | err (kind : ErrKind) (line : Nat)
  | panic
  | hang
  deriving DecidableEq, Repr, Inhabited

/-- outcome of a function returning `Result<usize, ()>` -/
inductive R (α : Type) where
  | ok (a : α) | err | panic
  deriving DecidableEq, Repr

/-! ### character classes -/

/-- `u8::is_ascii_whitespace`: space, tab, LF, FF, CR -/
def isWs (c : UInt8) : Bool := c == 0x20 || c == 0x09 || c == 0x0A || c == 0x0C || c == 0x0D
def isDigit (c : UInt8) : Bool := 48 ≤ c && c ≤ 57
def isAlpha (c : UInt8) : Bool := (65 ≤ c && c ≤ 90) || (97 ≤ c && c ≤ 122)
def isAlnum (c : UInt8) : Bool := isAlpha c || isDigit c
def isHexDigit (c : UInt8) : Bool := isDigit c || (65 ≤ c && c ≤ 70) || (97 ≤ c && c ≤ 102)
/-- `is_identchar`: alphanumeric, `.`, `[`, `]`, `_` -/
def isIdentChar (c : UInt8) : Bool := isAlnum c || c == 46 || c == 91 || c == 93 || c == 95
/-- `is_pathchar`: identchar, `\`, `/` -/
def isPathChar (c : UInt8) : Bool := isIdentChar c || c == 92 || c == 47
/-- `is_numchar`: hex digit, `x`, `X`, `.`, `+`, `-` -/
def isNumChar (c : UInt8) : Bool :=
  isHexDigit c || c == 120 || c == 88 || c == 46 || c == 43 || c == 45
def notSlash (c : UInt8) : Bool := c != 47
def notNewline (c : UInt8) : Bool := c != 10

/-! ### slices -/

/-- `&filebytes[a..e]`: panics unless `a ≤ e ≤ len` -/
def slice (b : Bytes) (a e : Nat) : Out Bytes :=
  if a ≤ e ∧ e ≤ b.size then .ok (b.extract a e) else .panic

/-- `count_newlines(&filebytes[a..e])` -/
def countNewlines (b : Bytes) (a e : Nat) : Out Nat :=
  match slice b a e with
  | .panic => .panic
  | .ok s => .ok (s.foldl (fun n c => n + (if c == 10 then 1 else 0)) 0)

/-- does `pat` occur in `b` at `pos` -/
def matchAt (b : Bytes) : Nat → List UInt8 → Bool
  | _, [] => true
  | pos, c :: cs => b[pos]? == some c && matchAt b (pos + 1) cs

/-- `filebytes[pos..].starts_with(pat)`: the slice panics unless `pos ≤ len` -/
def startsWith (b : Bytes) (pos : Nat) (pat : List UInt8) : Out Bool :=
  if pos ≤ b.size then .ok (matchAt b pos pat) else .panic

def kwBegin : List UInt8 := [98, 101, 103, 105, 110]
def kwEnd : List UInt8 := [101, 110, 100]
def kwInclude : List UInt8 := [105, 110, 99, 108, 117, 100, 101]
def kwSlashSlash : List UInt8 := [47, 47]
def kwSlashStar : List UInt8 := [47, 42]
def kwSlashEnd : List UInt8 := [47, 101, 110, 100]
def tagA2ml : Bytes := #[65, 50, 77, 76]

/-! ### scanning loops -/

/-- `while pos < datalen && p(filebytes[pos]) { pos += 1 }` -/
def skipWhile (b : Bytes) (p : UInt8 → Bool) (pos : Nat) : Nat :=
  if h : pos < b.size then
    if p b[pos] then skipWhile b p (pos + 1) else pos
  else pos
termination_by b.size - pos

theorem skipWhile_ge (b : Bytes) (p) (pos : Nat) : pos ≤ skipWhile b p pos := by
  fun_induction skipWhile b p pos <;> omega

/-- `while comment_start > 0 && filebytes[comment_start - 1] == b' ' { comment_start -= 1 }` -/
def commentStart (b : Bytes) : Nat → Out Nat
  | 0 => .ok 0
  | p + 1 =>
    match b[p]? with
    | none => .panic
    | some c => if c == 32 then commentStart b p else .ok (p + 1)

/-- loop of `find_block_comment_end`:
    `while bytepos < datalen && !(filebytes[bytepos - 1] == b'*' && filebytes[bytepos] == b'/') { bytepos += 1 }` -/
def commentLoop (b : Bytes) (pos : Nat) : Out Nat :=
  if h : pos < b.size then
    if pos = 0 then .panic                       -- `bytepos - 1` underflows
    else
      match b[pos - 1]? with
      | none => .panic
      | some prev =>
        if prev == 42 && b[pos] == 47 then .ok pos else commentLoop b (pos + 1)
  else .ok pos
termination_by b.size - pos

/-- `find_block_comment_end` -/
def findBlockCommentEnd (b : Bytes) (pos : Nat) : R Nat :=
  match commentLoop b (pos + 1) with
  | .panic => .panic
  | .ok p => if p ≥ b.size then .err else .ok (p + 1)

/-- loop of `find_string_end`; returns `(bytepos, end_found, prev_quote)` -/
def stringLoop (b : Bytes) (pos : Nat) (endFound prevQuote prevBk : Bool) : Nat × Bool × Bool :=
  if h : pos < b.size ∧ endFound = false then
    if b[pos] == 34 then
      stringLoop b (pos + 1) endFound (!(prevQuote || prevBk)) false
    else if prevQuote then
      stringLoop b (pos + 1) true false prevBk
    else if b[pos] == 92 then
      if prevBk then stringLoop b (pos + 1) endFound false false
      else stringLoop b (pos + 1) endFound false true
    else stringLoop b (pos + 1) endFound false false
  else (pos, endFound, prevQuote)
termination_by b.size - pos

/-- `find_string_end` -/
def findStringEnd (b : Bytes) (pos : Nat) : R Nat :=
  match stringLoop b pos false false false with
  | (p, endFound, prevQuote) =>
    if p = b.size ∧ endFound = false then
      if prevQuote then .ok p                   -- `bytepos += 1; bytepos -= 1`
      else .err
    else
      if p = 0 then .panic                      -- `bytepos -= 1` underflows
      else .ok (p - 1)

/-! ### handle_a2ml -/

/-- block comment inside A2ML:
    `while bytepos < (datalen - 1) && !(filebytes[bytepos] == b'*' && filebytes[bytepos + 1] == b'/') { bytepos += 1 }` -/
def a2mlBlockLoop (b : Bytes) (pos : Nat) : Out Nat :=
  if pos < b.size - 1 then
    match b[pos]?, b[pos + 1]? with
    | some c0, some c1 => if c0 == 42 && c1 == 47 then .ok pos else a2mlBlockLoop b (pos + 1)
    | _, _ => .panic
  else .ok pos
termination_by b.size - pos

theorem a2mlBlockLoop_ge (b : Bytes) (pos q : Nat) (h : a2mlBlockLoop b pos = .ok q) : pos ≤ q := by
  fun_induction a2mlBlockLoop b pos <;> simp_all <;> omega

/-- the `while !done && bytepos < datalen` loop of `handle_a2ml`; returns the final `bytepos` -/
def a2mlLoop (b : Bytes) (pos : Nat) : Out Nat :=
  if _h : pos < b.size then
    let p1 := skipWhile b notSlash pos
    match startsWith b p1 kwSlashSlash with
    | .panic => .panic
    | .ok true =>
      a2mlLoop b (skipWhile b notNewline (p1 + 2))
    | .ok false =>
      match startsWith b p1 kwSlashStar with
      | .panic => .panic
      | .ok true =>
        if b.size = 0 then .panic                        -- `datalen - 1` underflows
        else
          match h2 : a2mlBlockLoop b (p1 + 2) with
          | .panic => .panic
          | .ok p2 =>
            a2mlLoop b (if p2 + 2 > b.size then b.size else p2 + 2)
      | .ok false =>
        match startsWith b p1 kwSlashEnd with
        | .panic => .panic
        | .ok true => .ok p1                             -- done = true
        | .ok false =>
          if p1 < b.size then a2mlLoop b (p1 + 1)        -- solitary '/'
          else .ok p1                                    -- loop test `bytepos < datalen` fails
  else .ok pos
termination_by b.size - pos
decreasing_by
  · have := skipWhile_ge b notSlash pos
    have := skipWhile_ge b notNewline (skipWhile b notSlash pos + 2)
    omega
  · have := skipWhile_ge b notSlash pos
    have := a2mlBlockLoop_ge b _ _ h2
    split <;> omega
  · have := skipWhile_ge b notSlash pos
    omega

/-- trailing trim:
    `while bytepos > startpos && ws(filebytes[bytepos - 1]) && filebytes[bytepos - 1] != b'\r'
       && filebytes[bytepos - 1] != b'\n' { bytepos -= 1 }` -/
def trimLoop (b : Bytes) (startpos : Nat) (bytepos : Nat) : Out Nat :=
  if bytepos > startpos then
    match b[bytepos - 1]? with
    | none => .panic
    | some c =>
      if isWs c && c != 13 && c != 10 then trimLoop b startpos (bytepos - 1) else .ok bytepos
  else .ok bytepos
termination_by bytepos

/-- the two `if`s after the trim loop -/
def trimNewline (b : Bytes) (startpos : Nat) (bytepos : Nat) : Out Nat :=
  if bytepos > startpos then
    match b[bytepos - 1]? with
    | none => .panic
    | some c =>
      if c == 13 && c == 10 then                         -- sic: `== b'\r' && == b'\n'`
        if bytepos < 2 then .panic else .ok (bytepos - 2)
      else if c == 10 then .ok (bytepos - 1)
      else .ok bytepos
  else .ok bytepos

/-- the body of `if tag == "A2ML" { … }` -/
def a2mlBody (b : Bytes) (startpos : Nat) : Out Nat :=
  match a2mlLoop b startpos with
  | .panic => .panic
  | .ok p =>
    match trimLoop b startpos p with
    | .panic => .panic
    | .ok p => trimNewline b startpos p

/-- `handle_a2ml`; returns `(bytepos, line, tokens)` -/
def handleA2ml (b : Bytes) (bytepos line : Nat) (tokens : Array Token) : Out (Nat × Nat × Array Token) :=
  let tokcount := tokens.size
  if tokcount ≥ 2 then
    match tokens[tokcount - 2]? with
    | none => .panic
    | some t2 =>
      if t2.ttype = .begin then
        let startpos := bytepos
        match tokens[tokcount - 1]? with
        | none => .panic
        | some t1 =>
          match slice b t1.startpos t1.endpos with       -- `&filedata[t1.startpos..t1.endpos]`
          | .panic => .panic
          | .ok tag =>
            match (if tag == tagA2ml then a2mlBody b startpos else .ok bytepos) with
            | .panic => .panic
            | .ok bytepos =>
              if bytepos > startpos then
                match countNewlines b startpos bytepos with
                | .panic => .panic
                | .ok n =>
                  .ok (bytepos, line + n,
                    tokens.push { ttype := .string, startpos := startpos, endpos := bytepos, line := line })
              else .ok (bytepos, line, tokens)
      else .ok (bytepos, line, tokens)
  else .ok (bytepos, line, tokens)

/-! ### tokenize_core -/

structure State where
  tokens : Array Token
  bytepos : Nat
  separated : Bool
  line : Nat
  deriving Repr

/-- outcome of one iteration of the main loop -/
inductive StepRes where
  | cont (s : State)
  | err (kind : ErrKind) (line : Nat)
  | panic

/-- the `else { return Err(InvalidA2lToken) }` arms (the error text slices `filebytes[startpos..endpos]`) -/
def invalidToken (b : Bytes) (startpos line : Nat) : StepRes :=
  let endpos := if startpos + 10 < b.size then startpos + 10 else b.size
  match slice b startpos endpos with
  | .panic => .panic
  | .ok _ => .err .InvalidA2lToken line

/-- `/begin`, `/end`, `/include` -/
def stepKeyword (s : State) (startpos bytepos : Nat) (len : Nat) (tt : TokType) : StepRes :=
  if s.separated = false then .err .MissingWhitespace s.line
  else
    let bytepos := bytepos + len
    .cont { tokens := s.tokens.push { ttype := tt, startpos := startpos, endpos := bytepos, line := s.line },
            bytepos := bytepos, separated := false, line := s.line }

/-- the arm `filebytes[bytepos] == b'/' && bytepos + 1 < datalen` -/
def stepSlash (b : Bytes) (s : State) : StepRes :=
  let startpos := s.bytepos
  let bytepos := s.bytepos + 1
  match b[bytepos]? with
  | none => .panic
  | some c1 =>
    if c1 == 42 then
      -- block comment
      match findBlockCommentEnd b (bytepos + 1) with
      | .panic => .panic
      | .err => .err .UnclosedComment s.line
      | .ok bytepos =>
        match commentStart b startpos with
        | .panic => .panic
        | .ok cs =>
          match countNewlines b startpos bytepos with
          | .panic => .panic
          | .ok n =>
            .cont { tokens := s.tokens.push { ttype := .comment, startpos := cs, endpos := bytepos, line := s.line },
                    bytepos := bytepos, separated := true, line := s.line + n }
    else if c1 == 47 then
      -- line comment
      match commentStart b startpos with
      | .panic => .panic
      | .ok cs =>
        let bytepos := skipWhile b notNewline bytepos
        .cont { tokens := s.tokens.push { ttype := .comment, startpos := cs, endpos := bytepos, line := s.line },
                bytepos := bytepos, separated := true, line := s.line }
    else
      match startsWith b bytepos kwBegin with
      | .panic => .panic
      | .ok true => stepKeyword s startpos bytepos 5 .begin
      | .ok false =>
        match startsWith b bytepos kwEnd with
        | .panic => .panic
        | .ok true => stepKeyword s startpos bytepos 3 .end_
        | .ok false =>
          match startsWith b bytepos kwInclude with
          | .panic => .panic
          | .ok true => stepKeyword s startpos bytepos 7 .include
          | .ok false => invalidToken b startpos s.line

/-- the arm `filebytes[bytepos] == b'"'` -/
def stepString (b : Bytes) (s : State) : StepRes :=
  let startpos := s.bytepos
  if s.separated = false then .err .MissingWhitespace s.line
  else
    match findStringEnd b (s.bytepos + 1) with
    | .panic => .panic
    | .err => .err .UnclosedString s.line
    | .ok bytepos =>
      match countNewlines b startpos bytepos with
      | .panic => .panic
      | .ok n =>
        let line := s.line + n
        .cont { tokens := s.tokens.push { ttype := .string, startpos := startpos, endpos := bytepos, line := line },
                bytepos := bytepos, separated := false, line := line }

/-- the "file path" arm (identifier after `/include`) -/
def stepPath (b : Bytes) (s : State) : StepRes :=
  let startpos := s.bytepos
  if s.separated = false then .err .MissingWhitespace s.line
  else
    let bytepos := skipWhile b isPathChar s.bytepos
    .cont { tokens := s.tokens.push { ttype := .identifier, startpos := startpos, endpos := bytepos, line := s.line },
            bytepos := bytepos, separated := false, line := s.line }

/-- the identifier arm, including the call of `handle_a2ml` -/
def stepIdent (b : Bytes) (s : State) : StepRes :=
  let startpos := s.bytepos
  if s.separated = false then .err .MissingWhitespace s.line
  else
    let bytepos := skipWhile b isIdentChar s.bytepos
    let tokens := s.tokens.push { ttype := .identifier, startpos := startpos, endpos := bytepos, line := s.line }
    match handleA2ml b bytepos s.line tokens with
    | .panic => .panic
    | .ok (newBytepos, newLine, tokens) =>
      .cont { tokens := tokens, bytepos := newBytepos,
              separated := if bytepos ≠ newBytepos then true else false, line := newLine }

/-- the number arm, case `bytepos == datalen || !is_identchar(filebytes[bytepos])`: a numerical constant -/
def stepNumberTok (b : Bytes) (s : State) (bytepos : Nat) : StepRes :=
  let startpos := s.bytepos
  match slice b startpos bytepos with
  | .panic => .panic
  | .ok number =>
    if number == #[45] || number == #[46] || number == #[48, 120] then
      .err .InvalidNumericalConstant s.line
    else
      .cont { tokens := s.tokens.push { ttype := .number, startpos := startpos, endpos := bytepos, line := s.line },
              bytepos := bytepos, separated := false, line := s.line }

/-- the number arm -/
def stepNumber (b : Bytes) (s : State) : StepRes :=
  let startpos := s.bytepos
  if s.separated = false then .err .MissingWhitespace s.line
  else
    let bytepos := skipWhile b isNumChar (s.bytepos + 1)
    let isNumber : Out Bool :=                 -- `bytepos == datalen || !is_identchar(filebytes[bytepos])`
      if bytepos = b.size then .ok true
      else match b[bytepos]? with
        | none => .panic
        | some c => .ok (!isIdentChar c)
    match isNumber with
    | .panic => .panic
    | .ok true => stepNumberTok b s bytepos
    | .ok false =>
      -- `else if bytepos < datalen && is_identchar(filebytes[bytepos])`
      if h : bytepos < b.size then
        if isIdentChar b[bytepos] then
          let bytepos := skipWhile b isIdentChar bytepos
          .cont { tokens := s.tokens.push { ttype := .identifier, startpos := startpos, endpos := bytepos, line := s.line },
                  bytepos := bytepos, separated := false, line := s.line }
        else .cont { s with bytepos := bytepos, separated := false }
      else .cont { s with bytepos := bytepos, separated := false }

/-- one iteration of `while bytepos < datalen { … }` -/
def step (b : Bytes) (s : State) : StepRes :=
  let startpos := s.bytepos
  match b[s.bytepos]? with
  | none => .panic
  | some c =>
    if isWs c then
      -- skip whitespace
      let bytepos := skipWhile b isWs s.bytepos
      match countNewlines b startpos bytepos with
      | .panic => .panic
      | .ok n => .cont { s with bytepos := bytepos, separated := true, line := s.line + n }
    else if c == 47 && s.bytepos + 1 < b.size then stepSlash b s
    else if c == 34 then stepString b s
    else
      let isPath : Out Bool :=                -- `!tokens.is_empty() && tokens.last().unwrap().ttype == Include && …`
        if s.tokens.isEmpty then .ok false
        else match s.tokens.back? with
          | none => .panic
          | some t => .ok (t.ttype = .include && !isDigit c && isIdentChar c)
      match isPath with
      | .panic => .panic
      | .ok true => stepPath b s
      | .ok false =>
        if isAlpha c || c == 95 then stepIdent b s
        else if c == 45 || isNumChar c then stepNumber b s
        else invalidToken b startpos s.line

/-- the main loop; `fuel` bounds the number of iterations (every iteration consumes a byte, see `lex_no_hang`) -/
def loop (b : Bytes) : Nat → State → Res
  | 0, _ => .hang
  | fuel + 1, s =>
    if s.bytepos < b.size then
      match step b s with
      | .panic => .panic
      | .err k l => .err k l
      | .cont s' => loop b fuel s'
    else .ok s.tokens.toList

def initState : State := { tokens := #[], bytepos := 0, separated := true, line := 1 }

/-- `tokenize_core` -/
def tokenize (b : Bytes) : Res := loop b (b.size + 1) initState

end A2l.Lex
