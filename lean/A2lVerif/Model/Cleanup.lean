import A2lVerif.Model.Basic
/-!
# Model of `a2lfile/src/cleanup.rs` and `cleanup/{groups,functions,compu_methods,record_layouts}.rs`

The model works on the *reference graph* of one MODULE: the ordered list of the module's children (`Node`), each
with its A2L keyword (`tag`), its name and the ordered list of the references it holds (`Ref` = site + target name).
A Rust `Vec<String>::retain`, an `Option` block set to `None` and an identifier overwritten with `"NO_COMPU_METHOD"`
all appear here as "the reference disappears from the node". `HashSet`/`HashMap` are lists (membership only).

Indices: the Rust code indexes `module.group` / `module.function`; the model uses the position of the node in the
whole child list instead (a monotone renaming) and guards every indexed access by the tag, which is what the Rust
types guarantee.

One function per Rust function, in the order of the Rust control flow.
-/
namespace A2l.Cl

structure Ref where
  site : String
  target : String
  deriving Repr, DecidableEq, Inhabited

structure Node where
  tag : String
  name : String
  refs : List Ref
  deriving Repr, DecidableEq, Inhabited

abbrev Module := List Node

/-- a selection of reference fields: (keyword of the module child, `Type.field` of the identifier) -/
abbrev Sel := List (String × String)

/-! ## building blocks -/

/-- `module.<list>.keys()` for the item lists of the given keywords -/
def namesOf (tags : List String) (m : Module) : List String :=
  (m.filter fun n => tags.contains n.tag).map (·.name)

/-- `retain(|x| keep(x))` on the identifier lists / "set to `None` or `NO_COMPU_METHOD` unless keep" on the single
    identifiers selected by `sel` -/
def dropRefs (sel : Sel) (keep : String → Bool) (m : Module) : Module :=
  m.map fun n => { n with refs := n.refs.filter fun r => !sel.contains (n.tag, r.site) || keep r.target }

/-- the names collected from the selected fields (`used_xyz.insert(..)` loops) -/
def targetsOf (sel : Sel) (m : Module) : List String :=
  m.flatMap fun n => (n.refs.filter fun r => sel.contains (n.tag, r.site)).map (·.target)

/-- `module.<list>.retain(|item| keep(&item.name))` for the item lists of the given keywords -/
def retainNodes (tags : List String) (keep : String → Bool) (m : Module) : Module :=
  m.filter fun n => !tags.contains n.tag || keep n.name

/-! ## the work-queue deletion shared by `groups::delete_empty_groups` and `functions::cleanup` -/

/-- what differs between the two work-queue loops -/
structure WL where
  /-- keyword of the items -/
  tag : String
  /-- the field through which items refer to each other (SUB_GROUP / SUB_FUNCTION) -/
  subSite : String
  /-- the fields looked at by `is_group_empty` / `is_function_empty` -/
  content : List String
  /-- the fields collected by `get_used_groups` / `get_used_functions` -/
  usedSel : Sel
  /-- name → index: `ItemList::index` (first item of that name, `push` uses `or_insert`) for groups,
      a freshly filled `HashMap` (last insert wins) for functions -/
  lastWins : Bool

def groupWL : WL where
  tag := "GROUP"
  subSite := "SubGroup.identifier_list"
  content := ["SubGroup.identifier_list", "RefMeasurement.identifier_list", "RefCharacteristic.identifier_list"]
  usedSel := [("USER_RIGHTS", "RefGroup.identifier_list")]
  lastWins := false

def functionWL : WL where
  tag := "FUNCTION"
  subSite := "SubFunction.identifier_list"
  content := ["RefCharacteristic.identifier_list", "DefCharacteristic.identifier_list",
    "InMeasurement.identifier_list", "LocMeasurement.identifier_list", "OutMeasurement.identifier_list",
    "SubFunction.identifier_list"]
  usedSel := [("AXIS_PTS", "FunctionList.name_list"), ("CHARACTERISTIC", "FunctionList.name_list"),
    ("MEASUREMENT", "FunctionList.name_list"), ("GROUP", "FunctionList.name_list")]
  lastWins := true

/-- positions of the items with this name -/
def idxsOf (c : WL) (m : Module) (name : String) : List Nat :=
  (m.zipIdx.filter fun p => p.1.tag == c.tag && p.1.name == name).map (·.2)

/-- `module.group.index(name)` / `name2idx.get(name)` -/
def indexOf (c : WL) (m : Module) (name : String) : Option Nat :=
  if c.lastWins then (idxsOf c m name).getLast? else (idxsOf c m name).head?

/-- `is_group_empty` / `is_function_empty` -/
def isEmpty (c : WL) (n : Node) : Bool := n.refs.all fun r => !c.content.contains r.site

/-- `!used.contains(&item.name) && is_empty(item)` (for an item of the list) -/
def queueable (c : WL) (used : List String) (n : Node) : Bool :=
  n.tag == c.tag && !used.contains n.name && isEmpty c n

/-- `user_of[d]`: for idx ascending, for every entry of the sub list of item idx that resolves to index `d`: `idx` -/
def userOf (c : WL) (init : Module) (d : Nat) : List Nat :=
  init.zipIdx.flatMap fun p =>
    if p.1.tag == c.tag then
      (p.1.refs.filter fun r => r.site == c.subSite && indexOf c init r.target == some d).map fun _ => p.2
    else []

/-- `sg.identifier_list.retain(|item| *item != name); if empty { sub = None }` -/
def removeSub (c : WL) (name : String) (n : Node) : Node :=
  if n.tag == c.tag then { n with refs := n.refs.filter fun r => !(r.site == c.subSite && r.target == name) } else n

/-- body of `for refidx in &user_of[del_idx]`; the state is (items, delete_queue), the queue's head is the top of
    the Rust `Vec` stack (`push` = cons, `pop` = head) -/
def stepUser (c : WL) (used : List String) (name : String) (st : Module × List Nat) (refidx : Nat) :
    Module × List Nat :=
  let m' := st.1.modify refidx (removeSub c name)
  match m'[refidx]? with
  | some n => if queueable c used n then (m', refidx :: st.2) else (m', st.2)
  | none => (m', st.2)

/-- `while let Some(del_idx) = delete_queue.pop() { .. }`. Result: items, the indices flagged in `to_delete` (one
    entry per pop), and whether the queue was drained (false = fuel exhausted, the current state is returned;
    this never happens with `fuel`: `Lemmas/CleanupTerm.lean`, `drained_true`). -/
def loop (c : WL) (used : List String) (init : Module) : Nat → Module → List Nat → List Nat → Module × List Nat × Bool
  | 0, m, q, dels => (m, dels, q.isEmpty)
  | _ + 1, m, [], dels => (m, dels, true)
  | fuel + 1, m, d :: q, dels =>
    let name := match m[d]? with
      | some n => n.name
      | none => ""
    let st := (userOf c init d).foldl (stepUser c used name) (m, q)
    loop c used init fuel st.1 st.2 (d :: dels)

/-- `let mut del_iter = to_delete.iter(); list.retain(|_| !del_iter.next().unwrap())` -/
def dropIdx (c : WL) (dels : List Nat) (m : Module) : Module :=
  (m.zipIdx.filter fun p => !(p.1.tag == c.tag && dels.contains p.2)).map (·.1)

/-- the initial `delete_queue` (pushed for idx ascending, so the top of the stack is the largest index) -/
def initQueue (c : WL) (used : List String) (m : Module) : List Nat :=
  ((m.zipIdx.filter fun p => queueable c used p.1).map (·.2)).reverse

/-- number of references -/
def refCount (m : Module) : Nat := (m.map fun n => n.refs.length).sum

/-- Fuel for `loop`. The queue may hold an index several times (a sub list naming the same item twice pushes its
    owner twice), and every pop of an empty item pushes its empty owners again: the number of pops can be
    exponential in the length of a chain of items (`work_queue_pops_exponential`). It never exceeds this bound
    (`Lemmas/CleanupTerm.lean`: `drained_true`), so the fuel is never exhausted. -/
def fuel (m : Module) : Nat := m.length * (refCount m + 2) ^ m.length + 1

def runLoop (c : WL) (m : Module) : Module × List Nat × Bool :=
  let used := targetsOf c.usedSel m
  loop c used m (fuel m) m (initQueue c used m) []

/-- `delete_empty_groups` / the second half of `functions::cleanup` -/
def deleteEmpty (c : WL) (m : Module) : Module :=
  let r := runLoop c m
  dropIdx c r.2.1 r.1

/-- was the work queue drained (always: `drained_true`; the Rust loop has no bound) -/
def drained (c : WL) (m : Module) : Bool := (runLoop c m).2.2

/-! ## groups.rs -/

def groupObjTags : List String := ["CHARACTERISTIC", "MEASUREMENT", "BLOB", "INSTANCE"]
def groupRefSel : Sel :=
  [("GROUP", "RefCharacteristic.identifier_list"), ("GROUP", "RefMeasurement.identifier_list")]

/-- `remove_invalid_object_references` with `build_refname_set` -/
def removeInvalidObjectReferences (m : Module) : Module :=
  let refnames := namesOf groupObjTags m
  dropRefs groupRefSel (fun t => refnames.contains t) m

/-- `groups::cleanup` -/
def cleanupGroups (m : Module) : Module := deleteEmpty groupWL (removeInvalidObjectReferences m)

/-! ## functions.rs -/

def funcRefSel : Sel :=
  [("AXIS_PTS", "FunctionList.name_list"), ("CHARACTERISTIC", "FunctionList.name_list"),
   ("MEASUREMENT", "FunctionList.name_list"), ("GROUP", "FunctionList.name_list"),
   ("FUNCTION", "SubFunction.identifier_list")]

/-- `remove_broken_func_refs` -/
def removeBrokenFuncRefs (m : Module) : Module :=
  let existing := namesOf ["FUNCTION"] m
  dropRefs funcRefSel (fun t => existing.contains t) m

/-- `Module::objects()` -/
def objectTags : List String := ["AXIS_PTS", "BLOB", "CHARACTERISTIC", "INSTANCE", "MEASUREMENT"]
def funcObjSel : Sel :=
  [("FUNCTION", "RefCharacteristic.identifier_list"), ("FUNCTION", "DefCharacteristic.identifier_list"),
   ("FUNCTION", "InMeasurement.identifier_list"), ("FUNCTION", "LocMeasurement.identifier_list"),
   ("FUNCTION", "OutMeasurement.identifier_list")]

/-- `remove_broken_object_refs` -/
def removeBrokenObjectRefs (m : Module) : Module :=
  let objects := namesOf objectTags m
  dropRefs funcObjSel (fun t => objects.contains t) m

/-- `functions::cleanup` -/
def cleanupFunctions (m : Module) : Module :=
  deleteEmpty functionWL (removeBrokenObjectRefs (removeBrokenFuncRefs m))

/-! ## compu_methods.rs -/

def convRepairSel : Sel :=
  [("AXIS_PTS", "AxisPts.conversion"),
   ("CHARACTERISTIC", "AxisDescr.conversion"), ("CHARACTERISTIC", "Characteristic.conversion"),
   ("MEASUREMENT", "Measurement.conversion"),
   ("TYPEDEF_AXIS", "TypedefAxis.conversion"),
   ("TYPEDEF_CHARACTERISTIC", "AxisDescr.conversion"), ("TYPEDEF_CHARACTERISTIC", "TypedefCharacteristic.conversion"),
   ("TYPEDEF_MEASUREMENT", "TypedefMeasurement.conversion")]

/-- `remove_invalid_compumethod_refs` -/
def removeInvalidCompumethodRefs (m : Module) : Module :=
  let existing := namesOf ["COMPU_METHOD"] m
  dropRefs convRepairSel (fun t => existing.contains t) m

def convUseSel : Sel := convRepairSel ++ [("INSTANCE", "Conversion.name")]

/-- `remove_unused_compumethods` -/
def removeUnusedCompumethods (m : Module) : Module :=
  let used := targetsOf convUseSel m
  retainNodes ["COMPU_METHOD"] (fun t => used.contains t) m

def tabTags : List String := ["COMPU_TAB", "COMPU_VTAB", "COMPU_VTAB_RANGE"]
def tabUseSel : Sel :=
  [("COMPU_METHOD", "CompuTabRef.conversion_table"), ("COMPU_METHOD", "StatusStringRef.conversion_table")]
def unitUseSel : Sel := [("COMPU_METHOD", "RefUnit.unit")]

/-- one round of `for unit in &module.unit { if used.contains(name) { if let Some(r) = ref_unit { changed |= insert } } }` -/
def unitRound (m : Module) (used : List String) : List String × Bool :=
  m.foldl (fun st n =>
    if n.tag == "UNIT" && st.1.contains n.name then
      (n.refs.filter fun r => r.site == "RefUnit.unit").foldl
        (fun st r => if st.1.contains r.target then st else (r.target :: st.1, true)) st
    else st) (used, false)

/-- `while changed { .. }` -/
def unitClosure (m : Module) : Nat → List String → List String
  | 0, used => used
  | fuel + 1, used =>
    let r := unitRound m used
    if r.2 then unitClosure m fuel r.1 else r.1

/-- `remove_unused_sub_elements` -/
def removeUnusedSubElements (m : Module) : Module :=
  let usedTabs := targetsOf tabUseSel m
  let usedUnits := targetsOf unitUseSel m
  let m1 := retainNodes tabTags (fun t => usedTabs.contains t) m
  let usedUnits := unitClosure m1 (refCount m1 + 1) usedUnits
  retainNodes ["UNIT"] (fun t => usedUnits.contains t) m1

/-- `remove_invalid_sub_element_refs` -/
def removeInvalidSubElementRefs (m : Module) : Module :=
  let existingTabs := namesOf tabTags m
  let units := namesOf ["UNIT"] m
  dropRefs [("COMPU_METHOD", "RefUnit.unit")] (fun t => units.contains t)
    (dropRefs [("COMPU_METHOD", "CompuTabRef.conversion_table")] (fun t => existingTabs.contains t) m)

/-- `compu_methods::cleanup` -/
def cleanupCompuMethods (m : Module) : Module :=
  removeInvalidSubElementRefs (removeUnusedSubElements (removeUnusedCompumethods (removeInvalidCompumethodRefs m)))

/-! ## record_layouts.rs -/

def layoutUseSel : Sel :=
  [("AXIS_PTS", "AxisPts.deposit_record"), ("CHARACTERISTIC", "Characteristic.deposit"),
   ("TYPEDEF_CHARACTERISTIC", "TypedefCharacteristic.record_layout"), ("TYPEDEF_AXIS", "TypedefAxis.record_layout"),
   ("MOD_COMMON", "SRecLayout.name")]

/-- `record_layouts::cleanup` -/
def cleanupRecordLayouts (m : Module) : Module :=
  let used := targetsOf layoutUseSel m
  retainNodes ["RECORD_LAYOUT"] (fun t => used.contains t) m

/-! ## cleanup.rs -/

/-- `cleanup` for one module: groups, functions, compu_methods, record_layouts -/
def cleanup (m : Module) : Module :=
  cleanupRecordLayouts (cleanupCompuMethods (cleanupFunctions (cleanupGroups m)))

/-- both work queues were drained (always: `queuesDrained_true`) -/
def queuesDrained (m : Module) : Bool :=
  drained groupWL (removeInvalidObjectReferences m) &&
  drained functionWL (removeBrokenObjectRefs (removeBrokenFuncRefs (cleanupGroups m)))

/-! ## specification vocabulary (executable, so that the driver can evaluate it on the recorded inputs) -/

/-- name spaces of the module children -/
inductive Ns where
  | object | typedef | convTab | compuMethod | unit | recordLayout | function | group | transformer | frame
  deriving DecidableEq, Repr

/-- the keywords sharing one name space -/
def Ns.tags : Ns → List String
  | .object => ["AXIS_PTS", "BLOB", "CHARACTERISTIC", "INSTANCE", "MEASUREMENT"]
  | .typedef => ["TYPEDEF_AXIS", "TYPEDEF_BLOB", "TYPEDEF_CHARACTERISTIC", "TYPEDEF_MEASUREMENT", "TYPEDEF_STRUCTURE"]
  | .convTab => ["COMPU_TAB", "COMPU_VTAB", "COMPU_VTAB_RANGE"]
  | .compuMethod => ["COMPU_METHOD"]
  | .unit => ["UNIT"]
  | .recordLayout => ["RECORD_LAYOUT"]
  | .function => ["FUNCTION"]
  | .group => ["GROUP"]
  | .transformer => ["TRANSFORMER"]
  | .frame => ["FRAME"]

/-- the keywords of the children that `cleanup` may delete -/
def helperTags : List String :=
  ["GROUP", "FUNCTION", "COMPU_METHOD", "COMPU_TAB", "COMPU_VTAB", "COMPU_VTAB_RANGE", "UNIT", "RECORD_LAYOUT"]

/-- target name space of a reference field; `none`: the target is not a module child (MEMORY_SEGMENT inside
    MOD_PAR, VAR_CRITERION inside VARIANT_CODING) or the field is unknown -/
def siteNs (site : String) : Option Ns :=
  if site ∈ ["AxisPts.conversion", "AxisDescr.conversion", "Characteristic.conversion", "Measurement.conversion",
      "TypedefAxis.conversion", "TypedefCharacteristic.conversion", "TypedefMeasurement.conversion",
      "Conversion.name"] then some .compuMethod
  else if site ∈ ["CompuTabRef.conversion_table", "StatusStringRef.conversion_table"] then some .convTab
  else if site = "RefUnit.unit" then some .unit
  else if site ∈ ["AxisPts.deposit_record", "Characteristic.deposit", "TypedefCharacteristic.record_layout",
      "TypedefAxis.record_layout", "SRecLayout.name"] then some .recordLayout
  else if site ∈ ["FunctionList.name_list", "SubFunction.identifier_list"] then some .function
  else if site ∈ ["SubGroup.identifier_list", "RefGroup.identifier_list"] then some .group
  else if site ∈ ["Instance.type_ref", "StructureComponent.component_type"] then some .typedef
  else if site = "Transformer.inverse_transformer" then some .transformer
  else if site ∈ ["AxisPts.input_quantity", "AxisDescr.input_quantity", "TypedefAxis.input_quantity",
      "InputQuantity.name", "AxisPtsRef.axis_points", "CurveAxisRef.curve_axis", "ComparisonQuantity.name",
      "DependentCharacteristic.characteristic_list", "VirtualCharacteristic.characteristic_list",
      "MapList.name_list", "Virtual.measuring_channel_list", "FrameMeasurement.identifier_list",
      "RefCharacteristic.identifier_list", "RefMeasurement.identifier_list", "DefCharacteristic.identifier_list",
      "InMeasurement.identifier_list", "LocMeasurement.identifier_list", "OutMeasurement.identifier_list",
      "TransformerInObjects.identifier_list", "TransformerOutObjects.identifier_list",
      "VarCharacteristic.name", "VarMeasurement.name", "VarSelectionCharacteristic.name"] then some .object
  else none

/-- for the name spaces of deletable children: the fields (with the keyword of the child holding them) through
    which the A2L grammar lets such a child be referenced — exactly the fields `cleanup` looks at -/
def refSel : Ns → Option Sel
  | .group => some (("GROUP", "SubGroup.identifier_list") :: groupWL.usedSel)
  | .function => some funcRefSel
  | .compuMethod => some convUseSel
  | .convTab => some tabUseSel
  | .unit => some [("COMPU_METHOD", "RefUnit.unit"), ("UNIT", "RefUnit.unit")]
  | .recordLayout => some layoutUseSel
  | _ => none

/-- a reference to a deletable child sits in a field where the grammar allows it -/
def siteOk (tag site : String) : Bool :=
  match siteNs site with
  | some ns => match refSel ns with
    | some sel => sel.contains (tag, site)
    | none => true
  | none => true

/-- every reference to a deletable child sits where the grammar allows it -/
def wellSited (m : Module) : Bool := m.all fun n => n.refs.all fun r => siteOk n.tag r.site

/-- the module has a child with this keyword and name -/
def defines (m : Module) (tag name : String) : Bool := m.any fun n => n.tag == tag && n.name == name

/-- the reference's target exists in the target name space -/
def resolves (m : Module) (r : Ref) : Bool :=
  match siteNs r.site with
  | some ns => (namesOf ns.tags m).contains r.target
  | none => true

/-- no dangling reference -/
def consistent (m : Module) : Bool := m.all fun n => n.refs.all fun r => resolves m r

end A2l.Cl
