import A2lVerif.Model.Basic
import A2lVerif.Model.Scalars
/-!
# The A2ML definition parser (`a2ml.rs`: `tokenize_a2ml`, `parse_a2ml` and the functions below it)

Executable model, one function per Rust function. The text is a `List Char` (the Rust code scans bytes; every byte
it compares with is ASCII, a byte of a multi-byte character never equals one of them, so scanning characters gives
the same token boundaries). Error messages are not modelled: `err` stands for every `Err(String)`.

Not modelled: `/include` inside A2ML needs the file system; the model answers `err` (which is what the Rust code
returns when the file cannot be read). The second component of the result of `parse_a2ml` (the text with the includes
merged in) is therefore always the input text and is left out.

The nesting limit (`MAX_NESTING_DEPTH`, `spec_depth`, `check_nesting`; the parameter `depth` of `parse_aml_*`) is
modelled check by check, in the order of the Rust code: `maxNestingDepth`, `specDepth`, `checkNesting`, `depth`.

Hash maps (`HashMap<String, _>`) are association lists without duplicate keys (`insert` replaces). The code only
uses `insert`, `get` and (in the dump hook) iteration in sorted key order, none of which observes the hash order.
-/
namespace A2l.Aml
open A2l.Sc

/-! ## tokens -/

/-- `TokenType` -/
inductive ATok where
  | semicolon | comma | ocurly | ccurly | osquare | csquare | oround | cround | repeat_ | equals
  | kchar | kint | klong | kint64 | kuchar | kuint | kulong | kuint64 | kdouble | kfloat
  | kblock | kenum | kstruct | ktaggedstruct | ktaggedunion
  | constant (v : Int)
  | ident (s : List Char)
  | tag (s : List Char)
  deriving Repr, DecidableEq, Inhabited

inductive TRes where
  | ok (toks : List ATok)
  | err
  | fuel
  deriving Repr, DecidableEq, Inhabited

/-- `u8::is_ascii_whitespace`: space, tab, line feed, form feed, carriage return -/
def isWs (c : Char) : Bool := c = ' ' || c = '\t' || c = '\n' || c = '\x0c' || c = '\r'

/-- `is_ascii_alphanumeric() || c == b'_'` -/
def isWord (c : Char) : Bool := c.isAlphanum || c = '_'

/-- the scan for the closing `*/` of a block comment; the argument starts just behind the opening `/*`.
    `none` = "unclosed block quote" -/
def skipBlock : List Char → Option (List Char)
  | [] => none
  | c :: rest =>
    match rest with
    | [] => none
    | d :: rest' => if c = '*' ∧ d = '/' then some rest' else skipBlock rest

/-- a line comment: everything up to and including the next line feed -/
def skipLine : List Char → List Char
  | [] => []
  | c :: rest => if c = '\n' then rest else skipLine rest

/-- `tokenize_tag` behind the opening quote: the text up to the next `"`, and what follows the closing quote -/
def takeTag : List Char → Option (List Char × List Char)
  | [] => none
  | c :: rest =>
    if c = '"' then some ([], rest)
    else match takeTag rest with
      | some (t, r) => some (c :: t, r)
      | none => none

/-- the maximal prefix of word characters and the rest -/
def spanWord : List Char → List Char × List Char
  | [] => ([], [])
  | c :: rest =>
    if isWord c then let (w, r) := spanWord rest; (c :: w, r) else ([], c :: rest)

/-- `tokenize_number` on the word: `0x` + `i32::from_str_radix(_, 16)`, or `str::parse::<i32>` -/
def number (w : List Char) : Option Int :=
  match w with
  | '0' :: 'x' :: hex =>
    match hexDigits hex with
    | some n => if n < 2 ^ 31 then some n else none
    | none => none
  | _ =>
    match decDigits w with
    | some n => if n < 2 ^ 31 then some n else none
    | none => none

/-- `tokenize_keyword_ident` on the word -/
def keyword (w : List Char) : ATok :=
  if w = "char".toList then .kchar
  else if w = "int".toList then .kint
  else if w = "long".toList then .klong
  else if w = "int64".toList then .kint64
  else if w = "uint".toList then .kuint
  else if w = "uchar".toList then .kuchar
  else if w = "ulong".toList then .kulong
  else if w = "uint64".toList then .kuint64
  else if w = "double".toList then .kdouble
  else if w = "float".toList then .kfloat
  else if w = "block".toList then .kblock
  else if w = "enum".toList then .kenum
  else if w = "struct".toList then .kstruct
  else if w = "taggedstruct".toList then .ktaggedstruct
  else if w = "taggedunion".toList then .ktaggedunion
  else .ident w

def single (c : Char) : Option ATok :=
  if c = ';' then some .semicolon
  else if c = ',' then some .comma
  else if c = '{' then some .ocurly
  else if c = '}' then some .ccurly
  else if c = '[' then some .osquare
  else if c = ']' then some .csquare
  else if c = '(' then some .oround
  else if c = ')' then some .cround
  else if c = '*' then some .repeat_
  else if c = '=' then some .equals
  else none

def startsWith (p : List Char) (cs : List Char) : Bool := cs.take p.length == p

/-- the `while bytepos < datalen` loop of `tokenize_a2ml`; `acc` is the token vector, newest first -/
def tokAux : Nat → List Char → List ATok → TRes
  | 0, _, _ => .fuel
  | _ + 1, [], acc => .ok acc.reverse
  | fuel + 1, c :: rest, acc =>
    if isWs c then tokAux fuel rest acc
    else if c = '/' ∧ rest.head? = some '*' then
      match skipBlock (rest.drop 1) with
      | none => .err
      | some r => tokAux fuel r acc
    else if c = '/' ∧ rest.head? = some '/' then tokAux fuel (skipLine rest) acc
    else if startsWith "/include".toList (c :: rest) then .err       -- file access: not modelled
    else if c = '"' then
      match takeTag rest with
      | none => .err
      | some (t, r) => tokAux fuel r (.tag t :: acc)
    else match single c with
      | some t => tokAux fuel rest (t :: acc)
      | none =>
        if c.isDigit then
          let (w, r) := spanWord rest
          match number (c :: w) with
          | some n => tokAux fuel r (.constant n :: acc)
          | none => .err
        else if c.isAlpha || c = '_' then
          let (w, r) := spanWord rest
          tokAux fuel r (keyword (c :: w) :: acc)
        else .err

/-- `tokenize_a2ml` -/
def tokenize (cs : List Char) : TRes := tokAux (cs.length + 1) cs []

/-! ## the type tree -/

/-- `A2mlTaggedTypeSpec` (the key of the hash map entry is `tag`) -/
structure Tagged (α : Type) where
  tag : List Char
  item : α
  isBlock : Bool
  rep : Bool
  deriving Repr, Inhabited

/-- `A2mlTypeSpec`; the eight integer types are `int w` with `w` = 0..7 = char int long int64 uchar uint ulong uint64
    (the numbering of `Tree.intTyOf`) -/
inductive Spec where
  | none
  | int (w : Nat)
  | float
  | double
  | array (of : Spec) (dim : Nat)
  | enum (items : List (List Char × Option Int))
  | struct (items : List Spec)
  | seq (of : Spec)
  | taggedStruct (items : List (Tagged Spec))
  | taggedUnion (items : List (Tagged Spec))
  deriving Repr, Inhabited

/-- `HashMap::insert` -/
def insertKV {β : Type} (k : List Char) (v : β) (m : List (List Char × β)) : List (List Char × β) :=
  (k, v) :: m.filter (fun kv => kv.1 ≠ k)

def lookupKV {β : Type} (m : List (List Char × β)) (k : List Char) : Option β :=
  (m.find? (fun kv => kv.1 = k)).map (·.2)

def insertTagged (t : Tagged Spec) (m : List (Tagged Spec)) : List (Tagged Spec) :=
  t :: m.filter (fun x => x.tag ≠ t.tag)

def lookupTagged (m : List (Tagged Spec)) (k : List Char) : Option (Tagged Spec) :=
  m.find? (fun x => x.tag = k)

/-- `TypeSet` -/
structure TypeSet where
  enums : List (List Char × Spec) := []
  structs : List (List Char × Spec) := []
  taggedstructs : List (List Char × Spec) := []
  taggedunions : List (List Char × Spec) := []
  deriving Inhabited

/-- `Result<(T, remaining tokens), String>`, and the model-only `fuel` -/
inductive R (α : Type) where
  | ok (a : α) (rest : List ATok)
  | err
  | fuel
  deriving Inhabited

/-- `dim as usize` of an `i32` (64-bit target) -/
def dimOf (c : Int) : Nat := if c < 0 then (c + (2 ^ 64 : Nat)).toNat else c.toNat

/-! ## the nesting limit -/

/-- `MAX_NESTING_DEPTH`: how deep A2ML types may be nested (each struct, taggedstruct, taggedunion, array dimension and
    `( )*` counts as one level) -/
def maxNestingDepth : Nat := 100

mutual
/-- `spec_depth`: the number of nesting levels of a type -/
def specDepth : Spec → Nat
  | .none => 0
  | .array of _ => specDepth of + 1
  | .seq of => specDepth of + 1
  | .struct items => specDepthL items + 1
  | .taggedStruct items => specDepthT items + 1
  | .taggedUnion items => specDepthT items + 1
  | .int _ => 1
  | .float => 1
  | .double => 1
  | .enum _ => 1

/-- `items.iter().map(spec_depth).max().unwrap_or(0)` -/
def specDepthL : List Spec → Nat
  | [] => 0
  | s :: rest => max (specDepth s) (specDepthL rest)

/-- `items.values().map(|tagged| spec_depth(&tagged.item)).max().unwrap_or(0)` -/
def specDepthT : List (Tagged Spec) → Nat
  | [] => 0
  | t :: rest => max (specDepth t.item) (specDepthT rest)
end

/-- `check_nesting`: a type of depth `inner` is used inside `depth` enclosing levels; `true` = `Ok(())` -/
def checkNesting (depth inner : Nat) : Bool := decide (depth + inner ≤ maxNestingDepth)

/-! ## the parser -/

/-- `require_token_type` -/
def requireTok (t : ATok) : List ATok → R Unit
  | [] => .err
  | x :: rest => if x = t then .ok () rest else .err

/-- `parse_optional_name` -/
def optionalName : List ATok → Option (List Char) × List ATok
  | .ident s :: rest => (some s, rest)
  | toks => (none, toks)

/-- the `while let Some(OpenSquareBracket) = peek()` loop of `parse_aml_member`; `levels` is the variable of that
    name (the depth of `base`): `levels += 1; check_nesting(depth, levels)?` comes before the bracket is consumed -/
def arrayDims (depth levels : Nat) (base : Spec) : List ATok → R Spec
  | .osquare :: rest =>
    if checkNesting depth (levels + 1) then
      match rest with
      | .constant c :: rest' =>
        match rest' with
        | .csquare :: rest'' => arrayDims depth (levels + 1) (.array base (dimOf c)) rest''
        | _ => .err
      | _ => .err
    else .err
  | toks => .ok base toks

/-- the `loop` of `parse_aml_type_enum` behind the opening bracket -/
def enumLoop (acc : List (List Char × Option Int)) : List ATok → R (List (List Char × Option Int))
  | .tag t :: rest =>
    match rest with
    | .equals :: rest1 =>
      match rest1 with
      | .constant c :: rest2 =>
        match rest2 with
        | .comma :: rest3 => enumLoop (insertKV t (some c) acc) rest3
        | .ccurly :: rest3 => .ok (insertKV t (some c) acc) rest3
        | _ => .err
      | _ => .err
    | .comma :: rest1 => enumLoop (insertKV t none acc) rest1
    | .ccurly :: rest1 => .ok (insertKV t none acc) rest1
    | _ => .err
  | _ => .err

/-- `parse_aml_type_enum` -/
def typeEnum (types : TypeSet) (toks : List ATok) : R (Option (List Char) × Spec) :=
  let (name, toks) := optionalName toks
  match toks with
  | .ocurly :: rest =>
    match enumLoop [] rest with
    | .ok items rest' => .ok (name, .enum items) rest'
    | .err => .err
    | .fuel => .fuel
  | _ =>
    match name with
    | some n =>
      match lookupKV types.enums n with
      | some (.enum items) => .ok (some n, .enum items) toks
      | _ => .err
    | none => .err

/-- `if cond { flag = true; tok = nexttoken()? }` of `parse_aml_taggedmember`: the flag, the current token, the rest -/
def skipIf (cond : Bool) (tok : ATok) (rest : List ATok) : Option (Bool × ATok × List ATok) :=
  if cond then
    match rest with
    | [] => none
    | tok' :: rest' => some (true, tok', rest')
  else some (false, tok, rest)

/-- the member of a tag in `parse_aml_taggedmember`: "a tag without a member is followed by `;` or, inside `( ... )*`,
    by `)`"; `td` = `parse_aml_tagged_def` -/
def tagInner (td : List ATok → R Spec) (rest : List ATok) : R Spec :=
  match rest with
  | .semicolon :: _ => .ok .none rest
  | .cround :: _ => .ok .none rest
  | _ => td rest

/-- `if repeat { require(ClosedRoundBracket)?; require(Repeat)? }` -/
def tagClose (rep : Bool) (t : Tagged Spec) (rest : List ATok) : R (Tagged Spec) :=
  if rep then
    match rest with
    | .cround :: rest2 =>
      match rest2 with
      | .repeat_ :: rest3 => .ok t rest3
      | _ => .err
    | _ => .err
  else .ok t rest

-- (the explicit `termination_by structural fuel`: with two `Nat` parameters per function Lean does not search for the
-- structural argument by itself and would fall back to well-founded recursion, which `decide` cannot unfold)
mutual

/-- `parse_aml_type`; `tok` is the token already consumed; `depth` = the number of enclosing levels -/
def type_ (fuel : Nat) (types : TypeSet) (depth : Nat) (tok : ATok) (toks : List ATok) : R (Option (List Char) × Spec) :=
  match fuel with
  | 0 => .fuel
  | fuel + 1 =>
    -- "every type is at least one level deep": `check_nesting(depth, 1)?`
    if checkNesting depth 1 then
      match tok with
      | .kchar => .ok (none, .int 0) toks
      | .kint => .ok (none, .int 1) toks
      | .klong => .ok (none, .int 2) toks
      | .kint64 => .ok (none, .int 3) toks
      | .kuchar => .ok (none, .int 4) toks
      | .kuint => .ok (none, .int 5) toks
      | .kulong => .ok (none, .int 6) toks
      | .kuint64 => .ok (none, .int 7) toks
      | .kfloat => .ok (none, .float) toks
      | .kdouble => .ok (none, .double) toks
      | .kenum => typeEnum types toks
      | .kstruct =>
        -- `parse_aml_type_struct`
        let (name, toks) := optionalName toks
        match toks with
        | .ocurly :: rest =>
          match structLoop fuel types (depth + 1) [] rest with
          | .ok items rest' => .ok (name, .struct items) rest'
          | .err => .err
          | .fuel => .fuel
        | _ =>
          match name with
          | some n =>
            match lookupKV types.structs n with
            | some (.struct items) =>
              if checkNesting depth (specDepth (.struct items)) then .ok (some n, .struct items) toks else .err
            | _ => .err
          | none => .err
      | .ktaggedstruct =>
        -- `parse_aml_type_taggedstruct`
        let (name, toks) := optionalName toks
        match toks with
        | .ocurly :: rest =>
          match taggedLoop fuel types (depth + 1) true [] rest with
          | .ok items rest' => .ok (name, .taggedStruct items) rest'
          | .err => .err
          | .fuel => .fuel
        | _ =>
          match name with
          | some n =>
            match lookupKV types.taggedstructs n with
            | some (.taggedStruct items) =>
              if checkNesting depth (specDepth (.taggedStruct items)) then .ok (some n, .taggedStruct items) toks
              else .err
            | _ => .err
          | none => .err
      | .ktaggedunion =>
        -- `parse_aml_type_taggedunion`
        let (name, toks) := optionalName toks
        match toks with
        | .ocurly :: rest =>
          match taggedLoop fuel types (depth + 1) false [] rest with
          | .ok items rest' => .ok (name, .taggedUnion items) rest'
          | .err => .err
          | .fuel => .fuel
        | _ =>
          match name with
          | some n =>
            match lookupKV types.taggedunions n with
            | some (.taggedUnion items) =>
              if checkNesting depth (specDepth (.taggedUnion items)) then .ok (some n, .taggedUnion items) toks
              else .err
            | _ => .err
          | none => .err
      | _ => .err
    else .err
termination_by structural fuel

/-- the `loop` of `parse_aml_type_struct` and the closing bracket; `acc` newest first; `depth` is the depth of the
    members (`depth + 1` of the struct) -/
def structLoop (fuel : Nat) (types : TypeSet) (depth : Nat) (acc : List Spec) (toks : List ATok) : R (List Spec) :=
  match fuel with
  | 0 => .fuel
  | fuel + 1 =>
    match member fuel types depth toks with
    | .ok m rest =>
      match rest with
      | .semicolon :: rest1 =>
        match rest1 with
        | .ccurly :: rest2 => .ok (m :: acc).reverse rest2
        | _ => structLoop fuel types depth (m :: acc) rest1
      | _ => .err
    | .err => .err
    | .fuel => .fuel
termination_by structural fuel

/-- the `loop` of `parse_aml_type_taggedstruct` / `parse_aml_type_taggedunion` and the closing bracket; `depth` is the
    depth of the members (`depth + 1` of the tagged type) -/
def taggedLoop (fuel : Nat) (types : TypeSet) (depth : Nat) (allowRepeat : Bool) (acc : List (Tagged Spec))
    (toks : List ATok) : R (List (Tagged Spec)) :=
  match fuel with
  | 0 => .fuel
  | fuel + 1 =>
    match taggedMember fuel types depth allowRepeat toks with
    | .ok m rest =>
      match rest with
      | .semicolon :: rest1 =>
        match rest1 with
        | .ccurly :: rest2 => .ok (insertTagged m acc) rest2
        | _ => taggedLoop fuel types depth allowRepeat (insertTagged m acc) rest1
      | _ => .err
    | .err => .err
    | .fuel => .fuel
termination_by structural fuel

/-- `parse_aml_taggedmember` -/
def taggedMember (fuel : Nat) (types : TypeSet) (depth : Nat) (allowRepeat : Bool) (toks : List ATok) :
    R (Tagged Spec) :=
  match fuel with
  | 0 => .fuel
  | fuel + 1 =>
    match toks with
    | [] => .err
    | tok :: rest =>
      match skipIf (allowRepeat && tok == .oround) tok rest with
      | none => .err
      | some (rep, tok, rest) =>
        match skipIf (tok == .kblock) tok rest with
        | none => .err
        | some (isBlock, tok, rest) =>
          match tok with
          | .tag tg =>
            match tagInner (taggedDef fuel types depth) rest with
            | .ok item rest1 => tagClose rep ⟨tg, item, isBlock, rep⟩ rest1
            | .err => .err
            | .fuel => .fuel
          | _ => .err
termination_by structural fuel

/-- `parse_aml_tagged_def`: "the ( )* around the member is a level of its own" -/
def taggedDef (fuel : Nat) (types : TypeSet) (depth : Nat) (toks : List ATok) : R Spec :=
  match fuel with
  | 0 => .fuel
  | fuel + 1 =>
    match toks with
    | .oround :: rest =>
      match member fuel types (depth + 1) rest with
      | .ok m rest1 =>
        match rest1 with
        | .cround :: rest2 =>
          match rest2 with
          | .repeat_ :: rest3 => .ok (.seq m) rest3
          | _ => .err
        | _ => .err
      | .err => .err
      | .fuel => .fuel
    | _ => member fuel types depth toks
termination_by structural fuel

/-- `parse_aml_member` -/
def member (fuel : Nat) (types : TypeSet) (depth : Nat) (toks : List ATok) : R Spec :=
  match fuel with
  | 0 => .fuel
  | fuel + 1 =>
    match toks with
    | [] => .err
    | tok :: rest =>
      match type_ fuel types depth tok rest with
      | .ok (_, base) rest1 => arrayDims depth (specDepth base) base rest1
      | .err => .err
      | .fuel => .fuel
termination_by structural fuel

end

inductive PRes where
  | ok (spec : Spec)
  | err
  | fuel
  deriving Inhabited

/-- one declaration at the top level of `parse_a2ml` (the `match tok` inside the loop); `tok` is already consumed -/
def declStep (fuel : Nat) (types : TypeSet) (ifdata : Option Spec) (tok : ATok) (rest : List ATok) :
    R (TypeSet × Option Spec) :=
  match tok with
  | .kblock =>
    match rest with
    | .tag tg :: rest1 =>
      match taggedDef fuel types 0 rest1 with
      | .ok blk rest2 => .ok (types, if tg = "IF_DATA".toList then some blk else ifdata) rest2
      | .err => .err
      | .fuel => .fuel
    | _ => .err
  | .ktaggedstruct =>
    match type_ fuel types 0 tok rest with
    | .ok (some name, typ) rest1 => .ok ({ types with taggedstructs := insertKV name typ types.taggedstructs }, ifdata) rest1
    | .ok (none, _) rest1 => .ok (types, ifdata) rest1
    | .err => .err
    | .fuel => .fuel
  | .ktaggedunion =>
    match type_ fuel types 0 tok rest with
    | .ok (some name, typ) rest1 => .ok ({ types with taggedunions := insertKV name typ types.taggedunions }, ifdata) rest1
    | .ok (none, _) rest1 => .ok (types, ifdata) rest1
    | .err => .err
    | .fuel => .fuel
  | .kenum =>
    match type_ fuel types 0 tok rest with
    | .ok (some name, typ) rest1 => .ok ({ types with enums := insertKV name typ types.enums }, ifdata) rest1
    | .ok (none, _) rest1 => .ok (types, ifdata) rest1
    | .err => .err
    | .fuel => .fuel
  | .kstruct =>
    match type_ fuel types 0 tok rest with
    | .ok (some name, typ) rest1 => .ok ({ types with structs := insertKV name typ types.structs }, ifdata) rest1
    | .ok (none, _) rest1 => .ok (types, ifdata) rest1
    | .err => .err
    | .fuel => .fuel
  | .kchar | .kint | .klong | .kint64 | .kuchar | .kuint | .kulong | .kuint64 | .kdouble | .kfloat =>
    match type_ fuel types 0 tok rest with
    | .ok _ rest1 => .ok (types, ifdata) rest1
    | .err => .err
    | .fuel => .fuel
  | _ => .err

/-- the `while let Some(tok) = tok_iter.next()` loop of `parse_a2ml` and what follows it: one declaration, then
    `require_token_type(Semicolon)`; `n` bounds the number of iterations -/
def declLoop (fuel : Nat) : Nat → TypeSet → Option Spec → List ATok → PRes
  | 0, _, _, _ => .fuel
  | _ + 1, _, ifdata, [] =>
    match ifdata with
    | some s => .ok s
    | none => .err
  | n + 1, types, ifdata, tok :: rest =>
    match declStep fuel types ifdata tok rest with
    | .ok (types', ifdata') rest1 =>
      match rest1 with
      | .semicolon :: rest2 => declLoop fuel n types' ifdata' rest2
      | _ => .err
    | .err => .err
    | .fuel => .fuel

/-- the recursion budget of the driver for a token list of length `n` -/
def parseFuel (n : Nat) : Nat := 4 * n + 8

/-- `parse_a2ml` on the token vector -/
def parseToks (toks : List ATok) : PRes :=
  declLoop (parseFuel toks.length) (toks.length + 1) {} none toks

/-- `parse_a2ml` -/
def parseA2ml (cs : List Char) : PRes :=
  match tokenize cs with
  | .ok toks => parseToks toks
  | .err => .err
  | .fuel => .fuel

/-! ## the dump hook (`verif_hooks.rs`: `a2ml_dump`, `dump_spec`, `dump_tagged`) -/

def hexLower (n : Nat) : List Char := natToDigits 16 (fun d => if d < 10 then Char.ofNat (48 + d) else Char.ofNat (87 + d)) n

/-- one character of `<str as Debug>::fmt` (`char::escape_debug_ext` without the grapheme-extend and non-printable
    Unicode tables: those characters are written as they are here) -/
def dbgChar (c : Char) : List Char :=
  if c = '"' then ['\\', '"']
  else if c = '\\' then ['\\', '\\']
  else if c = '\n' then ['\\', 'n']
  else if c = '\r' then ['\\', 'r']
  else if c = '\t' then ['\\', 't']
  else if c = '\x00' then ['\\', '0']
  else if c.toNat < 32 ∨ c.toNat = 127 then "\\u{".toList ++ hexLower c.toNat ++ ['}']
  else [c]

def dbgStr (s : List Char) : List Char := '"' :: s.flatMap dbgChar ++ ['"']

/-- `Ord for str`: bytewise on UTF-8 = by code point -/
def ltChars : List Char → List Char → Bool
  | [], [] => false
  | [], _ :: _ => true
  | _ :: _, [] => false
  | a :: as, b :: bs => if a.toNat < b.toNat then true else if b.toNat < a.toNat then false else ltChars as bs

def insertSorted {β : Type} (key : β → List Char) (x : β) : List β → List β
  | [] => [x]
  | y :: ys => if ltChars (key x) (key y) then x :: y :: ys else y :: insertSorted key x ys

def sortByKey {β : Type} (key : β → List Char) (l : List β) : List β := l.foldr (insertSorted key) []

def dbgOptInt : Option Int → List Char
  | none => "None".toList
  | some v => "Some(".toList ++ showDec v ++ [')']

def intName : Nat → String
  | 0 => "char" | 1 => "int" | 2 => "long" | 3 => "int64" | 4 => "uchar" | 5 => "uint" | 6 => "ulong" | _ => "uint64"

def b2c (b : Bool) : Char := if b then '1' else '0'

mutual
/-- `dump_spec` -/
def dumpSpec : Spec → List Char
  | .none => "none".toList
  | .int w => (intName w).toList
  | .float => "float".toList
  | .double => "double".toList
  | .array of dim => "arr[".toList ++ showDec dim ++ [' '] ++ dumpSpec of ++ [']']
  | .enum items =>
    "enum{".toList ++ (sortByKey (·.1) items).flatMap (fun kv => dbgStr kv.1 ++ ['='] ++ dbgOptInt kv.2 ++ [' ']) ++ ['}']
  | .struct items => "struct{".toList ++ dumpSpecs items ++ ['}']
  | .seq of => "seq(".toList ++ dumpSpec of ++ [')']
  | .taggedStruct items => "ts{".toList ++ ((sortByKey (·.1) (dumpTagged items)).flatMap (·.2)) ++ ['}']
  | .taggedUnion items => "tu{".toList ++ ((sortByKey (·.1) (dumpTagged items)).flatMap (·.2)) ++ ['}']

def dumpSpecs : List Spec → List Char
  | [] => []
  | s :: rest => dumpSpec s ++ [' '] ++ dumpSpecs rest

/-- `dump_tagged`: the rendering of every entry with its key (the caller sorts by key) -/
def dumpTagged : List (Tagged Spec) → List (List Char × List Char)
  | [] => []
  | t :: rest =>
    (t.tag, ['('] ++ dbgStr t.tag ++ [' ', b2c t.isBlock, ' ', b2c t.rep, ' '] ++ dumpSpec t.item ++ [')']) :: dumpTagged rest
end

end A2l.Aml
