import A2lVerif.Model.Basic
import A2lVerif.Model.Scalars
import A2lVerif.Model.Grammar
/-!
# The generic element parser and writer

Executable model of `parser.rs` (`ParserState` and its token cursor) and of the code shapes that
`a2lmacros/src/codegenerator/{parser,writer}.rs` instantiate for every element of the grammar table, plus `writer.rs`.
One function per Rust function / generated code shape; `PRes.panic` where the Rust code indexes or slices.
The grammar is a parameter (`Env.table`): the regenerated `Gen.Shipped.table` in the driver, any table in theorems.
-/
namespace A2l.Tree
open A2l.G A2l.Sc

/-- a token with its text (the parser calls `get_token_text` on demand; here the text is attached up front).
    `sym` = index of the text in the symbol table, or `noSym`. `fl` = for Number tokens: what `add_float` prints after
    `str::parse::<f64>` (the float codec is a parameter of the model, see DESIGN.md 2.2). -/
structure PTok where
  ty : Nat            -- 0 Identifier 1 Begin 2 End 3 Include 4 String 5 Number 6 Comment
  text : List Char
  line : Nat
  fileid : Nat := 0
  sym : Nat
  fl : Option (List Char) := none
  deriving Repr, Inhabited

def noSym : Nat := 1000000

/-- `ParserError` variants (message texts are not modelled) -/
inductive DK where
  | unexpectedTokenType | malformedNumber | invalidEnumValue | invalidMultiplicityTooMany
  | invalidMultiplicityNotPresent | incorrectBlockError | incorrectKeywordError | incorrectEndTag
  | unknownSubBlock | unexpectedEOF | stringTooLong | blockRefDeprecated | blockRefTooNew
  | enumRefDeprecated | enumRefTooNew | invalidBegin | invalidIdentifier | a2mlError
  | additionalTokensError | missingVersionInfo | invalidVersion | nestingTooDeep
  deriving Repr, DecidableEq, Inhabited

def DK.name : DK → String
  | .unexpectedTokenType => "UnexpectedTokenType" | .malformedNumber => "MalformedNumber"
  | .invalidEnumValue => "InvalidEnumValue" | .invalidMultiplicityTooMany => "InvalidMultiplicityTooMany"
  | .invalidMultiplicityNotPresent => "InvalidMultiplicityNotPresent" | .incorrectBlockError => "IncorrectBlockError"
  | .incorrectKeywordError => "IncorrectKeywordError" | .incorrectEndTag => "IncorrectEndTag"
  | .unknownSubBlock => "UnknownSubBlock" | .unexpectedEOF => "UnexpectedEOF" | .stringTooLong => "StringTooLong"
  | .blockRefDeprecated => "BlockRefDeprecated" | .blockRefTooNew => "BlockRefTooNew"
  | .enumRefDeprecated => "EnumRefDeprecated" | .enumRefTooNew => "EnumRefTooNew" | .invalidBegin => "InvalidBegin"
  | .invalidIdentifier => "InvalidIdentifier" | .a2mlError => "A2mlError"
  | .additionalTokensError => "AdditionalTokensError" | .missingVersionInfo => "MissingVersionInfo"
  | .invalidVersion => "InvalidVersion" | .nestingTooDeep => "NestingTooDeep"

/-- a diagnostic: class and `error_line` (= `last_token_position` when it was created; 0 where the variant has none) -/
structure Diag where
  kind : DK
  line : Nat
  deriving Repr, DecidableEq, Inhabited

/-- the mutable part of `ParserState` -/
structure PState where
  pos : Nat := 0
  lastLine : Nat := 0         -- last_token_position
  seqId : Nat := 0            -- sequential_id
  log : List Diag := []       -- log_msgs, newest first
  ver : Nat := 6              -- file_ver, 1..6 = 1.50 .. 1.71
  deriving Repr, Inhabited

/-- symbols the hand-written code refers to by name -/
structure Known where
  tyA2lFile : Nat
  tyAsap2Version : Nat
  tagAsap2Version : Nat
  deriving Repr, Inhabited

/-- `ParseContext` -/
structure Ctx where
  element : List Char
  fileid : Nat
  line : Nat
  deriving Repr, Inhabited

/-! ## values -/

structure Info where
  line : Nat
  uid : Nat
  startOff : Nat
  endOff : Nat
  fileid : Nat
  deriving Repr, Inhabited, DecidableEq

structure Cmt where
  text : List Char
  line : Nat
  uid : Nat
  startOff : Nat
  included : Bool
  deriving Repr, Inhabited, DecidableEq

inductive Val where
  | ident (s : List Char) (off : Nat)
  | str (s : List Char) (off : Nat)
  | int (v : Int) (hex : Bool) (off : Nat) (w : Nat)
  | dbl (s : List Char) (off : Nat)
  | enum (tag : List Char) (off : Nat)
  | arr (vs : List Val)
  | seq (vs : List Val)
  /-- a block, keyword or struct: layout, parameters, one list of children per arm of its tagged part, comments -/
  | block (ty : Nat) (info : Info) (fields : List Val) (children : List (List Val)) (comments : List Cmt)
  deriving Repr, Inhabited

inductive PRes (α : Type) where
  | ok (a : α) (s : PState)
  | err (d : Diag) (s : PState)      -- `Err(ParserError)`; the `&mut ParserState` keeps its changes
  | panic
  | fuel                             -- model-only: recursion budget exhausted (a hang of the real code, if reachable)
  deriving Inhabited

structure Env where
  toks : Array PTok
  strict : Bool
  table : Table
  code : List CodeEntry := []
  known : Known := default
  symbols : Array String := #[]
  /-- the hand-written parsers of the `special` types (A2ML, IF_DATA): a parameter here, instantiated by the
      A2ML / IF_DATA model; arguments: type, context, start offset, tokens, strict -/
  special : Nat → Ctx → Nat → Array PTok → Bool → PState → PRes Val := fun _ _ _ _ _ _ => .panic
  /-- the hand-written `stringify` of the `special` types (`A2ml::stringify`, `IfData::stringify`): type, indent, value -/
  specialWrite : Nat → Nat → Val → List Char := fun _ _ _ => []

abbrev PM (α : Type) := Env → PState → PRes α

instance : Monad PM where
  pure a := fun _ s => .ok a s
  bind m f := fun e s => match m e s with
    | .ok a s' => f a e s'
    | .err d s' => .err d s'
    | .panic => .panic
    | .fuel => .fuel

def getEnv : PM Env := fun e s => .ok e s
def getState : PM PState := fun _ s => .ok s s
def setState (s : PState) : PM Unit := fun _ _ => .ok () s
def modifyState (f : PState → PState) : PM Unit := fun _ s => .ok () (f s)
def fail {α} (k : DK) : PM α := fun _ s => .err ⟨k, s.lastLine⟩ s
def failNoLine {α} (k : DK) : PM α := fun _ s => .err ⟨k, 0⟩ s
def panic {α} : PM α := fun _ _ => .panic
def outOfFuel {α} : PM α := fun _ _ => .fuel
/-- `Result`-valued call whose error is inspected by the caller (`sequence_item.is_err()`, `if let Ok(..)`) -/
def attempt {α} (m : PM α) : PM (Except Diag α) := fun e s => match m e s with
  | .ok a s' => .ok (.ok a) s'
  | .err d s' => .ok (.error d) s'
  | .panic => .panic
  | .fuel => .fuel

/-! ## token cursor -/

def getToken (_ctx : Ctx) : PM PTok := do
  let e ← getEnv; let s ← getState
  match e.toks[s.pos]? with
  | some t => setState { s with pos := s.pos + 1, lastLine := t.line }; pure t
  | none => fail .unexpectedEOF

/-- `token_cursor.back()`: `self.pos -= 1` -/
def undoGetToken : PM Unit := do
  let s ← getState
  if s.pos = 0 then panic else setState { s with pos := s.pos - 1 }

def peekToken : PM (Option PTok) := do
  let e ← getEnv; let s ← getState
  pure e.toks[s.pos]?

def logWarning (k : DK) : PM Unit := modifyState fun s => { s with log := ⟨k, s.lastLine⟩ :: s.log }

def errorOrLog (k : DK) : PM Unit := do
  let e ← getEnv
  if e.strict then fail k else logWarning k

def errorOrLogNoLine (k : DK) : PM Unit := do
  let e ← getEnv
  if e.strict then failNoLine k else modifyState fun s => { s with log := ⟨k, 0⟩ :: s.log }

def getTokenpos : PM Nat := do let s ← getState; pure s.pos
def setTokenpos (p : Nat) : PM Unit := modifyState fun s => { s with pos := p }

def countNewlines (cs : List Char) : Nat := cs.foldl (fun n c => if c = '\n' then n + 1 else n) 0

/-- `get_line_offset` (after the `fix:` commit: a comment token carries the line on which it starts, the offset of
    the token behind it is measured from the comment's last line) -/
def getLineOffset : PM Nat := do
  let e ← getEnv; let s ← getState
  if s.pos > 1 ∧ s.pos < e.toks.size then
    match e.toks[s.pos - 2]?, e.toks[s.pos - 1]? with
    | some prev, some cur =>
      let prevLine := if prev.ty = 6 then prev.line + countNewlines prev.text else prev.line
      if prev.fileid = cur.fileid then
        if cur.line < prevLine then panic else pure (cur.line - prevLine)   -- u32 subtraction
      else pure 2
    | _, _ => panic
  else
    match e.toks[0]? with
    | some t => if t.line = 0 then panic else pure (t.line - 1)
    | none => panic

def getNextId : PM Nat := do
  modifyState fun s => { s with seqId := s.seqId + 1 }
  let s ← getState; pure s.seqId

/-- `expect_token`: comment tokens are skipped -/
def expectTokenAux (ctx : Ctx) (ty : Nat) : Nat → PM PTok
  | 0 => outOfFuel
  | fuel + 1 => do
    let t ← getToken ctx
    if t.ty = 6 then expectTokenAux ctx ty fuel
    else if t.ty ≠ ty then fail .unexpectedTokenType
    else pure t

def expectToken (ctx : Ctx) (ty : Nat) : PM PTok := do
  let e ← getEnv
  expectTokenAux ctx ty (e.toks.size + 1)

def isAsciiDigit (c : Char) : Bool := '0' ≤ c && c ≤ '9'

def utf8Len (s : List Char) : Nat := s.foldl (fun n c => n + c.utf8Size) 0

/-- `get_identifier` -/
def getIdentifier (ctx : Ctx) : PM (List Char) := do
  let t ← expectToken ctx 0
  match t.text with
  | [] => panic                                        -- text.as_bytes()[0]
  | c :: _ =>
    if isAsciiDigit c || utf8Len t.text > 1024 then errorOrLog .invalidIdentifier
    pure t.text

/-- strip the quotes of a String token (after the `fix:` commit: only when both are present) -/
def stripQuotes (cs : List Char) : List Char :=
  match cs with
  | '"' :: rest =>
    if rest ≠ [] ∧ rest.getLast? = some '"' then rest.dropLast else cs
  | _ => cs

/-- `get_string` -/
def getString (ctx : Ctx) : PM (List Char) := do
  match (← peekToken) with
  | some ⟨0, _, _, _, _, _⟩ =>
    let text ← getIdentifier ctx
    errorOrLog .unexpectedTokenType
    pure text
  | _ =>
    let t ← expectToken ctx 4
    match unescape (stripQuotes t.text) with
    | .ok s => pure s
    | .panic => panic

def getStringMaxlen (ctx : Ctx) (n : Nat) : PM (List Char) := do
  let text ← getString ctx
  if utf8Len text > n then errorOrLog .stringTooLong
  pure text

def intTyOf : Nat → IntTy
  | 0 => .i8 | 1 => .i16 | 2 => .i32 | 3 => .i64 | 4 => .u8 | 5 => .u16 | 6 => .u32 | _ => .u64

/-- `get_integer::<T>` -/
def getInteger (ctx : Ctx) (w : Nat) : PM (Int × Bool) := do
  let t ← expectToken ctx 5
  match parseInt (intTyOf w) t.text with
  | some r => pure r
  | none => fail .malformedNumber

/-- `get_double`: the float codec is the token's `fl` annotation (none = `MalformedNumber`) -/
def getDouble (ctx : Ctx) : PM (List Char) := do
  let t ← expectToken ctx 5
  match t.fl with
  | some r => pure r
  | none => fail .malformedNumber

/-! ## the generated parser shapes -/

inductive BlockContent where
  | block (tok : PTok) (isBlock : Bool) (off : Nat)
  | comment (tok : PTok) (off : Nat)
  | none

/-- `get_next_tag_or_comment` -/
def getNextTagOrComment (ctx : Ctx) : PM BlockContent := do
  let tokenpos ← getTokenpos
  match (← peekToken) with
  | some t@⟨6, _, _, _, _, _⟩ =>
    modifyState fun s => { s with pos := s.pos + 1 }      -- token_cursor.next(): last_token_position is not updated
    let off ← getLineOffset
    pure (.comment t off)
  | some ⟨1, _, _, _, _, _⟩ =>
    let _ ← getToken ctx
    let off ← getLineOffset
    match (← attempt (expectToken ctx 0)) with
    | .ok tok => pure (.block tok true off)
    | .error d => do setTokenpos tokenpos; fun _ s => .err d s
  | _ =>
    let r ← attempt (expectToken ctx 0)
    let off ← getLineOffset
    match r with
    | .ok tok => pure (.block tok false off)
    | .error _ => do setTokenpos tokenpos; pure .none

/-- the balance loop of `handle_unknown_taggedstruct_tag` -/
def skipUnknownLoop (ctx : Ctx) (itemTag : List Char) (itemIsBlock : Bool) (stop : List Nat) (balance : Int) :
    Nat → PM Unit
  | 0 => outOfFuel
  | fuel + 1 => do
    let t ← getToken ctx
    match t.ty with
    | 1 => skipUnknownLoop ctx itemTag itemIsBlock stop (balance + 1) fuel
    | 2 =>
      if balance - 1 = -1 then undoGetToken
      else skipUnknownLoop ctx itemTag itemIsBlock stop (balance - 1) fuel
    | 0 =>
      if itemIsBlock then
        if balance = 0 then
          if t.text = itemTag then pure () else fail .incorrectEndTag
        else skipUnknownLoop ctx itemTag itemIsBlock stop balance fuel
      else
        if (balance = 0 ∨ balance = 1) ∧ stop.contains t.sym then do
          undoGetToken
          if balance = 1 then undoGetToken
        else skipUnknownLoop ctx itemTag itemIsBlock stop balance fuel
    | _ =>
      if itemIsBlock ∧ balance = 0 then fail .incorrectEndTag
      else skipUnknownLoop ctx itemTag itemIsBlock stop balance fuel

/-- `handle_unknown_taggedstruct_tag` -/
def handleUnknownTaggedstructTag (ctx : Ctx) (itemTag : List Char) (itemIsBlock : Bool) (stop : List Nat) : PM Unit := do
  errorOrLog .unknownSubBlock
  let _ ← getToken ctx
  undoGetToken
  let e ← getEnv
  skipUnknownLoop ctx itemTag itemIsBlock stop (if itemIsBlock then 1 else 0) (e.toks.size + 1)

def lookupEnumItem (items : List EnumItem) (sym : Nat) : Option EnumItem := items.find? (·.tag == sym)

/-- generated enum parser -/
def parseEnum (items : List EnumItem) (ctx : Ctx) : PM (List Char) := do
  let name ← getIdentifier ctx
  let e ← getEnv; let s ← getState
  -- the token just consumed carries the symbol
  let sym := match e.toks[s.pos - 1]? with | some t => t.sym | none => noSym
  match lookupEnumItem items sym with
  | some it =>
    if it.vlo ≠ 0 ∧ s.ver < it.vlo then errorOrLog .enumRefTooNew
    if it.vhi ≠ 0 ∧ s.ver > it.vhi then logWarning .enumRefDeprecated
    pure name
  | none => fail .invalidEnumValue

def setAt {α} (l : List (List α)) (i : Nat) (f : List α → List α) : List (List α) :=
  l.mapIdx fun j x => if j = i then f x else x

mutual

/-- `generate_item_parser_call` -/
def parseItem (fuel : Nat) (ctx : Ctx) (it : ItemTy) : PM Val :=
  match fuel with
  | 0 => outOfFuel
  | fuel + 1 =>
    match it with
    | .ident => do let v ← getIdentifier ctx; let off ← getLineOffset; pure (.ident v off)
    | .string => do let v ← getString ctx; let off ← getLineOffset; pure (.str v off)
    | .double | .float => do let v ← getDouble ctx; let off ← getLineOffset; pure (.dbl v off)
    | .int w => do let (v, hex) ← getInteger ctx w; let off ← getLineOffset; pure (.int v hex off w)
    | .strMax n => do let v ← getStringMaxlen ctx n; pure (.str v 0)
    | .enumRef ty => do
      let e ← getEnv
      match e.table.lookup ty with
      | some (.enum items) => do let v ← parseEnum items ctx; let off ← getLineOffset; pure (.enum v off)
      | _ => panic
    | .structRef ty => parseType fuel ty ctx 0
    | .arr of dim => do
      let vs ← parseArr fuel ctx of dim
      pure (.arr vs)
    | .seq of stop => do
      let vs ← parseSeq fuel ctx of stop []
      pure (.seq vs)

def parseArr (fuel : Nat) (ctx : Ctx) (of : ItemTy) (n : Nat) : PM (List Val) :=
  match fuel with
  | 0 => outOfFuel
  | fuel + 1 =>
    match n with
    | 0 => pure []
    | n + 1 => do
      let v ← parseItem fuel ctx of
      let vs ← parseArr fuel ctx of n
      pure (v :: vs)

/-- `generate_sequence_parser`: greedy, an error in the element ends the list and rewinds the cursor -/
def parseSeq (fuel : Nat) (ctx : Ctx) (of : ItemTy) (stop : List Nat) (acc : List Val) : PM (List Val) :=
  match fuel with
  | 0 => outOfFuel
  | fuel + 1 => do
    let cur ← getTokenpos
    match (← attempt (parseItem fuel ctx of)) with
    | .error _ => do setTokenpos cur; pure acc.reverse
    | .ok v =>
      let e ← getEnv; let s ← getState
      let isStop := match stop, e.toks[s.pos - 1]? with
        | [], _ => false
        | _, some t => stop.contains t.sym
        | _, none => false
      if isStop then do setTokenpos cur; pure acc.reverse
      else parseSeq fuel ctx of stop (v :: acc)

/-- the parameters of a block, in order -/
def parseItems (fuel : Nat) (ctx : Ctx) (items : List ItemTy) : PM (List Val) :=
  match fuel with
  | 0 => outOfFuel
  | fuel + 1 =>
    match items with
    | [] => pure []
    | it :: its => do
      let v ← parseItem fuel ctx it
      let vs ← parseItems fuel ctx its
      pure (v :: vs)

/-- one iteration body of the tagged loop for a recognised or unrecognised tag (`generate_taggeditem_parser_core`) -/
def parseTagged (fuel : Nat) (ctx : Ctx) (arms : List Arm) (parentIsBlock : Bool)
    (children : List (List Val)) (comments : List Cmt) : PM (List (List Val) × List Cmt) :=
  match fuel with
  | 0 => outOfFuel
  | fuel + 1 => do
    match (← getNextTagOrComment ctx) with
    | .comment tok off =>
      if parentIsBlock then do
        let uid ← getNextId
        parseTagged fuel ctx arms parentIsBlock children
          (⟨tok.text, ctx.line, uid, off, tok.fileid ≠ 0⟩ :: comments)
      else parseTagged fuel ctx arms parentIsBlock children comments
    | .none => pure (children, comments.reverse)
    | .block tok isBlock off =>
      let newctx : Ctx := ⟨tok.text, tok.fileid, tok.line⟩
      match arms.findIdx? (·.tag == tok.sym) with
      | some i =>
        match arms[i]? with
        | none => panic
        | some arm => do
          if arm.block ∧ !isBlock then fail .incorrectBlockError
          if !arm.block ∧ isBlock then fail .incorrectKeywordError
          let s ← getState
          if arm.vlo ≠ 0 ∧ s.ver < arm.vlo then errorOrLog .blockRefTooNew
          let s ← getState
          if arm.vhi ≠ 0 ∧ s.ver > arm.vhi then logWarning .blockRefDeprecated
          let v ← parseType fuel arm.ty newctx off
          if arm.repeat_ then
            parseTagged fuel ctx arms parentIsBlock (setAt children i (· ++ [v])) comments
          else do
            let present := match children[i]? with | some (_ :: _) => true | _ => false
            if present then errorOrLog .invalidMultiplicityTooMany
            parseTagged fuel ctx arms parentIsBlock (setAt children i (fun _ => [v])) comments
      | none =>
        if parentIsBlock then do
          handleUnknownTaggedstructTag ctx tok.text isBlock (arms.map (·.tag))
          parseTagged fuel ctx arms parentIsBlock children comments
        else do
          if isBlock then undoGetToken
          undoGetToken
          pure (children, comments.reverse)

/-- `T::parse(parser, context, start_offset)` for the type named `ty` -/
def parseType (fuel : Nat) (ty : Nat) (ctx : Ctx) (startOff : Nat) : PM Val :=
  match fuel with
  | 0 => outOfFuel
  | fuel + 1 => do
    let e ← getEnv
    match e.table.lookup ty with
    | some (.block isBlock items arms hasTagged) => do
      let uid ← getNextId
      let fields ← parseItems fuel ctx items
      let (children, comments) ←
        if hasTagged then parseTagged fuel ctx arms isBlock (arms.map fun _ => []) []
        else pure ([], [])
      -- multiplicity checks, in arm order
      let _ ← (arms.zip children).foldlM (fun (_ : Unit) (ac : Arm × List Val) =>
        if ac.1.required ∧ ac.2.isEmpty then
          (if ac.1.repeat_ then errorOrLog .invalidMultiplicityNotPresent else fail .invalidMultiplicityNotPresent)
        else pure ()) ()
      if isBlock then do
        let _ ← expectToken ctx 2
        let endOff ← getLineOffset
        let ident ← getIdentifier ctx
        if ident ≠ ctx.element then errorOrLog .incorrectEndTag
        pure (.block ty ⟨ctx.line, uid, startOff, endOff, ctx.fileid⟩ fields children comments)
      else
        pure (.block ty ⟨ctx.line, uid, startOff, 0, ctx.fileid⟩ fields children comments)
    | some .special => fun e s => e.special ty ctx startOff e.toks e.strict s
    | _ => panic

end

/-! ## `parse_file` -/

def versionOf (major minor : Int) : Option Nat :=
  if major = 1 then
    if minor = 50 then some 1 else if minor = 51 then some 2 else if minor = 60 then some 3
    else if minor = 61 then some 4 else if minor = 70 then some 5 else if minor = 71 then some 6 else none
  else none

/-- `parse_version` -/
def parseVersion (fuel : Nat) (ctx : Ctx) : PM Nat := do
  let e ← getEnv
  match (← peekToken) with
  | some token =>
    let ident ← attempt (getIdentifier ctx)
    -- (`if let Ok("ASAP2_VERSION") = ident.as_deref()`: the identifier that was read, which is not the peeked token
    --  when the file starts with a comment; symbols are interned texts, so comparing symbols is comparing texts)
    let s1 ← getState
    let isVer : Bool := match ident with
      | .ok _ => (match e.toks[s1.pos - 1]? with | some t => t.sym == e.known.tagAsap2Version | none => false)
      | .error _ => false
    if isVer then
      let verCtx : Ctx := ⟨[], token.fileid, token.line⟩
      let r ← attempt (parseType fuel e.known.tyAsap2Version verCtx 0)
      setTokenpos 0
      match r with
      | .ok (.block _ _ [.int major _ _ _, .int minor _ _ _] _ _) =>
        match versionOf major minor with
        | some v => pure v
        | none => do errorOrLogNoLine .invalidVersion; pure 6
      | .ok _ => panic
      | .error _ => do errorOrLogNoLine .missingVersionInfo; pure 6
    else do
      setTokenpos 0
      errorOrLogNoLine .missingVersionInfo
      pure 2
  | none => do
    setTokenpos 0
    errorOrLogNoLine .missingVersionInfo
    pure 2

/-- `ParserState::parse_file` -/
def parseFile (fuel : Nat) : PM Val := do
  let e ← getEnv
  let firstline := match e.toks[0]? with | some t => t.line | none => 1
  let ctx : Ctx := ⟨"A2L_FILE".toList, 0, firstline⟩
  let ver ← parseVersion fuel ctx
  modifyState fun s => { s with ver := ver }
  let file ← parseType fuel e.known.tyA2lFile ctx 0
  match (← peekToken) with
  | some _ => errorOrLog .additionalTokensError
  | none => pure ()
  pure file

/-- outcome of `load_from_string` after tokenizing: model + log, or the error -/
def runParseFile (e : Env) : PRes Val :=
  parseFile (4 * e.toks.size + 64) e {}

/-! ## the writer (`writer.rs` + `codegenerator/writer.rs` shapes) -/

def addWhitespace (indent : Nat) (offset : Nat) : List Char :=
  if offset = 0 then [' ']
  else List.replicate offset '\n' ++ (List.replicate indent [' ', ' ']).flatten

/-- one entry of the group handed to `add_group` -/
structure TagInfo where
  isComment : Bool
  tag : List Char
  uid : Nat
  line : Nat
  startOff : Nat
  endOff : Nat
  isBlock : Bool
  text : List Char
  pos : Option Nat
  included : Bool
  deriving Repr, Inhabited

/-- `sort_function(a, b) != Greater` (tags compare as strings, bytewise = by code point) -/
def tagLe (a b : TagInfo) : Bool :=
  if a.uid = 0 ∧ b.uid ≠ 0 then false
  else if b.uid = 0 ∧ a.uid ≠ 0 then true
  else if a.uid = b.uid then
    if a.line = b.line then decide (String.ofList a.tag ≤ String.ofList b.tag) else decide (a.line ≤ b.line)
  else decide (a.uid ≤ b.uid)

def posLe (a b : TagInfo) : Bool := decide (a.pos.getD 0 ≤ b.pos.getD 0)

/-- `apply_position_restrictions`: the restricted items, sorted by their position (stable), are written back into
    the slots the restricted items occupied -/
def refill : List TagInfo → List TagInfo → List TagInfo
  | [], _ => []
  | g :: gs, sorted =>
    if g.pos.isSome then
      match sorted with
      | x :: xs => x :: refill gs xs
      | [] => g :: refill gs []
    else g :: refill gs sorted

def applyPositionRestrictions (group : List TagInfo) : List TagInfo :=
  let restricted := group.filter (·.pos.isSome)
  if restricted.length > 1 then refill group (restricted.mergeSort posLe) else group

/-- `char::is_whitespace` (Unicode `White_Space`), as used by `str::trim_start` -/
def isRustWs (c : Char) : Bool :=
  let v := c.toNat
  (9 ≤ v && v ≤ 13) || v == 0x20 || v == 0x85 || v == 0xA0 || v == 0x1680 || (0x2000 ≤ v && v ≤ 0x200A) ||
    v == 0x2028 || v == 0x2029 || v == 0x202F || v == 0x205F || v == 0x3000

/-- `comment.trim_start().starts_with("//")` -/
def isLineCommentText (text : List Char) : Bool :=
  match text.dropWhile isRustWs with
  | '/' :: '/' :: _ => true
  | _ => false

/-- `if after_line_comment && start_offset == 0 { 1 } else { start_offset }` -/
def bumpOff (afterLineComment : Bool) (startOff : Nat) : Nat :=
  if afterLineComment ∧ startOff = 0 then 1 else startOff

/-- `State` of the scanner in `ends_in_line_comment` -/
inductive LcState where
  | outside
  | inString
  | inStringEscaped
  | lineComment
  | blockComment
  | blockCommentStar
  deriving Repr, DecidableEq, Inhabited

/-- the `while let Some(c) = chars.next()` loop of `ends_in_line_comment`: the state behind the text. Outside of strings
    and comments `//` and `/*` are consumed as a whole (`chars.peek()` / `chars.next()`) -/
def lcScan : LcState → List Char → LcState
  | s, [] => s
  | .outside, c :: rest =>
    if c = '"' then lcScan .inString rest
    else if c = '/' then
      match rest with
      | [] => .outside
      | d :: rest' =>
        if d = '/' then lcScan .lineComment rest'
        else if d = '*' then lcScan .blockComment rest'
        else lcScan .outside (d :: rest')
    else lcScan .outside rest
  | .inString, c :: rest =>
    if c = '\\' then lcScan .inStringEscaped rest
    else if c = '"' then lcScan .outside rest
    else lcScan .inString rest
  | .inStringEscaped, _ :: rest => lcScan .inString rest
  | .lineComment, c :: rest => if c = '\n' then lcScan .outside rest else lcScan .lineComment rest
  | .blockComment, c :: rest => if c = '*' then lcScan .blockCommentStar rest else lcScan .blockComment rest
  | .blockCommentStar, c :: rest =>
    if c = '/' then lcScan .outside rest
    else if c = '*' then lcScan .blockCommentStar rest
    else lcScan .blockComment rest

/-- `ends_in_line_comment`: does the written text — the content of a block, which starts outside of any string or
    comment — end inside a `//` comment? -/
def endsInLineComment (text : List Char) : Bool := lcScan .outside text == .lineComment

/-- `if end_offset == 0 && ends_in_line_comment(&item_text) { 1 } else { end_offset }` -/
def endOffOf (endOff : Nat) (text : List Char) : Nat :=
  if endOff = 0 ∧ endsInLineComment text then 1 else endOff

/-- the loop of `add_group` (after the `fix:` commits: a line comment extends to the end of its line, so whatever is
    written next - the next item, or the `/end` of the block whose content ends in the comment - starts on a new
    line); the flag is `after_line_comment` -/
def addGroupGo (indent : Nat) : Bool → List TagInfo → List Char
  | _, [] => []
  | alc, item :: rest =>
    if item.isComment then
      if item.included then addGroupGo indent alc rest
      else
        List.replicate (bumpOff alc item.startOff) '\n' ++ item.text ++
          addGroupGo indent (isLineCommentText item.text) rest
    else
      addWhitespace indent (bumpOff alc item.startOff) ++ (if item.isBlock then "/begin ".toList else []) ++ item.tag ++
        item.text ++
        (if item.isBlock then
          addWhitespace indent (endOffOf item.endOff item.text) ++ "/end ".toList ++ item.tag
         else []) ++
        addGroupGo indent false rest

/-- `add_group` (elements from include files are outside this model: `incfile = None` everywhere) -/
def addGroup (indent : Nat) (group : List TagInfo) : List Char :=
  addGroupGo indent false (applyPositionRestrictions (group.mergeSort tagLe))

def symText (symbols : Array String) (i : Nat) : List Char := (symbols[i]?.getD "?").toList

def posRestrict (code : List CodeEntry) (ty : Nat) (fields : List Val) : Option Nat :=
  match codeLookup code ty with
  | some (.block _ _ _ _ _ p) =>
    if p = 0 then none
    else if p = 1 then (match fields with | .int v _ _ _ :: _ => some v.toNat | _ => none)
    else some (p - 100)
  | _ => none

mutual
/-- `generate_block_item_write_cmd` -/
def writeItem (fuel : Nat) (e : Env) (indent : Nat) (v : Val) : List Char :=
  match fuel with
  | 0 => []
  | fuel + 1 =>
    match v with
    | .ident s off => addWhitespace indent off ++ s
    | .enum s off => addWhitespace indent off ++ s
    | .str s off => addWhitespace indent off ++ ['"'] ++ escape s ++ ['"']
    | .int i hex off w => addWhitespace indent off ++ printInt (intTyOf w) i hex
    | .dbl s off => addWhitespace indent off ++ s
    | .arr vs => writeItems fuel e indent vs
    | .seq vs => writeItems fuel e indent vs
    | .block _ _ fields children _ =>
      -- a struct inside a sequence: written with the parent's writer (same indent), no tagged part
      writeItems fuel e indent fields ++ (if children.isEmpty then [] else [])

def writeItems (fuel : Nat) (e : Env) (indent : Nat) (vs : List Val) : List Char :=
  match fuel with
  | 0 => []
  | fuel + 1 =>
    match vs with
    | [] => []
    | v :: rest => writeItem fuel e indent v ++ writeItems fuel e indent rest

/-- `X::stringify(indent)` of a block or keyword -/
def stringify (fuel : Nat) (e : Env) (indent : Nat) (v : Val) : List Char :=
  match fuel with
  | 0 => []
  | fuel + 1 =>
    match v with
    | .block ty _ fields children comments =>
      match e.table.lookup ty with
      | some (.block _ _ arms hasTagged) =>
        let head := writeItems fuel e indent fields
        if hasTagged then
          let group := groupOf fuel e indent arms children
          let cmts := comments.map fun c =>
            ({ isComment := true, tag := [], uid := c.uid, line := c.line, startOff := c.startOff, endOff := 0,
               isBlock := false, text := c.text, pos := none, included := c.included } : TagInfo)
          head ++ addGroup indent (group ++ cmts)
        else head
      | some .special => e.specialWrite ty indent v
      | _ => []
    | _ => []

def groupOf (fuel : Nat) (e : Env) (indent : Nat) (arms : List Arm) (children : List (List Val)) : List TagInfo :=
  match fuel with
  | 0 => []
  | fuel + 1 =>
    match arms, children with
    | arm :: arms', cs :: children' =>
      groupOfArm fuel e indent arm cs ++ groupOf fuel e indent arms' children'
    | _, _ => []

def groupOfArm (fuel : Nat) (e : Env) (indent : Nat) (arm : Arm) (cs : List Val) : List TagInfo :=
  match fuel with
  | 0 => []
  | fuel + 1 =>
    match cs with
    | [] => []
    | c :: rest =>
      (match c with
       | .block ty info fields _ _ =>
         [({ isComment := false, tag := symText e.symbols arm.tag, uid := info.uid, line := info.line,
             startOff := info.startOff, endOff := info.endOff, isBlock := arm.block,
             text := stringify fuel e (indent + 1) c, pos := posRestrict e.code ty fields, included := false } : TagInfo)]
       | _ => []) ++ groupOfArm fuel e indent arm rest
end

/-- `A2lFile::write_to_string` -/
def writeFile (e : Env) (v : Val) (fuel : Nat) : List Char := stringify fuel e 0 v

end A2l.Tree
