import A2lVerif.Model.Basic
/-! Model of `a2lfile/src/loader.rs`: `decode_raw_bytes` (detection cascade UTF-32 → UTF-16 → UTF-8 → Latin-1) and the
    BOM strip of `load`. Text is a `List Char`, file content a `List UInt8`. The encoders are the *specification* side
    (what a conforming file of each encoding looks like). -/

namespace A2l.Enc

abbrev Bytes := List UInt8

/-- `char::from_u32(n).is_some()` -/
def validScalar (n : Nat) : Bool := n < 0xD800 || (0xE000 ≤ n && n < 0x110000)

/-! ## UTF-32 -/

def u32of (a b c d : UInt8) : Nat := a.toNat * 16777216 + b.toNat * 65536 + c.toNat * 256 + d.toNat

/-- `for i in 0..len/4 { char::from_u32(conversion(bytes)) }`; `none` = conversion_failed. Trailing bytes (fewer than
    four) are ignored like in the Rust loop; the caller only uses it for lengths divisible by four. -/
def decode32 (be : Bool) : Bytes → Option (List Char)
  | a :: b :: c :: d :: r =>
    let n := if be then u32of a b c d else u32of d c b a
    if validScalar n then (decode32 be r).map (Char.ofNat n :: ·) else none
  | _ => some []

def bytes32 (be : Bool) (n : Nat) : Bytes :=
  let b3 := (n / 16777216 % 256).toUInt8
  let b2 := (n / 65536 % 256).toUInt8
  let b1 := (n / 256 % 256).toUInt8
  let b0 := (n % 256).toUInt8
  if be then [b3, b2, b1, b0] else [b0, b1, b2, b3]

def encode32 (be : Bool) (s : List Char) : Bytes := s.flatMap (fun c => bytes32 be c.toNat)

/-! ## UTF-16 -/

/-- `u16::from_be_bytes` / `from_le_bytes` over consecutive pairs -/
def units16 (be : Bool) : Bytes → List Nat
  | a :: b :: r => (if be then a.toNat * 256 + b.toNat else b.toNat * 256 + a.toNat) :: units16 be r
  | _ => []

/-- `String::from_utf16` -/
def fromUtf16 : List Nat → Option (List Char)
  | [] => some []
  | u :: r =>
    if u < 0xD800 ∨ 0xE000 ≤ u then (fromUtf16 r).map (Char.ofNat u :: ·)
    else if u < 0xDC00 then
      match r with
      | l :: r' =>
        if 0xDC00 ≤ l ∧ l < 0xE000 then
          (fromUtf16 r').map (Char.ofNat (0x10000 + (u - 0xD800) * 1024 + (l - 0xDC00)) :: ·)
        else none
      | [] => none
    else none

/-- `char::encode_utf16` -/
def enc16 (c : Char) : List Nat :=
  if c.toNat < 0x10000 then [c.toNat]
  else [0xD800 + (c.toNat - 0x10000) / 1024, 0xDC00 + (c.toNat - 0x10000) % 1024]

def bytes16 (be : Bool) (u : Nat) : Bytes :=
  if be then [(u / 256 % 256).toUInt8, (u % 256).toUInt8] else [(u % 256).toUInt8, (u / 256 % 256).toUInt8]

def encode16 (be : Bool) (s : List Char) : Bytes := (s.flatMap enc16).flatMap (bytes16 be)

/-! ## UTF-8 and Latin-1 -/

/-- `String::from_utf8` (core Lean's validating decoder) -/
def utf8? (b : Bytes) : Option (List Char) := (ByteArray.mk b.toArray).utf8Decode?.map Array.toList
def encode8 (s : List Char) : Bytes := s.flatMap String.utf8EncodeChar

def latin1 (b : Bytes) : List Char := b.map (fun x => Char.ofNat x.toNat)

/-! ## the cascade of `decode_raw_bytes` -/

def try32 (b : Bytes) : Option (List Char) :=
  if b.length % 4 = 0 ∧ 3 < b.length then
    match b with
    | b0 :: b1 :: b2 :: b3 :: _ =>
      if b0 = 0 ∧ b1 = 0 ∧ b3 ≠ 0 then decode32 true b
      else if b0 ≠ 0 ∧ b2 = 0 ∧ b3 = 0 then decode32 false b
      else none
    | _ => none
  else none

def try16 (b : Bytes) : Option (List Char) :=
  if b.length % 2 = 0 ∧ 1 < b.length then
    match b with
    | b0 :: b1 :: _ =>
      if (b0 = 0 ∧ b1 ≠ 0) ∨ (b0 = 0xfe ∧ b1 = 0xff) then fromUtf16 (units16 true b)
      else if (b0 ≠ 0 ∧ b1 = 0) ∨ (b0 = 0xff ∧ b1 = 0xfe) then fromUtf16 (units16 false b)
      else none
    | _ => none
  else none

/-- `decode_raw_bytes` -/
def decodeRaw (b : Bytes) : List Char :=
  match try32 b with
  | some s => s
  | none =>
    match try16 b with
    | some s => s
    | none =>
      match utf8? b with
      | some s => s
      | none => latin1 b

def bom : Char := Char.ofNat 0xFEFF

/-- `if utf8data.len() > 2 && utf8data.starts_with('\u{feff}') { &utf8data[3..] }` (a BOM is 3 bytes in UTF-8, so
    the length test is implied by the prefix test) -/
def stripBom : List Char → List Char
  | c :: r => if c = bom then r else c :: r
  | [] => []

/-- what `loader::load` hands to the tokenizer -/
def loadText (b : Bytes) : List Char := stripBom (decodeRaw b)

/-! ## the ten encodings of the property (specification side) -/

inductive Encoding where
  | utf8 | utf8Bom | utf16le | utf16be | utf16leBom | utf16beBom | utf32le | utf32be | utf32leBom | utf32beBom
  deriving Repr, DecidableEq

def encode : Encoding → List Char → Bytes
  | .utf8, s => encode8 s
  | .utf8Bom, s => encode8 (bom :: s)
  | .utf16le, s => encode16 false s
  | .utf16be, s => encode16 true s
  | .utf16leBom, s => encode16 false (bom :: s)
  | .utf16beBom, s => encode16 true (bom :: s)
  | .utf32le, s => encode32 false s
  | .utf32be, s => encode32 true s
  | .utf32leBom, s => encode32 false (bom :: s)
  | .utf32beBom, s => encode32 true (bom :: s)

/-- An A2L text as far as the encoding detection is concerned: the first character is basic ASCII and not NUL (as the
    format requires), and there is no NUL character anywhere. -/
structure A2lText (s : List Char) : Prop where
  head : ∃ c r, s = c :: r ∧ 0 < c.toNat ∧ c.toNat < 128
  nonul : ∀ c ∈ s, c.toNat ≠ 0

end A2l.Enc
