import A2lVerif.Model.Basic
/-! Model of `a2lfile/src/merge.rs` (`merge_modules(orig_module, merge_module)`) at the level of the
    reference graph of a MODULE.

    A module is the ordered list of the children of MODULE (`Node`s). A node carries its A2L keyword (`tag`),
    its name (empty for unnamed children), a hash of its *static body* (everything except its own name and
    its references) and the ordered list of its references `site@target`. Rust `PartialEq` of two elements
    (layout is ignored by it) is equality of `Node`s.

    Every Rust pass is one function here, in the Rust order (see `mergeSt`). The passes that follow the
    scheme `calculate_item_actions` / `rename_*` / move are split into a *plan* step (compute the actions,
    rename the references in ALL remaining nodes of B at exactly the sites the Rust `rename_*` function
    touches: table `covered`) and an *apply* step (`applyNs`: move B's elements). The plan step is a single
    round (`planNs`: COMPU_TAB…, COMPU_METHOD, RECORD_LAYOUT, FRAME) or, for namespaces whose elements refer
    to elements of the same group of namespaces, the fixpoint loop `planLoop` (UNIT; objects + typedefs in
    ONE loop; TRANSFORMER): the actions are re-evaluated on the renamed module until a round produces no
    new renames.

    Not visible in the abstraction (documented deviations, see the report):
    * MEMORY_SEGMENT / MEMORY_LAYOUT / SYSTEM_CONSTANT live inside MOD_PAR: when both modules have a MOD_PAR
      and they differ, the body of A's MOD_PAR may change; the model then sets its hash to `"*"` (unknown).
      `rename_memory_segment_refs` (site `RefMemorySegment.name`) cannot be modelled for the same reason.
    * USER_RIGHTS is unnamed: `user_level_id` is part of the hash; "same user_level_id" is modelled as
      "same hash".
    * FUNCTION / GROUP: whether A has an *empty* list block (`Some([])`, items of B are then de-duplicated)
      or none (`None`, B's block is taken over with duplicates) is not visible, nor is the position that a
      block taken over from B gets among A's blocks. The model treats "no reference at this site" as `None`
      and appends what is gained. -/

namespace A2l.Mg

structure Ref where
  site : String
  target : String
  deriving DecidableEq, Repr, Inhabited

structure Node where
  tag : String
  name : String
  hash : String
  refs : List Ref
  deriving DecidableEq, Repr, Inhabited

abbrev Module := List Node

/-- The namespaces in which `merge.rs` looks elements up by name. -/
inductive Ns where
  | unit | compuTab | compuMethod | recordLayout | object | typedef | function | group | frame | transformer
  deriving DecidableEq, Repr, Inhabited

/-- The kinds of a namespace, in the order in which `Module::objects()`, `typedefs()`, `compu_tabs()`
    concatenate them (`module.rs`). -/
def Ns.tags : Ns → List String
  | .unit => ["UNIT"]
  | .compuTab => ["COMPU_TAB", "COMPU_VTAB", "COMPU_VTAB_RANGE"]
  | .compuMethod => ["COMPU_METHOD"]
  | .recordLayout => ["RECORD_LAYOUT"]
  | .object => ["AXIS_PTS", "BLOB", "CHARACTERISTIC", "INSTANCE", "MEASUREMENT"]
  | .typedef => ["TYPEDEF_AXIS", "TYPEDEF_BLOB", "TYPEDEF_CHARACTERISTIC", "TYPEDEF_MEASUREMENT",
                 "TYPEDEF_STRUCTURE"]
  | .function => ["FUNCTION"]
  | .group => ["GROUP"]
  | .frame => ["FRAME"]
  | .transformer => ["TRANSFORMER"]

def Ns.all : List Ns :=
  [.unit, .compuTab, .compuMethod, .recordLayout, .object, .typedef, .function, .group, .frame, .transformer]

/-- `ItemList` of a namespace: the elements kind by kind (`objects()` = axis_pts, blob, characteristic,
    instance, measurement). -/
def nsNodes (ns : Ns) (m : Module) : List Node :=
  ns.tags.flatMap fun t => m.filter (·.tag == t)

/-- `ItemList::get(name)`: the first element with this name (`push` keeps the first index of a name). -/
def lookup (l : List Node) (name : String) : Option Node := l.find? (·.name == name)

/-! ### `make_unique_name` -/

/-- `format!("{current_name}.MERGE")` for `idx = 1`, `format!("{current_name}.MERGE{idx}")` afterwards -/
def mergeName (cur : String) (idx : Nat) : String :=
  if idx ≤ 1 then cur ++ ".MERGE" else cur ++ ".MERGE" ++ toString idx

/-- the `while` loop of `make_unique_name`, with fuel; `fresh_terminates` shows that the fuel given in
    `makeUniqueName` is never used up. -/
def uniqueLoop (taken : String → Bool) (cur : String) : Nat → Nat → String
  | 0, idx => mergeName cur idx
  | fuel + 1, idx =>
    if taken (mergeName cur idx) then uniqueLoop taken cur fuel (idx + 1) else mergeName cur idx

def nameTaken (orig merge : List Node) (s : String) : Bool :=
  (lookup merge s).isSome || (lookup orig s).isSome

def makeUniqueName (cur : String) (orig merge : List Node) : String :=
  uniqueLoop (nameTaken orig merge) cur (orig.length + merge.length + 2) 1

/-! ### `calculate_item_actions` -/

/-- `HashMap<String, V>` as an association list: `insert` shadows, `get` finds the latest. -/
abbrev Tbl (α : Type) := List (String × α)
def Tbl.get {α} (t : Tbl α) (k : String) : Option α := (t.find? (·.1 == k)).map (·.2)
def Tbl.insert {α} (t : Tbl α) (k : String) (v : α) : Tbl α := (k, v) :: t

structure Plan where
  /-- `merge_action` -/
  act : Tbl Bool
  /-- `rename_table` -/
  ren : Tbl String
  deriving Repr, Inhabited

def calcStep (orig merge : List Node) (p : Plan) (b : Node) : Plan :=
  match lookup orig b.name with
  | some a =>
    if a == b then { p with act := p.act.insert b.name false }
    else { act := p.act.insert b.name true, ren := p.ren.insert b.name (makeUniqueName b.name orig merge) }
  | none => { p with act := p.act.insert b.name true }

def calcActions (orig merge : List Node) : Plan := merge.foldl (calcStep orig merge) ⟨[], []⟩

/-! ### the `rename_*` functions -/

/-- `(tag, site, ns)`: the Rust function that renames references into namespace `ns` rewrites the
    identifier field `site` of the elements of kind `tag` (directly or in a sub-block). Derived from
    `rename_unit_refs`, `rename_compu_tabs`, `rename_compu_method_refs`, `rename_record_layouts`,
    `rename_objects`, `rename_typedef_refs`, `rename_transformer_refs`. -/
def covered : List (String × String × Ns) := [
  -- rename_unit_refs
  ("COMPU_METHOD", "RefUnit.unit", .unit),
  ("UNIT", "RefUnit.unit", .unit),
  -- rename_compu_tabs
  ("COMPU_METHOD", "CompuTabRef.conversion_table", .compuTab),
  ("COMPU_METHOD", "StatusStringRef.conversion_table", .compuTab),
  -- rename_compu_method_refs
  ("AXIS_PTS", "AxisPts.conversion", .compuMethod),
  ("CHARACTERISTIC", "Characteristic.conversion", .compuMethod),
  ("CHARACTERISTIC", "AxisDescr.conversion", .compuMethod),
  ("MEASUREMENT", "Measurement.conversion", .compuMethod),
  ("TYPEDEF_AXIS", "TypedefAxis.conversion", .compuMethod),
  ("TYPEDEF_CHARACTERISTIC", "TypedefCharacteristic.conversion", .compuMethod),
  ("TYPEDEF_CHARACTERISTIC", "AxisDescr.conversion", .compuMethod),
  ("TYPEDEF_MEASUREMENT", "TypedefMeasurement.conversion", .compuMethod),
  ("INSTANCE", "Conversion.name", .compuMethod),
  -- rename_record_layouts
  ("AXIS_PTS", "AxisPts.deposit_record", .recordLayout),
  ("CHARACTERISTIC", "Characteristic.deposit", .recordLayout),
  ("TYPEDEF_AXIS", "TypedefAxis.record_layout", .recordLayout),
  ("TYPEDEF_CHARACTERISTIC", "TypedefCharacteristic.record_layout", .recordLayout),
  ("MOD_COMMON", "SRecLayout.name", .recordLayout),
  -- rename_objects
  ("AXIS_PTS", "AxisPts.input_quantity", .object),
  ("CHARACTERISTIC", "AxisDescr.input_quantity", .object),
  ("CHARACTERISTIC", "AxisPtsRef.axis_points", .object),
  ("CHARACTERISTIC", "CurveAxisRef.curve_axis", .object),
  ("CHARACTERISTIC", "DependentCharacteristic.characteristic_list", .object),
  ("CHARACTERISTIC", "VirtualCharacteristic.characteristic_list", .object),
  ("CHARACTERISTIC", "ComparisonQuantity.name", .object),
  ("CHARACTERISTIC", "MapList.name_list", .object),
  ("MEASUREMENT", "Virtual.measuring_channel_list", .object),
  ("TYPEDEF_AXIS", "TypedefAxis.input_quantity", .object),
  ("INSTANCE", "InputQuantity.name", .object),
  ("TYPEDEF_CHARACTERISTIC", "AxisDescr.input_quantity", .object),
  ("TYPEDEF_CHARACTERISTIC", "AxisPtsRef.axis_points", .object),
  ("TYPEDEF_CHARACTERISTIC", "CurveAxisRef.curve_axis", .object),
  ("FRAME", "FrameMeasurement.identifier_list", .object),
  ("FUNCTION", "InMeasurement.identifier_list", .object),
  ("FUNCTION", "LocMeasurement.identifier_list", .object),
  ("FUNCTION", "OutMeasurement.identifier_list", .object),
  ("FUNCTION", "DefCharacteristic.identifier_list", .object),
  ("FUNCTION", "RefCharacteristic.identifier_list", .object),
  ("GROUP", "RefCharacteristic.identifier_list", .object),
  ("GROUP", "RefMeasurement.identifier_list", .object),
  ("TRANSFORMER", "TransformerInObjects.identifier_list", .object),
  ("TRANSFORMER", "TransformerOutObjects.identifier_list", .object),
  ("VARIANT_CODING", "VarMeasurement.name", .object),
  ("VARIANT_CODING", "VarSelectionCharacteristic.name", .object),
  ("VARIANT_CODING", "VarCharacteristic.name", .object),
  -- rename_typedef_refs
  ("INSTANCE", "Instance.type_ref", .typedef),
  ("TYPEDEF_STRUCTURE", "StructureComponent.component_type", .typedef),
  -- rename_transformer_refs
  ("TRANSFORMER", "Transformer.inverse_transformer", .transformer)]

/-- the namespace whose rename table is applied to the field `site` of an element of kind `tag` -/
def coveredNs (tag site : String) : Option Ns :=
  (covered.find? fun c => c.1 == tag && c.2.1 == site).map (·.2.2)

/-- `if let Some(newname) = rename_table.get(x) { x = newname }` -/
def Tbl.app (t : Tbl String) (s : String) : String := (t.get s).getD s

def renameRef (ns : Ns) (t : Tbl String) (tag : String) (r : Ref) : Ref :=
  if coveredNs tag r.site = some ns then { r with target := t.app r.target } else r

/-- one `rename_*` function applied to one element of B -/
def renameNode (ns : Ns) (t : Tbl String) (n : Node) : Node :=
  { n with refs := n.refs.map (renameRef ns t n.tag) }

/-! ### moving B's elements -/

/-- `for x in list { if let Some(true) = merge_action.get(&x.name) { if let Some(newname) =
    rename_table.remove(&x.name) { x.name = newname }; orig.push(x) } }`; `removed` = the keys already
    removed from the rename table. -/
def appendLoop (p : Plan) : List String → List Node → List Node
  | _, [] => []
  | removed, b :: rest =>
    if p.act.get b.name = some true then
      match (if removed.contains b.name then none else p.ren.get b.name) with
      | some newname => { b with name := newname } :: appendLoop p (b.name :: removed) rest
      | none => b :: appendLoop p removed rest
    else appendLoop p removed rest

/-! ### state and passes -/

structure St where
  /-- `orig_module` -/
  a : Module
  /-- `merge_module` (what is left of it) -/
  b : Module
  /-- the `(merge_action, rename_table)` pairs computed so far (latest first); also the log used by C09 -/
  plans : List (Ns × Plan)
  deriving Repr, Inhabited

def St.plan (st : St) (ns : Ns) : Plan :=
  ((st.plans.find? (·.1 == ns)).map (·.2)).getD ⟨[], []⟩

def hasTag (tags : List String) (n : Node) : Bool := tags.contains n.tag

/-- `let (merge_action, rename_table) = calculate_item_actions(..); rename_…(merge_module, &rename_table)` -/
def planNs (ns : Ns) (st : St) : St :=
  let p := calcActions (nsNodes ns st.a) (nsNodes ns st.b)
  { st with b := st.b.map (renameNode ns p.ren), plans := (ns, p) :: st.plans }

/-- the `std::mem::take` + `for` loops of one namespace, kind by kind -/
def applyNs (ns : Ns) (st : St) : St :=
  { st with a := st.a ++ appendLoop (st.plan ns) [] (nsNodes ns st.b),
            b := st.b.filter fun n => !hasTag ns.tags n }

/-! ### the fixpoint loop of `merge_unit`, `merge_objects`, `merge_transformer` -/

/-- `new_renames.retain(|name, _| !rename_table.contains_key(name))` -/
def retainNew (table new : Tbl String) : Tbl String := new.filter fun kv => (table.get kv.1).isNone

/-- `for name in rename_table.keys() { merge_action.insert(name.clone(), true) }` -/
def forceTrue (table : Tbl String) (act : Tbl Bool) : Tbl Bool := table.foldl (fun acc kv => acc.insert kv.1 true) act

/-- the state inside one round of the loop -/
structure Round where
  b : Module
  /-- `merge_action` computed in this round, per namespace -/
  act : Ns → Tbl Bool
  /-- `new_renames` of this round, per namespace -/
  new : Ns → Tbl String

/-- one namespace inside a round: `calculate_item_actions` on the current merge module, keep the renames that are
    new, apply them to the references of the merge module -/
def roundStep (a : Module) (ts : Ns → Tbl String) (r : Round) (ns : Ns) : Round :=
  let p := calcActions (nsNodes ns a) (nsNodes ns r.b)
  let new := retainNew (ts ns) p.ren
  { b := r.b.map (renameNode ns new),
    act := fun n => if n = ns then p.act else r.act n,
    new := fun n => if n = ns then new else r.new n }

/-- one round: the namespaces of the loop in turn (objects, then typedefs) -/
def loopRound (a : Module) (ts : Ns → Tbl String) (nss : List Ns) (b : Module) : Round :=
  nss.foldl (roundStep a ts) ⟨b, fun _ => [], fun _ => []⟩

/-- `loop { …; let done = new_renames.is_empty(); rename_table.extend(new_renames); if done { break action } }`
    followed by the forcing of the renamed names to action `true`; `ts` = the accumulated rename tables.
    With fuel: `actions_fixpoint_terminates` shows that the fuel of `planLoop` is never used up. -/
def fixLoop (a : Module) (nss : List Ns) : Nat → Module → (Ns → Tbl String) → Module × (Ns → Plan)
  | 0, b, ts => (b, fun ns => ⟨[], ts ns⟩)
  | fuel + 1, b, ts =>
    let r := loopRound a ts nss b
    let ts' : Ns → Tbl String := fun ns => r.new ns ++ ts ns
    if nss.all (fun ns => (r.new ns).isEmpty) then
      (r.b, fun ns => ⟨forceTrue (ts' ns) (r.act ns), ts' ns⟩)
    else fixLoop a nss fuel r.b ts'

/-- every non-final round renames at least one more element of B: `|items| + 1` rounds suffice -/
def loopFuel (nss : List Ns) (b : Module) : Nat := (nss.map fun ns => (nsNodes ns b).length).sum + 1

/-- the plan step of `merge_unit` / `merge_objects` / `merge_transformer` for the namespaces `nss` -/
def planLoop (nss : List Ns) (st : St) : St :=
  let res := fixLoop st.a nss (loopFuel nss st.b) st.b (fun _ => [])
  { st with b := res.1, plans := (nss.map fun ns => (ns, res.2 ns)).reverse ++ st.plans }

/-- A2ML, MOD_COMMON, VARIANT_CODING: taken from B iff A has none -/
def takeOpt (tag : String) (st : St) : St :=
  match st.b.find? (·.tag == tag) with
  | some x =>
    if st.a.any (·.tag == tag) then st
    else { st with a := st.a ++ [x], b := st.b.filter (·.tag != tag) }
  | none => st

/-- IF_DATA: all of B's iff A has none -/
def takeAll (tag : String) (st : St) : St :=
  if st.a.any (·.tag == tag) then st
  else { st with a := st.a ++ st.b.filter (·.tag == tag), b := st.b.filter (·.tag != tag) }

/-- replace the first element satisfying `p` -/
def updFirst (p : Node → Bool) (f : Node → Node) : List Node → List Node
  | [] => []
  | x :: xs => if p x then f x :: xs else x :: updFirst p f xs

/-- `merge_mod_par`: B's MOD_PAR is moved if A has none; otherwise MEMORY_LAYOUT, MEMORY_SEGMENT and
    SYSTEM_CONSTANT of B are merged into A's MOD_PAR, whose body may change: hash `"*"` unless the two are
    identical. -/
def mergeModPar (st : St) : St :=
  match st.b.find? (·.tag == "MOD_PAR") with
  | some x =>
    if st.a.any (·.tag == "MOD_PAR") then
      { st with a := updFirst (·.tag == "MOD_PAR") (fun y => if y == x then y else { y with hash := "*" }) st.a }
    else { st with a := st.a ++ [x], b := st.b.filter (·.tag != "MOD_PAR") }
  | none => st

/-- `for item in merge_list { if !orig_list.contains(&item) { orig_list.push(item) } }`: what is pushed -/
def gained (have_ : List String) : List String → List String
  | [] => []
  | x :: xs => if have_.contains x then gained have_ xs else x :: gained (have_ ++ [x]) xs

def targetsAt (site : String) (n : Node) : List String :=
  (n.refs.filter (·.site == site)).map (·.target)

/-- the references gained at one list block: `(Some, Some)` → the new items; `(None, Some)` → B's block -/
def gainedAt (a b : Node) (site : String) : List Ref :=
  let have_ := targetsAt site a
  let new_ := targetsAt site b
  (if have_.isEmpty then new_ else gained have_ new_).map fun t => ⟨site, t⟩

/-- FUNCTION / GROUP with the same name: `if *orig == merge { continue }`, else the list blocks are united -/
def mergeLists (sites : List String) (b a : Node) : Node :=
  if a == b then a else { a with refs := a.refs ++ sites.flatMap (gainedAt a b) }

def byNameStep (tag : String) (sites : List String) (a : Module) (b : Node) : Module :=
  if a.any (fun x => x.tag == tag && x.name == b.name) then
    updFirst (fun x => x.tag == tag && x.name == b.name) (mergeLists sites b) a
  else a ++ [b]

def mergeByName (tag : String) (sites : List String) (st : St) : St :=
  { st with a := (st.b.filter (·.tag == tag)).foldl (byNameStep tag sites) st.a,
            b := st.b.filter (·.tag != tag) }

def functionSites : List String :=
  ["SubFunction.identifier_list", "InMeasurement.identifier_list", "LocMeasurement.identifier_list",
   "OutMeasurement.identifier_list", "DefCharacteristic.identifier_list", "RefCharacteristic.identifier_list"]

def groupSites : List String :=
  ["SubGroup.identifier_list", "FunctionList.name_list", "RefCharacteristic.identifier_list",
   "RefMeasurement.identifier_list"]

/-- `merge_user_rights`: pushed unless a USER_RIGHTS with the same `user_level_id` (here: hash) is there -/
def userRightsStep (a : Module) (b : Node) : Module :=
  if a.any (fun x => x.tag == "USER_RIGHTS" && x.hash == b.hash) then a else a ++ [b]

def mergeUserRights (st : St) : St :=
  { st with a := (st.b.filter (·.tag == "USER_RIGHTS")).foldl userRightsStep st.a,
            b := st.b.filter (·.tag != "USER_RIGHTS") }

/-! ### the passes of `merge_modules`, by their Rust names -/

def mergeA2ml : St → St := takeOpt "A2ML"
def mergeIfData : St → St := takeAll "IF_DATA"
def mergeUnit (st : St) : St := applyNs .unit (planLoop [.unit] st)
def mergeCompuTab (st : St) : St := applyNs .compuTab (planNs .compuTab st)
def mergeCompuMethod (st : St) : St := applyNs .compuMethod (planNs .compuMethod st)
def mergeRecordLayout (st : St) : St := applyNs .recordLayout (planNs .recordLayout st)
def mergeModCommon : St → St := takeOpt "MOD_COMMON"
/-- `merge_objects`: actions + renames for the objects and the typedefs in one loop, then both are moved -/
def mergeObjects (st : St) : St :=
  applyNs .typedef (applyNs .object (planLoop [.object, .typedef] st))
def mergeFunction : St → St := mergeByName "FUNCTION" functionSites
def mergeGroup : St → St := mergeByName "GROUP" groupSites
def mergeFrame (st : St) : St := applyNs .frame (planNs .frame st)
def mergeTransformer (st : St) : St := applyNs .transformer (planLoop [.transformer] st)
def mergeVariantCoding : St → St := takeOpt "VARIANT_CODING"

def mergeSt (a b : Module) : St :=
  let st : St := ⟨a, b, []⟩
  let st := mergeA2ml st
  let st := mergeModPar st
  let st := mergeIfData st
  let st := mergeUnit st
  let st := mergeCompuTab st
  let st := mergeCompuMethod st
  let st := mergeRecordLayout st
  let st := mergeModCommon st
  let st := mergeObjects st
  let st := mergeFunction st
  let st := mergeGroup st
  let st := mergeFrame st
  let st := mergeTransformer st
  let st := mergeUserRights st
  mergeVariantCoding st

/-- `merge_modules(orig_module, merge_module)`: the resulting `orig_module` -/
def merge (a b : Module) : Module := (mergeSt a b).a

end A2l.Mg
