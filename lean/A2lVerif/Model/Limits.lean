import A2lVerif.Model.Basic
/-! Model of the limit plausibility part of `a2lfile/src/checker.rs`:
    `get_datatype_limits`, `calc_compu_method_limits`, `check_limits_valid`, and which of the five carriers uses which
    comparison. Real arithmetic is exact (`Rat`); `f64` rounding, infinities and NaN are outside the model (the
    correspondence check compares exactly on grids where every intermediate is representable, and compares only the
    decision elsewhere). -/

namespace A2l.Lim

inductive DataType where
  | ubyte | sbyte | uword | sword | ulong | slong | auint64 | aint64 | float16 | float32 | float64
  deriving Repr, DecidableEq

/-- `f32::MAX as f64` -/
def maxF32 : Rat := (2 ^ 24 - 1) * 2 ^ 104
/-- `f64::MAX` -/
def maxF64 : Rat := (2 ^ 53 - 1) * 2 ^ 971

/-- `get_datatype_limits`. The literals `18446744073709551615.0` and `9223372036854775807.0` are not representable
    as `f64`; the compiler rounds them to 2^64 and 2^63, and so does the model. -/
def datatypeLimits : DataType → Rat × Rat
  | .ubyte => (0, 255)
  | .sbyte => (-128, 127)
  | .uword => (0, 65535)
  | .sword => (-32768, 32767)
  | .ulong => (0, 4294967295)
  | .slong => (-2147483648, 2147483647)
  | .auint64 => (0, 2 ^ 64)
  | .aint64 => (-(2 ^ 63), 2 ^ 63)
  | .float16 => (-65504, 65504)
  | .float32 => (-maxF32, maxF32)
  | .float64 => (-maxF64, maxF64)

/-- The conversion as `calc_compu_method_limits` sees it. -/
inductive Conv where
  | absent                                  -- NO_COMPU_METHOD, or the name does not resolve: `opt_compu_method = None`
  | form
  | linear (coeffs : Option (Rat × Rat))    -- COEFFS_LINEAR a b (may be missing)
  | ratFunc (coeffs : Option (Rat × Rat × Rat × Rat × Rat × Rat))  -- COEFFS a b c d e f (may be missing)
  | direct                                  -- IDENTICAL, TAB_INTP, TAB_NOINTP, TAB_VERB
  deriving Repr

/-- `calc_compu_method_limits`. The linear case of RAT_FUNC needs `b ≠ 0` to be inverted; with `b = 0` the conversion is
    not evaluated (before fix 4 of this session - DESIGN 9.4 - the Rust code divided by zero there and reported a limit
    error with NaN limits for every declared pair). The result is always `some`; the type is kept for the statements. -/
def calcLimits (conv : Conv) (dt : DataType) : Option (Rat × Rat) :=
  let (lo, hi) := datatypeLimits dt
  match conv with
  | .absent => some (lo, hi)
  | .direct => some (lo, hi)
  | .form => some (-maxF64, maxF64)
  | .linear none => some (lo, hi)
  | .linear (some (a, b)) =>
    if a ≥ 0 then some (a * lo + b, a * hi + b)
    else
      let newUpper := a * lo + b
      some (a * hi + b, newUpper)
  | .ratFunc none => some (lo, hi)
  | .ratFunc (some (a, b, c, d, e, f)) =>
    if a = 0 ∧ d = 0 ∧ e = 0 ∧ f ≠ 0 ∧ b ≠ 0 then
      let func := fun (y : Rat) => f * (y / b) - c / b
      let l := func lo
      let u := func hi
      if l > u then some (u, l) else some (l, u)
    else some (-maxF64, maxF64)

def ratAbs (x : Rat) : Rat := if x < 0 then -x else x

/-- the documented tolerance, 0.0001 % (the Rust constant is the `f64` nearest to 10^-6) -/
def tol : Rat := 1 / 1000000

/-- `check_limits_valid(existing, calculated)` -/
def limitsValid (existing calculated : Rat × Rat) : Bool :=
  let epsLower := ratAbs (calculated.1 * tol)
  let epsUpper := ratAbs (calculated.2 * tol)
  decide ((calculated.1 - existing.1) ≤ epsLower) && decide ((existing.2 - calculated.2) ≤ epsUpper)

/-- the comparison without tolerance (what TYPEDEF_MEASUREMENT used before fix 5 of DESIGN 9.4; kept for the
    statement that the tolerant comparison accepts everything the strict one accepts) -/
def limitsValidStrict (existing calculated : Rat × Rat) : Bool :=
  !(decide (calculated.1 > existing.1) || decide (calculated.2 < existing.2))

inductive Carrier where
  | measurement | characteristic | axisPts | axisDescrStd | typedefMeasurement
  deriving Repr, DecidableEq

/-- Is a `LimitCheckError` reported for this carrier? (`dt` is the data type the code selects for the carrier:
    the object's own for MEASUREMENT / TYPEDEF_MEASUREMENT, FNC_VALUES of the record layout for CHARACTERISTIC,
    AXIS_PTS_X.. for AXIS_PTS and standard-axis AXIS_DESCR.) -/
def reportsError (carrier : Carrier) (conv : Conv) (dt : DataType) (existing : Rat × Rat) : Option Bool :=
  match calcLimits conv dt with
  | none => none
  | some cl =>
    -- every carrier goes through `check_limits_valid`
    match carrier with
    | _ => some (!limitsValid existing cl)

end A2l.Lim
