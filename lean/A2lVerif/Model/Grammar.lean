/-! Grammar tables of the A2L element language. Names (tags, type names, enum values) are interned as indices into
    `A2l.G.symbols` (Gen/Symbols.lean) so that the kernel compares tables without touching strings.
    The tables themselves (Gen/Shipped.lean, Gen/Fresh.lean, Gen/Reference.lean) are regenerated on every run. -/
namespace A2l.G

/-- a parameter of an element: the vocabulary of `codegenerator/parser.rs` `generate_item_parser_call` -/
inductive ItemTy where
  | ident | string | double | float
  | int (w : Nat)                 -- 0..7 = i8 i16 i32 i64 u8 u16 u32 u64
  | strMax (n : Nat)              -- char[n]
  | enumRef (ty : Nat)
  | structRef (ty : Nat)
  | arr (of : ItemTy) (dim : Nat)
  | seq (of : ItemTy) (stop : List Nat)
  deriving Repr, DecidableEq, Inhabited

/-- one arm of the tagged loop; versions: 0 = none, 1..6 = 1.50, 1.51, 1.60, 1.61, 1.70, 1.71 -/
structure Arm where
  tag : Nat
  ty : Nat
  block : Bool
  repeat_ : Bool
  required : Bool
  vlo : Nat
  vhi : Nat
  deriving Repr, DecidableEq, Inhabited

structure EnumItem where
  tag : Nat
  vlo : Nat
  vhi : Nat
  deriving Repr, DecidableEq, Inhabited

inductive TyDef where
  | enum (items : List EnumItem)
  | block (isBlock : Bool) (items : List ItemTy) (tagged : List Arm) (hasTagged : Bool)
  | special                       -- A2ML and IF_DATA: hand-written parsers
  | opaque                        -- extraction failed: nothing is known (every obligation about it fails)
  deriving Repr, DecidableEq, Inhabited

structure Entry where
  name : Nat
  def_ : TyDef
  deriving Repr, DecidableEq, Inhabited

abbrev Table := List Entry

/-- facts that exist only in the generated code (not in the DSL): used by the parser/writer agreement check -/
inductive CodeDef where
  | enum (variants : List (Nat × Nat)) (display : List (Nat × Nat))
  | block (tagList : List Nat) (dflt : Nat) (keepsComments : Bool) (writerItems : List (Nat × Nat)) (writerTags : List (Nat × Bool))
      (pos : Nat)     -- `pos_restrict`: 0 = none, 1 = the first parameter `uint position`, 100+n = the constant n
  | other
  deriving Repr, DecidableEq, Inhabited

structure CodeEntry where
  name : Nat
  def_ : CodeDef
  deriving Repr, DecidableEq, Inhabited

def Table.lookup (t : Table) (name : Nat) : Option TyDef := (List.find? (fun e => e.name == name) t).map (·.def_)
def codeLookup (c : List CodeEntry) (name : Nat) : Option CodeDef := (List.find? (fun e => e.name == name) c).map (·.def_)

end A2l.G
