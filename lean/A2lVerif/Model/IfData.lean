import A2lVerif.Model.Tree
import A2lVerif.Model.A2ml
/-!
# The IF_DATA interpreter (`ifdata.rs`), `GenericIfData` and its writer (`a2ml.rs`), `A2ml` / `IfData` blocks

Executable model, one function per Rust function, in the parser monad `PM` of Model/Tree.lean (token cursor,
`last_token_position`, `sequential_id`, log; `PRes.panic` where the Rust code indexes, `PRes.fuel` = the recursion /
iteration budget of the model ran out, i.e. the real code would not return).

Modelling choices
* `incfile` is left out everywhere: it is `get_incfilename(fileid)`, which is `None` for `fileid = 0`; documents with
  `/include` are outside this model (as in Driver/Tree.lean).
* `HashMap<String, Vec<GenericIfDataTaggedItem>>` (`TaggedStruct`, `TaggedUnion`) is the flat list of the tagged items in
  the order in which they were parsed. The Rust code only ever iterates over all values (writer, `merge_includes`)
  and the writer sorts the items by `uid` afterwards (stable sort, uids of parsed items are distinct), so the hash
  order is not observable in the written text.
* the list `parser.a2mlspec` (built-in specification first, then one entry per A2ML block parsed so far) is computed
  from the token array: `specsAt builtin toks p` = `builtin` followed by the definitions of all A2ML tokens before
  position `p` that parse. This differs from the Rust code only when an A2ML block is never handed to `A2ml::parse`
  (it sits inside an unknown block that is skipped): then the Rust code does not register it.
* 32-bit `float` members: the text that `add_float` prints for the `f32` read from a Number token is a parameter
  (`f32 : token text → Option text`, `none` = `MalformedNumber`), like `PTok.fl` for doubles.
-/
namespace A2l.IfData
open A2l.Tree A2l.Aml A2l.Sc A2l.G

/-! ## `GenericIfData` -/

/-- `GenericIfDataTaggedItem` -/
structure TItem (α : Type) where
  line : Nat
  uid : Nat
  startOff : Nat
  endOff : Nat
  tag : List Char
  data : α
  isBlock : Bool
  deriving Repr, Inhabited

/-- `GenericIfData`; `int w` for the eight integer variants (numbering of `intTyOf`); the `f32` / `f64` payload is
    the text that `add_float` prints for it -/
inductive Gen where
  | none
  | int (w : Nat) (off : Nat) (v : Int) (hex : Bool)
  | float (off : Nat) (txt : List Char)
  | double (off : Nat) (txt : List Char)
  | str (off : Nat) (s : List Char)
  | array (items : List Gen)
  | enumItem (off : Nat) (s : List Char)
  | seq (items : List Gen)
  | taggedStruct (items : List (TItem Gen))
  | taggedUnion (items : List (TItem Gen))
  | struct (line : Nat) (items : List Gen)
  | block (line : Nat) (items : List Gen)
  deriving Repr, Inhabited

/-- `parse_ifdata_make_block` -/
def makeBlock (data : Gen) (line : Nat) : Gen :=
  match data with
  | .struct _ items => .block line items
  | d => .block line [d]

/-! ## the interpreter -/

/-- `get_float`; the conversion is the parameter `f32` -/
def getFloat (f32 : List Char → Option (List Char)) (ctx : Ctx) : PM (List Char) := do
  let t ← expectToken ctx 5
  match f32 t.text with
  | some r => pure r
  | none => fail .malformedNumber

/-- `for _ in 0..dim { items.push(parse_ifdata_item(..)?); if nothing was consumed { break } }`: an element that
    consumes no input is kept and ends the loop (repeating it `dim` times would only cost time and memory) -/
def arrayLoop (p : PM Gen) : Nat → PM (List Gen)
  | 0 => pure []
  | n + 1 => do
    let itempos ← getTokenpos
    let v ← p
    let pos ← getTokenpos
    if pos = itempos then pure [v]
    else do
      let vs ← arrayLoop p n
      pure (v :: vs)

/-- the `while let Ok(item)` loop of the `Sequence` arm: an element that fails, or that consumes nothing, ends the list;
    the cursor goes back to the last checkpoint -/
def seqLoop (p : PM Gen) : Nat → List Gen → PM (List Gen)
  | 0, _ => outOfFuel
  | fuel + 1, acc => do
    let checkpoint ← getTokenpos
    match (← attempt p) with
    | .error _ => do setTokenpos checkpoint; pure acc.reverse
    | .ok v =>
      let pos ← getTokenpos
      if pos = checkpoint then do setTokenpos checkpoint; pure acc.reverse
      else seqLoop p fuel (v :: acc)

/-- `while let Some(Comment) = peek_token() { get_token()? }` -/
def skipComments (ctx : Ctx) : Nat → PM Unit
  | 0 => outOfFuel
  | fuel + 1 => do
    match (← peekToken) with
    | some t =>
      if t.ty = 6 then do
        let _ ← getToken ctx
        skipComments ctx fuel
      else pure ()
    | none => pure ()

/-- the tail of `parse_ifdata_taggeditem` / `parse_unknown_taggedstruct`: a block has to end with `/end TAG` -/
def endOfTagged (newctx : Ctx) (tag : List Char) (isBlock : Bool) : PM Nat := do
  if isBlock then
    let _ ← expectToken newctx 2
    let off ← getLineOffset
    let endident ← expectToken newctx 0
    if endident.text ≠ tag then fail .incorrectEndTag
    pure off
  else pure 0

/-- `parse_ifdata_taggeditem`; `d` = `spec.get(tag)` reduced to what is used: block-ness and the parser of the item -/
def taggedItem (d : List Char → Option (Bool × (Ctx → PM Gen))) (ctx : Ctx) : PM (Option (TItem Gen)) := do
  let checkpoint ← getTokenpos
  let e ← getEnv
  skipComments ctx (e.toks.size + 1)
  match (← attempt (getNextTagOrComment ctx)) with
  | .ok (.block tok isBlock startOff) =>
    match d tok.text with
    | some (specIsBlock, p) =>
      if specIsBlock ≠ isBlock then do setTokenpos checkpoint; pure none
      else do
        let uid ← getNextId
        let newctx : Ctx := ⟨tok.text, tok.fileid, tok.line⟩
        let data ← p newctx
        let endOff ← endOfTagged newctx tok.text isBlock
        pure (some ⟨newctx.line, uid, startOff, endOff, tok.text, makeBlock data newctx.line, isBlock⟩)
    | none => do setTokenpos checkpoint; pure none
  | _ => do setTokenpos checkpoint; pure none

/-- `tsspec.get(tag).is_some_and(|spec| spec.repeat)`: is the member defined as `("TAG" ...)*`? -/
def repOf (items : List (Tagged Spec)) (tag : List Char) : Bool :=
  match lookupTagged items tag with
  | some t => t.rep
  | none => false

/-- `parse_ifdata_taggedstruct`; `acc` holds the items read so far (newest first), `rep` = `repOf` of the definition.
    An item whose tag already occurred is an error unless the member may repeat (`InvalidMultiplicityTooMany`, raised
    after the item has been read) -/
def tsLoop (d : List Char → Option (Bool × (Ctx → PM Gen))) (rep : List Char → Bool) (ctx : Ctx) :
    Nat → List (TItem Gen) → PM (List (TItem Gen))
  | 0, _ => outOfFuel
  | fuel + 1, acc => do
    match (← taggedItem d ctx) with
    | some it =>
      if acc.any (fun x => x.tag = it.tag) ∧ rep it.tag = false then fail .invalidMultiplicityTooMany
      else tsLoop d rep ctx fuel (it :: acc)
    | none => pure acc.reverse

mutual

/-- `parse_ifdata_item` -/
def itemP (f32 : List Char → Option (List Char)) : Spec → Ctx → PM Gen
  | .none, _ => pure .none
  | .int w, ctx => do
    let (v, hex) ← getInteger ctx w
    let off ← getLineOffset
    pure (.int w off v hex)
  | .float, ctx => do
    let v ← getFloat f32 ctx
    let off ← getLineOffset
    pure (.float off v)
  | .double, ctx => do
    let v ← getDouble ctx
    let off ← getLineOffset
    pure (.double off v)
  | .array of dim, ctx =>
    match of with
    | .int 0 => do
      let v ← getStringMaxlen ctx dim
      let off ← getLineOffset
      pure (.str off v)
    | _ => do
      let vs ← arrayLoop (itemP f32 of ctx) dim
      pure (.array vs)
  | .enum items, ctx => do
    let v ← getIdentifier ctx
    let off ← getLineOffset
    if (lookupKV items v).isSome then pure (.enumItem off v) else fail .invalidEnumValue
  | .struct items, ctx => do
    let vs ← itemsP f32 items ctx
    pure (.struct 0 vs)
  | .seq of, ctx => do
    let e ← getEnv
    let vs ← seqLoop (itemP f32 of ctx) (e.toks.size + 1) []
    pure (.seq vs)
  | .taggedStruct items, ctx => do
    let e ← getEnv
    let vs ← tsLoop (dispatch f32 items) (repOf items) ctx (e.toks.size + 1) []
    pure (.taggedStruct vs)
  | .taggedUnion items, ctx => do
    match (← taggedItem (dispatch f32 items) ctx) with
    | some it => pure (.taggedUnion [it])
    | none => pure (.taggedUnion [])

/-- the `for itemspec in structspec` loop of the `Struct` arm -/
def itemsP (f32 : List Char → Option (List Char)) : List Spec → Ctx → PM (List Gen)
  | [], _ => pure []
  | sp :: rest, ctx => do
    let v ← itemP f32 sp ctx
    let vs ← itemsP f32 rest ctx
    pure (v :: vs)

/-- `spec.get(tag)` on a tagged type, with the parser of the member -/
def dispatch (f32 : List Char → Option (List Char)) : List (Tagged Spec) → List Char → Option (Bool × (Ctx → PM Gen))
  | [], _ => none
  | t :: rest, tag =>
    if t.tag = tag then some (t.isBlock, fun ctx => itemP f32 t.item ctx) else dispatch f32 rest tag

end

/-- `parse_ifdata_from_spec`: comments between the last item and the closing `/end` are consumed before the check -/
def fromSpec (f32 : List Char → Option (List Char)) (ctx : Ctx) (sp : Spec) : PM (Option Gen) := do
  let pos ← getTokenpos
  match (← attempt (itemP f32 sp ctx)) with
  | .ok g =>
    let e ← getEnv
    skipComments ctx (e.toks.size + 1)
    match (← peekToken) with
    | some t =>
      if t.ty = 2 then pure (some (makeBlock g ctx.line))
      else do setTokenpos pos; pure none
    | none => do setTokenpos pos; pure none
  | .error _ => do setTokenpos pos; pure none

/-- the `for a2mlspec in &spec_list` loop of `parse_ifdata` -/
def trySpecs (f32 : List Char → Option (List Char)) (ctx : Ctx) : List Spec → PM (Option Gen)
  | [] => pure none
  | sp :: rest => do
    match (← fromSpec f32 ctx sp) with
    | some g => pure (some g)
    | none => trySpecs f32 ctx rest

/-! ### the fallback for content that no definition describes -/

/-- `MAX_NESTING_DEPTH` (`a2ml.rs`): how deep uninterpreted blocks may be nested. `parse_unknown_ifdata` and
    `parse_unknown_taggedstruct` call each other once per level, so an unlimited depth overflows the stack. -/
def maxNestingDepth : Nat := 100

mutual

/-- `parse_unknown_ifdata`: the check of `depth` and the `loop`; `acc` = `items`, newest first.
    The Rust function checks `depth > MAX_NESTING_DEPTH` once, before the loop; here every iteration of the loop is a
    call of this function, so the check is repeated, which cannot be observed: `depth` does not change and a check
    that passes has no effect. -/
def unknownIfdata (fuel : Nat) (ctx : Ctx) (isBlock : Bool) (depth : Nat) (acc : List Gen) : PM Gen :=
  match fuel with
  | 0 => outOfFuel
  | fuel + 1 =>
    if depth > maxNestingDepth then fail .nestingTooDeep      -- `error_line: parser.last_token_position`
    else do
    match (← peekToken) with
    | none => fail .unexpectedEOF
    | some t =>
      if t.ty = 0 then do
        let v ← getIdentifier ctx
        let off ← getLineOffset
        unknownIfdata fuel ctx isBlock depth (.enumItem off v :: acc)
      else if t.ty = 4 then do
        let v ← getString ctx
        let off ← getLineOffset
        unknownIfdata fuel ctx isBlock depth (.str off v :: acc)
      else if t.ty = 5 then do
        match (← attempt (getInteger ctx 2)) with
        | .ok (v, hex) => do
          let off ← getLineOffset
          unknownIfdata fuel ctx isBlock depth (.int 2 off v hex :: acc)
        | .error _ => do
          undoGetToken
          match (← attempt (getInteger ctx 3)) with
          | .ok (v, hex) => do
            let off ← getLineOffset
            unknownIfdata fuel ctx isBlock depth (.int 3 off v hex :: acc)
          | .error _ => do
            undoGetToken
            match (← attempt (getInteger ctx 7)) with
            | .ok (v, hex) => do
              let off ← getLineOffset
              unknownIfdata fuel ctx isBlock depth (.int 7 off v hex :: acc)
            | .error _ => do
              undoGetToken
              let v ← getDouble ctx
              let off ← getLineOffset
              unknownIfdata fuel ctx isBlock depth (.double off v :: acc)
      else if t.ty = 1 then
        if isBlock then do
          let ts ← unknownTaggedstruct fuel ctx depth
          unknownIfdata fuel ctx isBlock depth (ts :: acc)
        else pure (.struct 0 acc.reverse)
      else if t.ty = 2 then pure (.struct 0 acc.reverse)
      else if t.ty = 3 then
        unknownIfdata fuel ctx isBlock depth acc     -- `Include => {}`: nothing is consumed, the loop does not end
      else do
        let _ ← getToken ctx
        unknownIfdata fuel ctx isBlock depth acc

/-- `parse_unknown_taggedstruct` -/
def unknownTaggedstruct (fuel : Nat) (ctx : Ctx) (depth : Nat) : PM Gen :=
  match fuel with
  | 0 => outOfFuel
  | fuel + 1 => do
    let e ← getEnv
    skipComments ctx (e.toks.size + 1)
    let items ← unknownTsLoop fuel ctx depth []
    match (← peekToken) with
    | some t => if t.ty = 1 then fail .invalidBegin else pure (.taggedStruct items)
    | none => pure (.taggedStruct items)

/-- the `loop` of `parse_unknown_taggedstruct`: a comment between two items is skipped, anything else that is not a
    tag ends the loop; the content of every item is one level deeper -/
def unknownTsLoop (fuel : Nat) (ctx : Ctx) (depth : Nat) (acc : List (TItem Gen)) : PM (List (TItem Gen)) :=
  match fuel with
  | 0 => outOfFuel
  | fuel + 1 => do
    match (← attempt (getNextTagOrComment ctx)) with
    | .ok (.block tok isBlock startOff) => do
      let uid ← getNextId
      let newctx : Ctx := ⟨tok.text, tok.fileid, tok.line⟩
      let result ← unknownIfdata fuel newctx isBlock (depth + 1) []
      let endOff ← endOfTagged newctx tok.text isBlock
      unknownTsLoop fuel ctx depth (⟨newctx.line, uid, startOff, endOff, tok.text, result, isBlock⟩ :: acc)
    | .ok (.comment _ _) => unknownTsLoop fuel ctx depth acc
    | _ => pure acc.reverse

end

/-- the recursion budget for the fallback -/
def unknownFuel (size : Nat) : Nat := 3 * size + 8

/-- `parse_unknown_ifdata_start` -/
def unknownStart (ctx : Ctx) : PM Gen := do
  let e ← getEnv
  let fuel := unknownFuel e.toks.size
  match (← peekToken) with
  | some t =>
    if t.ty = 0 then do
      let token ← getToken ctx
      let startOff ← getLineOffset
      let uid ← getNextId
      let newctx : Ctx := ⟨token.text, token.fileid, token.line⟩
      let result ← unknownIfdata fuel newctx true 0 []
      -- "hack: temporarily undo the previous token, so that we can get it's end offset"
      undoGetToken
      let endOff ← getLineOffset
      let _ ← attempt (getToken ctx)
      pure (.block startOff [.taggedUnion [⟨newctx.line, uid, startOff, endOff, token.text, result, false⟩]])
    else unknownIfdata fuel ctx true 0 []
  | none => unknownIfdata fuel ctx true 0 []

/-- `parse_ifdata` -/
def parseIfdata (f32 : List Char → Option (List Char)) (specs : List Spec) (ctx : Ctx) : PM (Option Gen × Bool) := do
  match (← peekToken) with
  | some t =>
    if t.ty ≠ 2 then do
      match (← trySpecs f32 ctx specs) with
      | some g => pure (some g, true)
      | none => do
        let g ← unknownStart ctx
        pure (some g, false)
    else pure (none, false)
  | none => pure (none, false)

/-! ## the writer (`GenericIfData::write`, `write_item`) -/

mutual

/-- `GenericIfData::write_item` (`top = false`) and `GenericIfData::write` (`top = true`: the only difference is that
    `write` writes the items of a `Block`, `write_item` ignores a `Block`); `indent` is the indent of the `Writer` -/
def writeG (top : Bool) (indent : Nat) : Gen → List Char
  | .int w off v hex => addWhitespace indent off ++ printInt (intTyOf w) v hex
  | .float off txt => addWhitespace indent off ++ txt
  | .double off txt => addWhitespace indent off ++ txt
  | .str off s => addWhitespace indent off ++ ['"'] ++ escape s ++ ['"']
  | .enumItem off s => addWhitespace indent off ++ s
  | .array items => writeItems indent items
  | .seq items => writeItems indent items
  | .struct _ items => writeItems indent items
  | .taggedStruct items => addGroup indent (tagInfos indent items)
  | .taggedUnion items => addGroup indent (tagInfos indent items)
  | .none => []
  | .block _ items => if top then writeItems indent items else []

def writeItems (indent : Nat) : List Gen → List Char
  | [] => []
  | g :: rest => writeG false indent g ++ writeItems indent rest

/-- the `tgroup` vector; `item_text` is `tgitem.data.write(indent + 1)` -/
def tagInfos (indent : Nat) : List (TItem Gen) → List TagInfo
  | [] => []
  | it :: rest =>
    ({ isComment := false, tag := it.tag, uid := it.uid, line := it.line, startOff := it.startOff, endOff := it.endOff,
       isBlock := it.isBlock, text := writeG true (indent + 1) it.data, pos := none, included := false } : TagInfo)
      :: tagInfos indent rest

end

/-- `GenericIfData::write` -/
def write (indent : Nat) (g : Gen) : List Char := writeG true indent g

/-! ## the blocks `A2ML` and `IF_DATA` (`specification.rs`) and the hook of the generic parser -/

/-- is token `i` the text of an A2ML block (the tokenizer produces it directly behind `/begin A2ML`)? -/
def isA2mlText (toks : Array PTok) (i : Nat) : Bool :=
  match toks[i]?, toks[i - 1]?, toks[i - 2]? with
  | some t, some t1, some t2 => i ≥ 2 && t.ty == 4 && t1.ty == 0 && t1.text == "A2ML".toList && t2.ty == 1
  | _, _, _ => false

/-- the definitions of the A2ML blocks among the first `p` tokens, in file order -/
def fileSpecs (toks : Array PTok) : Nat → List Spec
  | 0 => []
  | p + 1 =>
    fileSpecs toks p ++
      (if isA2mlText toks p then
        match toks[p]? with
        | some t => match parseA2ml t.text with | .ok sp => [sp] | _ => []
        | none => []
      else [])

/-- `parser.a2mlspec` when the cursor is at `p` -/
def specsAt (builtin : List Spec) (toks : Array PTok) (p : Nat) : List Spec := builtin ++ fileSpecs toks p

/-! ### encoding of the results as `Val` (the generic parser stores what the `special` hook returns) -/

def noInfo : Info := ⟨0, 0, 0, 0, 0⟩

mutual
def enc : Gen → Val
  | .none => .block 0 noInfo [] [] []
  | .int w off v hex => .int v hex off w
  | .float off txt => .block 1 noInfo [.dbl txt off] [] []
  | .double off txt => .dbl txt off
  | .str off s => .str s off
  | .array items => .arr (encL items)
  | .enumItem off s => .enum s off
  | .seq items => .seq (encL items)
  | .taggedStruct items => .block 2 noInfo (encT items) [] []
  | .taggedUnion items => .block 3 noInfo (encT items) [] []
  | .struct line items => .block 4 ⟨line, 0, 0, 0, 0⟩ (encL items) [] []
  | .block line items => .block 5 ⟨line, 0, 0, 0, 0⟩ (encL items) [] []
def encL : List Gen → List Val
  | [] => []
  | g :: rest => enc g :: encL rest
def encT : List (TItem Gen) → List Val
  | [] => []
  | it :: rest =>
    .block (if it.isBlock then 7 else 6) ⟨it.line, it.uid, it.startOff, it.endOff, 0⟩ [.ident it.tag 0, enc it.data] [] []
      :: encT rest
end

mutual
def dec : Val → Option Gen
  | .int v hex off w => some (.int w off v hex)
  | .dbl txt off => some (.double off txt)
  | .str s off => some (.str off s)
  | .enum s off => some (.enumItem off s)
  | .ident _ _ => none
  | .arr vs => (decL vs).map .array
  | .seq vs => (decL vs).map .seq
  | .block code info fields _ _ =>
    if code = 0 then some .none
    else if code = 1 then
      match fields with
      | [.dbl txt off] => some (.float off txt)
      | _ => none
    else if code = 2 then (decT fields).map .taggedStruct
    else if code = 3 then (decT fields).map .taggedUnion
    else if code = 4 then (decL fields).map (.struct info.line)
    else if code = 5 then (decL fields).map (.block info.line)
    else none
def decL : List Val → Option (List Gen)
  | [] => some []
  | v :: rest =>
    match dec v, decL rest with
    | some g, some gs => some (g :: gs)
    | _, _ => none
def decT : List Val → Option (List (TItem Gen))
  | [] => some []
  | v :: rest =>
    match v with
    | .block code info [.ident tag _, d] _ _ =>
      match dec d, decT rest with
      | some g, some its => some (⟨info.line, info.uid, info.startOff, info.endOff, tag, g, code == 7⟩ :: its)
      | _, _ => none
    | _ => none
end

/-- `IfData`: `ifdata_items`, `ifdata_valid` as the two fields of the block value -/
def encIfData (items : Option Gen) (valid : Bool) : List Val :=
  [.int (if valid then 1 else 0) false 0 4, match items with | some g => .seq [enc g] | none => .seq []]

def decIfData (fields : List Val) : Option (Option Gen × Bool) :=
  match fields with
  | [.int v _ _ _, .seq []] => some (none, v == 1)
  | [.int v _ _ _, .seq [g]] => (dec g).map fun g => (some g, v == 1)
  | _ => none

/-- `IfData::parse` -/
def ifDataBlock (f32 : List Char → Option (List Char)) (builtin : List Spec) (ty : Nat) (ctx : Ctx) (startOff : Nat) :
    PM Val := do
  let e ← getEnv
  let uid ← getNextId
  let pos ← getTokenpos
  let (items, valid) ← parseIfdata f32 (specsAt builtin e.toks pos) ctx
  let _ ← expectToken ctx 2
  let endOff ← getLineOffset
  let ident ← getIdentifier ctx
  if ident ≠ "IF_DATA".toList then errorOrLog .incorrectEndTag
  pure (.block ty ⟨ctx.line, uid, startOff, endOff, ctx.fileid⟩ (encIfData items valid) [] [])

/-- `A2ml::parse` (the definition itself is looked up again by `specsAt` when an IF_DATA block needs it) -/
def a2mlBlock (ty : Nat) (ctx : Ctx) (startOff : Nat) : PM Val := do
  let uid ← getNextId
  let token ← expectToken ctx 4
  let loc ← getLineOffset
  match parseA2ml token.text with
  | .ok _ => pure ()
  | .err => errorOrLog .a2mlError
  | .fuel => outOfFuel
  let _ ← expectToken ctx 2
  let ident ← getIdentifier ctx
  if ident ≠ "A2ML".toList then errorOrLog .incorrectEndTag
  pure (.block ty ⟨ctx.line, uid, startOff, 1, ctx.fileid⟩ [.str token.text loc] [] [])

/-- the environment in which the hand-written parsers run: they use the tokens and `strict` only. The grammar table is
    a placeholder that the hand-written parsers never look at (it is well-formed in the sense of `tableOk`, so that
    the lemmas about the primitives of Model/Tree.lean apply to this environment) -/
def specialEnv (toks : Array PTok) (strict : Bool) : Env :=
  { toks := toks, strict := strict,
    table := [⟨0, .block false [] [] false⟩, ⟨1, .block false [.int 0, .int 0] [] false⟩],
    known := ⟨0, 1, 0⟩,
    special := fun _ _ _ _ _ s => .err ⟨.a2mlError, 0⟩ s }

/-- the instance of `Env.special`: `tyA2ml` is the name of the type `A2ml` in the grammar table, every other `special`
    type is `IfData` -/
def special (tyA2ml : Nat) (f32 : List Char → Option (List Char)) (builtin : List Spec) :
    Nat → Ctx → Nat → Array PTok → Bool → PState → PRes Val :=
  fun ty ctx startOff toks strict s =>
    if ty = tyA2ml then a2mlBlock ty ctx startOff (specialEnv toks strict) s
    else ifDataBlock f32 builtin ty ctx startOff (specialEnv toks strict) s

/-- `char::is_whitespace` (Unicode `White_Space`) -/
def isUnicodeWs (c : Char) : Bool :=
  let n := c.toNat
  (9 ≤ n && n ≤ 13) || n = 32 || n = 0x85 || n = 0xA0 || n = 0x1680 || (0x2000 ≤ n && n ≤ 0x200A) ||
  n = 0x2028 || n = 0x2029 || n = 0x202F || n = 0x205F || n = 0x3000

/-- `text.split("\r\n").collect::<Vec<&str>>().join("\n")` -/
def fixCrLf : List Char → List Char
  | [] => []
  | [c] => [c]
  | c :: d :: rest => if c = '\r' ∧ d = '\n' then '\n' :: fixCrLf rest else c :: fixCrLf (d :: rest)

/-- `A2ml::stringify` (`add_str_raw`) -/
def a2mlStringify (indent : Nat) (text : List Char) (loc : Nat) : List Char :=
  let fixed := fixCrLf text
  (match fixed with
   | c :: _ => if isUnicodeWs c then [] else addWhitespace indent loc
   | [] => addWhitespace indent loc) ++ fixed

/-- the instance of `Env.specialWrite`: `A2ml::stringify` / `IfData::stringify` (`ifdata_items.write(indent - 1)`;
    the subtraction cannot wrap: an IF_DATA block is never at the top level) -/
def specialWrite (tyA2ml : Nat) : Nat → Nat → Val → List Char :=
  fun ty indent v =>
    match v with
    | .block _ _ fields _ _ =>
      if ty = tyA2ml then
        match fields with
        | [.str text loc] => a2mlStringify indent text loc
        | _ => []
      else
        match decIfData fields with
        | some (some g, _) => write (indent - 1) g
        | _ => []
    | _ => []

/-! ## `ifdata_cleanup` -/

/-- `remove_unknown_ifdata_from_list` on a list of IF_DATA blocks given by (value, `ifdata_valid`) -/
def removeUnknown {α : Type} (valid : α → Bool) (l : List α) : List α :=
  l.foldl (fun acc x => if valid x then acc ++ [x] else acc) []

/-- the places of one module where IF_DATA blocks stand, in the order in which `remove_unknown_ifdata` visits them
    (`ifdata.rs`: the module's own list, then per MEMORY_LAYOUT and MEMORY_SEGMENT of MOD_PAR, then per AXIS_PTS, BLOB,
    CHARACTERISTIC, FRAME, FUNCTION, GROUP, INSTANCE, MEASUREMENT) -/
structure Hosts (α : Type) where
  module : List α
  memoryLayout : List (List α)
  memorySegment : List (List α)
  axisPts : List (List α)
  blob : List (List α)
  characteristic : List (List α)
  frame : List (List α)
  function : List (List α)
  group : List (List α)
  inst : List (List α)
  measurement : List (List α)

/-- `remove_unknown_ifdata` on one module -/
def Hosts.cleanup {α : Type} (valid : α → Bool) (h : Hosts α) : Hosts α :=
  { module := removeUnknown valid h.module
    memoryLayout := h.memoryLayout.map (removeUnknown valid)
    memorySegment := h.memorySegment.map (removeUnknown valid)
    axisPts := h.axisPts.map (removeUnknown valid)
    blob := h.blob.map (removeUnknown valid)
    characteristic := h.characteristic.map (removeUnknown valid)
    frame := h.frame.map (removeUnknown valid)
    function := h.function.map (removeUnknown valid)
    group := h.group.map (removeUnknown valid)
    inst := h.inst.map (removeUnknown valid)
    measurement := h.measurement.map (removeUnknown valid) }

/-- every list of IF_DATA blocks of the module -/
def Hosts.lists {α : Type} (h : Hosts α) : List (List α) :=
  [h.module] ++ h.memoryLayout ++ h.memorySegment ++ h.axisPts ++ h.blob ++ h.characteristic ++ h.frame ++ h.function ++
    h.group ++ h.inst ++ h.measurement

end A2l.IfData
