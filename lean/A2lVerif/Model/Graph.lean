import A2lVerif.Model.Basic
/-! The reference graph of a MODULE: definitions per namespace and references with their site.
    Abstract model shared by C08–C11 (merge, cleanup, check). Namespaces and sites are numbers; names are strings. -/
namespace A2l.Gr

structure Ref where
  ns : Nat              -- target namespace
  covered : Bool        -- is this site examined by `check()` (probed table reference/checked_sites.txt)
  target : String
  deriving Repr, DecidableEq, Inhabited

structure Module where
  defs : List (Nat × String)       -- (namespace, name)
  refs : List Ref
  deriving Repr, Inhabited

def Module.has (m : Module) (ns : Nat) (name : String) : Bool := m.defs.any fun d => d.1 == ns && d.2 == name

/-- the cross-reference part of `check()`: one report per covered reference whose target name does not exist in
    the target namespace (the conventions NO_COMPU_METHOD, NO_INPUT_QUANTITY, NO_INVERSE_TRANSFORMER, THIS.x are not
    references at all in this model: the graph extraction drops them) -/
def refReport (m : Module) : List String :=
  (m.refs.filter fun r => r.covered && !m.has r.ns r.target).map (·.target)

/-- every reference resolves -/
def consistent (m : Module) : Bool := m.refs.all fun r => m.has r.ns r.target

/-! ### the `THIS.` convention (`check_axis_descr_refs`, `is_valid_structure_component`)

    Inside a TYPEDEF_CHARACTERISTIC an AXIS_PTS_REF / CURVE_AXIS_REF may read `THIS.x`: it designates the component `x` of
    the TYPEDEF_STRUCTUREs that use the typedef as a STRUCTURE_COMPONENT. The rule applies when no INSTANCE uses the
    typedef directly and at least one structure contains it; otherwise the text `THIS.x` is looked up like any object name. -/

structure ThisCase where
  direct : Bool                          -- some INSTANCE has this typedef as its type
  objects : List String                  -- names `x` for which an object literally named `THIS.x` exists
  structs : List (Bool × List String)    -- per TYPEDEF_STRUCTURE: does it contain the typedef; its component names
  refs : List String                     -- the `x` of the `THIS.x` references of the typedef
  deriving Repr, Inhabited

def ThisCase.containing (c : ThisCase) : List (List String) := (c.structs.filter (·.1)).map (·.2)

/-- `is_valid_structure_component`: every containing structure has a component of that name -/
def validComponent (x : String) (containing : List (List String)) : Bool := containing.all fun comps => comps.contains x

/-- the names `check()` reports for the `THIS.` references of one TYPEDEF_CHARACTERISTIC -/
def thisReport (c : ThisCase) : List String :=
  c.refs.filterMap fun x =>
    if !c.direct && !c.containing.isEmpty then
      if validComponent x c.containing then none else some x
    else if c.objects.contains x then none else some ("THIS." ++ x)

end A2l.Gr
