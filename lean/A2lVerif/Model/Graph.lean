import A2lVerif.Model.Basic
/-! The reference graph of a MODULE: definitions per namespace and references with their site.
    Abstract model shared by C08–C11 (merge, cleanup, check). Namespaces and sites are numbers; names are strings. -/
namespace A2l.Gr

structure Ref where
  ns : Nat              -- target namespace
  covered : Bool        -- is this site examined by `check()` (probed table reference/checked_sites.txt)
  target : String
  deriving Repr, DecidableEq, Inhabited

structure Module where
  defs : List (Nat × String)       -- (namespace, name)
  refs : List Ref
  deriving Repr, Inhabited

def Module.has (m : Module) (ns : Nat) (name : String) : Bool := m.defs.any fun d => d.1 == ns && d.2 == name

/-- the cross-reference part of `check()`: one report per covered reference whose target name does not exist in
    the target namespace (the conventions NO_COMPU_METHOD, NO_INPUT_QUANTITY, NO_INVERSE_TRANSFORMER, THIS.x are not
    references at all in this model: the graph extraction drops them) -/
def refReport (m : Module) : List String :=
  (m.refs.filter fun r => r.covered && !m.has r.ns r.target).map (·.target)

/-- every reference resolves -/
def consistent (m : Module) : Bool := m.refs.all fun r => m.has r.ns r.target

end A2l.Gr
