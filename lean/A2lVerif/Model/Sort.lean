import A2lVerif.Model.Basic
/-! Model of `a2lfile/src/sort.rs` (`sort`, `sort_new_items`) and of the ordering part of the writer
    (`writer.rs` `add_group` / `sort_function`) for the children of one MODULE.

    A module is a list of *sections* in the order of `sort()`: A2ML, MOD_COMMON, MOD_PAR (optional singles), IF_DATA
    (a list kept in list order), the 20 named lists (CHARACTERISTIC, MEASUREMENT, AXIS_PTS, ... UNIT), USER_RIGHTS
    (sorted by user level id, modelled as its `name`), VARIANT_CODING (optional single), plus the list of comments.
    An element is its tag, name, layout `uid` and `line`, and an abstract payload `body`. -/

namespace A2l.Srt

structure Elem where
  tag : String
  name : String
  uid : Nat
  line : Nat
  body : Nat
  deriving Repr, DecidableEq

inductive SecKind where
  | single      -- Option<T>: at most one element
  | keep        -- list kept in list order by sort() (IF_DATA)
  | byName      -- ItemList sorted by name by sort() (also USER_RIGHTS)
  deriving Repr, DecidableEq

structure Section where
  kind : SecKind
  elems : List Elem
  deriving Repr

structure Module where
  sections : List Section
  comments : List Elem
  deriving Repr

def Module.all (m : Module) : List Elem := m.sections.flatMap (·.elems) ++ m.comments

/-- what identifies an element independently of its layout -/
def Elem.key (e : Elem) : String × String × Nat := (e.tag, e.name, e.body)

/-! ## the writer's order: `group.sort_by(sort_function)` (stable) -/

/-- `sort_function(a, b) != Greater` -/
def writerLe (a b : Elem) : Bool :=
  if a.uid = 0 ∧ b.uid ≠ 0 then false
  else if b.uid = 0 ∧ a.uid ≠ 0 then true
  else if a.uid = b.uid then
    if a.line = b.line then decide (a.tag ≤ b.tag) else decide (a.line ≤ b.line)
  else decide (a.uid ≤ b.uid)

/-- the order in which the children of the module are written -/
def writeOrder (m : Module) : List Elem := m.all.mergeSort writerLe

/-! ## `sort()` -/

def assignSeq (uid : Nat) : List Elem → List Elem
  | [] => []
  | e :: es => { e with uid := uid } :: assignSeq (uid + 1) es

def nameLe (a b : Elem) : Bool := decide (a.name ≤ b.name)

/-- one section: singles take one uid whether present or not (A2ML = 1, MOD_COMMON = 2, MOD_PAR = 3), lists take one
    uid per element -/
def sortSection (uid : Nat) (s : Section) : Section × Nat :=
  match s.kind with
  | .single => ({ s with elems := s.elems.map (fun e => { e with uid := uid }) }, uid + 1)
  | .keep => ({ s with elems := assignSeq uid s.elems }, uid + s.elems.length)
  | .byName => ({ s with elems := assignSeq uid (s.elems.mergeSort nameLe) }, uid + s.elems.length)

def sortSections (uid : Nat) : List Section → List Section
  | [] => []
  | s :: ss => let (s', uid') := sortSection uid s; s' :: sortSections uid' ss

/-- `sort()` on one module: comments are dropped -/
def sort (m : Module) : Module := { sections := sortSections 1 m.sections, comments := [] }

/-- the canonical order `sort()` documents: sections in sequence, names ascending within a named section -/
def canonical (m : Module) : List Elem :=
  m.sections.flatMap fun s => match s.kind with
    | .byName => s.elems.mergeSort nameLe
    | _ => s.elems

/-! ## `sort_new_items()` with `u32` uids (checked arithmetic: overflow = panic) -/

def u32max : Nat := 4294967295

def dbl (u : Nat) : Out Nat := if 2 * u ≤ u32max then .ok (2 * u) else .panic
def dblInc (u : Nat) : Out Nat := if 2 * u + 1 ≤ u32max then .ok (2 * u + 1) else .panic

/-- `cmp_named_a2lobject(a, b) != Greater` -/
def newLe (a b : Elem) : Bool :=
  if a.uid = 0 ∧ b.uid ≠ 0 then false
  else if b.uid = 0 ∧ a.uid ≠ 0 then true
  else if a.uid = b.uid then
    if a.line = b.line then decide (a.name ≤ b.name) else decide (a.line ≤ b.line)
  else decide (a.uid ≤ b.uid)

/-- the loop of `sort_objectlist_new` after the `sort_by` -/
def renumber (last : Nat) : List Elem → Out (List Elem)
  | [] => .ok []
  | e :: es =>
    if e.uid ≠ 0 then
      match dbl e.uid with
      | .panic => .panic
      | .ok u =>
        match (if u + 1 ≤ u32max then Out.ok (u + 1) else Out.panic) with
        | .panic => .panic
        | .ok last' =>
          match renumber last' es with
          | .panic => .panic
          | .ok es' => .ok ({ e with uid := u } :: es')
    else
      match renumber last es with
      | .panic => .panic
      | .ok es' => .ok ({ e with uid := last } :: es')

def sortObjectlistNew (es : List Elem) : Out (List Elem) := renumber 0 (es.mergeSort newLe)

/-- `sort_optional_item(opt, new_uid) -> next_uid` -/
def sortOptional (es : List Elem) (newUid : Nat) : Out (List Elem × Nat) :=
  match es with
  | [] => .ok ([], newUid)
  | e :: rest =>
    if e.uid = 0 then .ok ({ e with uid := newUid } :: rest, newUid)
    else match dbl e.uid with
      | .panic => .panic
      | .ok u => if u + 1 ≤ u32max then .ok ({ e with uid := u } :: rest, u + 1) else .panic

/-- IF_DATA / USER_RIGHTS: `maxid > 0` → nonzero uids doubled, zero uids become `maxid*2+1` -/
def sortKeepList (es : List Elem) : Out (List Elem) :=
  let maxid := es.foldl (fun acc e => max acc e.uid) 0
  if maxid = 0 then .ok es
  else
    es.foldr (fun e acc =>
      match acc with
      | .panic => .panic
      | .ok rest =>
        if e.uid ≠ 0 then
          match dbl e.uid with | .panic => .panic | .ok u => .ok ({ e with uid := u } :: rest)
        else
          match dblInc maxid with | .panic => .panic | .ok u => .ok ({ e with uid := u } :: rest)) (.ok [])

def doubleAll : List Elem → Out (List Elem)
  | [] => .ok []
  | e :: es => match dbl e.uid, doubleAll es with
    | .ok u, .ok es' => .ok ({ e with uid := u } :: es')
    | _, _ => .panic

/-- which procedure `sort_new_items` applies to the i-th section: the first three singles thread `next_uid`,
    IF_DATA and USER_RIGHTS use the max-id rule, the named lists use `sort_objectlist_new`, VARIANT_CODING is
    `sort_optional_item(_, 0)` -/
inductive NewRule where
  | threaded | maxId | objectList | optionalZero
  deriving Repr, DecidableEq

structure RSection where
  rule : NewRule
  sec : Section
  deriving Repr

def sniSections (next : Nat) : List RSection → Out (List RSection)
  | [] => .ok []
  | r :: rs =>
    match r.rule with
    | .threaded =>
      match sortOptional r.sec.elems next with
      | .panic => .panic
      | .ok (es, next') => match sniSections next' rs with
        | .panic => .panic
        | .ok rs' => .ok ({ r with sec := { r.sec with elems := es } } :: rs')
    | .optionalZero =>
      match sortOptional r.sec.elems 0 with
      | .panic => .panic
      | .ok (es, _) => match sniSections next rs with
        | .panic => .panic
        | .ok rs' => .ok ({ r with sec := { r.sec with elems := es } } :: rs')
    | .maxId =>
      match sortKeepList r.sec.elems with
      | .panic => .panic
      | .ok es => match sniSections next rs with
        | .panic => .panic
        | .ok rs' => .ok ({ r with sec := { r.sec with elems := es } } :: rs')
    | .objectList =>
      match sortObjectlistNew r.sec.elems with
      | .panic => .panic
      | .ok es => match sniSections next rs with
        | .panic => .panic
        | .ok rs' => .ok ({ r with sec := { r.sec with elems := es } } :: rs')

structure RModule where
  sections : List RSection
  comments : List Elem
  deriving Repr

def RModule.toModule (m : RModule) : Module := { sections := m.sections.map (·.sec), comments := m.comments }

/-- `sort_new_items()` on one module -/
def sortNewItems (m : RModule) : Out RModule :=
  match sniSections 1 m.sections, doubleAll m.comments with
  | .ok ss, .ok cs => .ok { sections := ss, comments := cs }
  | _, _ => .panic

def iterate (k : Nat) (m : RModule) : Out RModule :=
  match k with
  | 0 => .ok m
  | k + 1 => match sortNewItems m with
    | .panic => .panic
    | .ok m' => iterate k m'

end A2l.Srt
