import A2lVerif.Model.Basic
import A2lVerif.Model.Lex
/-! Executable model of `tokenize` (a2lfile `src/tokenizer.rs`): the wrapper around `tokenize_core` that resolves
`/include` directives by recursively tokenizing the included files, together with `make_include_filename` and the
part of `load` of `src/loader.rs` that matters here.

`tokenize_core` is `A2l.Lex.tokenize` (Model/Lex.lean).  The model mirrors the Rust code: the vector
`include_directives` of positions, the initial slice `input_tokens[0..include_directives[0]]`, the pushed sentinel
`input_tokens.len()`, the loop `for idx in 1..include_directives.len()` and its index arithmetic.  Every slice,
index and `usize` subtraction has an explicit `panic` outcome.  `tokenize(filename, fileid, filetext)` is
`tokenize_nested(.., depth = 0)`; the first argument of the model's `tokenize` is the *remaining depth*
`MAX_INCLUDE_DEPTH - depth` (the entry point is `tokenize fs maxIncludeDepth`).  The recursion is structural in it:
at remaining depth `0` (`depth = MAX_INCLUDE_DEPTH`) no file is loaded and a directive with a usable name is the
`IncludeFileError` of a file that cannot be loaded, so a file that includes itself ends with that error.
The constructor `R.hang` is kept for one purpose only: the lexer model `Lex.tokenize` has a `hang` outcome (its
loop runs on fuel; `Lex.lex_no_hang` shows that it does not occur) and `tokenize` passes it on.

Abstractions (stated, not hidden):
* the file system is a map from paths to optional contents; a path *exists* iff the map is defined on it
  (directories do not "exist"; `..`, `.` and `//` are not resolved);
* paths are byte strings with the Unix separator `/` (`MAIN_SEPARATOR`); `Path::parent` / `Path::join` are
  modelled textually (`parent`, `join` below);
* file contents are bytes that are valid UTF-8 (so `decode_raw_bytes` is the identity and `&filetext[a..e]` is the
  byte slice; the char-boundary condition of `&str` slicing is `lex_boundaries` of C03 and is not modelled here);
* `u32`/`usize` overflow of line numbers, `fileid + 1`, `next_fileid += …` is not modelled (`Nat`).

Core Lean only (compiled into the driver). -/

namespace A2l.Inc
open A2l.Lex (Bytes TokType)

/-! ### paths and the file system -/

abbrev Path := List UInt8

/-- the file system: contents of the file at a path, `none` if there is no such file -/
abbrev FS := Path → Option Bytes

/-- `incname.replace('\\', MAIN_SEPARATOR).replace('/', MAIN_SEPARATOR)` with `MAIN_SEPARATOR = '/'` -/
def normalize (p : Path) : Path := p.map fun c => if c == 92 then 47 else c

/-- `Path::is_absolute` (Unix) -/
def isAbsolute (p : Path) : Bool := p.head? == some 47

/-- drop trailing separators -/
def stripSep (p : Path) : Path := (p.reverse.dropWhile (· == 47)).reverse

/-- `Path::parent` (textual; `.` components are not normalised): `None` for the empty path and for the root -/
def parent (p : Path) : Option Path :=
  let q := stripSep p
  if q.isEmpty then none
  else
    let d := (q.reverse.dropWhile (· != 47)).reverse        -- up to and including the last separator
    let d' := stripSep d
    if d'.isEmpty && !d.isEmpty then some [47] else some d'

/-- `basedir.join(inc_path)` for a relative `inc_path` (`PathBuf::push`: a separator is added unless the buffer
    is empty or already ends with one) -/
def join (d inc : Path) : Path :=
  match d.getLast? with
  | none => inc
  | some c => if c == 47 then d ++ inc else d ++ 47 :: inc

/-- `Path::exists` -/
def FS.exists (fs : FS) (p : Path) : Bool := (fs p).isSome

/-- `loader::make_include_filename` -/
def makeIncludeFilename (fs : FS) (incname : Path) (baseFilename : Path) : Path :=
  let normalized := normalize incname
  if isAbsolute normalized then normalized
  else
    match parent baseFilename with
    | some basedir =>
      let joined := join basedir normalized
      if fs.exists joined then joined else incname
    | none => incname

/-- the BOM strip of `loader::load`: `utf8data.len() > 2 && utf8data.starts_with('\u{feff}')` → `&utf8data[3..]` -/
def stripBom (b : Bytes) : Bytes :=
  if b.size > 2 && b[0]? == some 0xEF && b[1]? == some 0xBB && b[2]? == some 0xBF then b.extract 3 b.size else b

/-- `loader::load`: `Err` if the file cannot be opened (`none`) -/
def load (fs : FS) (p : Path) : Option Bytes := (fs p).map stripBom

/-! ### data -/

/-- `Filename { full, display }` -/
structure Filename where
  full : Path
  display : Path
  deriving DecidableEq, Repr, Inhabited

/-- `A2lToken` -/
structure Tok where
  ttype : TokType
  startpos : Nat
  endpos : Nat
  fileid : Nat
  line : Nat
  deriving DecidableEq, Repr, Inhabited

/-- the tokens of `tokenize_core(…, fileid, …)` -/
def Tok.ofLex (fileid : Nat) (t : Lex.Token) : Tok :=
  { ttype := t.ttype, startpos := t.startpos, endpos := t.endpos, fileid := fileid, line := t.line }

/-- `TokenResult` -/
structure TokenResult where
  tokens : List Tok
  filedata : List Bytes
  filenames : List Filename
  deriving DecidableEq, Repr, Inhabited

/-- `TokenizerError` (the `filename` field is `filename.to_string()`, the display name) -/
inductive Err where
  | Lex (filename : Path) (kind : Lex.ErrKind) (line : Nat)
  | IncludeFileError (filename : Path) (line : Nat) (incname : Path)
  | IncompleteIncludeError (filename : Path) (line : Nat)
  deriving DecidableEq, Repr, Inhabited

/-- outcome: a value, a `TokenizerError`, a panic, or `hang` (only handed on from the lexer model, where it does not
    occur: `Lex.lex_no_hang`; the include recursion itself cannot produce it) -/
inductive R (α : Type) where
  | ok (a : α)
  | err (e : Err)
  | panic
  | hang
  deriving DecidableEq, Repr, Inhabited

abbrev Res := R TokenResult

/-- `MAX_INCLUDE_DEPTH` -/
def maxIncludeDepth : Nat := 64

/-- the recursive call `tokenize_nested(.., depth + 1)` -/
abbrev Rec := Filename → Nat → Bytes → Res

/-- the mutable locals of `tokenize` -/
structure St where
  tokens : List Tok
  filenames : List Filename
  filedatas : List Bytes
  nextFileid : Nat
  deriving DecidableEq, Repr, Inhabited

/-! ### the splice -/

/-- `input_tokens.iter().enumerate().filter_map(|(pos, t)| if t.ttype == Include { Some(pos) } else { None })`;
    `pos` is the index of the head of the list -/
def includeDirectives : List Tok → Nat → List Nat
  | [], _ => []
  | t :: ts, pos =>
    if t.ttype = .include then pos :: includeDirectives ts (pos + 1) else includeDirectives ts (pos + 1)

/-- `&v[a..e]`: panics unless `a ≤ e ≤ len` -/
def sliceL {α : Type} (l : List α) (a e : Nat) : Out (List α) :=
  if a ≤ e ∧ e ≤ l.length then .ok ((l.take e).drop a) else .panic

/-- `if filebytes[filename_start] == b'"' && filebytes[filename_end - 1] == b'"' { filename_start += 1; filename_end -= 1; }`;
    returns `(filename_start, filename_end)` -/
def stripQuotes (b : Bytes) (s e : Nat) : Out (Nat × Nat) :=
  match b[s]? with
  | none => .panic                                          -- `filebytes[filename_start]`
  | some c0 =>
    if c0 == 34 then
      if e = 0 then .panic                                  -- `filename_end - 1` underflows
      else
        match b[e - 1]? with
        | none => .panic                                    -- `filebytes[filename_end - 1]`
        | some c1 => if c1 == 34 then .ok (s + 1, e - 1) else .ok (s, e)
    else .ok (s, e)

/-- `incname = &filetext[filename_start..filename_end]` for the token `t0` -/
def incName (b : Bytes) (t0 : Tok) : Out Path :=
  match stripQuotes b t0.startpos t0.endpos with
  | .panic => .panic
  | .ok (s, e) =>
    match Lex.slice b s e with                              -- `&filetext[s..e]`
    | .panic => .panic
    | .ok nm => .ok nm.toList

/-- the `else` branch: `input_tokens[include_directives[idx - 1]].line` -/
def incomplete (filename : Filename) (input : List Tok) (p : Nat) : R St :=
  match input[p]? with
  | none => .panic
  | some t => .err (.IncompleteIncludeError filename.display t.line)

/-- the body of `for idx in 1..include_directives.len()`; `rec` is the recursive call `tokenize_nested(.., depth + 1)`
    if `depth < MAX_INCLUDE_DEPTH`, and `none` if `depth = MAX_INCLUDE_DEPTH` -/
def directive (rec : Option Rec) (fs : FS) (filename : Filename) (b : Bytes)
    (input : List Tok) (dirs : List Nat) (idx : Nat) (st : St) : R St :=
  if idx = 0 then .panic                                    -- `idx - 1`
  else
    match dirs[idx - 1]?, dirs[idx]? with
    | some p, some q =>
      match sliceL input (p + 1) q with                     -- `token_subseq`
      | .panic => .panic
      | .ok [] => incomplete filename input p
      | .ok (t0 :: rest) =>
        if t0.ttype = .string ∨ t0.ttype = .identifier then
          match incName b t0 with
          | .panic => .panic
          | .ok incname =>
            let incfilename := makeIncludeFilename fs incname filename.full
            -- `loadresult = if depth < MAX_INCLUDE_DEPTH { loader::load(incpathref).ok() } else { None }`
            match rec with
            | none => .err (.IncludeFileError filename.display t0.line incname)     -- nested too deeply
            | some rec =>
              match load fs incfilename with
              | some incfiledata =>
                match rec { full := incfilename, display := incname } st.nextFileid incfiledata with
                | .ok tokresult =>
                  .ok { nextFileid := st.nextFileid + tokresult.filenames.length
                        tokens := st.tokens ++ tokresult.tokens ++ rest     -- `append`, then `extend_from_slice(&token_subseq[1..])`
                        filenames := st.filenames ++ tokresult.filenames
                        filedatas := st.filedatas ++ tokresult.filedata }
                | .err e => .err e                          -- `?`
                | .panic => .panic
                | .hang => .hang
              | none => .err (.IncludeFileError filename.display t0.line incname)
        else incomplete filename input p
    | _, _ => .panic                                        -- `include_directives[idx - 1]`, `include_directives[idx]`

/-- `for idx in 1..include_directives.len()`: `n` iterations are left, the next one is `idx` -/
def loop (rec : Option Rec) (fs : FS) (filename : Filename) (b : Bytes)
    (input : List Tok) (dirs : List Nat) : Nat → Nat → St → R St
  | 0, _, st => .ok st
  | n + 1, idx, st =>
    match directive rec fs filename b input dirs idx st with
    | .ok st' => loop rec fs filename b input dirs n (idx + 1) st'
    | .err e => .err e
    | .panic => .panic
    | .hang => .hang

/-- everything after `tokenize_core`; `rec` as in `directive` -/
def splice (rec : Option Rec) (fs : FS) (filename : Filename) (fileid : Nat) (b : Bytes)
    (input : List Tok) : Res :=
  let dirs := includeDirectives input 0
  if dirs.isEmpty then .ok { tokens := input, filedata := [b], filenames := [filename] }
  else
    match dirs[0]? with
    | none => .panic                                        -- `include_directives[0]`
    | some d0 =>
      match sliceL input 0 d0 with                          -- `input_tokens[0..include_directives[0]]`
      | .panic => .panic
      | .ok first =>
        let dirs := dirs ++ [input.length]
        let st : St := { tokens := first, filenames := [filename], filedatas := [b], nextFileid := fileid + 1 }
        match loop rec fs filename b input dirs (dirs.length - 1) 1 st with
        | .ok st => .ok { tokens := st.tokens, filedata := st.filedatas, filenames := st.filenames }
        | .err e => .err e
        | .panic => .panic
        | .hang => .hang

/-- the body of `tokenize_nested`; `rec` as in `directive` -/
def tokenizeWith (rec : Option Rec) (fs : FS) (filename : Filename) (fileid : Nat) (b : Bytes) : Res :=
  match Lex.tokenize b with
  | .err k l => .err (.Lex filename.display k l)
  | .panic => .panic
  | .hang => .hang                                          -- the lexer model's fuel; does not occur (`Lex.lex_no_hang`)
  | .ok lt => splice rec fs filename fileid b (lt.map (Tok.ofLex fileid))

/-- `tokenize_nested(filename, fileid, filetext, depth)`; the first argument is `MAX_INCLUDE_DEPTH - depth`, the
    number of levels that may still be nested below this file (structural recursion) -/
def tokenize (fs : FS) : Nat → Filename → Nat → Bytes → Res
  | 0, filename, fileid, b => tokenizeWith none fs filename fileid b
  | n + 1, filename, fileid, b => tokenizeWith (some (tokenize fs n)) fs filename fileid b

/-- `tokenize(filename, fileid, filetext)` = `tokenize_nested(.., 0)` -/
def tokenizeTop (fs : FS) (filename : Filename) (fileid : Nat) (b : Bytes) : Res :=
  tokenize fs maxIncludeDepth filename fileid b

/-- the text of a token of a result whose first file has id `fileid` -/
def tokText (filedata : List Bytes) (fileid : Nat) (t : Tok) : Bytes :=
  match filedata[t.fileid - fileid]? with
  | some b => b.extract t.startpos t.endpos
  | none => #[]

end A2l.Inc
