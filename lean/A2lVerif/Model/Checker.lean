import A2lVerif.Model.Limits
/-! Structural model of `a2lfile/src/checker.rs` (`check` and every per-kind function it calls) and of the three shared
    name spaces of `a2lfile/src/module.rs` (`objects`, `compu_tabs`, `typedefs`).

    The abstract reference graph of `Model/Graph.lean` says WHAT a correct `check()` reports; this file says HOW the code
    computes it: which list is searched at which field, in which order the reports are pushed, where the code indexes
    or unwraps (`Out.panic` is placed exactly there), which record layout / data type a limit test uses, and the
    `HashMap` bookkeeping of `check_group_structure`. `Props/C11.lean` proves that the two agree (`xref_refines_graph`)
    and that no panic site is reachable (`check_no_panic`).

    Names are `List Char` (the code compares and prefixes `String`s; `starts_with("THIS.")` / `strip_prefix` are list
    functions here). Numbers are exact rationals as in `Model/Limits.lean`. Line numbers are layout and not modelled. -/
namespace A2l.Chk
open A2l.Lim

abbrev Name := List Char

/-! ### the data `check()` reads -/

structure AxisDescr where
  attr : Name                          -- CURVE_AXIS | COM_AXIS | FIX_AXIS | RES_AXIS | STD_AXIS
  inputQuantity : Name
  conversion : Name
  lower : Rat
  upper : Rat
  axisPtsRef : Option Name
  curveAxisRef : Option Name

structure RecordLayout where
  name : Name
  fncValues : Option DataType
  axisPtsX : Option DataType
  axisPtsY : Option DataType
  axisPtsZ : Option DataType
  axisPts4 : Option DataType
  axisPts5 : Option DataType

structure CompuMethod where
  name : Name
  convType : Name                      -- IDENTICAL | FORM | LINEAR | RAT_FUNC | TAB_INTP | TAB_NOINTP | TAB_VERB
  coeffsLinear : Option (Rat × Rat)
  coeffs : Option (Rat × Rat × Rat × Rat × Rat × Rat)
  compuTabRef : Option Name
  refUnit : Option Name
  statusStringRef : Option Name

structure AxisPts where
  name : Name
  inputQuantity : Name
  depositRecord : Name
  conversion : Name
  lower : Rat
  upper : Rat
  functionList : Option (List Name)
  refMemorySegment : Option Name

structure TypedefAxis where
  name : Name
  inputQuantity : Name
  recordLayout : Name
  conversion : Name

/-- CHARACTERISTIC and TYPEDEF_CHARACTERISTIC (`CharacteristicWrapper`); the optional lists exist on CHARACTERISTIC only -/
structure Characteristic where
  name : Name
  ctype : Name                         -- ASCII | CURVE | MAP | CUBOID | CUBE_4 | CUBE_5 | VAL_BLK | VALUE
  recordLayout : Name                  -- `deposit` / `record_layout`
  conversion : Name
  lower : Rat
  upper : Rat
  axisDescr : List AxisDescr
  comparisonQuantity : Option Name := none
  dependent : Option (List Name) := none
  mapList : Option (List Name) := none
  virtualChar : Option (List Name) := none
  functionList : Option (List Name) := none
  refMemorySegment : Option Name := none

structure Function where
  name : Name
  inMeas : Option (List Name)
  locMeas : Option (List Name)
  outMeas : Option (List Name)
  defChar : Option (List Name)
  refChar : Option (List Name)
  subFunction : Option (List Name)

structure Group where
  name : Name
  root : Bool
  refChar : Option (List Name)
  refMeas : Option (List Name)
  functionList : Option (List Name)
  subGroup : Option (List Name)

structure Measurement where
  name : Name
  datatype : DataType
  conversion : Name
  lower : Rat
  upper : Rat
  refMemorySegment : Option Name := none
  functionList : Option (List Name) := none

structure Transformer where
  name : Name
  inverse : Name
  inObjects : Option (List Name)
  outObjects : Option (List Name)

structure Instance where
  name : Name
  typeRef : Name

structure TypedefStructure where
  name : Name
  components : List (Name × Name)      -- (component name, component type)

structure Module where
  axisPts : List AxisPts := []
  blob : List Name := []
  characteristic : List Characteristic := []
  instance_ : List Instance := []
  measurement : List Measurement := []
  typedefAxis : List TypedefAxis := []
  typedefBlob : List Name := []
  typedefCharacteristic : List Characteristic := []
  typedefMeasurement : List Measurement := []
  typedefStructure : List TypedefStructure := []
  compuMethod : List CompuMethod := []
  compuTab : List Name := []
  compuVtab : List Name := []
  compuVtabRange : List Name := []
  function : List Function := []
  group : List Group := []
  recordLayout : List RecordLayout := []
  transformer : List Transformer := []
  unit : List Name := []
  memorySegment : Option (List Name) := none      -- `None`: the module has no MOD_PAR

/-! ### what `check()` pushes -/

inductive Report where
  | xref (sourceType sourceName targetType targetName : Name)
  | content (item block desc : Name)
  | limit (item block : Name) (lower upper calcLower calcUpper : Rat)
  | limitSpecial (item block : Name)     -- the rational model cannot follow the `f64` arithmetic (division by zero)
  | groupStructure (name : Name) (cls : Name) (parents : List Name)
  deriving DecidableEq

def s (x : String) : Name := x.toList

/-! ### name spaces (`module.rs`): `ItemList` look-up finds the FIRST item of a name -/

def Module.objects (m : Module) : List Name :=
  m.axisPts.map (·.name) ++ m.blob ++ m.characteristic.map (·.name) ++ m.instance_.map (·.name) ++
    m.measurement.map (·.name)

def Module.compuTabs (m : Module) : List Name := m.compuTab ++ m.compuVtab ++ m.compuVtabRange

def Module.typedefs (m : Module) : List Name :=
  m.typedefAxis.map (·.name) ++ m.typedefBlob ++ m.typedefMeasurement.map (·.name) ++
    m.typedefCharacteristic.map (·.name) ++ m.typedefStructure.map (·.name)

def Module.getRecordLayout (m : Module) (n : Name) : Option RecordLayout := m.recordLayout.find? (·.name == n)
def Module.getCompuMethod (m : Module) (n : Name) : Option CompuMethod := m.compuMethod.find? (·.name == n)

/-! ### `calc_compu_method_limits(opt_compu_method, datatype)` through `Model/Limits.lean` -/

def CompuMethod.toConv (cm : CompuMethod) : Conv :=
  if cm.convType == s "FORM" then .form
  else if cm.convType == s "LINEAR" then .linear cm.coeffsLinear
  else if cm.convType == s "RAT_FUNC" then .ratFunc cm.coeffs
  else .direct

def convOf (m : Module) (conversion : Name) : Conv :=
  match m.getCompuMethod conversion with
  | none => .absent
  | some cm => cm.toConv

/-- one limit test: nothing, a `LimitCheckError`, or "cannot follow" -/
def limitReport (carrier : Carrier) (m : Module) (conversion : Name) (dt : DataType) (item block : Name)
    (lower upper : Rat) : List Report :=
  match calcLimits (convOf m conversion) dt with
  | none => [.limitSpecial item block]
  | some cl =>
    let valid := match carrier with
      | _ => limitsValid (lower, upper) cl
    if valid then [] else [.limit item block lower upper cl.1 cl.2]

/-! ### the per-kind functions, in the order of `checker.rs` -/

/-- push a `CrossReferenceError` unless `target` is a name of `space` -/
def missing (srcType srcName tgtType target : Name) (space : List Name) : List Report :=
  if !space.contains target then [.xref srcType srcName tgtType target] else []

/-- the same for a field with a reserved word that means "none" (`x != "NO_..." && !map.contains_key(x)`) -/
def missingUnless (reserved srcType srcName tgtType target : Name) (space : List Name) : List Report :=
  if target != reserved && !space.contains target then [.xref srcType srcName tgtType target] else []

/-- `if let Some(x) = &opt { if !map.contains_key(x) { push } }` -/
def optMissing (srcType srcName tgtType : Name) (o : Option Name) (space : List Name) : List Report :=
  match o with
  | none => []
  | some t => missing srcType srcName tgtType t space

def Module.compuMethodNames (m : Module) : List Name := m.compuMethod.map (·.name)
def Module.functionNames (m : Module) : List Name := m.function.map (·.name)
def Module.groupNames (m : Module) : List Name := m.group.map (·.name)
def Module.recordLayoutNames (m : Module) : List Name := m.recordLayout.map (·.name)
def Module.transformerNames (m : Module) : List Name := m.transformer.map (·.name)


/-- `check_reference_list` -/
def checkReferenceList (containerType refType : Name) (list : List Name) (space : List Name) : List Report :=
  (list.filter fun ident => !space.contains ident).map fun ident => .xref containerType ident refType ident

def optList (containerType refType : Name) (l : Option (List Name)) (space : List Name) : List Report :=
  match l with
  | none => []
  | some l => checkReferenceList containerType refType l space

/-- `check_function_list` -/
def checkFunctionList (m : Module) (l : Option (List Name)) : List Report :=
  optList (s "FUNCTION_LIST") (s "FUNCTION") l m.functionNames

/-- `check_ref_memory_segment` -/
def checkRefMemorySegment (m : Module) (r : Option Name) : List Report :=
  match r with
  | none => []
  | some n =>
    let valid := match m.memorySegment with
      | some segs => segs.contains n
      | none => false
    if valid then [] else [.xref (s "REF_MEMORY_SEGMENT") n (s "MEMORY_SEGMENT") n]

def idxText (idx : Nat) : Name := (toString idx).toList

def adSource (idx : Nat) : Name := s "AXIS_DESCR[" ++ idxText idx ++ s "] of CHARACTERISTIC"

/-- `check_axis_descr` -/
def checkAxisDescr (idx : Nat) (parent : Name) (ad : AxisDescr) (m : Module) (objects : List Name) : List Report :=
  missingUnless (s "NO_INPUT_QUANTITY") (adSource idx) parent (s "MEASUREMENT") ad.inputQuantity objects ++
  missingUnless (s "NO_COMPU_METHOD") (adSource idx) parent (s "COMPU_METHOD") ad.conversion m.compuMethodNames ++
  (if (ad.attr == s "COM_AXIS" || ad.attr == s "RES_AXIS") && ad.axisPtsRef.isNone then
    [.content parent (adSource idx) (ad.attr ++ s " requires an AXIS_PTS_REF.")]
   else if (ad.attr == s "STD_AXIS" || ad.attr == s "FIX_AXIS") && ad.axisPtsRef.isSome then
    [.content parent (adSource idx) (ad.attr ++ s " does not use AXIS_PTS_REF.")]
   else [])

/-- `str::strip_prefix` -/
def stripPrefix? : Name → Name → Option Name
  | [], rest => some rest
  | _ :: _, [] => none
  | p :: ps, c :: cs => if p == c then stripPrefix? ps cs else none

def startsWith (pre n : Name) : Bool := (stripPrefix? pre n).isSome

/-- `is_valid_structure_component` -/
def isValidStructureComponent (x : Name) (containing : List TypedefStructure) : Bool :=
  containing.all fun ts => ts.components.any fun sc => sc.1 == x

/-- one of the two `THIS.`-capable references of `check_axis_descr_refs`; `strip_prefix(..).unwrap()` is the panic site -/
def checkThisRef (idx : Nat) (parent : Name) (target : Name) (targetType : Name) (objects : List Name)
    (direct : Bool) (containing : List TypedefStructure) : Out (List Report) :=
  if !direct && !containing.isEmpty && startsWith (s "THIS.") target then
    match stripPrefix? (s "THIS.") target with
    | none => .panic
    | some comp =>
      .ok (if !isValidStructureComponent comp containing then
        [.xref (adSource idx) parent (s "STRUCTURE_COMPONENT") comp] else [])
  else .ok (missing (adSource idx) parent targetType target objects)

/-- `check_axis_descr_refs` -/
def checkAxisDescrRefs (idx : Nat) (parent : Name) (ad : AxisDescr) (objects : List Name) (direct : Bool)
    (containing : List TypedefStructure) : Out (List Report) :=
  match (match ad.axisPtsRef with
         | none => Out.ok []
         | some t => checkThisRef idx parent t (s "AXIS_PTS") objects direct containing) with
  | .panic => .panic
  | .ok r1 =>
    match (match ad.curveAxisRef with
           | none => Out.ok []
           | some t => checkThisRef idx parent t (s "CHARACTERISTIC") objects direct containing) with
    | .panic => .panic
    | .ok r2 => .ok (r1 ++ r2)

/-- `check_typedef_axis` -/
def checkTypedefAxis (t : TypedefAxis) (m : Module) (objects : List Name) : List Report :=
  missingUnless (s "NO_INPUT_QUANTITY") (s "TYPEDEF_AXIS") t.name (s "MEASUREMENT") t.inputQuantity objects ++
  missing (s "TYPEDEF_AXIS") t.name (s "RECORD_LAYOUT") t.recordLayout m.recordLayoutNames ++
  missingUnless (s "NO_COMPU_METHOD") (s "TYPEDEF_AXIS") t.name (s "COMPU_METHOD") t.conversion m.compuMethodNames

/-- `check_axis_pts` -/
def checkAxisPts (a : AxisPts) (m : Module) (objects : List Name) : List Report :=
  missingUnless (s "NO_COMPU_METHOD") (s "AXIS_PTS") a.name (s "COMPU_METHOD") a.conversion m.compuMethodNames ++
  missingUnless (s "NO_INPUT_QUANTITY") (s "AXIS_PTS") a.name (s "MEASUREMENT") a.inputQuantity objects ++
  (match m.getRecordLayout a.depositRecord with
   | some rl =>
     match rl.axisPtsX with
     | some dt => limitReport .axisPts m a.conversion dt a.name (s "AXIS_PTS") a.lower a.upper
     | none => [.content a.name (s "AXIS_PTS")
         (s "Referenced RECORD_LAYOUT " ++ a.depositRecord ++ s " does not have AXIS_PTS_X.")]
   | none => [.xref (s "AXIS_PTS") a.name (s "RECORD_LAYOUT") a.depositRecord]) ++
  checkFunctionList m a.functionList ++
  checkRefMemorySegment m a.refMemorySegment

def expectedAxisCount (ctype : Name) : Nat :=
  if ctype == s "CURVE" then 1 else if ctype == s "MAP" then 2 else if ctype == s "CUBOID" then 3
  else if ctype == s "CUBE_4" then 4 else if ctype == s "CUBE_5" then 5 else 0

def RecordLayout.axisRefs (rl : RecordLayout) : List (Option DataType) :=
  [rl.axisPtsX, rl.axisPtsY, rl.axisPtsZ, rl.axisPts4, rl.axisPts5]

def axisPtsNames : List Name := [s "X", s "Y", s "Z", s "4", s "5"]

/-- the first loop of `check_characteristic_common` (`check_axis_descr` + `check_axis_descr_refs` per AXIS_DESCR) -/
def axisLoop (parent : Name) (m : Module) (objects : List Name) (direct : Bool) (containing : List TypedefStructure) :
    Nat → List AxisDescr → Out (List Report)
  | _, [] => .ok []
  | idx, ad :: rest =>
    match checkAxisDescrRefs idx parent ad objects direct containing with
    | .panic => .panic
    | .ok r2 =>
      match axisLoop parent m objects direct containing (idx + 1) rest with
      | .panic => .panic
      | .ok r3 => .ok (checkAxisDescr idx parent ad m objects ++ r2 ++ r3)

/-- the second loop: limits of standard axes against `axis_refs.get(idx)` of the record layout -/
def stdAxisLoop (kind name rlName : Name) (m : Module) (rl : RecordLayout) : Nat → List AxisDescr → List Report
  | _, [] => []
  | idx, ad :: rest =>
    (if ad.attr == s "STD_AXIS" then
      match rl.axisRefs[idx]? with
      | some (some dt) => limitReport .axisDescrStd m ad.conversion dt name (s "AXIS_DESCR") ad.lower ad.upper
      | _ => [.content name kind (s "Referenced RECORD_LAYOUT " ++ rlName ++ s " does not have AXIS_PTS_" ++
                (axisPtsNames[idx]?.getD (s "?")) ++ s ".")]
     else []) ++ stdAxisLoop kind name rlName m rl (idx + 1) rest

/-- `check_characteristic_common` -/
def checkCharacteristicCommon (kind : Name) (c : Characteristic) (m : Module) (objects : List Name) (direct : Bool)
    (containing : List TypedefStructure) : Out (List Report) :=
  match axisLoop c.name m objects direct containing 0 c.axisDescr with
  | .panic => .panic
  | .ok axes =>
    .ok (missingUnless (s "NO_COMPU_METHOD") kind c.name (s "COMPU_METHOD") c.conversion m.compuMethodNames ++
      axes ++
      (if c.axisDescr.length != expectedAxisCount c.ctype then
        [.content c.name kind (s "Expected " ++ idxText (expectedAxisCount c.ctype) ++ s " AXIS_DESCR for type " ++
          c.ctype ++ s ", found " ++ idxText c.axisDescr.length)] else []) ++
      (match m.getRecordLayout c.recordLayout with
       | some rl =>
         (match rl.fncValues with
          | some dt => limitReport .characteristic m c.conversion dt c.name kind c.lower c.upper
          | none => [.content c.name kind
              (s "Referenced RECORD_LAYOUT " ++ c.recordLayout ++ s " does not have FNC_VALUES.")]) ++
         stdAxisLoop kind c.name c.recordLayout m rl 0 c.axisDescr
       | none => [.xref kind c.name (s "RECORD_LAYOUT") c.recordLayout]))

/-- `check_characteristic` -/
def checkCharacteristic (c : Characteristic) (m : Module) (objects : List Name) : Out (List Report) :=
  match checkCharacteristicCommon (s "CHARACTERISTIC") c m objects true [] with
  | .panic => .panic
  | .ok common =>
    .ok (common ++
      optMissing (s "CHARACTERISTIC") c.name (s "MEASUREMENT") c.comparisonQuantity objects ++
      optList (s "DEPENDENT_CHARACTERISTIC") (s "CHARACTERISTIC") c.dependent objects ++
      optList (s "MAP_LIST") (s "CHARACTERISTIC") c.mapList objects ++
      optList (s "VIRTUAL_CHARACTERISTIC") (s "CHARACTERISTIC") c.virtualChar objects ++
      checkFunctionList m c.functionList ++
      checkRefMemorySegment m c.refMemorySegment)

/-- the loop body of `check()` for one TYPEDEF_CHARACTERISTIC: direct use, containing structures, common checks -/
def checkTypedefCharacteristic (t : Characteristic) (m : Module) (objects : List Name) : Out (List Report) :=
  let direct := m.instance_.any fun i => i.typeRef == t.name
  let containing := m.typedefStructure.filter fun ts => ts.components.any fun sc => sc.2 == t.name
  checkCharacteristicCommon (s "TYPEDEF_CHARACTERISTIC") t m objects direct containing

/-- `check_compu_method` -/
def checkCompuMethod (cm : CompuMethod) (m : Module) (compuTabs : List Name) : List Report :=
  optMissing (s "COMPU_METHOD") cm.name (s "COMPU_TAB") cm.compuTabRef compuTabs ++
  optMissing (s "COMPU_METHOD") cm.name (s "UNIT") cm.refUnit m.unit ++
  optMissing (s "COMPU_METHOD") cm.name (s "COMPU_VTAB") cm.statusStringRef compuTabs

/-- `check_function` -/
def checkFunction (f : Function) (m : Module) (objects : List Name) : List Report :=
  optList (s "IN_MEASUREMENT") (s "MEASUREMENT") f.inMeas objects ++
  optList (s "LOC_MEASUREMENT") (s "MEASUREMENT") f.locMeas objects ++
  optList (s "OUT_MEASUREMENT") (s "MEASUREMENT") f.outMeas objects ++
  optList (s "DEF_CHARACTERISTIC") (s "CHARACTERISTIC") f.defChar objects ++
  optList (s "REF_CHARACTERISTIC") (s "CHARACTERISTIC") f.refChar objects ++
  optList (s "SUB_FUNCTION") (s "FUNCTION") f.subFunction m.functionNames

/-- `check_group` -/
def checkGroup (g : Group) (m : Module) (objects : List Name) : List Report :=
  optList (s "REF_CHARACTERISTIC") (s "CHARACTERISTIC") g.refChar objects ++
  optList (s "REF_MEASUREMENT") (s "MEASUREMENT") g.refMeas objects ++
  optList (s "FUNCTION_LIST") (s "FUNCTION") g.functionList m.functionNames ++
  optList (s "SUB_GROUP") (s "GROUP") g.subGroup m.groupNames

/-! #### `check_group_structure`: a `HashMap<String, GroupInfo>` as an association list -/

structure GroupInfo where
  isRoot : Bool
  parents : List Name

abbrev GMap := List (Name × GroupInfo)

def GMap.get (gm : GMap) (k : Name) : Option GroupInfo := (gm.find? (·.1 == k)).map (·.2)

/-- `HashMap::insert`: replaces the value of an existing key -/
def GMap.insert : GMap → Name → GroupInfo → GMap
  | [], k, v => [(k, v)]
  | (k', v') :: rest, k, v => if k' == k then (k, v) :: rest else (k', v') :: GMap.insert rest k v

/-- `get_mut(sg).parents.push(parent)`; `none` = the key is absent -/
def GMap.pushParent : GMap → Name → Name → Option GMap
  | [], _, _ => none
  | (k', v') :: rest, k, p =>
    if k' == k then some ((k', { v' with parents := v'.parents ++ [p] }) :: rest)
    else (GMap.pushParent rest k p).map ((k', v') :: ·)

/-- first loop -/
def groupInit (groups : List Group) : GMap :=
  groups.foldl (fun gm g => gm.insert g.name ⟨g.root, []⟩) []

/-- second loop, inner part: the sub-groups of one group -/
def groupLinkOne (parent : Name) : List Name → GMap → GMap × List Report
  | [], gm => (gm, [])
  | sg :: rest, gm =>
    match gm.pushParent sg parent with
    | some gm' => groupLinkOne parent rest gm'
    | none =>
      let (gm', r) := groupLinkOne parent rest gm
      (gm', Report.xref (s "GROUP") parent (s "GROUP") sg :: r)

/-- second loop -/
def groupLink : List Group → GMap → GMap × List Report
  | [], gm => (gm, [])
  | g :: rest, gm =>
    let (gm1, r1) := match g.subGroup with
      | some l => groupLinkOne g.name l gm
      | none => (gm, [])
    let (gm2, r2) := groupLink rest gm1
    (gm2, r1 ++ r2)

/-- third loop; `.expect("all groups should be in the groupinfo map")` and `gi.parents[0]` are the panic sites -/
def groupJudge (gm : GMap) : List Group → Out (List Report)
  | [] => .ok []
  | g :: rest =>
    match gm.get g.name with
    | none => .panic
    | some gi =>
      match (if gi.isRoot && gi.parents.length > 1 then
               Out.ok [Report.groupStructure g.name (s "root-multi") gi.parents]
             else if gi.isRoot && gi.parents.length == 1 then
               match gi.parents[0]? with
               | some p => Out.ok [Report.groupStructure g.name (s "root-one") [p]]
               | none => Out.panic
             else if !gi.isRoot && gi.parents.length > 1 then
               Out.ok [Report.groupStructure g.name (s "multi") gi.parents]
             else if !gi.isRoot && gi.parents.isEmpty then
               Out.ok [Report.groupStructure g.name (s "orphan") []]
             else Out.ok []) with
      | .panic => .panic
      | .ok r =>
        match groupJudge gm rest with
        | .panic => .panic
        | .ok r' => .ok (r ++ r')

/-- `check_group_structure` -/
def checkGroupStructure (groups : List Group) : Out (List Report) :=
  let (gm, r) := groupLink groups (groupInit groups)
  match groupJudge gm groups with
  | .panic => .panic
  | .ok r' => .ok (r ++ r')

/-- `check_measurement` -/
def checkMeasurement (x : Measurement) (m : Module) : List Report :=
  missingUnless (s "NO_COMPU_METHOD") (s "MEASUREMENT") x.name (s "COMPU_METHOD") x.conversion m.compuMethodNames ++
  limitReport .measurement m x.conversion x.datatype x.name (s "MEASUREMENT") x.lower x.upper ++
  checkRefMemorySegment m x.refMemorySegment ++
  checkFunctionList m x.functionList

/-- `check_typedef_measurement` -/
def checkTypedefMeasurement (x : Measurement) (m : Module) : List Report :=
  missingUnless (s "NO_COMPU_METHOD") (s "TYPEDEF_MEASUREMENT") x.name (s "COMPU_METHOD") x.conversion m.compuMethodNames ++
  limitReport .typedefMeasurement m x.conversion x.datatype x.name (s "TYPEDEF_MEASUREMENT") x.lower x.upper

/-- `check_transformer` -/
def checkTransformer (t : Transformer) (m : Module) (objects : List Name) : List Report :=
  missingUnless (s "NO_INVERSE_TRANSFORMER") (s "TRANSFORMER") t.name (s "inverse TRANSFORMER") t.inverse m.transformerNames ++
  optList (s "TRANSFORMER_IN_OBJECTS") (s "CHARACTERISTIC") t.inObjects objects ++
  optList (s "TRANSFORMER_OUT_OBJECTS") (s "CHARACTERISTIC") t.outObjects objects

/-- `check_instance` -/
def checkInstance (i : Instance) (typedefs : List Name) : List Report :=
  missing (s "INSTANCE") i.name (s "TYPEDEF_<x>") i.typeRef typedefs

/-- `check_typedef_structure` -/
def checkTypedefStructure (ts : TypedefStructure) (typedefs : List Name) : List Report :=
  (ts.components.filter fun sc => !typedefs.contains sc.2).map fun sc =>
    .xref (s "STRUCTURE_COMPONENT " ++ sc.1 ++ s " of TYPEDEF_STRUCTURE") ts.name (s "TYPEDEF_<x>") sc.2

/-- run a panicking step over a list, concatenating the reports -/
def forEachOut {α} (f : α → Out (List Report)) : List α → Out (List Report)
  | [] => .ok []
  | x :: xs =>
    match f x with
    | .panic => .panic
    | .ok r =>
      match forEachOut f xs with
      | .panic => .panic
      | .ok r' => .ok (r ++ r')

/-- the body of the `for module in ..` loop of `check()` -/
def checkModule (m : Module) : Out (List Report) :=
  let compuTabs := m.compuTabs
  let objects := m.objects
  let typedefs := m.typedefs
  match forEachOut (fun c => checkCharacteristic c m objects) m.characteristic with
  | .panic => .panic
  | .ok rChar =>
    match forEachOut (fun t => checkTypedefCharacteristic t m objects) m.typedefCharacteristic with
    | .panic => .panic
    | .ok rTChar =>
      match checkGroupStructure m.group with
      | .panic => .panic
      | .ok rGs =>
        .ok (m.axisPts.flatMap (fun a => checkAxisPts a m objects) ++
          m.typedefAxis.flatMap (fun t => checkTypedefAxis t m objects) ++
          rChar ++ rTChar ++
          m.compuMethod.flatMap (fun cm => checkCompuMethod cm m compuTabs) ++
          m.function.flatMap (fun f => checkFunction f m objects) ++
          m.group.flatMap (fun g => checkGroup g m objects) ++
          rGs ++
          m.measurement.flatMap (fun x => checkMeasurement x m) ++
          m.typedefMeasurement.flatMap (fun x => checkTypedefMeasurement x m) ++
          m.transformer.flatMap (fun t => checkTransformer t m objects) ++
          m.instance_.flatMap (fun i => checkInstance i typedefs) ++
          m.typedefStructure.flatMap (fun ts => checkTypedefStructure ts typedefs))

/-- `check()` -/
def check (modules : List Module) : Out (List Report) := forEachOut checkModule modules

end A2l.Chk
