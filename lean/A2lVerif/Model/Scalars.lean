import A2lVerif.Model.Basic
/-! Scalar codecs of the A2L text format as implemented in `writer.rs` (`add_quoted_string`, `add_integer`) and
    `parser.rs` (`unescape_string`, `get_integer::<T>`, after the `fix:` commit that range-checks hex literals).
    String payloads are `List Char` (both Rust functions work on `Vec<char>`); number tokens are `List Char` (ASCII). -/

namespace A2l.Sc

/-! ## strings -/

/-- one character of `add_quoted_string` -/
def escChar (c : Char) : List Char :=
  if c = '\'' then ['\\', '\'']
  else if c = '"' then ['\\', '"']
  else if c = '\\' then ['\\', '\\']
  else if c = '\r' then ['\\', 'r']
  else if c = '\n' then ['\\', 'n']
  else if c = '\t' then ['\\', 't']
  else [c]

/-- `add_quoted_string` without the surrounding quotes (the fast path for strings without special characters writes
    the value unchanged, which is what `flatMap escChar` gives as well) -/
def escape (s : List Char) : List Char := s.flatMap escChar

/-- the loop of `unescape_string`: `idx` starts at 1 and looks at the pair `(chars[idx-1], chars[idx])`;
    `Out.panic` where the Rust code would index out of range -/
def unescLoop (cs : Array Char) (idx : Nat) (acc : Array Char) : Out (Array Char × Nat) :=
  if h : idx < cs.size then
    match cs[idx - 1]? with
    | none => .panic
    | some p =>
      let c := cs[idx]
      if (p = '\\' ∨ p = '"') ∧ c = '"' then unescLoop cs (idx + 2) (acc.push '"')
      else if p = '\\' ∧ c = '\'' then unescLoop cs (idx + 2) (acc.push '\'')
      else if p = '\\' ∧ c = '\\' then unescLoop cs (idx + 2) (acc.push '\\')
      else if p = '\\' ∧ c = 'n' then unescLoop cs (idx + 2) (acc.push '\n')
      else if p = '\\' ∧ c = 'r' then unescLoop cs (idx + 2) (acc.push '\r')
      else if p = '\\' ∧ c = 't' then unescLoop cs (idx + 2) (acc.push '\t')
      else unescLoop cs (idx + 1) (acc.push p)
  else .ok (acc, idx)
termination_by cs.size - idx

/-- `unescape_string` -/
def unescape (s : List Char) : Out (List Char) :=
  if s.any (fun c => c = '\\' ∨ c = '"') then
    let cs := s.toArray
    match unescLoop cs 1 #[] with
    | .panic => .panic
    | .ok (acc, idx) =>
      if idx = cs.size then
        match cs[idx - 1]? with
        | some p => .ok (acc.push p).toList
        | none => .panic
      else .ok acc.toList
  else .ok s

/-! ## integers -/

inductive IntTy where
  | i8 | i16 | i32 | i64 | u8 | u16 | u32 | u64
  deriving Repr, DecidableEq

def IntTy.bits : IntTy → Nat
  | .i8 | .u8 => 8 | .i16 | .u16 => 16 | .i32 | .u32 => 32 | .i64 | .u64 => 64
def IntTy.signed : IntTy → Bool
  | .i8 | .i16 | .i32 | .i64 => true | _ => false
def IntTy.min (t : IntTy) : Int := if t.signed then -(2 ^ (t.bits - 1) : Nat) else 0
def IntTy.max (t : IntTy) : Int := if t.signed then (2 ^ (t.bits - 1) : Nat) - 1 else (2 ^ t.bits : Nat) - 1
def IntTy.inRange (t : IntTy) (v : Int) : Prop := t.min ≤ v ∧ v ≤ t.max
instance (t : IntTy) (v : Int) : Decidable (t.inRange v) := by unfold IntTy.inRange; infer_instance

def digitVal (c : Char) : Option Nat := if '0' ≤ c ∧ c ≤ '9' then some (c.toNat - 48) else none

/-- value of a non-empty string of decimal digits -/
def decDigits : List Char → Option Nat
  | [] => none
  | cs => cs.foldlM (fun acc c => (digitVal c).map (acc * 10 + ·)) 0

/-- value of a non-empty string of hex digits (`u64::from_str_radix(_, 16)` additionally accepts a leading `+`
    and fails above 2^64-1) -/
def hexDigits : List Char → Option Nat
  | [] => none
  | cs => cs.foldlM (fun acc c => (hexVal c).map (acc * 16 + ·)) 0

def u64FromHex (cs : List Char) : Option Nat :=
  let body := match cs with | '+' :: r => r | r => r
  match hexDigits body with
  | some n => if n < 2 ^ 64 then some n else none
  | none => none

/-- `str::parse::<T>()` for the integer type `t`: optional `+`, or `-` for signed types (for unsigned types a `-`
    is an error), then at least one decimal digit; out-of-range is an error -/
def parseDec (t : IntTy) (cs : List Char) : Option Int :=
  match cs with
  | '-' :: r =>
    if t.signed then
      match decDigits r with
      | some n => if t.min ≤ -(n : Int) then some (-(n : Int)) else none
      | none => none
    else none
  | '+' :: r =>
    match decDigits r with
    | some n => if (n : Int) ≤ t.max then some n else none
    | none => none
  | r =>
    match decDigits r with
    | some n => if (n : Int) ≤ t.max then some n else none
    | none => none

/-- `num_u64.as_()` into `T`: truncate to the width, reinterpret as two's complement for signed types -/
def wrapTo (t : IntTy) (n : Nat) : Int :=
  let m := n % 2 ^ t.bits
  if t.signed ∧ m ≥ 2 ^ (t.bits - 1) then (m : Int) - (2 ^ t.bits : Nat) else m

/-- `get_integer::<T>` on the text of a Number token: `(value, is_hex)` or `none` = MalformedNumber -/
def parseInt (t : IntTy) (cs : List Char) : Option (Int × Bool) :=
  match cs with
  | '0' :: x :: rest =>
    if (x = 'x' ∨ x = 'X') ∧ rest ≠ [] then
      match u64FromHex rest with
      | some n => if t.bits ≥ 64 ∨ n / 2 ^ t.bits = 0 then some (wrapTo t n, true) else none
      | none => none
    else (parseDec t cs).map (·, false)
  | _ => (parseDec t cs).map (·, false)

/-- the pinned code before the `fix:` commit: no range check on hex literals -/
def parseIntUnfixed (t : IntTy) (cs : List Char) : Option (Int × Bool) :=
  match cs with
  | '0' :: x :: rest =>
    if (x = 'x' ∨ x = 'X') ∧ rest ≠ [] then (u64FromHex rest).map (fun n => (wrapTo t n, true))
    else (parseDec t cs).map (·, false)
  | _ => (parseDec t cs).map (·, false)

def hexDigitUpper (n : Nat) : Char := if n < 10 then Char.ofNat (48 + n) else Char.ofNat (55 + n)

def natToDigits (base : Nat) (digit : Nat → Char) (n : Nat) : List Char :=
  if base < 2 then [] else
  let rec go (fuel : Nat) (n : Nat) (acc : List Char) : List Char :=
    match fuel with
    | 0 => acc
    | fuel + 1 => if n < base then digit n :: acc else go fuel (n / base) (digit (n % base) :: acc)
  go (n + 1) n []

def showDec (v : Int) : List Char :=
  if v < 0 then '-' :: natToDigits 10 (fun d => Char.ofNat (48 + d)) v.natAbs
  else natToDigits 10 (fun d => Char.ofNat (48 + d)) v.toNat

/-- `add_integer(value, is_hex)`: `{value}` or `0x{value:0X}` (UpperHex of a negative signed value prints its
    two's complement) -/
def printInt (t : IntTy) (v : Int) (hex : Bool) : List Char :=
  if hex then
    let n : Nat := if v < 0 then (v + (2 ^ t.bits : Nat)).toNat else v.toNat
    '0' :: 'x' :: natToDigits 16 hexDigitUpper n
  else showDec v

/-- the mathematical value of a literal, as a reader of the file understands it (hex = unsigned magnitude) -/
def literalValue (cs : List Char) : Option Int :=
  match cs with
  | '0' :: x :: rest =>
    if (x = 'x' ∨ x = 'X') ∧ rest ≠ [] then (hexDigits (match rest with | '+' :: r => r | r => r)).map Int.ofNat
    else match cs with
      | '-' :: r => (decDigits r).map (fun n => -(n : Int))
      | '+' :: r => (decDigits r).map Int.ofNat
      | r => (decDigits r).map Int.ofNat
  | '-' :: r => (decDigits r).map (fun n => -(n : Int))
  | '+' :: r => (decDigits r).map Int.ofNat
  | r => (decDigits r).map Int.ofNat

end A2l.Sc
