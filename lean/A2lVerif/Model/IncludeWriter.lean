import A2lVerif.Model.Basic
/-! The part of `Writer::add_group` (`a2lfile/src/writer.rs`) that deals with elements loaded from `/include` files: an
    element that carries an `incfile` is not written; instead `/include "<incfile>"` is written where the FIRST element of
    that file stands, once per file (`included_files: HashSet<String>`). Elements without `incfile` are written as they
    are (their text is opaque here: `Model/Tree.lean` models it for `incfile = None`). Comments from include files
    (`is_included`) are skipped. The items arrive in the writer's order (sorted by uid, position restrictions applied). -/
namespace A2l.IncW

structure Item where
  name : List Char                    -- stands for the text written for an element that is not included
  incfile : Option (List Char)
  deriving Repr, DecidableEq

inductive Entry where
  | directive (file : List Char)      -- `/include "file"`
  | element (name : List Char)
  deriving Repr, DecidableEq

/-- the loop of `add_group`; `seen` = `included_files` -/
def go (seen : List (List Char)) : List Item → List Entry
  | [] => []
  | it :: rest =>
    match it.incfile with
    | some f => if seen.contains f then go seen rest else .directive f :: go (f :: seen) rest
    | none => .element it.name :: go seen rest

def addGroup (items : List Item) : List Entry := go [] items

def directives (es : List Entry) : List (List Char) := es.filterMap fun e => match e with | .directive f => some f | _ => none
def elements (es : List Entry) : List (List Char) := es.filterMap fun e => match e with | .element n => some n | _ => none

end A2l.IncW
