import A2lVerif.Model.Basic
/-! Model of `a2lfile/src/itemlist.rs` (`ItemList<T>`), names only: `items : Vec<T>` becomes the list of the
    items' names, `map : HashMap<String, usize>` an association list. Every public mutator is written as in
    the Rust source, including the places that index (`Out.panic`). -/

namespace A2l

structure IL where
  items : List String
  map : Map
  deriving Repr

namespace IL

def empty : IL := ⟨[], []⟩

/-- `push`: `self.map.entry(key).or_insert(index); self.items.push(value)` -/
def push (l : IL) (x : String) : IL :=
  { items := l.items ++ [x],
    map := match l.map.get x with | some _ => l.map | none => l.map.insert x l.items.length }

/-- `pop` -/
def pop (l : IL) : IL × Option String :=
  match l.items.getLast? with
  | none => (l, none)
  | some x => ({ items := l.items.dropLast, map := l.map.erase x }, some x)

/-- `Vec::swap_remove(index)` for `index < len`: the last element replaces the removed one. -/
def vecSwapRemove (xs : List String) (i : Nat) : List String := (xs.set i (xs.getLast?.getD "")).dropLast

/-- `swap_remove(key)`:
    `let index = self.map.remove(key)?; let item = self.items.swap_remove(index);`
    `if let Some(swapped) = self.items.get(index) { self.map.insert(swapped.name, index) }` -/
def swapRemove (l : IL) (key : String) : Out (IL × Option String) :=
  match l.map.get key with
  | none => .ok (l, none)
  | some index =>
    let map1 := l.map.erase key
    match l.items[index]? with
    | none => .panic                      -- Vec::swap_remove panics for index >= len
    | some item =>
      let items' := vecSwapRemove l.items index
      let map2 := match items'[index]? with
        | some sw => map1.insert sw index
        | none => map1
      .ok ({ items := items', map := map2 }, some item)

/-- `swap_remove_idx(index)` -/
def swapRemoveIdx (l : IL) (index : Nat) : IL × Option String :=
  match l.items[index]? with
  | none => (l, none)
  | some item =>
    let items' := vecSwapRemove l.items index
    let map1 := l.map.erase item
    let map2 := match items'[index]? with
      | some sw => map1.insert sw index
      | none => map1
    ({ items := items', map := map2 }, some item)

/-- `self.map.clear(); for (idx, item) in items.iter().enumerate() { self.map.insert(key, idx) }` -/
def rebuildFrom (m : Map) (start : Nat) : List String → Map
  | [] => m
  | x :: xs => rebuildFrom (m.insert x start) (start + 1) xs

def rebuild (items : List String) : IL := { items := items, map := rebuildFrom [] 0 items }

def truncate (l : IL) (n : Nat) : IL := if n < l.items.length then rebuild (l.items.take n) else l
/-- `retain` pushes the kept items one by one and inserts `len - 1`: the same map as a rebuild. -/
def retain (l : IL) (keep : String → Bool) : IL := rebuild (l.items.filter keep)
/-- `sort_by`: `Vec::sort_by` is a stable sort, modelled by `List.mergeSort`. -/
def sortBy (l : IL) (le : String → String → Bool) : IL := rebuild (l.items.mergeSort le)

/-- `rename_item(idx, new_name)` -/
def renameItem (l : IL) (idx : Nat) (newName : String) : IL :=
  match l.items[idx]? with
  | none => l
  | some old => { items := l.items.set idx newName, map := (l.map.erase old).insert newName idx }

def extend (l : IL) (xs : List String) : IL := xs.foldl push l
def clear (_ : IL) : IL := empty
def collect (xs : List String) : IL := extend empty xs

/-- `get(key)`: `let index = self.map.get(key)?; Some(&self.items[*index])` (indexing may panic) -/
def get (l : IL) (key : String) : Out (Option String) :=
  match l.map.get key with
  | none => .ok none
  | some i => match l.items[i]? with
    | some x => .ok (some x)
    | none => .panic
def index (l : IL) (key : String) : Option Nat := l.map.get key
def containsKey (l : IL) (key : String) : Bool := l.map.contains key

/-! ### operations as data -/

inductive Op where
  | push (x : String)
  | pop
  | swapRemove (k : String)
  | swapRemoveIdx (i : Nat)
  | truncate (n : Nat)
  | retain (keep : List String)
  | sortAsc
  | sortDesc
  | rename (i : Nat) (n : String)
  | extend (xs : List String)
  | clear
  | collect (xs : List String)
  deriving Repr, DecidableEq

def leAsc (a b : String) : Bool := decide (a ≤ b)
def leDesc (a b : String) : Bool := decide (b ≤ a)

/-- One step: new state and the operation's return value (name of the returned element, if any). -/
def step (l : IL) : Op → Out (IL × Option String)
  | .push x => .ok (l.push x, none)
  | .pop => .ok l.pop
  | .swapRemove k => l.swapRemove k
  | .swapRemoveIdx i => .ok (l.swapRemoveIdx i)
  | .truncate n => .ok (l.truncate n, none)
  | .retain keep => .ok (l.retain (fun x => keep.contains x), none)
  | .sortAsc => .ok (l.sortBy leAsc, none)
  | .sortDesc => .ok (l.sortBy leDesc, none)
  | .rename i n => .ok (l.renameItem i n, none)
  | .extend xs => .ok (l.extend xs, none)
  | .clear => .ok (l.clear, none)
  | .collect xs => .ok (collect xs, none)

def run (l : IL) : List Op → Out IL
  | [] => .ok l
  | op :: ops => match step l op with
    | .ok (l', _) => run l' ops
    | .panic => .panic

/-! ### the abstract specification: a plain vector of names, lookups by linear search -/

def specIndex (xs : List String) (k : String) : Option Nat :=
  let i := xs.idxOf k
  if i < xs.length then some i else none

def specStep (xs : List String) : Op → List String × Option String
  | .push x => (xs ++ [x], none)
  | .pop => (xs.dropLast, xs.getLast?)
  | .swapRemove k => match specIndex xs k with
    | none => (xs, none)
    | some i => (vecSwapRemove xs i, some k)
  | .swapRemoveIdx i => match xs[i]? with
    | none => (xs, none)
    | some x => (vecSwapRemove xs i, some x)
  | .truncate n => (xs.take n, none)
  | .retain keep => (xs.filter (fun x => keep.contains x), none)
  | .sortAsc => (xs.mergeSort leAsc, none)
  | .sortDesc => (xs.mergeSort leDesc, none)
  | .rename i n => (xs.set i n, none)
  | .extend ys => (xs ++ ys, none)
  | .clear => ([], none)
  | .collect ys => (ys, none)

/-- Precondition of the property ("a list whose names are unique"): the operation does not introduce a
    name that is already present. Decidable; evaluated on the current abstract state. -/
def OpOk (xs : List String) : Op → Prop
  | .push x => x ∉ xs
  | .rename i n => n ∉ xs ∨ xs[i]? = some n
  | .extend ys => ys.Nodup ∧ ∀ y ∈ ys, y ∉ xs
  | .collect ys => ys.Nodup
  | _ => True

instance (xs : List String) (op : Op) : Decidable (OpOk xs op) := by
  cases op <;> simp only [OpOk] <;> infer_instance

end IL
end A2l
