import A2lVerif.Model.Lex
/-! line-protocol front end for the tokenizer model: `lex <hex>` ("-" = empty input).
    Answer: `ok k:s:e:l …` | `err <Kind> <line>` | `PANIC` | `HANG`. -/
namespace A2l.Lex

def TokType.code : TokType → Nat
  | .identifier => 0 | .begin => 1 | .end_ => 2 | .include => 3 | .string => 4 | .number => 5 | .comment => 6

def ErrKind.name : ErrKind → String
  | .InvalidA2lToken => "InvalidA2lToken"
  | .InvalidNumericalConstant => "InvalidNumericalConstant"
  | .UnclosedComment => "UnclosedComment"
  | .UnclosedString => "UnclosedString"
  | .MissingWhitespace => "MissingWhitespace"

def showRes : Res → String
  | .ok ts => " ".intercalate ("ok" :: ts.map fun t => s!"{t.ttype.code}:{t.startpos}:{t.endpos}:{t.line}")
  | .err k l => s!"err {k.name} {l}"
  | .panic => "PANIC"
  | .hang => "HANG"

def handle (args : List String) : String :=
  match args with
  | [hex] =>
    match hexDecode hex with
    | none => "bad-hex"
    | some bs => showRes (tokenize bs.toArray)
  | _ => "bad-request"

end A2l.Lex
