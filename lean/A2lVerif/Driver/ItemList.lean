import A2lVerif.Model.ItemList
/-! line-protocol front end for the ItemList model (`il <mode> <alphabet> <op>...`) -/
namespace A2l.IL

def splitList (s : String) : List String := if s.isEmpty then [] else s.splitOn ","

def parseOp (s : String) : Option Op :=
  match s.splitOn ":" with
  | ["push", n] => some (.push n)
  | ["pop"] => some .pop
  | ["srm", n] => some (.swapRemove n)
  | ["sri", i] => i.toNat?.map .swapRemoveIdx
  | ["trunc", i] => i.toNat?.map .truncate
  | ["retain", ns] => some (.retain (splitList ns))
  | ["sortasc"] => some .sortAsc
  | ["sortdesc"] => some .sortDesc
  | ["ren", i, n] => i.toNat?.map (fun i => .rename i n)
  | ["ext", ns] => some (.extend (splitList ns))
  | ["clear"] => some .clear
  | ["collect", ns] => some (.collect (splitList ns))
  | _ => none

def insertSorted (x : String) : List String → List String
  | [] => [x]
  | y :: ys => if x ≤ y then x :: y :: ys else y :: insertSorted x ys

def observe (l : IL) (ret : Option String) (alphabet : List String) : String :=
  let idx := alphabet.map fun n => match l.index n with | some i => toString i | none => "-"
  let get := alphabet.map fun n => match l.get n with
    | .ok (some x) => x | .ok none => "-" | .panic => "!"
  let has := String.ofList (alphabet.map fun n => if l.containsKey n then '1' else '0')
  let keys := (l.map.map (·.1)).foldr insertSorted []
  s!"ret={ret.getD "-"};items={",".intercalate l.items};idx={",".intercalate idx};get={",".intercalate get};has={has};keys={",".intercalate keys};len={l.items.length}"

def runObs (alphabet : List String) (all : Bool) : IL → Nat → List Op → List String → List String
  | l, _, [], acc => if acc.isEmpty then [observe l none alphabet] else acc.reverse
  | l, k, op :: ops, acc =>
    match step l op with
    | .panic => (s!"PANIC@{k}" :: acc).reverse
    | .ok (l', ret) =>
      let acc' := if all || ops.isEmpty then observe l' ret alphabet :: acc else acc
      runObs alphabet all l' (k + 1) ops acc'

def handle (args : List String) : String :=
  match args with
  | mode :: alphabet :: ops =>
    match ops.mapM parseOp with
    | none => "bad-op"
    | some ops =>
      let all := mode == "all"
      let obs := runObs (splitList alphabet) all empty 0 ops []
      if all then " | ".intercalate obs else obs.getLast?.getD ""
  | _ => "bad-request"

end A2l.IL
