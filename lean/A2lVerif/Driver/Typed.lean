import A2lVerif.Driver.Tree
import A2lVerif.Model.Typed
/-! line-protocol front end for the typed IF_DATA access model (C19):
    `typ <hex of the specification's text constant> <hex of an A2L document> <floats hex=hex,...|->`
    The document is tokenized with the Lean tokenizer and loaded non-strict (as in the `a2l` request). The type tree `S`
    is `parseA2ml` of the text constant. For each IF_DATA block of the first MODULE, in order, one entry:
    `inv` (not flagged valid) | `none` (`load_from_ifdata` = None) | `PANIC` |
    `some:<hex of the file written after module.if_data = vec![fresh]>`, `fresh` = `IfData::new()` + `store_to_ifdata(v)`. -/
namespace A2l.Typed
open A2l.Tree A2l.G A2l.IfData A2l.Aml

def armIndex (ty : Nat) (tag : Nat) : Option Nat :=
  match Shipped.table.lookup ty with
  | some (.block _ _ arms _) => arms.findIdx? (·.tag == tag)
  | _ => none

def armTy (ty : Nat) (tag : Nat) : Option Nat :=
  match Shipped.table.lookup ty with
  | some (.block _ _ arms _) => (arms.find? (·.tag == tag)).map (·.ty)
  | _ => none

def getChildren (v : Val) (tag : Nat) : List Val :=
  match v with
  | .block ty _ _ children _ =>
    match armIndex ty tag with
    | some i => children.getD i []
    | none => []
  | _ => []

def setChildren (v : Val) (tag : Nat) (cs : List Val) : Val :=
  match v with
  | .block ty info fields children comments =>
    match armIndex ty tag with
    | some i => .block ty info fields (children.set i cs) comments
    | none => v
  | _ => v

def tyOf : Val → Nat
  | .block ty _ _ _ _ => ty
  | _ => noSym

/-- an `IfData` as the tree model stores it -/
def blkOfVal (v : Val) : Option IfDataBlk :=
  match v with
  | .block _ info fields _ _ =>
    match decIfData fields with
    | some (items, valid) => some ⟨items, valid, info.line, info.uid, info.startOff, info.endOff⟩
    | none => none
  | _ => none

def valOfBlk (ty : Nat) (b : IfDataBlk) : Val :=
  .block ty ⟨b.line, b.uid, b.startOff, b.endOff, 0⟩ (encIfData b.items b.valid) [] []

def handle (args : List String) : String :=
  match args with
  | [hexspec, hextext, floats] =>
    match hexDecode hexspec, hexDecode hextext with
    | some sb, some bs =>
      match String.fromUTF8? (ByteArray.mk sb.toArray) with
      | none => "bad-utf8"
      | some spectext =>
      match parseA2ml spectext.toList with
      | .err => "bad-spec"
      | .fuel => "FUEL"
      | .ok S =>
      let bytes := ByteArray.mk bs.toArray
      let fl := parseFloats floats
      match Lex.tokenize bs.toArray with
      | .err k l => s!"err Tokenizer:{k.name}@{l}"
      | .panic => "PANIC"
      | .hang => "HANG"
      | .ok ts =>
        let specs := ts.map fun t => (t.ttype.code, t.startpos, t.endpos, t.line)
        if specs.any (fun t => t.1 == 3) then "include-directive" else
        let ptoks : Array PTok := specs.toArray.map fun (k, a, b, l) =>
          let text := sliceText bytes a b
          { ty := k, text := text.toList, line := l, fileid := 0, sym := if k == 0 then symOf text else noSym,
            fl := if k == 5 then (fl.get? text).map String.toList else none }
        if ptoks.isEmpty then "err EmptyFile" else
        let env : Env := { toks := ptoks, strict := false, table := Shipped.table, code := Shipped.code,
                           known := known, symbols := symbols,
                           special := IfData.special tyA2ml (f32Of fl) [],
                           specialWrite := IfData.specialWrite tyA2ml }
        match runParseFile env with
        | .panic => "PANIC"
        | .fuel => "FUEL"
        | .err d _ => s!"err {d.kind.name}@{d.line}"
        | .ok file _ =>
          let tagProject := symOf "PROJECT"
          let tagModule := symOf "MODULE"
          let tagIfData := symOf "IF_DATA"
          match getChildren file tagProject with
          | [project] =>
            match getChildren project tagModule with
            | module :: modules =>
              let blocks := getChildren module tagIfData
              let tyIf := (armTy (tyOf module) tagIfData).getD noSym
              let entries := blocks.map fun bv =>
                match blkOfVal bv with
                | none => "bad-ifdata"
                | some b =>
                  if !b.valid then "inv" else
                  match loadFromIfdata S b with
                  | .panic => "PANIC"
                  | .err => "PANIC"
                  | .ok none => "none"
                  | .ok (some v) =>
                    let fresh := storeToIfdata S v IfDataBlk.new
                    let module' := setChildren module tagIfData [valOfBlk tyIf fresh]
                    let project' := setChildren project tagModule (module' :: modules)
                    let file' := setChildren file tagProject [project']
                    let text := writeFile env file' (4 * ptoks.size + 64)
                    "some:" ++ hexEncode (String.ofList text).toUTF8.toList
              ",".intercalate entries
            | [] => "no-module"
          | _ => "no-project"
    | _, _ => "bad-hex"
  | _ => "bad-request"

/-- `amlrt <hex of an A2ML text>` (model-only check, not part of the recorded requests): parse the text, render the
    type tree with `renderSpec`, parse the rendering: `ok` if it is accepted and describes the same structure
    (`dump_spec` text), else what differs -/
def handleRt (args : List String) : String :=
  match args with
  | [hextext] =>
    match hexDecode hextext with
    | none => "bad-hex"
    | some bs =>
      match String.fromUTF8? (ByteArray.mk bs.toArray) with
      | none => "bad-utf8"
      | some text =>
        match parseA2ml text.toList with
        | .ok S =>
          match parseA2ml (renderSpec S) with
          | .ok S' => if dumpSpec S' == dumpSpec S then "ok" else "differs " ++ String.ofList (dumpSpec S')
          | .err => "rendering-rejected " ++ String.ofList (renderSpec S)
          | .fuel => "FUEL"
        | .err => "err"
        | .fuel => "FUEL"
  | _ => "bad-request"

end A2l.Typed
