import Std.Data.HashMap
import A2lVerif.Model.Tree
import A2lVerif.Model.Lex
import A2lVerif.Model.IfData
import A2lVerif.Driver.Lex
import A2lVerif.Gen.Symbols
import A2lVerif.Gen.Shipped
import A2lVerif.Gen.Fresh
/-! line-protocol front end for the element parser / writer model:
    `a2l <strict 0|1> <hex text> <tokens k:s:e:l,...|-> <floats hex=hex,...|->`
    answer: `ok;log=Kind@line,...;text=<hex of the written file>` | `err Kind@line` | `PANIC` | `FUEL` -/
namespace A2l.Tree
open A2l.G

def symMap : Std.HashMap String Nat :=
  (symbols.toList.zipIdx).foldl (fun m (s, i) => m.insert s i) {}

def symOf (s : String) : Nat := (symMap.get? s).getD noSym

def known : Known :=
  { tyA2lFile := symOf "A2lFile", tyAsap2Version := symOf "Asap2Version", tagAsap2Version := symOf "ASAP2_VERSION" }

def parseTokSpec (s : String) : Option (Nat × Nat × Nat × Nat) :=
  match s.splitOn ":" with
  | [k, a, b, l] => do
    let k ← k.toNat?; let a ← a.toNat?; let b ← b.toNat?; let l ← l.toNat?
    pure (k, a, b, l)
  | _ => none

def sliceText (bytes : ByteArray) (a b : Nat) : String :=
  (String.fromUTF8? (bytes.extract a b)).getD ""

def parseFloats (s : String) : Std.HashMap String String :=
  if s == "-" then {} else
  (s.splitOn ",").foldl (fun m kv =>
    match kv.splitOn "=" with
    | [k, v] =>
      match hexDecode k, hexDecode v with
      | some kb, some vb =>
        m.insert ((String.fromUTF8? (ByteArray.mk kb.toArray)).getD "") ((String.fromUTF8? (ByteArray.mk vb.toArray)).getD "")
      | _, _ => m
    | _ => m) {}

def tyA2ml : Nat := symOf "A2ml"

/-- the `f32` codec for A2ML `float` members: the harness supplies it under the key `f32:<token text>` for every token
    that `str::parse::<f32>` accepts; a hex token (`u64::from_str_radix(..) as f32`) is not in that table: the text of
    the f64 conversion is used, which is the same text whenever the value is below 2^24 -/
def f32Of (fl : Std.HashMap String String) (text : List Char) : Option (List Char) :=
  match fl.get? ("f32:" ++ String.ofList text) with
  | some r => some r.toList
  | none =>
    match text with
    | '0' :: x :: _ => if x = 'x' ∨ x = 'X' then (fl.get? (String.ofList text)).map String.toList else none
    | _ => none

def showLog (log : List Diag) : String :=
  ",".intercalate (log.reverse.map fun d => s!"{d.kind.name}@{d.line}")

def handleCore (table : Table) (code : List CodeEntry) (builtin : List Aml.Spec)
    (strict hextext toks floats : String) : String :=
    match hexDecode hextext with
    | none => "bad-hex"
    | some bs =>
      let bytes := ByteArray.mk bs.toArray
      let fl := parseFloats floats
      -- `L`: tokens come from the Lean model of the tokenizer (load = parse ∘ lex); otherwise they are given
      let lexed : Except String (List (Nat × Nat × Nat × Nat)) :=
        if toks == "L" then
          match Lex.tokenize bs.toArray with
          | .ok ts => .ok (ts.map fun t => (t.ttype.code, t.startpos, t.endpos, t.line))
          | .err k l => .error s!"err Tokenizer:{k.name}@{l}"
          | .panic => .error "PANIC"
          | .hang => .error "HANG"
        else if toks == "-" then .ok []
        else match (toks.splitOn ",").mapM parseTokSpec with
          | some sp => .ok sp
          | none => .error "bad-tokens"
      match lexed with
      | .error msg => msg
      | .ok specs =>
        if specs.any (fun t => t.1 == 3) then "include-directive" else
        let ptoks : Array PTok := specs.toArray.map fun (k, a, b, l) =>
          let text := sliceText bytes a b
          { ty := k, text := text.toList, line := l, fileid := 0, sym := if k == 0 then symOf text else noSym,
            fl := if k == 5 then (fl.get? text).map String.toList else none }
        if ptoks.isEmpty then "err EmptyFile" else
        let env : Env := { toks := ptoks, strict := strict == "1", table := table, code := code,
                           known := known, symbols := symbols,
                           special := IfData.special tyA2ml (f32Of fl) builtin,
                           specialWrite := IfData.specialWrite tyA2ml }
        match runParseFile env with
        | .panic => "PANIC"
        | .fuel => "FUEL"
        | .err d _ => s!"err {d.kind.name}@{d.line}"
        | .ok v s =>
          let text := writeFile env v (4 * ptoks.size + 64)
          s!"ok;log={showLog s.log};text={hexEncode (String.ofList text).toUTF8.toList}"

/-- `a2l <strict> <hextext> <toks|L> <floats> [<hex A2ML text of the built-in specification>]` -/
def handleWith (table : Table) (code : List CodeEntry) (args : List String) : String :=
  match args with
  | [strict, hextext, toks, floats] => handleCore table code [] strict hextext toks floats
  | [strict, hextext, toks, floats, builtinHex] =>
    match hexDecode builtinHex with
    | none => "bad-hex"
    | some bs =>
      match String.fromUTF8? (ByteArray.mk bs.toArray) with
      | none => "bad-builtin"
      | some str =>
        match Aml.parseA2ml str.toList with
        | .ok sp => handleCore table code [sp] strict hextext toks floats
        | _ => "bad-builtin"
  | _ => "bad-request"

/-- the model instantiated with the table extracted from the shipped `specification.rs` -/
def handle (args : List String) : String := handleWith Shipped.table Shipped.code args

/-- the model instantiated with the table extracted from the fresh expansion of the DSL by the in-tree macro (C20) -/
def handleFresh (args : List String) : String := handleWith Fresh.table Fresh.code args

end A2l.Tree
