import A2lVerif.Model.Graph
/-! `chk <defs ns:hexname,...|-> <refs ns:covered:hextarget,...|->` → sorted comma-separated missing targets -/
namespace A2l.Gr

def hexStr (h : String) : Option String := (hexDecode h).map fun bs => (String.fromUTF8? (ByteArray.mk bs.toArray)).getD ""

def parseDefs (s : String) : Option (List (Nat × String)) :=
  if s == "-" then some [] else (s.splitOn ",").mapM fun d => match d.splitOn ":" with
    | [ns, h] => do let n ← ns.toNat?; let name ← hexStr h; pure (n, name)
    | _ => none

def parseRefs (s : String) : Option (List Ref) :=
  if s == "-" then some [] else (s.splitOn ",").mapM fun d => match d.splitOn ":" with
    | [ns, c, h] => do let n ← ns.toNat?; let name ← hexStr h; pure ⟨n, c == "1", name⟩
    | _ => none

def insertSorted (x : String) : List String → List String
  | [] => [x]
  | y :: ys => if x ≤ y then x :: y :: ys else y :: insertSorted x ys

def dedupSorted : List String → List String
  | a :: b :: rest => if a == b then dedupSorted (b :: rest) else a :: dedupSorted (b :: rest)
  | l => l

def handleChk (asSet : Bool) (args : List String) : String :=
  match args with
  | [d, r] => match parseDefs d, parseRefs r with
    | some defs, some refs =>
      let rep := (refReport ⟨defs, refs⟩).foldr insertSorted []
      ",".intercalate (if asSet then dedupSorted rep else rep)
    | _, _ => "bad-request"
  | _ => "bad-request"

/-! `chkthis <direct> <objects a+b|-> <structs c:a+b;c:...|-> <refs a+b|->` → sorted comma-separated reported names -/
def parseNames (s : String) : Option (List String) :=
  if s == "-" then some [] else (s.splitOn "+").mapM hexStr

def parseStructs (s : String) : Option (List (Bool × List String)) :=
  if s == "-" then some [] else (s.splitOn ";").mapM fun d => match d.splitOn ":" with
    | [c, comps] => do let cs ← parseNames comps; pure (c == "1", cs)
    | _ => none

def handleChkThis (args : List String) : String :=
  match args with
  | [d, o, st, r] => match parseNames o, parseStructs st, parseNames r with
    | some objects, some structs, some refs =>
      ",".intercalate ((thisReport ⟨d == "1", objects, structs, refs⟩).foldr insertSorted [])
    | _, _, _ => "bad-request"
  | _ => "bad-request"

end A2l.Gr
