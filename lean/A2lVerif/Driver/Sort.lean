import A2lVerif.Model.Sort
/-! line-protocol front end for the sort model: `srt <sort|sni|order> <snapshot>`;
    snapshot = sections separated by `|`, each `kind:rule:elem;elem;…` with elem = `tag,name,uid,line`,
    the last part is `comments::elem;…` -/
namespace A2l.Srt

def parseElems (s : String) (bodyStart : Nat) : Option (List Elem) :=
  if s.isEmpty then some [] else
  let parts := s.splitOn ";"
  let rec go (ps : List String) (i : Nat) (acc : List Elem) : Option (List Elem) :=
    match ps with
    | [] => some acc.reverse
    | p :: ps => match p.splitOn "," with
      | [tag, name, uid, line] => match uid.toNat?, line.toNat? with
        | some u, some l => go ps (i + 1) ({ tag := tag, name := name, uid := u, line := l, body := i } :: acc)
        | _, _ => none
      | _ => none
  go parts bodyStart []

def parseKind : String → Option SecKind
  | "single" => some .single | "keep" => some .keep | "byName" => some .byName | _ => none
def parseRule : String → Option NewRule
  | "threaded" => some .threaded | "maxId" => some .maxId | "objectList" => some .objectList
  | "optionalZero" => some .optionalZero | _ => none

def parseSnapshot (s : String) : Option RModule :=
  let parts := s.splitOn "|"
  let rec go (ps : List String) (n : Nat) (acc : List RSection) : Option RModule :=
    match ps with
    | [] => none
    | [last] => match last.splitOn ":" with
      | ["comments", "", es] => (parseElems es (n * 1000)).map fun cs => { sections := acc.reverse, comments := cs }
      | _ => none
    | p :: ps => match p.splitOn ":" with
      | [k, r, es] => match parseKind k, parseRule r, parseElems es (n * 1000) with
        | some k, some r, some es => go ps (n + 1) ({ rule := r, sec := { kind := k, elems := es } } :: acc)
        | _, _, _ => none
      | _ => none
  go parts 0 []

def showUids (secs : List (List Elem)) (comments : List Elem) : String :=
  let el := fun (e : Elem) => s!"{e.name}={e.uid}"
  "|".intercalate ((secs ++ [comments]).map fun es => ";".intercalate (es.map el))

def unnamedTags : List String := ["A2ML", "MOD_COMMON", "MOD_PAR", "IF_DATA", "VARIANT_CODING"]

def showOrder (es : List Elem) : String :=
  ",".intercalate (es.map fun e => if unnamedTags.contains e.tag then e.tag else s!"{e.tag} {e.name}")

def handle (args : List String) : String :=
  match args with
  | [op, snap] =>
    match parseSnapshot snap with
    | none => "bad-snapshot"
    | some rm =>
      match op with
      | "order" => showOrder (writeOrder rm.toModule)
      | "sort" =>
        let m := sort rm.toModule
        s!"{showUids (m.sections.map (·.elems)) m.comments} # {showOrder (writeOrder m)}"
      | "sni" =>
        match sortNewItems rm with
        | .panic => "PANIC"
        | .ok rm' =>
          let m := rm'.toModule
          s!"{showUids (m.sections.map (·.elems)) m.comments} # {showOrder (writeOrder m)}"
      | _ => "bad-op"
  | _ => "bad-request"

end A2l.Srt
