import A2lVerif.Model.Checker
import A2lVerif.Driver.Limits
/-! `chkfull <L0|L1> <token stream>`: the structural checker model on a module list projected from the real `A2lFile`
    by the harness (`harness/src/c11full.rs`). Answer: the ordered list of reports, `;`-separated; with `L0` limit
    reports are left out (documents whose numbers are not exactly representable), `special` if a limit test leaves the
    rational model. Token stream: see `pModule`. Names are hex, `!` = `None`, numbers are dyadics `m:e`. -/
namespace A2l.Chk
open A2l.Lim

abbrev P (α : Type) := List String → Option (α × List String)

def pTok : P String
  | [] => none
  | t :: r => some (t, r)

def pName : P Name := fun ts => do
  let (t, r) ← pTok ts
  let bs ← hexDecode t
  let str ← String.fromUTF8? (ByteArray.mk bs.toArray)
  pure (str.toList, r)

def pNat : P Nat := fun ts => do
  let (t, r) ← pTok ts
  let n ← t.toNat?
  pure (n, r)

def pRat : P Rat := fun ts => do
  let (t, r) ← pTok ts
  let q ← parseDyadic t
  pure (q, r)

def pTag (tag : String) : P Unit := fun ts => do
  let (t, r) ← pTok ts
  if t == tag then pure ((), r) else none

def pOpt {α} (p : P α) : P (Option α)
  | "!" :: r => some (none, r)
  | ts => (p ts).map fun (a, r) => (some a, r)

def pRep {α} (p : P α) : Nat → P (List α)
  | 0, ts => some ([], ts)
  | n + 1, ts => do
    let (a, r) ← p ts
    let (as, r') ← pRep p n r
    pure (a :: as, r')

def pList {α} (p : P α) : P (List α) := fun ts => do
  let (n, r) ← pNat ts
  pRep p n r

def pDt : P DataType := fun ts => do
  let (t, r) ← pTok ts
  let d ← parseDt t
  pure (d, r)

def pAxisDescr : P AxisDescr := fun ts => do
  let (attr, ts) ← pName ts
  let (iq, ts) ← pName ts
  let (conv, ts) ← pName ts
  let (lo, ts) ← pRat ts
  let (hi, ts) ← pRat ts
  let (apr, ts) ← pOpt pName ts
  let (car, ts) ← pOpt pName ts
  pure (⟨attr, iq, conv, lo, hi, apr, car⟩, ts)

def pChar : P Characteristic := fun ts => do
  let (name, ts) ← pName ts
  let (ctype, ts) ← pName ts
  let (rl, ts) ← pName ts
  let (conv, ts) ← pName ts
  let (lo, ts) ← pRat ts
  let (hi, ts) ← pRat ts
  let (ads, ts) ← pList pAxisDescr ts
  let (cq, ts) ← pOpt pName ts
  let (dep, ts) ← pOpt (pList pName) ts
  let (ml, ts) ← pOpt (pList pName) ts
  let (vc, ts) ← pOpt (pList pName) ts
  let (fl, ts) ← pOpt (pList pName) ts
  let (rms, ts) ← pOpt pName ts
  pure (⟨name, ctype, rl, conv, lo, hi, ads, cq, dep, ml, vc, fl, rms⟩, ts)

def pMeas : P Measurement := fun ts => do
  let (name, ts) ← pName ts
  let (dt, ts) ← pDt ts
  let (conv, ts) ← pName ts
  let (lo, ts) ← pRat ts
  let (hi, ts) ← pRat ts
  let (rms, ts) ← pOpt pName ts
  let (fl, ts) ← pOpt (pList pName) ts
  pure (⟨name, dt, conv, lo, hi, rms, fl⟩, ts)

def pAxisPts : P AxisPts := fun ts => do
  let (name, ts) ← pName ts
  let (iq, ts) ← pName ts
  let (dep, ts) ← pName ts
  let (conv, ts) ← pName ts
  let (lo, ts) ← pRat ts
  let (hi, ts) ← pRat ts
  let (fl, ts) ← pOpt (pList pName) ts
  let (rms, ts) ← pOpt pName ts
  pure (⟨name, iq, dep, conv, lo, hi, fl, rms⟩, ts)

def pTypedefAxis : P TypedefAxis := fun ts => do
  let (name, ts) ← pName ts
  let (iq, ts) ← pName ts
  let (rl, ts) ← pName ts
  let (conv, ts) ← pName ts
  pure (⟨name, iq, rl, conv⟩, ts)

def pInstance : P Instance := fun ts => do
  let (name, ts) ← pName ts
  let (ty, ts) ← pName ts
  pure (⟨name, ty⟩, ts)

def pPair : P (Name × Name) := fun ts => do
  let (a, ts) ← pName ts
  let (b, ts) ← pName ts
  pure ((a, b), ts)

def pTypedefStructure : P TypedefStructure := fun ts => do
  let (name, ts) ← pName ts
  let (comps, ts) ← pList pPair ts
  pure (⟨name, comps⟩, ts)

def pRat2 : P (Rat × Rat) := fun ts => do
  let (a, ts) ← pRat ts
  let (b, ts) ← pRat ts
  pure ((a, b), ts)

def pRat6 : P (Rat × Rat × Rat × Rat × Rat × Rat) := fun ts => do
  let (a, ts) ← pRat ts
  let (b, ts) ← pRat ts
  let (c, ts) ← pRat ts
  let (d, ts) ← pRat ts
  let (e, ts) ← pRat ts
  let (f, ts) ← pRat ts
  pure ((a, b, c, d, e, f), ts)

def pCompuMethod : P CompuMethod := fun ts => do
  let (name, ts) ← pName ts
  let (ct, ts) ← pName ts
  let (cl, ts) ← pOpt pRat2 ts
  let (co, ts) ← pOpt pRat6 ts
  let (ctr, ts) ← pOpt pName ts
  let (ru, ts) ← pOpt pName ts
  let (ssr, ts) ← pOpt pName ts
  pure (⟨name, ct, cl, co, ctr, ru, ssr⟩, ts)

def pFunction : P Function := fun ts => do
  let (name, ts) ← pName ts
  let (a, ts) ← pOpt (pList pName) ts
  let (b, ts) ← pOpt (pList pName) ts
  let (c, ts) ← pOpt (pList pName) ts
  let (d, ts) ← pOpt (pList pName) ts
  let (e, ts) ← pOpt (pList pName) ts
  let (f, ts) ← pOpt (pList pName) ts
  pure (⟨name, a, b, c, d, e, f⟩, ts)

def pGroup : P Group := fun ts => do
  let (name, ts) ← pName ts
  let (root, ts) ← pNat ts
  let (a, ts) ← pOpt (pList pName) ts
  let (b, ts) ← pOpt (pList pName) ts
  let (c, ts) ← pOpt (pList pName) ts
  let (d, ts) ← pOpt (pList pName) ts
  pure (⟨name, root == 1, a, b, c, d⟩, ts)

def pRecordLayout : P RecordLayout := fun ts => do
  let (name, ts) ← pName ts
  let (f, ts) ← pOpt pDt ts
  let (x, ts) ← pOpt pDt ts
  let (y, ts) ← pOpt pDt ts
  let (z, ts) ← pOpt pDt ts
  let (a4, ts) ← pOpt pDt ts
  let (a5, ts) ← pOpt pDt ts
  pure (⟨name, f, x, y, z, a4, a5⟩, ts)

def pTransformer : P Transformer := fun ts => do
  let (name, ts) ← pName ts
  let (inv, ts) ← pName ts
  let (i, ts) ← pOpt (pList pName) ts
  let (o, ts) ← pOpt (pList pName) ts
  pure (⟨name, inv, i, o⟩, ts)

def pSection {α} (tag : String) (p : P α) : P (List α) := fun ts => do
  let (_, ts) ← pTag tag ts
  pList p ts

def pModule : P Module := fun ts => do
  let (_, ts) ← pTag "M" ts
  let (ap, ts) ← pSection "AP" pAxisPts ts
  let (bl, ts) ← pSection "BL" pName ts
  let (ch, ts) ← pSection "CH" pChar ts
  let (ins, ts) ← pSection "IN" pInstance ts
  let (me, ts) ← pSection "ME" pMeas ts
  let (ta, ts) ← pSection "TA" pTypedefAxis ts
  let (tb, ts) ← pSection "TB" pName ts
  let (tc, ts) ← pSection "TC" pChar ts
  let (tm, ts) ← pSection "TM" pMeas ts
  let (tst, ts) ← pSection "TS" pTypedefStructure ts
  let (cm, ts) ← pSection "CM" pCompuMethod ts
  let (ct, ts) ← pSection "CT" pName ts
  let (cv, ts) ← pSection "CV" pName ts
  let (cr, ts) ← pSection "CR" pName ts
  let (fn, ts) ← pSection "FN" pFunction ts
  let (gr, ts) ← pSection "GR" pGroup ts
  let (rl, ts) ← pSection "RL" pRecordLayout ts
  let (tr, ts) ← pSection "TR" pTransformer ts
  let (un, ts) ← pSection "UN" pName ts
  let (_, ts) ← pTag "MS" ts
  let (ms, ts) ← pOpt (pList pName) ts
  pure ({ axisPts := ap, blob := bl, characteristic := ch, instance_ := ins, measurement := me, typedefAxis := ta,
          typedefBlob := tb, typedefCharacteristic := tc, typedefMeasurement := tm, typedefStructure := tst,
          compuMethod := cm, compuTab := ct, compuVtab := cv, compuVtabRange := cr, function := fn, group := gr,
          recordLayout := rl, transformer := tr, unit := un, memorySegment := ms }, ts)

def hexName (n : Name) : String := hexEncode (String.ofList n).toUTF8.toList

def showReport : Report → String
  | .xref a b c d => s!"X|{hexName a}|{hexName b}|{hexName c}|{hexName d}"
  | .content a b c => s!"C|{hexName a}|{hexName b}|{hexName c}"
  | .limit a b lo hi cl cu => s!"L|{hexName a}|{hexName b}|{showRat lo}|{showRat hi}|{showRat cl}|{showRat cu}"
  | .limitSpecial a b => s!"LS|{hexName a}|{hexName b}"
  | .groupStructure n cls ps => s!"G|{hexName n}|{String.ofList cls}|{"+".intercalate (ps.map hexName)}"

def isLimit : Report → Bool
  | .limit .. => true
  | .limitSpecial .. => true
  | _ => false

def isSpecial : Report → Bool
  | .limitSpecial .. => true
  | _ => false

def handleFull (args : List String) : String :=
  match args with
  | mode :: nmod :: rest =>
    match nmod.toNat? with
    | none => "bad-request"
    | some n =>
      match pRep pModule n rest with
      | some (mods, []) =>
        match check mods with
        | .panic => "PANIC"
        | .ok reps =>
          if mode == "L1" then
            if reps.any isSpecial then "special" else ";".intercalate (reps.map showReport)
          else ";".intercalate ((reps.filter (!isLimit ·)).map showReport)
      | _ => "bad-request"
  | _ => "bad-request"

end A2l.Chk
