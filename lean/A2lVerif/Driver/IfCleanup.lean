import A2lVerif.Model.IfData
/-! `ifcl <g1>|<g2>|...|<g11>`: the eleven groups of hosts in the order of `Hosts`; a group is `-` (no host) or its lists
    separated by `;`; a list is `e` (empty) or a string of `0` / `1` (the `ifdata_valid` flags of its blocks).
    Answer: the same shape with the number of blocks left in each list after `ifdata_cleanup()`. -/
namespace A2l.IfCl
open A2l.IfData

def parseList (s : String) : Option (List Bool) :=
  if s == "e" then some [] else s.toList.mapM fun c => if c == '1' then some true else if c == '0' then some false else none

def parseGroup (s : String) : Option (List (List Bool)) :=
  if s == "-" then some [] else (s.splitOn ";").mapM parseList

def showGroup (g : List (List Bool)) : String :=
  if g.isEmpty then "-" else ";".intercalate (g.map fun l => toString l.length)

def handle (args : List String) : String :=
  match args with
  | [req] =>
    match (req.splitOn "|").mapM parseGroup with
    | some [[m], ml, ms, ap, bl, ch, fr, fu, gr, ins, me] =>
      let h : Hosts Bool := ⟨m, ml, ms, ap, bl, ch, fr, fu, gr, ins, me⟩
      let c := h.cleanup id
      "|".intercalate ([[c.module], c.memoryLayout, c.memorySegment, c.axisPts, c.blob, c.characteristic, c.frame,
        c.function, c.group, c.inst, c.measurement].map showGroup)
    | _ => "bad-request"
  | _ => "bad-request"

end A2l.IfCl
