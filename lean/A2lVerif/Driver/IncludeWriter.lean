import A2lVerif.Model.IncludeWriter
/-! `incw <item>,<item>,...` with `<item>` = `<hex name>:<hex incfile | !>` in the writer's order → the entries the writer
    emits: `I<hex file>` for a directive, `E<hex name>` for an element, comma-separated -/
namespace A2l.IncW

def hexChars (h : String) : Option (List Char) :=
  (hexDecode h).bind fun bs => (String.fromUTF8? (ByteArray.mk bs.toArray)).map String.toList

def parseItem (s : String) : Option Item :=
  match s.splitOn ":" with
  | [n, f] => do
    let name ← hexChars n
    if f == "!" then pure ⟨name, none⟩ else do
      let file ← hexChars f
      pure ⟨name, some file⟩
  | _ => none

def showEntry : Entry → String
  | .directive f => "I" ++ hexEncode (String.ofList f).toUTF8.toList
  | .element n => "E" ++ hexEncode (String.ofList n).toUTF8.toList

def handle (args : List String) : String :=
  match args with
  | [items] =>
    if items == "-" then "" else
    match (items.splitOn ",").mapM parseItem with
    | some its => ",".intercalate ((addGroup its).map showEntry)
    | none => "bad-request"
  | _ => "bad-request"

end A2l.IncW
