import A2lVerif.Model.Cleanup
/-! line-protocol front end for the cleanup model: `cln <nodes>` with nodes = `TAG~hexname~refs` joined by `,`,
    refs = `-` or `Site@hextarget` joined by `;`; an empty module is `-`. Names stay hex strings (only equality
    matters); they are validated with `hexDecode`. -/
namespace A2l.Cl

def validHex (s : String) : Bool := (hexDecode s).isSome

def parseRef (s : String) : Option Ref :=
  match s.splitOn "@" with
  | [site, t] => if validHex t then some ⟨site, t⟩ else none
  | _ => none

def parseNode (s : String) : Option Node :=
  match s.splitOn "~" with
  | [tag, name, refs] =>
    if !validHex name then none else
    if refs == "-" then some ⟨tag, name, []⟩ else
    ((refs.splitOn ";").mapM parseRef).map fun rs => ⟨tag, name, rs⟩
  | _ => none

def parseModule (s : String) : Option Module :=
  if s == "-" then some [] else (s.splitOn ",").mapM parseNode

def showNode (n : Node) : String :=
  let refs := if n.refs.isEmpty then "-" else ";".intercalate (n.refs.map fun r => s!"{r.site}@{r.target}")
  s!"{n.tag}~{n.name}~{refs}"

def showModule (m : Module) : String := if m.isEmpty then "-" else ",".intercalate (m.map showNode)

def handle (args : List String) : String :=
  match args with
  | [s] => match parseModule s with
    | some m =>
      -- evaluated on every request so that a violation shows up as a diff: the queues are drained (proved for all
      -- modules, `queuesDrained_true`) and the module is `wellSited` (the hypothesis of `no_new_dangling`)
      (if queuesDrained m then "" else "FUEL ") ++ (if wellSited m then "" else "ILLSITED ") ++ showModule (cleanup m)
    | none => "bad-module"
  | _ => "bad-request"

end A2l.Cl
