import A2lVerif.Model.A2ml
/-! line-protocol front end for the A2ML definition parser: `aml <hex of the A2ML text>`
    answer: `ok <dump_spec text>` | `err` | `FUEL` -/
namespace A2l.Aml

def handle (args : List String) : String :=
  match args with
  | [hextext] =>
    match hexDecode hextext with
    | none => "bad-hex"
    | some bs =>
      match String.fromUTF8? (ByteArray.mk bs.toArray) with
      | none => "bad-utf8"
      | some text =>
        match parseA2ml text.toList with
        | .ok spec => "ok " ++ String.ofList (dumpSpec spec)
        | .err => "err"
        | .fuel => "FUEL"
  | _ => "bad-request"

end A2l.Aml
