import A2lVerif.Model.Merge
/-! `mrg <nodes of A> <nodes of B>` → the nodes of the merged module A in canonical form.
    node = `TAG~<hex name>~<hash>~<refs>`, refs = `-` or `Site@<hex target>;…`; nodes joined by `,`; empty = `-`.
    Canonical form: the node strings sorted ascending; for FUNCTION and GROUP nodes (merged by name, may gain
    list blocks) the hash is `*` and the references are grouped by site (sites ascending, first occurrences in
    their order, duplicates dropped: see the header of `Model/Merge.lean`). -/
namespace A2l.Mg

def unhex (h : String) : Option String :=
  (hexDecode h).map fun bs => (String.fromUTF8? (ByteArray.mk bs.toArray)).getD ""

def hex (s : String) : String := hexEncode s.toUTF8.toList

def parseRef (s : String) : Option Ref :=
  match s.splitOn "@" with
  | [site, t] => (unhex t).map fun t => ⟨site, t⟩
  | _ => none

def parseNode (s : String) : Option Node :=
  match s.splitOn "~" with
  | [tag, name, hash, refs] => do
    let name ← unhex name
    let refs ← if refs == "-" then some [] else (refs.splitOn ";").mapM parseRef
    pure ⟨tag, name, hash, refs⟩
  | _ => none

def parseModule (s : String) : Option Module :=
  if s == "-" then some [] else (s.splitOn ",").mapM parseNode

def dedup (l : List String) : List String :=
  l.foldl (fun acc x => if acc.contains x then acc else acc ++ [x]) []

def insertSorted (x : String) : List String → List String
  | [] => [x]
  | y :: ys => if x ≤ y then x :: y :: ys else y :: insertSorted x ys

def sortStrings (l : List String) : List String := l.foldr insertSorted []

def showRef (r : Ref) : String := s!"{r.site}@{hex r.target}"

/-- references grouped by site: sites ascending, inside a site the first occurrences in their order -/
def canonRefs (rs : List Ref) : List String :=
  let sites := sortStrings (dedup (rs.map (·.site)))
  sites.flatMap fun s => dedup ((rs.filter (·.site == s)).map showRef)

def showNode (raw : Bool) (n : Node) : String :=
  let byName := n.tag == "FUNCTION" || n.tag == "GROUP"
  let refs := if byName && !raw then canonRefs n.refs else n.refs.map showRef
  let refs := if refs.isEmpty then "-" else ";".intercalate refs
  s!"{n.tag}~{hex n.name}~{if byName then "*" else n.hash}~{refs}"

def showModule (raw : Bool) (m : Module) : String :=
  if m.isEmpty then "-" else ",".intercalate ((m.map (showNode raw)).mergeSort (fun x y => x ≤ y))

def handleWith (raw : Bool) (args : List String) : String :=
  match args with
  | [a, b] => match parseModule a, parseModule b with
    | some a, some b => showModule raw (merge a b)
    | _, _ => "bad-request"
  | _ => "bad-request"

/-- `mrg`: canonical form -/
def handle (args : List String) : String := handleWith false args
/-- `mrgraw`: the same without regrouping the references of FUNCTION / GROUP nodes (diagnostics only) -/
def handleRaw (args : List String) : String := handleWith true args

end A2l.Mg
