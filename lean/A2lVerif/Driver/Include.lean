import A2lVerif.Model.Include
import A2lVerif.Driver.Lex
/-! line-protocol front end for the `/include` splice model:
    `inc <main file name> <hexpath>=<hexcontent>,<hexpath>=<hexcontent>,…` (paths relative to the directory of the
    main file; the first entry is the main file).
    Answer: `ok kind:fileid:<hex of token text> …` | `err <first three words of the message joined by _>` | `PANIC` | `HANG`
    (`HANG` cannot be printed: the include recursion is bounded by `MAX_INCLUDE_DEPTH`, the lexer does not hang). -/
namespace A2l.Inc

def fsOfList (files : List (Path × Lex.Bytes)) : FS := fun p => (files.find? (·.1 == p)).map (·.2)

def parseFiles (s : String) : Option (List (Path × Lex.Bytes)) :=
  (s.splitOn ",").mapM fun ent =>
    match ent.splitOn "=" with
    | [p, c] => do
      let p ← hexDecode p
      let c ← hexDecode c
      pure (p, c.toArray)
    | _ => none

def bytesToString (p : List UInt8) : String := String.ofList (p.map fun c => Char.ofNat c.toNat)

/-- the message without the `{filename}:{line}: ` prefix (token text of `InvalidA2lToken` / `InvalidNumericalConstant`
    is not available from the lexer model) -/
def Err.message : Err → String
  | .Lex _ .InvalidA2lToken _ => "Input text ?"
  | .Lex _ .InvalidNumericalConstant _ => "Invalid numerical constant"
  | .Lex _ .UnclosedComment _ => "Block comment was not closed before the end of input was reached"
  | .Lex _ .UnclosedString _ => "String was not closed before the end of input was reached"
  | .Lex _ .MissingWhitespace _ => "There is no whitespace separating the input tokens"
  | .IncludeFileError _ _ incname => "Failed to load included file " ++ bytesToString incname
  | .IncompleteIncludeError _ _ => "Include directive was not follwed by a filename"

/-- `e.split(':').last().trim().split(' ').take(3).join("_")` -/
def Err.show (e : Err) : String :=
  let last := ((e.message.splitOn ":").getLast?).getD ""
  "_".intercalate ((last.trimAscii.toString.splitOn " ").take 3)

def showRes : Res → String
  | .ok r =>
    let fd := r.filedata.toArray
    " ".intercalate ("ok" :: r.tokens.map fun t =>
      let text := (fd[t.fileid]?.getD #[]).extract t.startpos t.endpos
      s!"{Lex.TokType.code t.ttype}:{t.fileid}:{hexEncode text.toList}")
  | .err e => "err " ++ e.show
  | .panic => "PANIC"
  | .hang => "HANG"

def handle (args : List String) : String :=
  match args with
  | [main, files] =>
    match parseFiles files with
    | none => "bad-hex"
    | some fl =>
      let mainPath := main.toUTF8.toList
      match fl with
      | [] => "bad-request"
      | (_, content) :: _ =>
        showRes (tokenizeTop (fsOfList fl) { full := mainPath, display := mainPath } 0 content)
  | _ => "bad-request"

end A2l.Inc
