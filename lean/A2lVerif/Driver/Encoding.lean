import A2lVerif.Model.Encoding
/-! line-protocol front end: `dec <hex bytes>` → code points of `decode_raw_bytes`; `load <hex>` → after the BOM strip -/
namespace A2l.Enc

def showCps (s : List Char) : String :=
  if s.isEmpty then "-" else ",".intercalate (s.map fun c => String.ofList (Nat.toDigits 16 c.toNat))

def handle (cmd : String) (args : List String) : String :=
  match args with
  | [h] => match hexDecode h with
    | some b => if cmd == "dec" then showCps (decodeRaw b) else showCps (loadText b)
    | none => "bad-hex"
  | _ => "bad-request"

end A2l.Enc
