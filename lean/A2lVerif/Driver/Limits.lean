import A2lVerif.Model.Limits
/-! line-protocol front end for the limits model:
    `lim <exact|approx> <carrier> <datatype> <conv> [coeffs] <lo> <hi>`; numbers are exact dyadics `m:e` = m·2^e -/
namespace A2l.Lim

def parseDyadic (s : String) : Option Rat :=
  match s.splitOn ":" with
  | [m, e] => match m.toInt?, e.toInt? with
    | some m, some e => some ((m : Rat) * (2 : Rat) ^ e)
    | _, _ => none
  | _ => none

partial def stripTwos (n : Int) (e : Int) : Int × Int :=
  if n ≠ 0 ∧ n % 2 = 0 then stripTwos (n / 2) (e + 1) else (n, e)

def log2Exact (d : Nat) : Option Nat :=
  let k := d.log2
  if 2 ^ k = d then some k else none

/-- canonical text of a rational: `m:e` with m odd when the denominator is a power of two, else `num/den` -/
def showRat (q : Rat) : String :=
  if q = 0 then "0:0" else
  match log2Exact q.den with
  | some 0 => let (m, e) := stripTwos q.num 0; s!"{m}:{e}"
  | some k => s!"{q.num}:-{k}"
  | none => s!"{q.num}/{q.den}"

def parseDt : String → Option DataType
  | "UBYTE" => some .ubyte | "SBYTE" => some .sbyte | "UWORD" => some .uword | "SWORD" => some .sword
  | "ULONG" => some .ulong | "SLONG" => some .slong | "A_UINT64" => some .auint64 | "A_INT64" => some .aint64
  | "FLOAT16_IEEE" => some .float16 | "FLOAT32_IEEE" => some .float32 | "FLOAT64_IEEE" => some .float64
  | _ => none

def parseCarrier : String → Option Carrier
  | "MEASUREMENT" => some .measurement | "CHARACTERISTIC" => some .characteristic | "AXIS_PTS" => some .axisPts
  | "AXIS_DESCR" => some .axisDescrStd | "TYPEDEF_MEASUREMENT" => some .typedefMeasurement
  | _ => none

def parseConv : List String → Option (Conv × List String)
  | "absent" :: r => some (.absent, r)
  | "direct" :: r => some (.direct, r)
  | "form" :: r => some (.form, r)
  | "linear0" :: r => some (.linear none, r)
  | "ratfunc0" :: r => some (.ratFunc none, r)
  | "linear" :: a :: b :: r => do
    let a ← parseDyadic a; let b ← parseDyadic b
    pure (.linear (some (a, b)), r)
  | "ratfunc" :: a :: b :: c :: d :: e :: f :: r => do
    let a ← parseDyadic a; let b ← parseDyadic b; let c ← parseDyadic c
    let d ← parseDyadic d; let e ← parseDyadic e; let f ← parseDyadic f
    pure (.ratFunc (some (a, b, c, d, e, f)), r)
  | _ => none

def handle (args : List String) : String :=
  match args with
  | mode :: carrier :: dt :: rest =>
    match parseCarrier carrier, parseDt dt, parseConv rest with
    | some carrier, some dt, some (conv, [lo, hi]) =>
      match parseDyadic lo, parseDyadic hi with
      | some lo, some hi =>
        match reportsError carrier conv dt (lo, hi), calcLimits conv dt with
        | some false, _ => "err=0"
        | some true, some cl => if mode == "exact" then s!"err=1;calc={showRat cl.1},{showRat cl.2}" else "err=1"
        | _, _ => "special"
      | _, _ => "bad-number"
    | _, _, _ => "bad-request"
  | _ => "bad-request"

end A2l.Lim
