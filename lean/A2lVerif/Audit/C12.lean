import A2lVerif.Props.C12
open A2l.Lim
#print axioms datatypeLimits_le
#print axioms direct_range
#print axioms linear_range
#print axioms ratfunc_linear_range
#print axioms error_iff
#print axioms typedef_measurement_same_decision
#print axioms strict_implies_tolerant
#print axioms tolerant_not_strict
#print axioms inside_no_error
#print axioms outside_error
#print axioms not_evaluated_never_errors
#print axioms linearUnfixed_wrong
#print axioms constant_ratfunc_never_errors
#print axioms calcLimits_total
