import A2lVerif.Props.C04
import A2lVerif.Props.C04Table
open A2l.Tree A2l.G
#print axioms dev_block_form
#print axioms dev_too_new_strict
#print axioms dev_unknown_enum
#print axioms dev_enum_versions
#print axioms dev_missing_end
#print axioms dev_missing_param
#print axioms shipped_is_reference
#print axioms current_dsl_is_reference
