import A2lVerif.Props.C03Compose
open A2l
#print axioms tokOk_of_lex
#print axioms load_no_panic
#print axioms convLatin1_faithful
