import A2lVerif.Props.C03Lex
open A2l.Lex
#print axioms lex_no_panic
#print axioms lex_no_hang
#print axioms lex_inv
#print axioms err_line_pos
#print axioms Bnd.isCharBoundary
#print axioms lex_boundaries
#print axioms lex_line_pos
#print axioms lex_comment_lines
#print axioms countNewlines_eq
#print axioms pinned_a2ml_panics
