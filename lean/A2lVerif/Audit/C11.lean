import A2lVerif.Props.C11
open A2l.Gr
#print axioms report_iff
#print axioms consistent_empty
#print axioms corrupt_one
#print axioms report_subset
#print axioms this_report_iff
#print axioms this_consistent_empty
#print axioms this_corrupt_one
#print axioms this_fallback_iff
