import A2lVerif.Props.C10
open A2l.Cl
#print axioms only_helpers_removed
#print axioms repair_refs
#print axioms objects_refs_only_repaired
#print axioms no_new_dangling_ref
#print axioms no_new_dangling
#print axioms no_new_dangling_counterexample
#print axioms remaining_unit_reachable
#print axioms removed_unreferenced
#print axioms empty_groups_functions_removed
#print axioms work_queues_drained
#print axioms idempotent
#print axioms work_queue_pops_exponential
