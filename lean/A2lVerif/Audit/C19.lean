import A2lVerif.Props.C19
import A2lVerif.Props.C19Const
open A2l.Typed
#print axioms typedLoad_def
#print axioms typedStore_def
#print axioms TypedOk_def
#print axioms TagsDistinct_def
#print axioms Flat_def
#print axioms NoRepeatViolation_def
#print axioms blockItems_def
#print axioms SimT_def
#print axioms load_store
#print axioms load_store_layout
#print axioms load_store_ifdata
#print axioms withLayout_fields
#print axioms load_store_eq
#print axioms Shaped_def
#print axioms typedLoad_typedOk
#print axioms parsed_tags_distinct
#print axioms load_store_parsed
#print axioms load_store_needs_distinct_tags
#print axioms mismatch_no_panic
#print axioms loadFromIfdata_no_panic
#print axioms loadFromIfdata_invalid
#print axioms conforming_decodes
#print axioms conforming_decodes_top
#print axioms interpreted_no_repeat
#print axioms store_load_content
#print axioms store_load_content_top
#print axioms repeated_member_not_valid
#print axioms old_store_dropped_repeated_member
#print axioms stored_values_order
#print axioms conforming_decodes_needs_flat
#print axioms old_fixup_struct_inlined_struct_members
#print axioms renderSpec_roundtrip_rootStruct
#print axioms rootStruct_depth
#print axioms renderSpec_roundtrip_needs_depth
#print axioms sameName_constant_accepted
