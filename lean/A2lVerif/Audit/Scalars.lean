import A2lVerif.Props.Scalars
open A2l.Sc
#print axioms unescape_escape
#print axioms unescape_no_panic
#print axioms escape_units
#print axioms int_roundtrip
#print axioms int_faithful_dec
#print axioms int_faithful_hex
#print axioms int_overflow_diagnosed
#print axioms parseInt_inRange
#print axioms parseIntUnfixed_truncates
