import A2lVerif.Props.C05
open A2l.Tree
#print axioms addWhitespace_newlines
#print axioms addGroup_chunks
#print axioms sorted_perm
#print axioms edit_local_change
#print axioms edit_local_insert
#print axioms new_item_last
#print axioms addGroup_chunks_comments
#print axioms bumpItems_def
#print axioms bumpOff_def
#print axioms bumpItems_no_comments
#print axioms chunk_def
#print axioms endOffOf_def
#print axioms endsInLineComment_def
#print axioms endOffOf_of_pos
#print axioms endOffOf_of_no_line_comment
#print axioms end_behind_line_comment_newline
