import A2lVerif.Props.C20
open A2l.G
#print axioms shipped_eq_fresh_table
#print axioms shipped_eq_fresh_code
