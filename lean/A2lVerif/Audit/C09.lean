import A2lVerif.Props.C09
open A2l.Mg
#print axioms covered_sites
#print axioms covered_functional
#print axioms uncovered_sites
#print axioms repRef_covered
#print axioms repRef_uncovered
#print axioms rep_is_representative
#print axioms refs_renamed
#print axioms refs_provenance
#print axioms no_dangling
#print axioms shared_refs_fixed
#print axioms shared_refs_shared
