import A2lVerif.Props.C06
open A2l.Tree
#print axioms errorOrLog_spec
#print axioms getToken_sets_line
#print axioms clean_nonstrict_implies_strict
#print axioms clean_nonstrict_implies_strict_file
#print axioms strict_implies_nonstrict_partial
#print axioms strict_ok_iff_partial
