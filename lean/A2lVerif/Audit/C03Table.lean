import A2lVerif.Props.C03Table
open A2l.Tree
#print axioms shipped_tableOk
