import A2lVerif.Props.C03Parse
open A2l.Tree
#print axioms parseType_no_panic
#print axioms parseFile_no_panic
#print axioms parseType_pos
#print axioms parseType_log_mono
#print axioms strict_log_only_warnings
-- the statements as first written, refuted
#print axioms parseFile_no_panic_as_written_false
#print axioms parseType_no_panic_as_written_false
#print axioms parseType_no_panic_without_hty_false
#print axioms parseType_log_mono_as_written_false
#print axioms strict_log_only_warnings_as_written_false
