import A2lVerif.Props.C03Parse
open A2l.Tree
#print axioms parseType_no_panic
#print axioms parseFile_no_panic
#print axioms parseType_pos
#print axioms parseType_log_mono
#print axioms strict_log_only_warnings
