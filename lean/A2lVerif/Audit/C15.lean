import A2lVerif.Props.C15
open A2l.Srt
#print axioms sni_ok_partial
#print axioms objectlist_uids_partial
#print axioms writerLe_double
#print axioms writer_places_odd_partial
#print axioms writeOrder_perm_sorted
#print axioms iterate_uids_partial
#print axioms overflow_witness
#print axioms overflow_general
