import A2lVerif.Props.C15
open A2l.Srt
#print axioms sni_ok_partial
#print axioms objectlist_uids_partial
#print axioms writerLe_double
#print axioms writer_places_odd_partial
#print axioms writeOrder_perm_sorted
#print axioms iterate_uids_partial
#print axioms overflow_witness
#print axioms overflow_general
#print axioms placed_order_stable_partial
#print axioms placed_keys_stable_partial
#print axioms nothing_between_last_placed_and_new
#print axioms new_directly_behind_last_placed_partial
#print axioms iterInv_of_distinct
#print axioms iterInv_preserved
#print axioms placed_order_stable_k_calls_partial
#print axioms placed_order_stable_ties_partial
#print axioms placedDistinct_of_increasing
#print axioms iterInv_after_sort
#print axioms additions_keep_placed_order
#print axioms push_keeps_placed_order_partial
#print axioms iterInv_push_fresh
#print axioms iterInv_history
#print axioms placed_order_stable_history_partial
#print axioms push_into_single_breaks_invariant
#print axioms list_without_placed_stays_new
#print axioms unplaced_smaller_tag_first
