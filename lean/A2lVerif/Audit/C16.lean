import A2lVerif.Props.C16
open A2l.Inc
#print axioms tokenize_entry
#print axioms tokenize_is_walk
#print axioms deeper_zero
#print axioms deeper_succ
#print axioms splice_no_panic
#print axioms tokenize_total
#print axioms tokenize_no_hang_no_panic
#print axioms include_name_token
#print axioms splice_eq_expand
#print axioms splice_eq_expand_ids
#print axioms expand_budget_irrelevant
#print axioms ok_has_no_include
#print axioms missing_include_is_error
#print axioms resolve_missing
#print axioms missing_first_include_is_error
#print axioms include_error_is_error
#print axioms reachable_missing_include_is_error
#print axioms depth_limit_is_error
#print axioms resolves_at_limit
#print axioms reachable_depth_limit_is_error
#print axioms include_file_error_cases
#print axioms incomplete_include_is_error
#print axioms self_include_is_error
#print axioms self_include_is_error_display
#print axioms self_include_reaches_limit
#print axioms depth_budget_irrelevant
#print axioms ok_budget_irrelevant
#print axioms missing_include_budget_irrelevant
#print axioms fileids
#print axioms expand_ids
#print axioms expand_ids_blocks
#print axioms exMain_budget2
#print axioms old_fuel_irrelevant_is_false
#print axioms old_self_include_hangs_is_false
open A2l.IncW
#print axioms each_include_once
#print axioms include_iff_contributes
#print axioms only_own_elements_written
open A2l.Tree
#print axioms comment_mark_is_token_file
#print axioms included_comment_not_written
#print axioms directive_at_first_element
