import A2lVerif.Props.C16
open A2l.Inc
#print axioms tokenize_is_walk
#print axioms splice_no_panic
#print axioms include_name_token
#print axioms splice_eq_expand
#print axioms splice_eq_expand_ids
#print axioms ok_has_no_include
#print axioms missing_include_is_error
#print axioms resolve_missing
#print axioms missing_first_include_is_error
#print axioms include_error_is_error
#print axioms reachable_missing_include_is_error
#print axioms incomplete_include_is_error
#print axioms self_include_hangs
#print axioms fuel_irrelevant
#print axioms fileids
#print axioms expand_ids
#print axioms expand_ids_blocks
