import A2lVerif.Props.C08
open A2l.Mg
#print axioms fresh_terminates
#print axioms fresh_fuel_irrelevant
#print axioms fresh_injective
#print axioms a_preserved
#print axioms a_preserved_plain
#print axioms a_preserved_length
#print axioms names_unique
#print axioms b_represented
#print axioms b_represented_old_form
#print axioms b_represented_by_name
#print axioms b_represented_counterexample
#print axioms merge_empty_right
#print axioms merge_self
#print axioms merge_self_counterexample
#print axioms merge_empty_left
#print axioms merge_empty_left_perm
#print axioms merge_empty_left_counterexample
#print axioms actions_fixpoint_terminates
#print axioms actions_fixpoint_terminates_used
#print axioms renamed_are_merged
#print axioms renamed_are_merged_needed
