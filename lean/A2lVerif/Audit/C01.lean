import A2lVerif.Props.C01
#print axioms A2l.Tree.save_reload_stable_partial
#print axioms A2l.Tree.writer_text
#print axioms A2l.Tree.lexer_reads_written_text
#print axioms A2l.Tree.parser_inverts_writer
#print axioms A2l.Tree.second_write_is_fixpoint
#print axioms A2l.Tree.layout_equal
#print axioms A2l.Tree.last_param_offset_unstable
#print axioms A2l.Tree.last_param_offset_tokens
#print axioms A2l.Tree.reserved_order_model_differs
#print axioms A2l.Tree.written_stream_lexable
#print axioms A2l.Tree.printed_integer_is_number_token
#print axioms A2l.Tree.line_comment_then_newline
#print axioms A2l.Tree.shipped_root_shape
