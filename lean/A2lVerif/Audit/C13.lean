import A2lVerif.Props.C13
open A2l.IL
#print axioms inv_empty
#print axioms inv_nodup
#print axioms index_eq_spec
#print axioms get_eq_spec
#print axioms containsKey_eq_spec
#print axioms reachable
#print axioms unreachable
#print axioms step_ok
#print axioms step_no_panic
#print axioms run_ok
#print axioms run_from_empty_ok
#print axioms swapRemoveIdxUnfixed_last_panics
#print axioms rename_to_same_name
