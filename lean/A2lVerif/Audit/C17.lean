import A2lVerif.Props.C17
open A2l.Enc
#print axioms decode32_encode32
#print axioms decode16_encode16
#print axioms utf8_encode8
#print axioms load_encode
#print axioms decodeRaw_encode_nobom
#print axioms decodeRaw_encode_bom
#print axioms latin1_fallback
#print axioms latin1_of_odd_invalid
#print axioms decodeRaw_cases
#print axioms nul_matters
