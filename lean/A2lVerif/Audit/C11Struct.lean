import A2lVerif.Props.C11Struct
open A2l.Chk
#print axioms check_never_panics
#print axioms reports_exactly_the_dangling_references
#print axioms reports_per_module
#print axioms consistent_module_no_report
#print axioms report_is_dangling
#print axioms dangling_is_reported
#print axioms one_corruption_one_report
#print axioms missing_sub_group_reported_twice
