import A2lVerif.Props.C11Struct
open A2l.Chk
#print axioms check_never_panics
#print axioms reports_exactly_the_dangling_references
#print axioms reports_per_module
#print axioms consistent_module_no_report
#print axioms report_is_dangling
#print axioms dangling_is_reported
#print axioms one_corruption_one_report
#print axioms missing_sub_group_reported_twice
#print axioms group_structure_closed_form
#print axioms group_judged_by_own_flag
#print axioms well_formed_forest_no_verdict
#print axioms orphan_is_reported
