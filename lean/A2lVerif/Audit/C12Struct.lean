import A2lVerif.Props.C12Struct
open A2l.Chk
#print axioms limitReport_eq
#print axioms convOf_eq
#print axioms measurement_limit_test
#print axioms typedef_measurement_limit_test
#print axioms std_axis_by_position
#print axioms std_axis_beyond_fifth
#print axioms characteristic_limit_test
#print axioms axis_pts_limit_test
