import A2lVerif.Props.C14
open A2l.Srt
#print axioms sort_sections_perm
#print axioms sort_uids_increasing
#print axioms writeOrder_of_increasing
#print axioms sort_write_order
#print axioms sort_names_ascending
#print axioms sort_idempotent
