import A2lVerif.Props.C07
open A2l.Tree
#print axioms skip_block
#print axioms skip_keyword
#print axioms skip_keyword_before_block
#print axioms strict_rejects
#print axioms skip_block_eof
