#!/usr/bin/env python3
"""Translator: /repo's current sources -> grammar tables (JSON for the harness, Lean for the kernel).

  1. runs the Rust event extractor (/verif/translator, which links /repo/a2lmacros/src as ordinary modules) on
     specification.rs (shipped code) and on the fresh expansion of the DSL in specification_orig.rs;
  2. reconstructs from the *parser / writer function events* of every type a structured table (what the code does);
  3. reads the frozen reference DSL (/verif/reference/dsl_tokens.txt) with an independent reader (what the grammar says);
  4. emits lean/A2lVerif/Gen/{Symbols,Shipped,Fresh,Reference}.lean and work/translate/grammar.json.

Any call on `parser.` / `writer.` outside the known vocabulary is an extraction error for that type (recorded, the
type is emitted as `opaque`), never a silent pass.
"""
import json, os, re, subprocess, sys

VERS = {"V1_5_0": 1, "V1_5_1": 2, "V1_6_0": 3, "V1_6_1": 4, "V1_7_0": 5, "V1_7_1": 6}
DSLVERS = {"1.50": 1, "1.51": 2, "1.60": 3, "1.61": 4, "1.70": 5, "1.71": 6}
INTW = {"i8": 0, "i16": 1, "i32": 2, "i64": 3, "u8": 4, "u16": 5, "u32": 6, "u64": 7}
DSLINT = {"char": "i8", "int": "i16", "long": "i32", "int64": "i64", "uchar": "u8", "uint": "u16", "ulong": "u32", "uint64": "u64"}


class ExtractError(Exception):
    pass


# ---------------------------------------------------------------------------------------------------------------
# 2. structured table from events

class Ev:
    def __init__(self, evs):
        self.e, self.i = evs, 0

    def peek(self, k=0):
        return self.e[self.i + k] if self.i + k < len(self.e) else None

    def next(self):
        x = self.peek()
        self.i += 1
        return x

    def accept(self, s):
        if self.peek() == s:
            self.i += 1
            return True
        return False

    def expect(self, s):
        if not self.accept(s):
            raise ExtractError(f"expected {s}, got {self.peek()} at {self.i}")


def lits(ev):
    """arguments of an event like name("A","B",V1_6_0) / name["A","B"]"""
    m = re.search(r"[\(\[](.*)[\)\]]$", ev)
    if not m or not m.group(1):
        return []
    return [x.strip().strip('"') for x in m.group(1).split(",")]


def parse_item(ev):
    """one scalar / ref item; returns item dict or None if the next event does not start an item"""
    p = ev.peek()
    if p is None:
        return None
    if p == "parser.get_identifier()" and ev.peek(1) == "parser.get_line_offset()":
        ev.i += 2
        return {"t": "ident"}
    if p == "parser.get_string()" and ev.peek(1) == "parser.get_line_offset()":
        ev.i += 2
        return {"t": "string"}
    if p == "parser.get_double()" and ev.peek(1) == "parser.get_line_offset()":
        ev.i += 2
        return {"t": "double"}
    if p == "parser.get_float()" and ev.peek(1) == "parser.get_line_offset()":
        ev.i += 2
        return {"t": "float"}
    m = re.fullmatch(r"parser\.get_integer<(\w+)>\(\)", p)
    if m and ev.peek(1) == "parser.get_line_offset()":
        ev.i += 2
        return {"t": "int", "w": m.group(1)}
    m = re.fullmatch(r"parser\.get_string_maxlen\((\d+)\)", p)
    if m:
        ev.i += 1
        return {"t": "strmax", "n": int(m.group(1))}
    m = re.fullmatch(r"(\w+)::parse", p)
    if m:
        ev.i += 1
        if ev.accept("parser.get_line_offset()"):
            return {"t": "ref", "ty": m.group(1), "offset": True}
        return {"t": "ref", "ty": m.group(1), "offset": False}
    if p.startswith("arrayitem "):
        items = []
        while ev.peek() is not None and ev.peek().startswith("arrayitem "):
            idx = int(ev.next().split()[1])
            if idx != len(items):
                raise ExtractError("array items out of order")
            it = parse_item(ev)
            if it is None:
                raise ExtractError("array item without parser call")
            items.append(it)
        if any(x != items[0] for x in items):
            raise ExtractError("heterogeneous array")
        return {"t": "arr", "of": items[0], "dim": len(items)}
    return None


def parse_block_parser(evs):
    ev = Ev(evs)
    out = {"kind": "block", "is_block": False, "items": [], "tagged": None, "tag_list": [], "default": None, "keeps_comments": False}
    ev.expect("parser.get_incfilename()")
    ev.expect("parser.get_next_id()")
    while True:
        p = ev.peek()
        if p is None:
            break
        it = parse_item(ev)
        if it is not None:
            out["items"].append(it)
            continue
        if p == "while":
            ev.next()
            ev.expect("parser.get_tokenpos()")
            it = parse_item(ev)
            if it is None:
                raise ExtractError(f"sequence without item parser at {ev.i}: {ev.peek()}")
            ev.expect("parser.set_tokenpos()")
            stop = []
            if ev.peek() and ev.peek().startswith("stopwords["):
                stop = lits(ev.next())
                ev.expect("parser.set_tokenpos()")
            out["items"].append({"t": "seq", "of": it, "stop": stop})
            continue
        if p == "loop":
            ev.next()
            ev.expect("parser.get_next_tag_or_comment()")
            ev.expect("parser.get_token_text()")
            if ev.peek() and ev.peek().startswith("TAG_LIST["):
                out["tag_list"] = lits(ev.next())
            arms = []
            while ev.peek() and ev.peek().startswith("arm "):
                tag = ev.next()[4:].strip('"')
                arm = {"tag": tag, "ty": None, "block": None, "repeat": None, "required": False, "vlo": 0, "vhi": 0}
                if ev.accept("parser.require_block()"):
                    arm["block"] = True
                elif ev.accept("parser.require_keyword()"):
                    arm["block"] = False
                else:
                    raise ExtractError(f"arm {tag}: no block/keyword requirement")
                while ev.peek() and ev.peek().startswith("parser.check_block_version_"):
                    e = ev.next()
                    a = lits(e)
                    if a[0] != tag:
                        raise ExtractError(f"arm {tag}: version check names {a[0]}")
                    if "lower" in e:
                        arm["vlo"] = VERS[a[1]]
                    else:
                        arm["vhi"] = VERS[a[1]]
                m = re.fullmatch(r"(\w+)::parse", ev.peek() or "")
                if not m:
                    raise ExtractError(f"arm {tag}: no element parser")
                arm["ty"] = m.group(1)
                ev.next()
                if ev.accept("store_push"):
                    arm["repeat"] = True
                else:
                    ev.expect("parser.handle_multiplicity_error()")
                    s = ev.next()
                    if not s or not s.startswith("store_some["):
                        raise ExtractError(f"arm {tag}: no store")
                    arm["repeat"] = False
                    if s[11:-1].startswith("__tmp_required_"):
                        arm["required"] = True
                arms.append(arm)
            if ev.accept("parser.handle_unknown_taggedstruct_tag()"):
                out["default"] = "unknown"
            elif ev.accept("parser.undo_get_token()"):
                ev.expect("parser.undo_get_token()")
                ev.accept("break")
                out["default"] = "undo"
            else:
                raise ExtractError(f"unknown default arm {ev.peek()}")
            if ev.accept("parser.get_token_text()"):
                ev.expect("parser.get_next_id()")
                out["keeps_comments"] = True
            ev.expect("break")
            # multiplicity checks
            while True:
                q = ev.peek()
                if q and q.startswith("parser.error_or_log(\""):
                    tag = lits(ev.next())[0]
                    ev.expect("InvalidMultiplicityNotPresent")
                    ev.accept("parser.filenames")
                    ev.accept("parser.last_token_position")
                    ev.accept(f'tag="{tag}"')
                    for a in arms:
                        if a["tag"] == tag:
                            if not a["repeat"]:
                                raise ExtractError("error_or_log multiplicity on a non-repeating item")
                            a["required"] = True
                elif q == "return":
                    ev.next()
                    ev.expect("InvalidMultiplicityNotPresent")
                    ev.accept("parser.filenames")
                    ev.accept("parser.last_token_position")
                    t = ev.next()
                    tag = t[5:-1] if t and t.startswith('tag="') else None
                    hit = [a for a in arms if a["tag"] == tag]
                    if not hit or not hit[0]["required"] or hit[0]["repeat"]:
                        raise ExtractError(f"hard multiplicity check for {tag} does not match its arm")
                    hit[0]["checked"] = True
                else:
                    break
            for a in arms:
                if a["required"] and not a["repeat"] and not a.pop("checked", False):
                    raise ExtractError(f"required item {a['tag']} is never checked")
            out["tagged"] = arms
            continue
        if p == "parser.expect_token(End)":
            ev.next()
            ev.expect("parser.get_line_offset()")
            ev.expect("parser.get_identifier()")
            ev.expect("parser.error_or_log()")
            out["is_block"] = True
            continue
        raise ExtractError(f"unrecognised event {p} at {ev.i}")
    return out


def parse_enum_parser(evs):
    ev = Ev(evs)
    ev.expect("parser.get_identifier()")
    items = []
    while ev.peek() and ev.peek().startswith("arm "):
        tag = ev.next()[4:].strip('"')
        it = {"tag": tag, "vlo": 0, "vhi": 0}
        while ev.peek() and ev.peek().startswith("parser.check_enumitem_version_"):
            e = ev.next()
            a = lits(e)
            if a[0] != tag:
                raise ExtractError("enum version check names another tag")
            if "lower" in e:
                it["vlo"] = VERS[a[1]]
            else:
                it["vhi"] = VERS[a[1]]
        s = ev.next()
        if not s or not s.startswith("ok_self["):
            raise ExtractError(f"enum arm {tag} does not return a variant")
        it["variant"] = s[8:-1]
        items.append(it)
    ev.expect("InvalidEnumValue")
    ev.accept("parser.filenames")
    ev.accept("parser.last_token_position")
    if ev.peek() is not None:
        raise ExtractError(f"trailing events in enum parser: {ev.peek()}")
    return {"kind": "enum", "items": items}


def parse_writer(evs, is_struct):
    """writer view: list of scalar write kinds, list of (tag, is_block) pushed into the group"""
    ev = Ev(evs)
    items, tags, fields = [], [], []
    depth_for = 0
    cur_field = None
    while ev.peek() is not None:
        p = ev.next()
        m = re.fullmatch(r"(?:for)?field\[(\w+)\]", p)
        if m:
            if cur_field is None or p.startswith("forfield"):
                cur_field = m.group(1)
            continue
        m = re.fullmatch(r"writer\.(add_str|add_quoted_string|add_integer|add_float|add_str_raw)\((.*)\)", p)
        if m:
            kind = {"add_str": "str", "add_quoted_string": "qstr", "add_integer": "int", "add_float": "float", "add_str_raw": "raw"}[m.group(1)]
            items.append(("for:" * depth_for) + kind)
            fields.append(cur_field)
            cur_field = None
            depth_for = 0
            continue
        if p == "for":
            depth_for += 1
            continue
        m = re.fullmatch(r"stringify\[(\w+)\]", p)
        if m:
            nxt = ev.peek()
            if nxt and nxt.startswith('tag="'):
                tag = ev.next()[5:-1]
                b = ev.next()
                if b not in ("is_block=true", "is_block=false"):
                    raise ExtractError("tag without is_block")
                tags.append([tag, b.endswith("true")])
                depth_for = 0
            else:
                items.append(("for:" * depth_for) + "struct")
                fields.append(cur_field if cur_field else m.group(1))
                cur_field = None
                depth_for = 0
            continue
        if p in ("writer.add_group()", "writer.finish()"):
            continue
        raise ExtractError(f"unrecognised writer event {p}")
    return {"items": items, "tags": tags, "fields": fields}


def build_from_events(events):
    types, errors = {}, {}
    for fn, evs in events.items():
        m = re.fullmatch(r"ParseableA2lObject for (\w+)::parse", fn)
        if not m:
            continue
        name = m.group(1)
        try:
            if evs and evs[0] == "parser.get_identifier()" and len(evs) > 1 and (evs[1].startswith("arm ") or evs[1] == "InvalidEnumValue"):
                t = parse_enum_parser(evs)
                disp = events.get(f"std fmt Display for {name}::fmt", [])
                t["display"] = [re.fullmatch(r'display\[(\w+)\]="(.*)"', d).groups() for d in disp]
            else:
                t = parse_block_parser(evs)
                w = events.get(f"{name}::stringify")
                if w is None:
                    raise ExtractError("no stringify function")
                t["writer"] = parse_writer(w, False)
                pr = events.get(f"PositionRestricted for {name}::pos_restrict", [])
                if pr == []:
                    t["pos"] = 0
                elif len(pr) == 1 and pr[0] == "some_self[position]":
                    if t["writer"]["fields"][:1] != ["position"] or t["items"][:1] != [{"t": "int", "w": "u16"}]:
                        raise ExtractError("pos_restrict uses self.position but the first parameter is not `uint position`")
                    t["pos"] = 1
                elif len(pr) == 1 and re.fullmatch(r"some_lit\[(\d+)\]", pr[0]):
                    t["pos"] = 100 + int(pr[0][9:-1])
                else:
                    raise ExtractError(f"unrecognised pos_restrict body {pr}")
            types[name] = t
        except (ExtractError, AttributeError) as e:
            errors[name] = str(e)
            types[name] = {"kind": "opaque"}
    # hand-written parsers (A2ML, IF_DATA) have no ParseableA2lObject impl: they are `special`
    for name in ("A2ml", "IfData"):
        types.setdefault(name, {"kind": "special"})
    # resolve refs
    for t in types.values():
        if t["kind"] != "block":
            continue

        def res(it):
            if it["t"] == "ref":
                k = types.get(it["ty"], {}).get("kind")
                it["t"] = "enum" if k == "enum" else "struct"
                if (it["t"] == "enum") != it.pop("offset"):
                    raise_later.append(it["ty"])
            elif it["t"] in ("arr", "seq"):
                res(it["of"])
        raise_later = []
        for it in t["items"]:
            res(it)
        if raise_later:
            errors.setdefault("refs", "")
            errors["refs"] += f" offset/kind mismatch for {raise_later}"
    return types, errors


# ---------------------------------------------------------------------------------------------------------------
# 3. independent DSL reader

def ucname_to_typename(s):
    if any(c.islower() for c in s):
        return s
    out, cap = [], True
    for c in s:
        if c == "_":
            cap = True
            continue
        out.append(c if cap else c.lower())
        cap = False
    return "".join(out)


def typename_from_names(names):
    if len(names) == 1:
        return ucname_to_typename(names[0])
    return ucname_to_typename(names[0][:-1] + "DIM")


def read_dsl(text):
    text = re.sub(r'#\s*\[\s*doc\s*=\s*"(?:[^"\\]|\\.)*"\s*\]', " ", text)
    toks = re.findall(r"[A-Za-z_][A-Za-z0-9_]*|\d+\.\d+|\d+|->|\.\.|[{}\[\]()*!+,/]", text)
    pos = 0

    def peek(k=0):
        return toks[pos + k] if pos + k < len(toks) else None

    def nxt():
        nonlocal pos
        pos += 1
        return toks[pos - 1]

    def names():
        ns = [nxt()]
        suffixes = []
        while peek() == "/":
            nxt()
            suffixes.append(nxt())
        if suffixes:
            base = ns[0][: len(ns[0]) - len(suffixes[0])]
            ns += [base + s for s in suffixes]
        return ns

    def version_range():
        lo = hi = 0
        if peek() == "(":
            nxt()
            if peek() in DSLVERS:
                lo = DSLVERS[nxt()]
            assert nxt() == ".."
            if peek() in DSLVERS:
                hi = DSLVERS[nxt()]
            assert nxt() == ")"
        return lo, hi

    def single():
        ty = nxt()
        if ty in DSLINT:
            it = {"t": "int", "w": DSLINT[ty]}
        elif ty in ("double", "float"):
            it = {"t": "double"}
        elif ty == "ident":
            it = {"t": "ident"}
        elif ty == "string":
            it = {"t": "string"}
        else:
            it = {"t": "enum", "ty": ty}
        if peek() == "[":
            nxt()
            dim = int(nxt())
            assert nxt() == "]"
            it = {"t": "arr", "of": it, "dim": dim}
        var = nxt()
        return it, var

    structs, enums, tagmap = [], {}, {}
    while peek() is not None:
        kw = nxt()
        if kw == "enum":
            name = nxt()
            assert nxt() == "{"
            items = []
            while peek() != "}":
                tag = nxt()
                lo, hi = version_range()
                items.append({"tag": tag, "vlo": lo, "vhi": hi})
                if peek() == ",":
                    nxt()
            nxt()
            enums[name] = {"kind": "enum", "items": items}
            continue
        assert kw in ("block", "keyword"), kw
        ns = names()
        assert nxt() == "{"
        items, refs, extra = [], [], {}
        while peek() != "}":
            if peek() == "{":
                nxt()
                sub = []
                while peek() != "}":
                    sub.append(single())
                nxt()
                assert nxt() == "*"
                var = nxt()
                if len(sub) == 1:
                    items.append(({"t": "seq", "of": sub[0][0], "stop": []}, var))
                else:
                    sname = ucname_to_typename(var.upper()) + "Struct"
                    extra[sname] = {"kind": "block", "is_block": False, "items": [s[0] for s in sub], "tagged": None}
                    items.append(({"t": "seq", "of": {"t": "struct", "ty": sname}, "stop": []}, var))
            elif peek() == "[":
                nxt()
                assert nxt() == "->"
                rn = names()
                assert nxt() == "]"
                repeat = required = False
                if peek() in ("!", "+", "*"):
                    c = nxt()
                    required = c in "!+"
                    repeat = c in "+*"
                lo, hi = version_range()
                for r in rn:
                    refs.append({"tag": r, "ty": typename_from_names(rn), "block": None, "repeat": repeat, "required": required, "vlo": lo, "vhi": hi})
            else:
                items.append(single())
        nxt()
        tname = typename_from_names(ns)
        for n in ns:
            tagmap[n] = kw == "block"
        structs.append((tname, kw == "block", items, refs, extra))
    types = dict(enums)
    for tname, is_block, items, refs, extra in structs:
        for r in refs:
            r["block"] = tagmap[r["tag"]]
        its = [i[0] for i in items]
        # stop words: identifier sequence directly followed by the tagged part, keyword tags only
        for k, it in enumerate(its):
            if it["t"] == "seq" and it["of"] == {"t": "ident"} and k == len(its) - 1 and refs:
                it["stop"] = [r["tag"] for r in refs if not r["block"]]
        types.update(extra)
        if tname in ("A2ml", "IfData"):
            types[tname] = {"kind": "special"}
        else:
            types[tname] = {"kind": "block", "is_block": is_block, "items": its, "tagged": refs if refs else None}
    return types


def grammar_view(types):
    """what the DSL can say: kind, block form, items, tagged arms (code-only facts dropped)"""
    out = {}
    for name, t in types.items():
        if t["kind"] == "enum":
            out[name] = {"kind": "enum", "items": [{"tag": i["tag"], "vlo": i["vlo"], "vhi": i["vhi"]} for i in t["items"]]}
        elif t["kind"] == "block":
            out[name] = {"kind": "block", "is_block": t["is_block"], "items": t["items"],
                         "tagged": None if t["tagged"] is None else [{k: a[k] for k in ("tag", "ty", "block", "repeat", "required", "vlo", "vhi")} for a in t["tagged"]]}
        else:
            out[name] = {"kind": t["kind"]}
    return out


# ---------------------------------------------------------------------------------------------------------------
# 4. Lean emission

class Sym:
    def __init__(self, names):
        self.names = sorted(set(names))
        self.ix = {n: i for i, n in enumerate(self.names)}

    def __call__(self, n):
        return self.ix[n]


def collect_symbols(tables):
    s = set()
    for types in tables:
        for name, t in types.items():
            s.add(name)
            if t["kind"] == "enum":
                s.update(i["tag"] for i in t["items"])
                s.update(v for v, _ in t.get("display", []))
                s.update(d for _, d in t.get("display", []))
                s.update(i.get("variant", i["tag"]) for i in t["items"])
            elif t["kind"] == "block":
                def walk(it):
                    if it["t"] in ("enum", "struct"):
                        s.add(it["ty"])
                    elif it["t"] in ("arr", "seq"):
                        walk(it["of"])
                        s.update(it.get("stop", []))
                for it in t["items"]:
                    walk(it)
                for a in t["tagged"] or []:
                    s.add(a["tag"])
                    s.add(a["ty"])
                s.update(t.get("tag_list", []))
                for tg, _ in t.get("writer", {}).get("tags", []):
                    s.add(tg)
    return Sym(s)


def lean_item(it, sym):
    t = it["t"]
    if t == "ident":
        return ".ident"
    if t == "string":
        return ".string"
    if t == "double":
        return ".double"
    if t == "float":
        return ".float"
    if t == "int":
        return f"(.int {INTW[it['w']]})"
    if t == "strmax":
        return f"(.strMax {it['n']})"
    if t == "enum":
        return f"(.enumRef {sym(it['ty'])})"
    if t == "struct":
        return f"(.structRef {sym(it['ty'])})"
    if t == "arr":
        return f"(.arr {lean_item(it['of'], sym)} {it['dim']})"
    if t == "seq":
        return f"(.seq {lean_item(it['of'], sym)} [{', '.join(str(sym(x)) for x in it['stop'])}])"
    raise ValueError(t)


def lean_bool(b):
    return "true" if b else "false"


def lean_entry(name, t, sym):
    if t["kind"] == "enum":
        items = ", ".join(f"⟨{sym(i['tag'])}, {i['vlo']}, {i['vhi']}⟩" for i in t["items"])
        return f"⟨{sym(name)}, .enum [{items}]⟩"
    if t["kind"] == "block":
        items = ", ".join(lean_item(i, sym) for i in t["items"])
        arms = ", ".join(f"⟨{sym(a['tag'])}, {sym(a['ty'])}, {lean_bool(a['block'])}, {lean_bool(a['repeat'])}, {lean_bool(a['required'])}, {a['vlo']}, {a['vhi']}⟩" for a in (t["tagged"] or []))
        return f"⟨{sym(name)}, .block {lean_bool(t['is_block'])} [{items}] [{arms}] {lean_bool(t['tagged'] is not None)}⟩"
    if t["kind"] == "special":
        return f"⟨{sym(name)}, .special⟩"
    return f"⟨{sym(name)}, .opaque⟩"


WKIND = {"str": 0, "qstr": 1, "int": 2, "float": 3, "raw": 4, "struct": 5}


def lean_code_entry(name, t, sym):
    if t["kind"] == "enum":
        disp = ", ".join(f"({sym(v)}, {sym(d)})" for v, d in t.get("display", []))
        variants = ", ".join(f"({sym(i['tag'])}, {sym(i.get('variant', i['tag']))})" for i in t["items"])
        return f"⟨{sym(name)}, .enum [{variants}] [{disp}]⟩"
    if t["kind"] == "block":
        w = t.get("writer", {"items": [], "tags": []})

        def wk(s):
            parts = s.split(":")
            return f"({len(parts) - 1}, {WKIND[parts[-1]]})"
        witems = ", ".join(wk(s) for s in w["items"])
        wtags = ", ".join(f"({sym(tg)}, {lean_bool(b)})" for tg, b in w["tags"])
        # TAG_LIST only has meaning as the argument of handle_unknown_taggedstruct_tag
        tl = ", ".join(str(sym(x)) for x in (t.get("tag_list", []) if t.get("default") == "unknown" else []))
        dflt = {"unknown": 1, "undo": 2, None: 0}[t.get("default")]
        return f"⟨{sym(name)}, .block [{tl}] {dflt} {lean_bool(t.get('keeps_comments', False))} [{witems}] [{wtags}] {t.get('pos', 0)}⟩"
    return f"⟨{sym(name)}, .other⟩"


def emit_table(path, ns, types, sym, with_code):
    names = sorted(types)
    lines = ["import A2lVerif.Model.Grammar", "/-! GENERATED by tools/translate.py on every run — do not edit. -/", f"namespace A2l.G.{ns}", ""]
    for k, n in enumerate(names):
        lines.append(f"def e{k} : Entry := {lean_entry(n, types[n], sym)}")
    chunks = [names[i:i + 20] for i in range(0, len(names), 20)]
    for c, ch in enumerate(chunks):
        lines.append(f"def chunk{c} : List Entry := [{', '.join('e' + str(c * 20 + j) for j in range(len(ch)))}]")
    lines.append("def table : Table := " + " ++ ".join(f"chunk{c}" for c in range(len(chunks))) if chunks else "def table : Table := []")
    if with_code:
        lines.append("")
        for k, n in enumerate(names):
            lines.append(f"def c{k} : CodeEntry := {lean_code_entry(n, types[n], sym)}")
        for c, ch in enumerate(chunks):
            lines.append(f"def cchunk{c} : List CodeEntry := [{', '.join('c' + str(c * 20 + j) for j in range(len(ch)))}]")
        lines.append("def code : List CodeEntry := " + " ++ ".join(f"cchunk{c}" for c in range(len(chunks))))
    lines += ["", f"end A2l.G.{ns}", ""]
    write_if_changed(path, "\n".join(lines))


def write_if_changed(path, content):
    if os.path.exists(path) and open(path).read() == content:
        return False
    os.makedirs(os.path.dirname(path), exist_ok=True)
    open(path, "w").write(content)
    return True


def run(root, cfg, log, repo="/repo"):
    notes = []
    tdir = os.path.join(root, "translator")
    work = os.path.join(root, "work", "translate")
    os.makedirs(work, exist_ok=True)
    env = dict(os.environ, CARGO_NET_OFFLINE="true")
    r = subprocess.run(["cargo", "build", "--offline"], cwd=tdir, env=env, stdout=subprocess.PIPE, stderr=subprocess.STDOUT, text=True)
    if r.returncode != 0:
        # the in-tree generator sources are compiled into the translator: a build failure is reported, not hidden
        notes.append("translator build failed (in-tree a2lmacros sources do not compile stand-alone): " + r.stdout[-400:])
        log("[translate] " + notes[-1])
        return notes
    r = subprocess.run([os.path.join(tdir, "target/debug/a2l-verif-translator"), work, repo], stdout=subprocess.PIPE, stderr=subprocess.STDOUT, text=True)
    if r.returncode != 0:
        notes.append(f"extractor failed rc={r.returncode}: {r.stdout[-300:]}")
        log("[translate] " + notes[-1])
        return notes
    ev_s = json.load(open(os.path.join(work, "events_shipped.json")))
    ev_f = json.load(open(os.path.join(work, "events_fresh.json")))
    shipped, err_s = build_from_events(ev_s)
    fresh, err_f = build_from_events(ev_f)
    ref = read_dsl(open(os.path.join(root, "reference", "dsl_tokens.txt")).read())
    cur = read_dsl(open(os.path.join(work, "dsl_tokens.txt")).read())
    for k, v in err_s.items():
        notes.append(f"shipped: extraction error in {k}: {v}")
    for k, v in err_f.items():
        notes.append(f"fresh: extraction error in {k}: {v}")
    sym = collect_symbols([shipped, fresh, ref, cur])
    gen = os.path.join(root, "lean", "A2lVerif", "Gen")
    write_if_changed(os.path.join(gen, "Symbols.lean"),
                     "/-! GENERATED by tools/translate.py — do not edit. -/\nnamespace A2l.G\n\ndef symbols : Array String := #[\n  "
                     + ",\n  ".join(json.dumps(n) for n in sym.names) + "]\n\n"
                     + "/-- symbols the hand-written code refers to by name -/\n"
                     + f"def symA2lFile : Nat := {sym.ix.get('A2lFile', 999999)}\n"
                     + f"def symAsap2Version : Nat := {sym.ix.get('Asap2Version', 999999)}\n"
                     + f"def symTagAsap2Version : Nat := {sym.ix.get('ASAP2_VERSION', 999999)}\n"
                     + "\nend A2l.G\n")
    emit_table(os.path.join(gen, "Shipped.lean"), "Shipped", shipped, sym, True)
    emit_table(os.path.join(gen, "Fresh.lean"), "Fresh", fresh, sym, True)
    emit_table(os.path.join(gen, "Reference.lean"), "Reference", grammar_view(ref), sym, False)
    emit_table(os.path.join(gen, "CurrentDsl.lean"), "CurrentDsl", grammar_view(cur), sym, False)
    json.dump({"shipped": shipped, "fresh": fresh, "reference": grammar_view(ref), "current_dsl": grammar_view(cur), "symbols": sym.names,
               "event_functions": len(ev_s), "event_functions_differing": sorted(k for k in set(ev_s) | set(ev_f) if ev_s.get(k) != ev_f.get(k))},
              open(os.path.join(work, "grammar.json"), "w"), indent=0)
    # line-based copy of the shipped table for the Rust harness (document generator)
    def item_txt(it):
        t = it["t"]
        if t in ("ident", "string", "double", "float"):
            return t
        if t == "int":
            return "int:" + it["w"]
        if t == "strmax":
            return f"strmax:{it['n']}"
        if t in ("enum", "struct"):
            return f"{t}:{it['ty']}"
        if t == "arr":
            return f"arr({item_txt(it['of'])}*{it['dim']})"
        if t == "seq":
            return f"seq({item_txt(it['of'])}|{';'.join(it['stop'])})"
        return "?"
    lines = []
    for name in sorted(shipped):
        t = shipped[name]
        if t["kind"] == "block":
            # field names of the parameters (from the writer: `self.<field>`), one per parameter item
            fl = t.get("writer", {}).get("fields", [])
            if len(fl) >= len(t["items"]):
                lines.append(f"fields {name} " + ",".join(str(x) for x in fl[:len(t['items'])]))
        if t["kind"] == "enum":
            lines.append(f"enum {name} " + " ".join(f"{i['tag']}:{i['vlo']}:{i['vhi']}" for i in t["items"]))
        elif t["kind"] == "block":
            arms = ",".join(f"{a['tag']}:{a['ty']}:{int(a['block'])}:{int(a['repeat'])}:{int(a['required'])}:{a['vlo']}:{a['vhi']}" for a in (t["tagged"] or []))
            lines.append(f"block {name} {int(t['is_block'])} items={','.join(item_txt(i) for i in t['items']) or '-'} tagged={arms or '-'} pos={t.get('pos', 0)}")
        else:
            lines.append(f"{t['kind']} {name}")
    write_if_changed(os.path.join(work, "grammar.txt"), "\n".join(lines) + "\n")
    # the same for the REFERENCE grammar (frozen DSL, independent reader): what C04's oracle expects of a conforming
    # reader, whatever the code under test says today (field names / position flags, which the DSL view does not
    # carry, are taken from the shipped table where the type exists)
    refv = grammar_view(ref)
    rlines = []
    for name in sorted(refv):
        t = refv[name]
        sh = shipped.get(name, {})
        if t["kind"] == "block":
            fl = sh.get("writer", {}).get("fields", []) if sh.get("kind") == "block" else []
            if len(fl) >= len(t["items"]):
                rlines.append(f"fields {name} " + ",".join(str(x) for x in fl[:len(t['items'])]))
        if t["kind"] == "enum":
            rlines.append(f"enum {name} " + " ".join(f"{i['tag']}:{i['vlo']}:{i['vhi']}" for i in t["items"]))
        elif t["kind"] == "block":
            arms = ",".join(f"{a['tag']}:{a['ty']}:{int(a['block'])}:{int(a['repeat'])}:{int(a['required'])}:{a['vlo']}:{a['vhi']}" for a in (t["tagged"] or []))
            rlines.append(f"block {name} {int(t['is_block'])} items={','.join(item_txt(i) for i in t['items']) or '-'} tagged={arms or '-'} pos={sh.get('pos', 0) if sh.get('kind') == 'block' else 0}")
        else:
            rlines.append(f"{t['kind']} {name}")
    write_if_changed(os.path.join(work, "grammar_ref.txt"), "\n".join(rlines) + "\n")
    # ... and for the FRESH expansion (what the in-tree macro makes of the in-tree DSL today): C20 generates documents from
    # it as well, so that something only the fresh expansion accepts reaches the shipped code
    flines = []
    for name in sorted(fresh):
        t = fresh[name]
        if t["kind"] == "block":
            fl = t.get("writer", {}).get("fields", [])
            if len(fl) >= len(t["items"]):
                flines.append(f"fields {name} " + ",".join(str(x) for x in fl[:len(t['items'])]))
        if t["kind"] == "enum":
            flines.append(f"enum {name} " + " ".join(f"{i['tag']}:{i['vlo']}:{i['vhi']}" for i in t["items"]))
        elif t["kind"] == "block":
            arms = ",".join(f"{a['tag']}:{a['ty']}:{int(a['block'])}:{int(a['repeat'])}:{int(a['required'])}:{a['vlo']}:{a['vhi']}" for a in (t["tagged"] or []))
            flines.append(f"block {name} {int(t['is_block'])} items={','.join(item_txt(i) for i in t['items']) or '-'} tagged={arms or '-'} pos={t.get('pos', 0)}")
        else:
            flines.append(f"{t['kind']} {name}")
    write_if_changed(os.path.join(work, "grammar_fresh.txt"), "\n".join(flines) + "\n")
    notes.append(f"tables regenerated: {len(shipped)} shipped types, {len(fresh)} fresh types, {len(ref)} reference types, {len(sym.names)} symbols; "
                 f"{sum(1 for k in set(ev_s) | set(ev_f) if ev_s.get(k) != ev_f.get(k))} of {len(ev_s)} functions differ at event level")
    for n in notes:
        log("[translate] " + n)
    return notes


if __name__ == "__main__":
    root = os.path.dirname(os.path.dirname(os.path.abspath(__file__)))
    run(root, True, print, sys.argv[1] if len(sys.argv) > 1 else "/repo")
