#!/usr/bin/env python3
"""seeded-change bookkeeping.

  tools/seeded.py confirm <worktree> <PROP> <k>   confirm a sub-agent's change k in its scratch worktree (existing tests
                                                  pass with the patch, demo passes before / fails after), then copy it
                                                  to /verif/seeded/<PROP>-<k>/ (patch.diff, demo.rs, meta.json)
  tools/seeded.py run <PROP>-<k> [--tier T] [--checks C01,C05,...]
                                                  apply the patch to /repo, run the checks (default: the property's
                                                  own check), undo the patch, record seeded/<PROP>-<k>/result.json
  tools/seeded.py matrix                          print the table of DESIGN.md from the result files
"""
import json, os, re, shutil, subprocess, sys, time

ROOT = os.path.dirname(os.path.dirname(os.path.abspath(__file__)))
REPO = "/repo"
ENV = dict(os.environ, CARGO_NET_OFFLINE="true")


def sh(cmd, cwd=None, timeout=3600):
    p = subprocess.run(cmd, shell=True, cwd=cwd, env=ENV, stdout=subprocess.PIPE, stderr=subprocess.STDOUT, text=True, timeout=timeout)
    return p.returncode, p.stdout


def confirm(wt, prop, k, store_k=None):
    out = os.path.join(wt, "out")
    patch, demo, meta = (os.path.join(out, f"{n}{k}.{e}") for n, e in (("patch", "diff"), ("demo", "rs"), ("meta", "json")))
    for f in (patch, demo, meta):
        if not os.path.exists(f):
            print("missing", f)
            return False
    rc, o = sh("git status --porcelain --untracked-files=no", wt)
    if o.strip():
        print("worktree not clean:", o)
        return False
    name = f"verif_demo_{prop.lower()}_{k}"
    dst = os.path.join(wt, "a2lfile", "tests", name + ".rs")
    res = {}
    try:
        shutil.copy(demo, dst)
        rc, o = sh(f"cargo test --offline --test {name} 2>&1 | tail -30", os.path.join(wt, "a2lfile"))
        res["demo_before_ok"] = "test result: ok" in o
        res["demo_before_tail"] = o[-600:]
        rc, o = sh(f"git apply {patch}", wt)
        if rc != 0:
            print("patch does not apply:", o)
            return False
        rc, o = sh(f"cargo test --offline --test {name} 2>&1 | tail -40", os.path.join(wt, "a2lfile"))
        res["demo_after_fails"] = ("test result: FAILED" in o) or ("panicked" in o and "test result: ok" not in o)
        res["demo_after_tail"] = o[-900:]
        os.remove(dst)
        rc, o = sh("cargo test --workspace --offline 2>&1 | grep -E '^test result|FAILED|error(\\[|:)' ", wt)
        res["suite_ok"] = ("FAILED" not in o) and ("error" not in o) and o.count("test result: ok") >= 3
        res["suite_tail"] = o[-600:]
    finally:
        if os.path.exists(dst):
            os.remove(dst)
        sh("git checkout -- .", wt)
    ok = res.get("demo_before_ok") and res.get("demo_after_fails") and res.get("suite_ok")
    print(json.dumps({k2: v for k2, v in res.items() if not k2.endswith("_tail")}))
    if not ok:
        print(res.get("demo_before_tail", "")[-400:], "\n---\n", res.get("demo_after_tail", "")[-400:], "\n---\n", res.get("suite_tail", ""))
        return False
    d = os.path.join(ROOT, "seeded", f"{prop}-{store_k or k}")
    os.makedirs(d, exist_ok=True)
    shutil.copy(patch, os.path.join(d, "patch.diff"))
    shutil.copy(demo, os.path.join(d, "demo.rs"))
    m = json.load(open(meta))
    m["property"] = prop
    m["confirmed"] = {"suite_passes_with_patch": True, "demo_passes_on_unchanged_tree": True, "demo_fails_with_patch": True,
                      "confirmed_at": time.strftime("%Y-%m-%dT%H:%M:%SZ", time.gmtime())}
    json.dump(m, open(os.path.join(d, "meta.json"), "w"), indent=1)
    return True


def run(sid, tier, checks):
    d = os.path.join(ROOT, "seeded", sid)
    prop = sid.split("-")[0]
    checks = checks or [prop]
    rc, o = sh("git status --porcelain --untracked-files=no", REPO)
    if o.strip():
        print("/repo is not clean:", o)
        sys.exit(2)
    rc, o = sh(f"git apply {os.path.join(d, 'patch.diff')}", REPO)
    if rc != 0:
        print("patch does not apply to /repo:", o)
        sys.exit(2)
    results = {}
    try:
        for c in checks:
            t0 = time.time()
            rc, o = sh(f"./check {c} --tier {tier}", ROOT, timeout=7200)
            viol = [l for l in o.splitlines() if l.startswith("VIOLATION")]
            replay = None
            mm = re.search(r"replay=(\S+)", viol[0]) if viol else None
            if mm and os.path.exists(os.path.join(ROOT, mm.group(1))):
                try:
                    replay = open(os.path.join(ROOT, mm.group(1))).read()[:1500]
                except Exception:
                    pass
            results[c] = {"exit": rc, "violations": viol[:4], "caught": rc == 1 and bool(viol), "wall_s": round(time.time() - t0, 1),
                          "replay_head": replay, "tail": o[-700:] if rc not in (0, 1) else ""}
            print(sid, c, tier, "exit", rc, viol[:1])
    finally:
        sh("git checkout -- .", REPO)
    rf = os.path.join(d, "result.json")
    old = json.load(open(rf)) if os.path.exists(rf) else {}
    old.setdefault(tier, {}).update(results)
    json.dump(old, open(rf, "w"), indent=1)


def matrix():
    base = os.path.join(ROOT, "seeded")
    rows = []
    for sid in sorted(os.listdir(base)):
        d = os.path.join(base, sid)
        if not os.path.isdir(d):
            continue
        m = json.load(open(os.path.join(d, "meta.json")))
        r = json.load(open(os.path.join(d, "result.json"))) if os.path.exists(os.path.join(d, "result.json")) else {}
        caught = sorted({f"{c} ({t})" for t, cs in r.items() for c, v in cs.items() if v.get("caught")})
        missed = sorted({f"{c} ({t})" for t, cs in r.items() for c, v in cs.items() if not v.get("caught")} - set(caught))
        rows.append(f"| {sid} | {m.get('mechanism', '')} | {', '.join(m.get('files', []))} | {', '.join(caught) or '-'} | {', '.join(missed) or '-'} |")
    print("| seeded change | mechanism | files | caught by | run without alarm |\n|---|---|---|---|---|")
    print("\n".join(rows))


if __name__ == "__main__":
    a = sys.argv[1:]
    if a[:1] == ["confirm"]:
        sys.exit(0 if confirm(a[1], a[2], a[3], a[4] if len(a) > 4 else None) else 1)
    elif a[:1] == ["run"]:
        tier = a[a.index("--tier") + 1] if "--tier" in a else "quick"
        checks = a[a.index("--checks") + 1].split(",") if "--checks" in a else None
        run(a[1], tier, checks)
    elif a[:1] == ["matrix"]:
        matrix()
    else:
        print(__doc__)
