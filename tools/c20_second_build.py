#!/usr/bin/env python3
"""C20 thorough tier: build the harness a second time against a copy of the crate whose `specification` module is
the macro invocation of specification_orig.rs compiled with the in-tree a2lmacros, run the same C20 transcript and
compare it line by line with the shipped build's transcript. Scratch copy under /var/tmp, removed afterwards."""
import os, shutil, subprocess, sys, json


def run(root, seed, tier, log, repo="/repo"):
    scratch = f"/var/tmp/a2lverif_c20_{os.getpid()}"
    shutil.rmtree(scratch, ignore_errors=True)
    res = {"built": False, "compared": 0, "differences": []}
    try:
        os.makedirs(scratch + "/repo")
        for d in ("a2lfile", "a2lmacros"):
            shutil.copytree(os.path.join(repo, d), os.path.join(scratch, "repo", d), ignore=shutil.ignore_patterns("target"))
        shutil.copy(os.path.join(repo, "Cargo.lock"), os.path.join(scratch, "repo", "Cargo.lock"))
        spec = os.path.join(scratch, "repo", "a2lfile", "src")
        shutil.copy(os.path.join(spec, "specification_orig.rs"), os.path.join(spec, "specification.rs"))
        h = os.path.join(scratch, "harness")
        os.makedirs(h + "/.cargo")
        os.symlink(os.path.join(root, "harness", "src"), os.path.join(h, "src"))
        cargo = open(os.path.join(root, "harness", "Cargo.toml")).read().replace("/repo/", scratch + "/repo/")
        open(os.path.join(h, "Cargo.toml"), "w").write(cargo)
        shutil.copy(os.path.join(root, "harness", ".cargo", "config.toml"), os.path.join(h, ".cargo", "config.toml"))
        shutil.copy(os.path.join(root, "harness", "Cargo.lock"), os.path.join(h, "Cargo.lock"))
        env = dict(os.environ, CARGO_NET_OFFLINE="true", CARGO_TARGET_DIR=os.path.join(scratch, "target"))
        r = subprocess.run(["cargo", "build", "--offline", "--bin", "a2l-verif-harness"], cwd=h, env=env, stdout=subprocess.PIPE, stderr=subprocess.STDOUT, text=True)
        if r.returncode != 0:
            res["error"] = "second build failed: " + r.stdout[-1500:]
            return res
        res["built"] = True
        out = os.path.join(scratch, "out")
        r = subprocess.run([os.path.join(scratch, "target/debug/a2l-verif-harness"), "C20", "--seed", str(seed), "--tier", tier, "--out", out],
                           cwd=root, env=env, stdout=subprocess.PIPE, stderr=subprocess.STDOUT, text=True)
        if r.returncode != 0:
            res["error"] = f"second build's harness failed rc={r.returncode}"
            return res
        a = open(os.path.join(root, "work", "C20", "impl.txt")).read().split("\n")
        b = open(os.path.join(out, "impl.txt")).read().split("\n")
        reqs = open(os.path.join(root, "work", "C20", "requests.txt")).read().split("\n")
        res["compared"] = min(len(a), len(b))
        if len(a) != len(b):
            res["differences"].append({"line": 0, "request": "<transcript lengths differ>", "shipped": str(len(a)), "fresh": str(len(b))})
        for i, (x, y) in enumerate(zip(a, b)):
            if x != y and len(res["differences"]) < 10:
                res["differences"].append({"line": i + 1, "request": reqs[i][:3000] if i < len(reqs) else "", "shipped": x[:2000], "fresh": y[:2000]})
        return res
    finally:
        shutil.rmtree(scratch, ignore_errors=True)


if __name__ == "__main__":
    root = os.path.dirname(os.path.dirname(os.path.abspath(__file__)))
    print(json.dumps(run(root, 1, sys.argv[1] if len(sys.argv) > 1 else "quick", print), indent=1)[:3000])
