#!/bin/sh
# run every claimed check (default tier quick) on the current tree and print one line per check
cd "$(dirname "$0")/.."
TIER=${1:-quick}
for p in $(python3 -c "import json; print(' '.join(c['property_id'] for c in json.load(open('MANIFEST.json'))['checks']))"); do
  out=$(./check $p --tier $TIER 2>&1); rc=$?
  echo "$p rc=$rc $(echo "$out" | grep -E 'VIOLATION|ok tier' | tr '\n' ' ' | cut -c1-160)"
done
