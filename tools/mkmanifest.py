#!/usr/bin/env python3
"""regenerate MANIFEST.json from tools/props.json + tools/manifest_texts.json"""
import json, os
ROOT = os.path.dirname(os.path.dirname(os.path.abspath(__file__)))
props = json.load(open(os.path.join(ROOT, "tools", "props.json")))
texts = json.load(open(os.path.join(ROOT, "tools", "manifest_texts.json")))
all_ids = [json.loads(l)["id"] for l in open(os.path.join(ROOT, "properties.jsonl"))]
checks, na = [], []
for pid in all_ids:
    if pid in props and pid in texts["checks"]:
        t = texts["checks"][pid]
        checks.append({
            "property_id": pid,
            "quick_cmd": f"./check {pid} --tier quick",
            "thorough_cmd": f"./check {pid} --tier thorough",
            "evidence_file": f"evidence/{pid}.json",
            "replay_cmd_template": f"./check {pid} --replay {{path}}",
            "engine": "lean4-proof+correspondence",
            "level_claimed": {"category": "proof", "text": t["text"], "design_ref": t.get("design_ref", "DESIGN.md section 6")},
            "level_note": t["note"],
            "technique": t["technique"],
        })
    else:
        na.append({"property_id": pid, "reason": texts["not_applicable"].get(pid, "not yet claimed: check under construction (see DESIGN.md section 8)")})
m = {
    "version": 1,
    "setup_cmd": "./setup.sh",
    "hooks": {
        "guard": "a2lfile_verif",
        "enable": "RUSTFLAGS='--cfg a2lfile_verif -C overflow-checks=on' (set in /verif/harness/.cargo/config.toml; the harness depends on /repo/a2lfile by path)",
        "baseline_off_cmd": "cd /repo && cargo test --workspace --no-fail-fast --offline",
        "source_commits": texts["hook_commits"],
        "add_only": True,
    },
    "engines": [{"name": "lean4-proof+correspondence", "path": "lean/ harness/ check",
                 "serves_properties": [c["property_id"] for c in checks],
                 "kind_free_text": "Lean 4 theorems over a hand-written executable model (and regenerated tables), tied to /repo by a differential correspondence check (Rust harness vs. compiled Lean driver) and a direct property oracle on the implementation"}],
    "checks": checks,
    "notes": texts["notes"],
    "not_applicable": na,
}
json.dump(m, open(os.path.join(ROOT, "MANIFEST.json"), "w"), indent=1)
print("claimed:", [c["property_id"] for c in checks])
