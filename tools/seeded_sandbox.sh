#!/bin/sh
# Run seeded changes against the checks in a private mount namespace: copies of /repo and /verif are bind-mounted over
# the real paths, so patches are applied to the copy only and the real trees stay usable while this runs.
#   tools/seeded_sandbox.sh [--tier T] [--checks C01,C05] <ID>...      results: seeded/<ID>/result.json (copied back)
set -e
SV=${SV:-/var/tmp/sv}
OPTS=""
while [ "${1#--}" != "$1" ]; do OPTS="$OPTS $1 $2"; shift 2; done
mkdir -p "$SV"
rsync -a --delete --exclude target /repo/ "$SV/repo/"
rsync -a --delete --exclude work /verif/ "$SV/verif/"
git -C "$SV/repo" checkout -q -- . 2>/dev/null || true
IDS="$*"
unshare -m sh -c "mount --bind $SV/repo /repo && mount --bind $SV/verif /verif && cd /verif && for s in $IDS; do python3 tools/seeded.py run \$s $OPTS 2>&1 | tail -1; done"
for s in $IDS; do [ -f "$SV/verif/seeded/$s/result.json" ] && cp "$SV/verif/seeded/$s/result.json" "/verif/seeded/$s/result.json"; done
