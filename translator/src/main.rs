#![allow(dead_code, unused)]
pub(crate) mod a2lspec;
pub(crate) mod a2mlspec;
pub(crate) mod codegenerator;
pub(crate) mod util;

use proc_macro2::{Delimiter, TokenStream, TokenTree};
use std::collections::BTreeMap;
use std::str::FromStr;

// flatten to a token vector with explicit delimiters
#[derive(Clone, Debug, PartialEq)]
enum T { Open(char), Close(char), Id(String), Lit(String), P(char) }

fn flat(ts: TokenStream, out: &mut Vec<T>) {
    for tt in ts {
        match tt {
            TokenTree::Group(g) => {
                let (o, c) = match g.delimiter() {
                    Delimiter::Parenthesis => ('(', ')'), Delimiter::Brace => ('{', '}'),
                    Delimiter::Bracket => ('[', ']'), Delimiter::None => (' ', ' ') };
                if o != ' ' { out.push(T::Open(o)); }
                flat(g.stream(), out);
                if c != ' ' { out.push(T::Close(c)); }
            }
            TokenTree::Punct(p) => out.push(T::P(p.as_char())),
            TokenTree::Ident(i) => out.push(T::Id(i.to_string())),
            TokenTree::Literal(l) => out.push(T::Lit(l.to_string())),
        }
    }
}

fn id(t: &T) -> Option<&str> { if let T::Id(s) = t { Some(s) } else { None } }
fn is_p(t: &T, c: char) -> bool { matches!(t, T::P(x) if *x == c) }

// find matching close for the Open at index i
fn matching(v: &[T], i: usize) -> usize {
    let mut depth = 0i32;
    for j in i..v.len() {
        match &v[j] { T::Open(_) => depth += 1, T::Close(_) => { depth -= 1; if depth == 0 { return j; } }, _ => {} }
    }
    panic!("unbalanced");
}

// events inside a fn body
fn events(v: &[T]) -> Vec<String> {
    let mut ev = Vec::new();
    let mut i = 0;
    while i < v.len() {
        // parser . method (   |  writer . method (
        if let (Some(recv), true) = (id(&v[i]), i + 3 < v.len()) {
            if (recv == "parser" || recv == "writer") && is_p(&v[i + 1], '.') {
                if let Some(m) = id(&v[i + 2]) {
                    // generic arg  :: < T >
                    let mut j = i + 3;
                    let mut targ = String::new();
                    if j + 4 < v.len() && is_p(&v[j], ':') && is_p(&v[j + 1], ':') && is_p(&v[j + 2], '<') {
                        targ = format!("<{}>", id(&v[j + 3]).unwrap_or("?"));
                        j += 5;
                    }
                    if j < v.len() && v[j] == T::Open('(') {
                        // collect literal / version args
                        let close = matching(v, j);
                        let mut args = Vec::new();
                        let mut k = j + 1;
                        while k < close {
                            match &v[k] {
                                T::Lit(l) => args.push(l.clone()),
                                T::Id(s) if s == "A2lVersion" => { if let Some(x) = id(&v[k + 3]) { args.push(x.to_string()); } }
                                T::Id(s) if s == "A2lTokenType" => { if let Some(x) = id(&v[k + 3]) { args.push(x.to_string()); } }
                                _ => {}
                            }
                            k += 1;
                        }
                        if recv == "writer" {
                            // first `self . field` inside the arguments: which field is written
                            let mut k = j + 1;
                            while k + 2 < close {
                                if id(&v[k]) == Some("self") && is_p(&v[k + 1], '.') {
                                    if let Some(f) = id(&v[k + 2]) {
                                        if f != "__block_info" { ev.push(format!("field[{f}]")); break; }
                                    }
                                }
                                k += 1;
                            }
                        }
                        ev.push(format!("{recv}.{m}{targ}({})", args.join(",")));
                        i = j + 1; // descend into args too (nested calls)
                        continue;
                    } else {
                        // field access like parser.filenames / parser.last_token_position
                        ev.push(format!("{recv}.{m}"));
                    }
                }
            }
            // X :: parse ( parser ,
            if i + 4 < v.len() && is_p(&v[i + 1], ':') && is_p(&v[i + 2], ':') && id(&v[i + 3]) == Some("parse") && v[i + 4] == T::Open('(') {
                ev.push(format!("{}::parse", recv));
            }
            // x . stringify (
            if is_p(&v[i + 1], '.') && id(&v[i + 2]) == Some("stringify") { ev.push(format!("stringify[{recv}]")); }
            if recv == "while" || recv == "loop" || recv == "for" || recv == "break" || recv == "return" { ev.push(recv.to_string()); }
            if recv == "for" {
                // for (..) in self . field . iter()  -> which field is iterated
                let mut k = i + 1;
                while k + 2 < v.len() && v[k] != T::Open('{') {
                    if id(&v[k]) == Some("self") && is_p(&v[k + 1], '.') {
                        if let Some(f) = id(&v[k + 2]) { ev.push(format!("forfield[{f}]")); }
                        break;
                    }
                    k += 1;
                }
            }
        }
        // match arm:  "TAG" =>
        if let T::Lit(l) = &v[i] {
            if i + 2 < v.len() && is_p(&v[i + 1], '=') && is_p(&v[i + 2], '>') && l.starts_with('"') { ev.push(format!("arm {l}")); }
        }
        // array item marker:  let __arrayitem_N =
        if let Some(f) = id(&v[i]) {
            if let Some(n) = f.strip_prefix("__arrayitem_") {
                if i + 1 < v.len() && is_p(&v[i + 1], '=') { ev.push(format!("arrayitem {n}")); }
            }
            // stopwords : [ & str ; N ] = [ "A" , "B" ] ;
            if f == "stopwords" && i + 1 < v.len() && is_p(&v[i + 1], ':') {
                let mut k = i; while !is_p(&v[k], '=') { k += 1; }
                let close = matching(v, k + 1);
                let tags: Vec<String> = v[k + 1..close].iter().filter_map(|t| if let T::Lit(l) = t { Some(l.clone()) } else { None }).collect();
                ev.push(format!("stopwords[{}]", tags.join(",")));
            }
            // x . push ( newitem )      x = Some ( newitem )
            if f == "push" && i + 3 < v.len() && v[i + 1] == T::Open('(') && id(&v[i + 2]) == Some("newitem") {
                ev.push("store_push".to_string());
            }
            if f == "Some" && i + 3 < v.len() && v[i + 1] == T::Open('(') && id(&v[i + 2]) == Some("newitem") && i >= 2 && is_p(&v[i - 1], '=') {
                ev.push(format!("store_some[{}]", id(&v[i - 2]).unwrap_or("?")));
            }
            if f == "InvalidMultiplicityNotPresent" || f == "InvalidEnumValue" { ev.push(f.to_string()); }
            // pos_restrict bodies:  Some ( self . position )   Some ( 3 )
            if f == "Some" && i + 2 < v.len() && v[i + 1] == T::Open('(') {
                if id(&v[i + 2]) == Some("self") && i + 5 < v.len() && is_p(&v[i + 3], '.') && v[i + 5] == T::Close(')') {
                    ev.push(format!("some_self[{}]", id(&v[i + 4]).unwrap_or("?")));
                } else if let T::Lit(l) = &v[i + 2] {
                    if i + 3 < v.len() && v[i + 3] == T::Close(')') { ev.push(format!("some_lit[{l}]")); }
                }
            }
            // Self :: Variant   (enum parser result)   Ok ( Self :: X )
            if f == "Ok" && i + 5 < v.len() && v[i + 1] == T::Open('(') && id(&v[i + 2]) == Some("Self") && is_p(&v[i + 3], ':') && v[i + 6] == T::Close(')') {
                ev.push(format!("ok_self[{}]", id(&v[i + 5]).unwrap_or("?")));
            }
            // Self :: Variant => "TAG"   (Display impl of enums)
            if f == "Self" && i + 6 < v.len() && is_p(&v[i + 1], ':') && is_p(&v[i + 2], ':') && is_p(&v[i + 4], '=') && is_p(&v[i + 5], '>') {
                if let T::Lit(l) = &v[i + 6] { ev.push(format!("display[{}]={l}", id(&v[i + 3]).unwrap_or("?"))); }
            }
        }
        // tag : "X"   is_block : true   inside TaggedItemInfo::Tag
        if let Some(f) = id(&v[i]) {
            if (f == "tag" || f == "is_block") && i + 2 < v.len() && is_p(&v[i + 1], ':') && !is_p(&v[i+2], ':') {
                match &v[i + 2] { T::Lit(l) => ev.push(format!("{f}={l}")), T::Id(b) if b == "true" || b == "false" => ev.push(format!("{f}={b}")), _ => {} }
            }
            if f == "TAG_LIST" && i + 1 < v.len() && is_p(&v[i+1], ':') {
                // const TAG_LIST : [ & str ; N ] = [ ... ] ;
                let mut k = i; while !is_p(&v[k], '=') { k += 1; }
                let close = matching(v, k + 1);
                let tags: Vec<String> = v[k + 1..close].iter().filter_map(|t| if let T::Lit(l) = t { Some(l.clone()) } else { None }).collect();
                ev.push(format!("TAG_LIST[{}]", tags.join(",")));
            }
        }
        i += 1;
    }
    ev
}

// split a file-level token vector into  impl <Trait for>? Type { fn name (..) .. { body } }
fn impls(v: &[T]) -> BTreeMap<String, Vec<String>> {
    let mut out = BTreeMap::new();
    let mut i = 0;
    while i < v.len() {
        if id(&v[i]) == Some("impl") {
            // header up to Open('{') at depth 0
            let mut j = i + 1;
            let mut header = Vec::new();
            while v[j] != T::Open('{') {
                if let Some(s) = id(&v[j]) { header.push(s.to_string()); }
                if v[j] == T::Open('(') || v[j] == T::Open('[') { j = matching(v, j); }
                j += 1;
            }
            let close = matching(v, j);
            let hdr = header.join(" ");
            // fns inside
            let mut k = j + 1;
            while k < close {
                if id(&v[k]) == Some("fn") {
                    let fname = id(&v[k + 1]).unwrap().to_string();
                    let mut b = k + 2;
                    while v[b] != T::Open('{') { if matches!(v[b], T::Open(_)) { b = matching(v, b); } b += 1; }
                    let bclose = matching(v, b);
                    out.insert(format!("{hdr}::{fname}"), events(&v[b + 1..bclose]));
                    k = bclose;
                }
                if matches!(v[k], T::Open(_)) && k != j { k = matching(v, k); }
                k += 1;
            }
            i = close;
        }
        // skip test modules:  mod test { ... }
        if id(&v[i]) == Some("mod") {
            let mut j = i; while j < v.len() && v[j] != T::Open('{') && !is_p(&v[j], ';') { j += 1; }
            if j < v.len() && v[j] == T::Open('{') { i = matching(v, j); }
        }
        i += 1;
    }
    out
}

fn jstr(s: &str) -> String {
    let mut o = String::from("\"");
    for c in s.chars() {
        match c { '"' => o.push_str("\\\""), '\\' => o.push_str("\\\\"), '\n' => o.push_str("\\n"), c => o.push(c) }
    }
    o.push('"');
    o
}

fn dump(path: &str, m: &BTreeMap<String, Vec<String>>) {
    let mut out = String::from("{\n");
    let mut first = true;
    for (k, v) in m {
        if !first { out.push_str(",\n"); }
        first = false;
        out.push_str(&format!("{}: [{}]", jstr(k), v.iter().map(|e| jstr(e)).collect::<Vec<_>>().join(",")));
    }
    out.push_str("\n}\n");
    std::fs::write(path, out).unwrap();
}

fn main() {
    let args: Vec<String> = std::env::args().collect();
    let outdir = args.get(1).cloned().unwrap_or_else(|| ".".to_string());
    let repo = args.get(2).cloned().unwrap_or_else(|| "/repo".to_string());
    let orig = std::fs::read_to_string(format!("{repo}/a2lfile/src/specification_orig.rs")).unwrap();
    let start = orig.find("a2l_specification! {").expect("macro invocation not found in specification_orig.rs");
    let ts_all = TokenStream::from_str(&orig[start..]).expect("specification_orig.rs does not tokenize");
    let mut it = ts_all.into_iter();
    let _ = it.next();
    let _ = it.next();
    let group = match it.next().unwrap() { TokenTree::Group(g) => g, _ => panic!("macro body expected") };
    let rest: TokenStream = it.collect();
    // the DSL text exactly as the macro sees it, for the independent reader
    std::fs::write(format!("{outdir}/dsl_tokens.txt"), group.stream().to_string()).unwrap();
    // fresh expansion by the in-tree generator (linked from /repo/a2lmacros/src)
    let expanded = match std::panic::catch_unwind(|| a2lspec::a2l_specification(group.stream())) {
        Ok(e) => e,
        Err(_) => { eprintln!("the in-tree generator panicked on the in-tree specification"); std::process::exit(3); }
    };
    let mut a = Vec::new();
    flat(expanded, &mut a);
    flat(rest, &mut a);
    let shipped = std::fs::read_to_string(format!("{repo}/a2lfile/src/specification.rs")).unwrap();
    let mut b = Vec::new();
    match TokenStream::from_str(&shipped) {
        Ok(ts) => flat(ts, &mut b),
        Err(e) => { eprintln!("specification.rs does not tokenize: {e}"); std::process::exit(4); }
    }
    dump(&format!("{outdir}/events_fresh.json"), &impls(&a));
    dump(&format!("{outdir}/events_shipped.json"), &impls(&b));
}
