#!/bin/sh
# Build the framework from files on disk only (offline): Lean project (all models, theorems, driver) and the Rust harness.
set -e
cd "$(dirname "$0")"
export CARGO_NET_OFFLINE=true
MODS=$(python3 -c "import json; p=json.load(open('tools/props.json')); print(' '.join(sorted({m for v in p.values() for m in v['lean_modules']})))")
(cd lean && lake build A2lVerif a2lmodel $MODS 2>&1 | grep -v "^info\|depends on axioms\|propext\|Classical.choice\|Quot.sound" | tail -5)
(cd harness && cargo build --offline 2>&1 | tail -3)
echo setup done
