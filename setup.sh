#!/bin/sh
# Build the framework from files on disk only (offline): Lean project (all models, theorems, driver) and the Rust harness.
set -e
cd "$(dirname "$0")"
export CARGO_NET_OFFLINE=true
(cd lean && lake build A2lVerif a2lmodel 2>&1 | tail -5)
(cd harness && cargo build --offline 2>&1 | tail -3)
echo setup done
