//! C13: ItemList coherence. Runs the real `a2lfile::ItemList` on operation histories, compares every step
//! with a plain vector-of-names specification (the oracle), and emits the same histories as request lines
//! for the Lean model (the tie).
use crate::common::*;
use a2lfile::{A2lObjectName, A2lObjectNameSetter, ItemList};

#[derive(Debug, Clone, PartialEq)]
struct Item {
    name: String,
    id: u32,
}
impl A2lObjectName for Item {
    fn get_name(&self) -> &str {
        &self.name
    }
}
impl A2lObjectNameSetter for Item {
    fn set_name(&mut self, name: String) {
        self.name = name;
    }
}

#[derive(Clone, Debug, PartialEq, Eq, Hash)]
pub enum Op {
    Push(String),
    Pop,
    SwapRemove(String),
    SwapRemoveIdx(usize),
    Truncate(usize),
    Retain(Vec<String>),
    SortAsc,
    SortDesc,
    Rename(usize, String),
    Extend(Vec<String>),
    Clear,
    Collect(Vec<String>),
}

impl Op {
    fn text(&self) -> String {
        match self {
            Op::Push(n) => format!("push:{n}"),
            Op::Pop => "pop".into(),
            Op::SwapRemove(n) => format!("srm:{n}"),
            Op::SwapRemoveIdx(i) => format!("sri:{i}"),
            Op::Truncate(i) => format!("trunc:{i}"),
            Op::Retain(ns) => format!("retain:{}", ns.join(",")),
            Op::SortAsc => "sortasc".into(),
            Op::SortDesc => "sortdesc".into(),
            Op::Rename(i, n) => format!("ren:{i}:{n}"),
            Op::Extend(ns) => format!("ext:{}", ns.join(",")),
            Op::Clear => "clear".into(),
            Op::Collect(ns) => format!("collect:{}", ns.join(",")),
        }
    }
    fn parse(s: &str) -> Option<Op> {
        let list = |t: &str| -> Vec<String> {
            if t.is_empty() {
                vec![]
            } else {
                t.split(',').map(|x| x.to_string()).collect()
            }
        };
        let (head, tail) = match s.split_once(':') {
            Some((h, t)) => (h, t),
            None => (s, ""),
        };
        Some(match head {
            "push" => Op::Push(tail.into()),
            "pop" => Op::Pop,
            "srm" => Op::SwapRemove(tail.into()),
            "sri" => Op::SwapRemoveIdx(tail.parse().ok()?),
            "trunc" => Op::Truncate(tail.parse().ok()?),
            "retain" => Op::Retain(list(tail)),
            "sortasc" => Op::SortAsc,
            "sortdesc" => Op::SortDesc,
            "ren" => {
                let (i, n) = tail.split_once(':')?;
                Op::Rename(i.parse().ok()?, n.into())
            }
            "ext" => Op::Extend(list(tail)),
            "clear" => Op::Clear,
            "collect" => Op::Collect(list(tail)),
            _ => return None,
        })
    }
}

/// the plain-vector specification (independent of the Lean model; this is the oracle)
#[derive(Clone, Default)]
struct Spec {
    items: Vec<Item>,
}
impl Spec {
    fn pos(&self, name: &str) -> Option<usize> {
        self.items.iter().position(|x| x.name == name)
    }
    /// does the op keep names unique? (domain of the property)
    fn op_ok(&self, op: &Op) -> bool {
        let nodup = |ns: &Vec<String>| {
            let mut s = ns.clone();
            s.sort();
            s.dedup();
            s.len() == ns.len()
        };
        match op {
            Op::Push(n) => self.pos(n).is_none(),
            Op::Rename(i, n) => self.pos(n).is_none() || self.items.get(*i).map(|x| &x.name) == Some(n),
            Op::Extend(ns) => nodup(ns) && ns.iter().all(|n| self.pos(n).is_none()),
            Op::Collect(ns) => nodup(ns),
            _ => true,
        }
    }
    fn swap_remove(&mut self, i: usize) -> Item {
        let last = self.items.len() - 1;
        self.items.swap(i, last);
        self.items.pop().unwrap()
    }
    fn step(&mut self, op: &Op, next_id: &mut u32) -> Option<Item> {
        let mut mk = |n: &String| {
            *next_id += 1;
            Item {
                name: n.clone(),
                id: *next_id,
            }
        };
        match op {
            Op::Push(n) => {
                self.items.push(mk(n));
                None
            }
            Op::Pop => self.items.pop(),
            Op::SwapRemove(n) => self.pos(n).map(|i| self.swap_remove(i)),
            Op::SwapRemoveIdx(i) => {
                if *i < self.items.len() {
                    Some(self.swap_remove(*i))
                } else {
                    None
                }
            }
            Op::Truncate(n) => {
                self.items.truncate(*n);
                None
            }
            Op::Retain(ns) => {
                self.items.retain(|x| ns.contains(&x.name));
                None
            }
            Op::SortAsc => {
                self.items.sort_by(|a, b| a.name.cmp(&b.name));
                None
            }
            Op::SortDesc => {
                self.items.sort_by(|a, b| b.name.cmp(&a.name));
                None
            }
            Op::Rename(i, n) => {
                if let Some(x) = self.items.get_mut(*i) {
                    x.name = n.clone();
                }
                None
            }
            Op::Extend(ns) => {
                for n in ns {
                    let it = mk(n);
                    self.items.push(it);
                }
                None
            }
            Op::Clear => {
                self.items.clear();
                None
            }
            Op::Collect(ns) => {
                self.items = ns.iter().map(&mut mk).collect();
                None
            }
        }
    }
}

fn impl_step(list: &mut ItemList<Item>, op: &Op, next_id: &mut u32) -> Option<Item> {
    let mut mk = |n: &String| {
        *next_id += 1;
        Item {
            name: n.clone(),
            id: *next_id,
        }
    };
    match op {
        Op::Push(n) => {
            list.push(mk(n));
            None
        }
        Op::Pop => list.pop(),
        Op::SwapRemove(n) => list.swap_remove(n),
        Op::SwapRemoveIdx(i) => list.swap_remove_idx(*i),
        Op::Truncate(n) => {
            list.truncate(*n);
            None
        }
        Op::Retain(ns) => {
            list.retain(|x| ns.contains(&x.name));
            None
        }
        Op::SortAsc => {
            list.sort_by(|a, b| a.name.cmp(&b.name));
            None
        }
        Op::SortDesc => {
            list.sort_by(|a, b| b.name.cmp(&a.name));
            None
        }
        Op::Rename(i, n) => {
            list.rename_item(*i, n);
            None
        }
        Op::Extend(ns) => {
            let v: Vec<Item> = ns.iter().map(&mut mk).collect();
            // alternately from a Vec (exact size hint) and from a lazy iterator whose size hint has lower bound 0
            if ns.len() % 2 == 0 {
                list.extend(v);
            } else {
                list.extend(v.into_iter().filter(|_| true));
            }
            None
        }
        Op::Clear => {
            list.clear();
            None
        }
        Op::Collect(ns) => {
            *list = ns.iter().map(&mut mk).collect();
            None
        }
    }
}

/// canonical observation of the implementation (names only; ids are used by the oracle)
fn observe(list: &ItemList<Item>, ret: &Option<Item>, alphabet: &[String]) -> String {
    let names: Vec<&str> = list.iter().map(|x| x.name.as_str()).collect();
    let idx: Vec<String> = alphabet
        .iter()
        .map(|n| list.index(n).map_or("-".to_string(), |i| i.to_string()))
        .collect();
    let get: Vec<String> = alphabet
        .iter()
        .map(|n| match catch(|| list.get(n).map(|x| x.name.clone())) {
            Ok(Some(x)) => x,
            Ok(None) => "-".to_string(),
            Err(_) => "!".to_string(),
        })
        .collect();
    let has: String = alphabet
        .iter()
        .map(|n| if list.contains_key(n) { '1' } else { '0' })
        .collect();
    let mut keys: Vec<&String> = list.keys().collect();
    keys.sort();
    let keys: Vec<&str> = keys.iter().map(|k| k.as_str()).collect();
    format!(
        "ret={};items={};idx={};get={};has={};keys={};len={}",
        ret.as_ref().map_or("-", |x| x.name.as_str()),
        names.join(","),
        idx.join(","),
        get.join(","),
        has,
        keys.join(","),
        list.len()
    )
}

/// the property, checked directly on the implementation against the vector specification
fn oracle(list: &ItemList<Item>, spec: &Spec, ret: &Option<Item>, sret: &Option<Item>, alphabet: &[String]) -> Result<(), String> {
    if ret != sret {
        return Err(format!("return value {ret:?}, specification {sret:?}"));
    }
    let items: Vec<Item> = list.iter().cloned().collect();
    if items != spec.items {
        return Err(format!("items {:?}, specification {:?}", items, spec.items));
    }
    if list.len() != spec.items.len() || list.is_empty() != spec.items.is_empty() {
        return Err("len/is_empty differ".into());
    }
    for (i, it) in spec.items.iter().enumerate() {
        // iteration order equals positional order
        if catch(|| list[i].clone()) != Ok(it.clone()) {
            return Err(format!("list[{i}] differs from iteration order"));
        }
    }
    let mut names: Vec<String> = spec.items.iter().map(|x| x.name.clone()).collect();
    for n in alphabet {
        let pos = spec.pos(n);
        if list.index(n) != pos {
            return Err(format!("index({n}) = {:?}, position is {:?}", list.index(n), pos));
        }
        if list.contains_key(n) != pos.is_some() {
            return Err(format!("contains_key({n}) wrong"));
        }
        match catch(|| list.get(n).cloned()) {
            Err(m) => return Err(format!("get({n}) panicked: {m}")),
            Ok(g) => {
                if g != pos.map(|p| spec.items[p].clone()) {
                    return Err(format!("get({n}) = {g:?}, element at reported position is {:?}", pos.map(|p| &spec.items[p])));
                }
            }
        }
    }
    let mut keys: Vec<String> = list.keys().cloned().collect();
    keys.sort();
    names.sort();
    if keys != names {
        return Err(format!("keys {keys:?} vs names {names:?}"));
    }
    if list.first() != spec.items.first() || list.last() != spec.items.last() {
        return Err("first/last differ".into());
    }
    Ok(())
}

pub struct HistResult {
    pub answer: String,
    pub failure: Option<(usize, String)>,
    pub changed: bool,
}

/// run one history on the implementation; `all`: observe after every step, else only after the last
pub fn run_history(ops: &[Op], alphabet: &[String], all: bool) -> HistResult {
    let mut list: ItemList<Item> = ItemList::new();
    let mut spec = Spec::default();
    let mut in_domain = true;
    let (mut id1, mut id2) = (0u32, 0u32);
    let mut obs: Vec<String> = vec![];
    let mut failure = None;
    let mut changed = false;
    for (k, op) in ops.iter().enumerate() {
        if in_domain && !spec.op_ok(op) {
            in_domain = false;
        }
        let before = list.len();
        let r = catch(|| impl_step(&mut list, op, &mut id1));
        match r {
            Err(msg) => {
                if in_domain && failure.is_none() {
                    failure = Some((k, format!("panic: {msg}")));
                }
                obs.push(format!("PANIC@{k}"));
                return HistResult {
                    answer: if all { obs.join(" | ") } else { obs.last().unwrap().clone() },
                    failure,
                    changed,
                };
            }
            Ok(ret) => {
                if before != list.len() || ret.is_some() {
                    changed = true;
                }
                if in_domain {
                    let sret = spec.step(op, &mut id2);
                    if failure.is_none() {
                        if let Err(m) = oracle(&list, &spec, &ret, &sret, alphabet) {
                            failure = Some((k, m));
                        }
                    }
                }
                if all || k + 1 == ops.len() {
                    obs.push(observe(&list, &ret, alphabet));
                }
            }
        }
    }
    if ops.is_empty() {
        obs.push(observe(&list, &None, alphabet));
    }
    HistResult {
        answer: if all { obs.join(" | ") } else { obs.last().unwrap().clone() },
        failure,
        changed,
    }
}

fn request(ops: &[Op], alphabet: &[String], all: bool) -> String {
    let ops: Vec<String> = ops.iter().map(|o| o.text()).collect();
    format!("il {} {} {}", if all { "all" } else { "last" }, alphabet.join(","), ops.join(" "))
}

fn op_alphabet(names: &[String]) -> Vec<Op> {
    let n = names.len();
    let mut ops = vec![];
    for x in names {
        ops.push(Op::Push(x.clone()));
        ops.push(Op::SwapRemove(x.clone()));
    }
    ops.push(Op::Pop);
    for i in 0..=n {
        ops.push(Op::SwapRemoveIdx(i));
        ops.push(Op::Truncate(i));
    }
    ops.push(Op::Retain(vec![]));
    ops.push(Op::Retain(names[..1].to_vec()));
    ops.push(Op::Retain(names[..2].to_vec()));
    ops.push(Op::Retain(names[1..].to_vec()));
    ops.push(Op::Retain(names.to_vec()));
    ops.push(Op::SortAsc);
    ops.push(Op::SortDesc);
    for i in 0..n {
        for x in names {
            ops.push(Op::Rename(i, x.clone()));
        }
    }
    ops.push(Op::Rename(n, names[0].clone()));
    ops.push(Op::Extend(names[..2].to_vec()));
    ops.push(Op::Extend(names[2..].to_vec()));
    ops.push(Op::Extend(vec![names[1].clone()]));
    ops.push(Op::Clear);
    ops.push(Op::Collect(vec![]));
    ops.push(Op::Collect(vec![names[3].clone(), names[2].clone()]));
    ops.push(Op::Collect(names[..3].to_vec()));
    ops
}

fn random_op(rng: &mut Rng, names: &[String], len_hint: usize) -> Op {
    let name = |rng: &mut Rng| names[rng.below(names.len())].clone();
    let subset = |rng: &mut Rng, p: u32| -> Vec<String> {
        names.iter().filter(|_| rng.chance(p, 100)).cloned().collect()
    };
    match rng.below(100) {
        0..=39 => Op::Push(name(rng)),
        40..=47 => Op::Pop,
        48..=59 => Op::SwapRemove(name(rng)),
        60..=69 => Op::SwapRemoveIdx(rng.below(len_hint + 2)),
        70..=72 => Op::Truncate(rng.below(len_hint + 2)),
        73..=76 => Op::Retain(subset(rng, 80)),
        77..=80 => Op::SortAsc,
        81..=83 => Op::SortDesc,
        84..=93 => Op::Rename(rng.below(len_hint + 1), name(rng)),
        94..=96 => {
            let mut s = subset(rng, 15);
            if rng.chance(1, 2) {
                s.reverse();
            }
            Op::Extend(s)
        }
        97 => Op::Clear,
        _ => {
            let mut s = subset(rng, 40);
            if rng.chance(1, 2) {
                s.reverse();
            }
            Op::Collect(s)
        }
    }
}

pub fn run(args: &Args) -> Report {
    let mut rep = Report::new(
        "C13",
        "operation histories on ItemList: exhaustive over a 54-operation alphabet (4 names, every argument incl. out-of-range) up to the stated depth, plus random long histories biased to stay inside the unique-name domain; a history is non-trivial when some step changed the list or returned an element; distinct = distinct op sequences",
    );
    if let Some(input) = &args.replay {
        // replay: "<alphabet> <op> <op> ..."
        let mut parts = input.split_whitespace();
        let alphabet: Vec<String> = parts.next().unwrap_or("a").split(',').map(|s| s.to_string()).collect();
        let ops: Vec<Op> = parts.filter_map(Op::parse).collect();
        let r = run_history(&ops, &alphabet, true);
        rep.case(&ops, true);
        rep.case(&alphabet, true);
        rep.sample(request(&ops, &alphabet, true));
        rep.tie(request(&ops, &alphabet, true), r.answer.clone());
        if let Some((k, m)) = r.failure {
            rep.fail("oracle", format!("{} {}", alphabet.join(","), ops.iter().map(|o| o.text()).collect::<Vec<_>>().join(" ")), format!("step {k}: {m}"));
        }
        return rep;
    }
    let names4: Vec<String> = ["a", "b", "c", "d"].iter().map(|s| s.to_string()).collect();
    let alpha = op_alphabet(&names4);
    // --- exhaustive part
    let depth = if args.thorough { 4 } else { 3 };
    let tie_every = if args.thorough { 23 } else { 1 };
    let mut stack: Vec<usize> = vec![];
    let mut count: u64 = 0;
    // iterative enumeration of all sequences of length 1..=depth
    loop {
        // advance
        if stack.len() < depth {
            stack.push(0);
        } else {
            loop {
                match stack.pop() {
                    None => break,
                    Some(i) if i + 1 < alpha.len() => {
                        stack.push(i + 1);
                        break;
                    }
                    Some(_) => {}
                }
            }
            if stack.is_empty() {
                break;
            }
        }
        let ops: Vec<Op> = stack.iter().map(|&i| alpha[i].clone()).collect();
        let r = run_history(&ops, &names4, false);
        count += 1;
        rep.case(&ops, r.changed);
        for op in &ops[ops.len() - 1..] {
            rep.bump(op.text().split(':').next().unwrap());
        }
        if count % tie_every == 0 {
            rep.tie(request(&ops, &names4, false), r.answer.clone());
        }
        if count % 20011 == 0 {
            rep.sample(request(&ops, &names4, false));
        }
        if r.answer.starts_with("PANIC") {
            rep.bump("outcome:panic");
        }
        if let Some((k, m)) = r.failure {
            let hist: Vec<String> = ops[..=k].iter().map(|o| o.text()).collect();
            rep.fail("oracle", format!("{} {}", names4.join(","), hist.join(" ")), format!("step {k}: {m}"));
        }
    }
    rep.exhaustive = false; // the random part below is not exhaustive; the enumeration itself is complete to `depth`
    rep.bump(&format!("exhaustive_depth_{depth}_histories"));
    *rep.dist.get_mut(&format!("exhaustive_depth_{depth}_histories")).unwrap() = count;
    // --- random long histories
    let mut rng = Rng::new(args.seed);
    let (nhist, steps) = if args.thorough { (2000, 1000) } else { (200, 1000) };
    for h in 0..nhist {
        let nnames = [4usize, 8, 16, 40][h % 4];
        let names: Vec<String> = (0..nnames).map(|i| format!("n{i}")).collect();
        let mut ops: Vec<Op> = vec![];
        let mut spec = Spec::default();
        let mut id = 0u32;
        let stay_in_domain = h % 10 != 9; // 10% of the histories may leave the unique-name domain
        let nsteps = if h % 5 == 0 { steps } else { 20 + rng.below(100) };
        while ops.len() < nsteps {
            let op = random_op(&mut rng, &names, spec.items.len());
            if stay_in_domain && !spec.op_ok(&op) {
                continue;
            }
            spec.step(&op, &mut id);
            ops.push(op);
        }
        let r = run_history(&ops, &names, true);
        rep.case(&ops, r.changed);
        rep.bump(if stay_in_domain { "random:in_domain" } else { "random:may_leave_domain" });
        if h < 2 {
            rep.sample(request(&ops[..12.min(ops.len())], &names, true));
        }
        rep.tie(request(&ops, &names, true), r.answer.clone());
        if let Some((k, m)) = r.failure {
            // shrink: shortest failing prefix, then drop ops one at a time
            let mut cur: Vec<Op> = ops[..=k].to_vec();
            let mut i = 0;
            while i < cur.len() {
                let mut cand = cur.clone();
                cand.remove(i);
                if run_history(&cand, &names, true).failure.is_some() {
                    cur = cand;
                } else {
                    i += 1;
                }
            }
            let fr = run_history(&cur, &names, true).failure.unwrap_or((k, m));
            let hist: Vec<String> = cur.iter().map(|o| o.text()).collect();
            rep.fail("oracle", format!("{} {}", names.join(","), hist.join(" ")), format!("step {}: {}", fr.0, fr.1));
        }
    }
    rep
}
