//! shared helpers: deterministic PRNG, JSON emission, report structure, panic capture
use std::collections::{BTreeMap, HashSet};
use std::fmt::Write as _;
use std::hash::{Hash, Hasher};
use std::io::Write as _;

pub struct Rng(pub u64);
impl Rng {
    pub fn new(seed: u64) -> Self {
        Rng(seed.wrapping_mul(0x9E3779B97F4A7C15) ^ 0xD1B54A32D192ED03)
    }
    pub fn next(&mut self) -> u64 {
        self.0 = self.0.wrapping_add(0x9E3779B97F4A7C15);
        let mut z = self.0;
        z = (z ^ (z >> 30)).wrapping_mul(0xBF58476D1CE4E5B9);
        z = (z ^ (z >> 27)).wrapping_mul(0x94D049BB133111EB);
        z ^ (z >> 31)
    }
    pub fn below(&mut self, n: usize) -> usize {
        if n == 0 {
            0
        } else {
            (self.next() % n as u64) as usize
        }
    }
    pub fn range(&mut self, lo: i64, hi: i64) -> i64 {
        lo + (self.next() % ((hi - lo + 1) as u64)) as i64
    }
    pub fn chance(&mut self, num: u32, den: u32) -> bool {
        (self.next() % den as u64) < num as u64
    }
    pub fn pick<'a, T>(&mut self, xs: &'a [T]) -> &'a T {
        &xs[self.below(xs.len())]
    }
}

pub fn json_str(s: &str) -> String {
    let mut out = String::with_capacity(s.len() + 2);
    out.push('"');
    for c in s.chars() {
        match c {
            '"' => out.push_str("\\\""),
            '\\' => out.push_str("\\\\"),
            '\n' => out.push_str("\\n"),
            '\r' => out.push_str("\\r"),
            '\t' => out.push_str("\\t"),
            c if (c as u32) < 0x20 => {
                let _ = write!(out, "\\u{:04x}", c as u32);
            }
            c => out.push(c),
        }
    }
    out.push('"');
    out
}

pub fn hex(bytes: &[u8]) -> String {
    if bytes.is_empty() {
        return "-".to_string();
    }
    let mut s = String::with_capacity(bytes.len() * 2);
    for b in bytes {
        let _ = write!(s, "{b:02x}");
    }
    s
}

pub fn unhex(s: &str) -> Vec<u8> {
    if s == "-" {
        return vec![];
    }
    (0..s.len() / 2)
        .map(|i| u8::from_str_radix(&s[2 * i..2 * i + 2], 16).unwrap())
        .collect()
}

pub fn hash_of<T: Hash>(t: &T) -> u64 {
    let mut h = std::collections::hash_map::DefaultHasher::new();
    t.hash(&mut h);
    h.finish()
}

#[derive(Default)]
pub struct Failure {
    pub kind: String,   // short class, used by the known-findings matcher
    pub input: String,  // replayable input (op history, hex text, ...)
    pub detail: String, // observed vs expected
}

/// What one harness run did: written as `oracle.json` next to `requests.txt` / `impl.txt`.
pub struct Report {
    pub property: String,
    pub evaluations: u64,
    distinct: HashSet<u64>,
    pub samples: Vec<String>,
    pub dist: BTreeMap<String, u64>,
    pub failures: Vec<Failure>,
    pub rule: String,
    pub exhaustive: bool,
    pub requests: Vec<String>,
    pub answers: Vec<String>,
}

impl Report {
    pub fn new(property: &str, rule: &str) -> Self {
        Report {
            property: property.to_string(),
            evaluations: 0,
            distinct: HashSet::new(),
            samples: vec![],
            dist: BTreeMap::new(),
            failures: vec![],
            rule: rule.to_string(),
            exhaustive: false,
            requests: vec![],
            answers: vec![],
        }
    }
    /// count one evaluated case; `nontrivial` says whether it is non-trivial by the rule
    pub fn case<T: Hash>(&mut self, key: &T, nontrivial: bool) {
        self.evaluations += 1;
        if nontrivial {
            self.distinct.insert(hash_of(key));
        }
    }
    pub fn bump(&mut self, key: &str) {
        *self.dist.entry(key.to_string()).or_insert(0) += 1;
    }
    pub fn sample(&mut self, s: String) {
        if self.samples.len() < 8 {
            self.samples.push(s);
        }
    }
    pub fn fail(&mut self, kind: &str, input: String, detail: String) {
        if self.failures.len() < 200 {
            self.failures.push(Failure {
                kind: kind.to_string(),
                input,
                detail,
            });
        }
    }
    /// one correspondence case: request line for the Lean model, and the implementation's canonical answer
    pub fn tie(&mut self, request: String, answer: String) {
        self.requests.push(request);
        self.answers.push(answer);
    }
    pub fn write(&self, outdir: &str) {
        std::fs::create_dir_all(outdir).unwrap();
        let mut f = std::io::BufWriter::new(std::fs::File::create(format!("{outdir}/requests.txt")).unwrap());
        for r in &self.requests {
            writeln!(f, "{r}").unwrap();
        }
        let mut f = std::io::BufWriter::new(std::fs::File::create(format!("{outdir}/impl.txt")).unwrap());
        for r in &self.answers {
            writeln!(f, "{r}").unwrap();
        }
        let mut j = String::new();
        let _ = write!(
            j,
            "{{\"property\":{},\"evaluations\":{},\"distinct_nontrivial\":{},\"exhaustive\":{},\"rule\":{},\"samples\":[",
            json_str(&self.property),
            self.evaluations,
            self.distinct.len(),
            self.exhaustive,
            json_str(&self.rule)
        );
        for (i, s) in self.samples.iter().enumerate() {
            if i > 0 {
                j.push(',');
            }
            j.push_str(&json_str(s));
        }
        j.push_str("],\"distribution\":{");
        for (i, (k, v)) in self.dist.iter().enumerate() {
            if i > 0 {
                j.push(',');
            }
            let _ = write!(j, "{}:{}", json_str(k), v);
        }
        j.push_str("},\"failures\":[");
        for (i, fl) in self.failures.iter().enumerate() {
            if i > 0 {
                j.push(',');
            }
            let _ = write!(
                j,
                "{{\"kind\":{},\"input\":{},\"detail\":{}}}",
                json_str(&fl.kind),
                json_str(&fl.input),
                json_str(&fl.detail)
            );
        }
        j.push_str("]}");
        std::fs::write(format!("{outdir}/oracle.json"), j).unwrap();
    }
}

/// run a closure, turning a panic into `Err(message)`
pub fn catch<T>(f: impl FnOnce() -> T) -> Result<T, String> {
    match std::panic::catch_unwind(std::panic::AssertUnwindSafe(f)) {
        Ok(v) => Ok(v),
        Err(e) => {
            let msg = if let Some(s) = e.downcast_ref::<&str>() {
                (*s).to_string()
            } else if let Some(s) = e.downcast_ref::<String>() {
                s.clone()
            } else {
                "panic".to_string()
            };
            Err(msg)
        }
    }
}

pub fn silence_panics() {
    std::panic::set_hook(Box::new(|_| {}));
}

pub struct Args {
    pub seed: u64,
    pub thorough: bool,
    pub out: String,
    pub replay: Option<String>,
    pub rest: Vec<String>,
}
