//! C17: encoding independence. Oracle: for generated A2L texts and the ten encodings, `decode_raw_bytes` (hook) followed
//! by the BOM strip gives back the text, and `a2lfile::load(path)` gives the same model as `load_from_string`;
//! arbitrary byte strings never panic and fall back to Latin-1 when they are not valid Unicode.
//! Tie: `dec <hex>` / `load <hex>` against the Lean model of the detection cascade.
use crate::a2lgen;
use crate::common::*;

const ENCODINGS: [&str; 10] = ["utf8", "utf8Bom", "utf16le", "utf16be", "utf16leBom", "utf16beBom", "utf32le", "utf32be", "utf32leBom", "utf32beBom"];

fn encode(enc: usize, s: &str) -> Vec<u8> {
    let with_bom = matches!(enc, 1 | 4 | 5 | 8 | 9);
    let text: String = if with_bom { format!("\u{feff}{s}") } else { s.to_string() };
    match enc {
        0 | 1 => text.into_bytes(),
        2 | 4 => text.encode_utf16().flat_map(|u| u.to_le_bytes()).collect(),
        3 | 5 => text.encode_utf16().flat_map(|u| u.to_be_bytes()).collect(),
        6 | 8 => text.chars().flat_map(|c| (c as u32).to_le_bytes()).collect(),
        _ => text.chars().flat_map(|c| (c as u32).to_be_bytes()).collect(),
    }
}

fn cps(s: &str) -> String {
    if s.is_empty() {
        return "-".into();
    }
    s.chars().map(|c| format!("{:x}", c as u32)).collect::<Vec<_>>().join(",")
}

fn strip_bom(s: &str) -> &str {
    s.strip_prefix('\u{feff}').unwrap_or(s)
}

fn unicode_string(rng: &mut Rng) -> String {
    let pool = ['a', 'Z', '0', ' ', 'é', 'ß', 'Ā', '\u{7ff}', '\u{800}', '€', '\u{d7ff}', '\u{e000}', '\u{fffd}', '\u{ffff}', '\u{10000}', '😀', '\u{10ffff}', '\u{100}', '\u{ff}', '\u{80}', '\u{7f}', '\u{1}'];
    (0..rng.below(8)).map(|_| *rng.pick(&pool)).collect()
}

fn doc(rng: &mut Rng) -> String {
    let mut elems = a2lgen::random_module_elems(rng, "", 6, false);
    elems.retain(|e| e.kind != 102); // the A2ML block is irrelevant here
    let mut text = a2lgen::file_text(&[elems], rng);
    // sprinkle non-ASCII into a string and a comment
    let mut u1 = unicode_string(rng).replace('"', "").replace('\\', "");
    // U+FEFF inside the text is an ordinary character (only a leading one is a byte order mark)
    if rng.chance(1, 4) {
        u1.push_str("a\u{feff}b");
    }
    let u2 = unicode_string(rng).replace("*/", "");
    text = text.replacen("/begin PROJECT p \"\"", &format!("/begin PROJECT p \"{u1}\" /* {u2} */"), 1);
    // the document may start with white space (blank first line, CR LF, tab)
    if rng.chance(1, 4) {
        text = format!("{}{text}", ["\n", "\r\n", "\t", " ", "\n\n "][rng.below(5)]);
    }
    // every length residue: pad with 0..3 trailing blanks
    for _ in 0..rng.below(4) {
        text.push(' ');
    }
    text
}

fn model_eq(a: &a2lfile::A2lFile, b: &a2lfile::A2lFile) -> bool {
    a == b && a.write_to_string() == b.write_to_string()
}

pub fn run(args: &Args) -> Report {
    let mut rep = Report::new(
        "C17",
        "(a) generated A2L documents with non-ASCII / non-BMP characters in a string and a comment x 10 encodings x all 4 length residues: hook decode + end-to-end load(path) vs load_from_string; (b) arbitrary byte strings (random, structured prefixes: BOMs, NULs, surrogates, truncated UTF-8) for totality and the Latin-1 fallback. non-trivial = the input is not pure ASCII or is not valid UTF-8; distinct = distinct byte strings",
    );
    let mut rng = Rng::new(args.seed);
    let tmp = std::env::temp_dir().join(format!("a2lverif_c17_{}", std::process::id()));
    let _ = std::fs::create_dir_all(&tmp);
    let check_bytes = |rep: &mut Report, bytes: &[u8], what: &str| {
        let r = catch(|| a2lfile::verif_hooks::decode_raw_bytes(bytes));
        match r {
            Err(p) => rep.fail("panic", hex(bytes), format!("decode_raw_bytes panicked on {what}: {p}")),
            Ok(s) => {
                rep.tie(format!("dec {}", hex(bytes)), cps(&s));
                // Latin-1 fallback: if no Unicode interpretation applies the result has one char per byte
                let utf8_ok = std::str::from_utf8(bytes).is_ok();
                if !utf8_ok && bytes.len() % 2 == 1 {
                    let latin: String = bytes.iter().map(|b| *b as char).collect();
                    if s != latin {
                        rep.fail("latin1", hex(bytes), "odd-length invalid UTF-8 was not read as Latin-1".into());
                    }
                }
            }
        }
    };
    if let Some(input) = &args.replay {
        let bytes = unhex(input.split_whitespace().last().unwrap_or("-"));
        rep.case(&bytes, true);
        rep.case(&"replay", true);
        rep.sample(input.clone());
        check_bytes(&mut rep, &bytes, "replay");
        return rep;
    }
    let ndocs = if args.thorough { 9000 } else { 200 };
    for d in 0..ndocs {
        let text = doc(&mut rng);
        let reference = match a2lgen::load(&text) {
            Ok(f) => f,
            Err(e) => {
                rep.fail("generator", hex(text.as_bytes()), format!("generated document does not load: {e}"));
                continue;
            }
        };
        for enc in 0..10 {
            let bytes = encode(enc, &text);
            rep.case(&bytes, !text.is_ascii());
            rep.bump(&format!("enc:{}", ENCODINGS[enc]));
            rep.bump(&format!("len_mod4:{}", bytes.len() % 4));
            if d == 0 {
                rep.sample(format!("{} {}...", ENCODINGS[enc], &hex(&bytes[..bytes.len().min(24)])));
            }
            // hook level
            match catch(|| a2lfile::verif_hooks::decode_raw_bytes(&bytes)) {
                Err(p) => rep.fail("panic", format!("{} {}", ENCODINGS[enc], hex(&bytes)), p),
                Ok(s) => {
                    if strip_bom(&s) != text {
                        rep.fail("decode", format!("{} {}", ENCODINGS[enc], hex(&bytes)), format!("decoded text differs from the original ({} vs {} chars)", s.chars().count(), text.chars().count()));
                    }
                    if d < 40 || args.thorough {
                        rep.tie(format!("load {}", hex(&bytes)), cps(strip_bom(&s)));
                    }
                }
            }
            // end to end
            let path = tmp.join(format!("f{enc}.a2l"));
            std::fs::write(&path, &bytes).unwrap();
            match catch(|| a2lfile::load(&path, None, false)) {
                Err(p) => rep.fail("panic", format!("{} {}", ENCODINGS[enc], hex(&bytes)), format!("load(path) panicked: {p}")),
                Ok(Err(e)) => rep.fail("load", format!("{} {}", ENCODINGS[enc], hex(&bytes)), format!("load(path) failed: {e}")),
                Ok(Ok((f, _))) => {
                    if !model_eq(&f, &reference) {
                        rep.fail("model", format!("{} {}", ENCODINGS[enc], hex(&bytes)), "model loaded from the encoded file differs from load_from_string".into());
                    }
                }
            }
        }
    }
    // long documents with a non-BMP character at every alignment around the block sizes a buffered decoder might use
    // (the character straddles the boundary in UTF-16 as a surrogate pair, in UTF-8 as a four-byte sequence)
    let boundaries: &[usize] = if args.thorough { &[64, 128, 256, 512, 1024, 2048, 4096, 8192, 16384, 32768, 65536] } else { &[256, 1024, 2048, 4096, 8192, 65536] };
    for &b in boundaries {
        for delta in [-4i64, -3, -2, -1, 0, 1, 2] {
            // a comment of `pad` ASCII characters in front of the character puts it at code unit / byte offset b + delta
            let head = "ASAP2_VERSION 1 71 /begin PROJECT p \"";
            let pad = (b as i64 + delta - head.len() as i64).max(0) as usize;
            let text = format!("{head}{}\u{1F600}\u{10FFFF}é\" /begin MODULE m \"\" /end MODULE /end PROJECT", "x".repeat(pad));
            let Ok(reference) = a2lgen::load(&text) else {
                rep.fail("generator", hex(text.as_bytes()), "boundary document does not load".into());
                continue;
            };
            for enc in 0..10 {
                let bytes = encode(enc, &text);
                rep.case(&bytes, true);
                rep.bump("boundary-alignment");
                match catch(|| a2lfile::verif_hooks::decode_raw_bytes(&bytes)) {
                    Err(p) => rep.fail("panic", format!("{} {}", ENCODINGS[enc], hex(&bytes)), p),
                    Ok(s) => {
                        if strip_bom(&s) != text {
                            rep.fail("decode", format!("{} {}", ENCODINGS[enc], hex(&bytes)), format!("non-BMP character at offset {b}{delta:+}: decoded text differs from the original ({} vs {} chars)", s.chars().count(), text.chars().count()));
                        }
                    }
                }
                if delta == -1 || delta == 0 {
                    let path = tmp.join(format!("b{enc}.a2l"));
                    std::fs::write(&path, &bytes).unwrap();
                    match catch(|| a2lfile::load(&path, None, false)) {
                        Err(p) => rep.fail("panic", format!("{} {}", ENCODINGS[enc], hex(&bytes)), format!("load(path) panicked: {p}")),
                        Ok(Err(e)) => rep.fail("load", format!("{} {}", ENCODINGS[enc], hex(&bytes)), format!("load(path) failed: {e}")),
                        Ok(Ok((f, _))) => {
                            if !model_eq(&f, &reference) {
                                rep.fail("model", format!("{} {}", ENCODINGS[enc], hex(&bytes)), "model loaded from the encoded file differs from load_from_string".into());
                            }
                        }
                    }
                }
            }
        }
    }
    // included files go through the same loader: an A2L include and an A2ML include in every encoding, the main file in
    // every encoding as well (the two need not agree), compared with the flattened text
    {
        let nround = if args.thorough { 60 } else { 4 };
        for r in 0..nround {
            let s1 = unicode_string(&mut rng).replace('\u{1}', "x");
            let inc_text = format!("/begin UNIT u_inc \"{s1} é 😀\" \"u\" DERIVED /end UNIT /* ü \u{10ffff} */\n");
            let aml_text = "block \"IF_DATA\" taggedunion { \"XCP\" uint; }; /* ä 😀 */\n";
            let main = |a: &str, b: &str| format!("ASAP2_VERSION 1 71\n/begin PROJECT p \"é\"\n/begin MODULE m \"\"\n/begin A2ML\n{a}/end A2ML\n/begin IF_DATA XCP 5 /end IF_DATA\n{b}/end MODULE\n/end PROJECT\n");
            let flat = main(aml_text, &inc_text);
            let Ok(reference) = a2lgen::load(&flat) else {
                rep.fail("generator", hex(flat.as_bytes()), "include document does not load".into());
                continue;
            };
            for enc_inc in 0..10 {
                let enc_main = (enc_inc * 3 + r) % 10;
                let dir = tmp.join(format!("inc{enc_inc}"));
                let _ = std::fs::create_dir_all(&dir);
                std::fs::write(dir.join("inc.a2l"), encode(enc_inc, &inc_text)).unwrap();
                std::fs::write(dir.join("def.aml"), encode((enc_inc + 5) % 10, aml_text)).unwrap();
                let bytes = encode(enc_main, &main("/include \"def.aml\"\n", "/include \"inc.a2l\"\n"));
                std::fs::write(dir.join("main.a2l"), &bytes).unwrap();
                let input = format!("{} main={} a2l-include={} a2ml-include={} {}", ENCODINGS[enc_inc], ENCODINGS[enc_main], ENCODINGS[enc_inc], ENCODINGS[(enc_inc + 5) % 10], hex(inc_text.as_bytes()));
                rep.case(&(enc_inc, enc_main, &inc_text), true);
                rep.bump("include-file-encodings");
                match catch(|| a2lfile::load(dir.join("main.a2l"), None, false)) {
                    Err(p) => rep.fail("panic", input, format!("load(path) with included files panicked: {p}")),
                    Ok(Err(e)) => rep.fail("load", input, format!("load(path) with included files failed: {e}")),
                    Ok(Ok((mut f, log))) => {
                        a2lfile::A2lObject::merge_includes(&mut f);
                        let same = f.project.module[0].unit.len() == 1
                            && f.project.module[0].unit[0].long_identifier == reference.project.module[0].unit[0].long_identifier
                            && f.project.module[0].if_data.iter().map(|i| i.ifdata_valid).collect::<Vec<_>>() == reference.project.module[0].if_data.iter().map(|i| i.ifdata_valid).collect::<Vec<_>>();
                        if !log.is_empty() || !same {
                            rep.fail("model", input, format!("model loaded through included files differs from the flattened text ({} log entries)", log.len()));
                        }
                    }
                }
                let _ = std::fs::remove_dir_all(&dir);
            }
        }
    }
    // arbitrary bytes
    let nbytes = if args.thorough { 1_200_000 } else { 12_000 };
    let prefixes: [&[u8]; 12] = [b"", &[0xEF, 0xBB, 0xBF], &[0xFF, 0xFE], &[0xFE, 0xFF], &[0xFF, 0xFE, 0, 0], &[0, 0, 0xFE, 0xFF], &[0x41, 0], &[0, 0x41], &[0x41, 0, 0, 0], &[0, 0, 0, 0x41], &[0xD8, 0x00], &[0x00, 0xD8]];
    let alphabet: [u8; 16] = [0, 1, 0x41, 0x7f, 0x80, 0xBF, 0xC3, 0xE2, 0xF0, 0xFF, 0xFE, 0xD8, 0xDC, 0x20, 0x0A, 0x22];
    for i in 0..nbytes {
        let mut b: Vec<u8> = prefixes[rng.below(12)].to_vec();
        let n = rng.below(if i % 50 == 0 { 200 } else { 12 });
        for _ in 0..n {
            b.push(if rng.chance(2, 3) { alphabet[rng.below(16)] } else { rng.below(256) as u8 });
        }
        rep.case(&b, std::str::from_utf8(&b).is_err() || !b.is_ascii());
        rep.bump(if std::str::from_utf8(&b).is_ok() { "bytes:valid_utf8" } else { "bytes:invalid_utf8" });
        if i % 4001 == 0 {
            rep.sample(format!("bytes {}", hex(&b)));
        }
        check_bytes(&mut rep, &b, "bytes");
        // the whole loader on garbage: must not panic
        if i % 10 == 0 {
            let path = tmp.join("g.a2l");
            std::fs::write(&path, &b).unwrap();
            if let Err(p) = catch(|| a2lfile::load(&path, None, false).is_ok()) {
                rep.fail("panic", format!("bytes {}", hex(&b)), format!("load(path) panicked: {p}"));
            }
        }
    }
    // exhaustive small: all strings of length <= 3 over 8 boundary code points x 10 encodings (hook vs property)
    let cpsmall = ['A', '\u{1}', '\u{7f}', '\u{80}', '\u{ff}', '\u{100}', '\u{ffff}', '\u{10000}'];
    let mut count = 0;
    for len in 1..=3usize {
        let total = 8usize.pow(len as u32);
        for code in 0..total {
            let mut s = String::new();
            let mut c = code;
            for _ in 0..len {
                s.push(cpsmall[c % 8]);
                c /= 8;
            }
            if !(s.chars().next().unwrap() as u32 > 0 && (s.chars().next().unwrap() as u32) < 128) {
                continue;
            }
            for enc in 0..10 {
                let bytes = encode(enc, &s);
                count += 1;
                rep.case(&bytes, true);
                match catch(|| a2lfile::verif_hooks::decode_raw_bytes(&bytes)) {
                    Err(p) => rep.fail("panic", format!("{} {}", ENCODINGS[enc], hex(&bytes)), p),
                    Ok(d) => {
                        if strip_bom(&d) != s {
                            rep.fail("decode", format!("{} {}", ENCODINGS[enc], hex(&bytes)), "decoded text differs".into());
                        }
                        rep.tie(format!("load {}", hex(&bytes)), cps(strip_bom(&d)));
                    }
                }
            }
        }
    }
    rep.bump("exhaustive_small_strings");
    *rep.dist.get_mut("exhaustive_small_strings").unwrap() = count;
    let _ = std::fs::remove_dir_all(&tmp);
    rep
}
