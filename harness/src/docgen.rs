//! grammar-driven A2L document generator: reads the regenerated table (work/translate/grammar.txt) and produces
//! documents as token lists with a separately chosen layout, so that token-level faults can be injected at known places.
use crate::common::*;
use std::collections::HashMap;

#[derive(Clone, Debug)]
pub enum Item {
    Ident,
    Str,
    Double,
    Int(String),
    StrMax(usize),
    Enum(String),
    Struct(String),
    Arr(Box<Item>, usize),
    Seq(Box<Item>, Vec<String>),
}

#[derive(Clone, Debug)]
pub struct Arm {
    pub tag: String,
    pub ty: String,
    pub block: bool,
    pub repeat: bool,
    pub required: bool,
    pub vlo: u8,
    pub vhi: u8,
}

#[derive(Clone, Debug)]
pub enum TyDef {
    Enum(Vec<(String, u8, u8)>),
    Block { is_block: bool, items: Vec<Item>, arms: Vec<Arm>, pos: u32 },
    Special,
}

pub struct Grammar {
    pub types: HashMap<String, TyDef>,
    /// field names of the parameters of each block type (same order as `items`)
    pub fields: HashMap<String, Vec<String>>,
}

fn parse_item(s: &str) -> Item {
    if let Some(r) = s.strip_prefix("seq(") {
        let inner = &r[..r.len() - 1];
        let (of, stop) = inner.rsplit_once('|').unwrap();
        return Item::Seq(Box::new(parse_item(of)), if stop.is_empty() { vec![] } else { stop.split(';').map(|x| x.to_string()).collect() });
    }
    if let Some(r) = s.strip_prefix("arr(") {
        let inner = &r[..r.len() - 1];
        let (of, dim) = inner.rsplit_once('*').unwrap();
        return Item::Arr(Box::new(parse_item(of)), dim.parse().unwrap());
    }
    match s.split_once(':') {
        Some(("int", w)) => Item::Int(w.to_string()),
        Some(("enum", t)) => Item::Enum(t.to_string()),
        Some(("struct", t)) => Item::Struct(t.to_string()),
        Some(("strmax", n)) => Item::StrMax(n.parse().unwrap()),
        _ => match s {
            "ident" => Item::Ident,
            "string" => Item::Str,
            _ => Item::Double,
        },
    }
}

/// split a comma separated list, respecting parentheses
fn split_top(s: &str) -> Vec<String> {
    let mut out = vec![];
    let mut depth = 0;
    let mut cur = String::new();
    for c in s.chars() {
        match c {
            '(' => {
                depth += 1;
                cur.push(c)
            }
            ')' => {
                depth -= 1;
                cur.push(c)
            }
            ',' if depth == 0 => out.push(std::mem::take(&mut cur)),
            _ => cur.push(c),
        }
    }
    if !cur.is_empty() {
        out.push(cur);
    }
    out
}

impl Grammar {
    /// the reference grammar (frozen DSL read by the independent reader): what a conforming reader accepts, whatever the
    /// code under test says today
    pub fn load_reference() -> Result<Grammar, String> {
        Self::load_path("work/translate/grammar_ref.txt")
    }

    pub fn load() -> Result<Grammar, String> {
        let path = std::env::var("VERIF_GRAMMAR").unwrap_or_else(|_| "work/translate/grammar.txt".to_string());
        Self::load_path(&path)
    }

    pub fn load_path(path: &str) -> Result<Grammar, String> {
        let path = path.to_string();
        let text = std::fs::read_to_string(&path).map_err(|e| format!("{path}: {e}"))?;
        let mut types = HashMap::new();
        let mut fields = HashMap::new();
        for line in text.lines() {
            let p: Vec<&str> = line.split(' ').collect();
            match p[0] {
                "fields" => {
                    fields.insert(p[1].to_string(), p[2].split(',').map(|x| x.to_string()).collect::<Vec<String>>());
                }
                "enum" => {
                    let items = p[2..]
                        .iter()
                        .filter(|x| !x.is_empty())
                        .map(|x| {
                            let q: Vec<&str> = x.split(':').collect();
                            (q[0].to_string(), q[1].parse().unwrap(), q[2].parse().unwrap())
                        })
                        .collect();
                    types.insert(p[1].to_string(), TyDef::Enum(items));
                }
                "block" => {
                    let items_s = p[3].strip_prefix("items=").unwrap();
                    let arms_s = p[4].strip_prefix("tagged=").unwrap();
                    let pos: u32 = p[5].strip_prefix("pos=").unwrap().parse().unwrap();
                    let items = if items_s == "-" { vec![] } else { split_top(items_s).iter().map(|x| parse_item(x)).collect() };
                    let arms = if arms_s == "-" {
                        vec![]
                    } else {
                        arms_s
                            .split(',')
                            .map(|a| {
                                let q: Vec<&str> = a.split(':').collect();
                                Arm { tag: q[0].into(), ty: q[1].into(), block: q[2] == "1", repeat: q[3] == "1", required: q[4] == "1", vlo: q[5].parse().unwrap(), vhi: q[6].parse().unwrap() }
                            })
                            .collect()
                    };
                    types.insert(p[1].to_string(), TyDef::Block { is_block: p[2] == "1", items, arms, pos });
                }
                _ => {
                    types.insert(p[1].to_string(), TyDef::Special);
                }
            }
        }
        Ok(Grammar { types, fields })
    }
}

/// a generated token with its role (used by fault injectors and by the layout)
#[derive(Clone, Debug, PartialEq)]
pub struct GTok {
    pub text: String,
    pub role: Role,
    pub depth: usize,
    /// type name of the element this token opens / closes / names (Begin, End, Tag), else empty;
    /// for identifier parameters: the site "Type.field"
    pub elem: String,
}
#[derive(Clone, Debug, PartialEq)]
pub enum Role {
    Begin,
    End,
    Tag,     // tag after /begin, after /end, or keyword tag
    Param,   // a parameter value
    Comment, // block-level comment
}

pub struct GenOpts {
    pub version: u8,        // 1..6; elements newer than this are not generated
    pub max_repeat: usize,
    pub opt_prob: u32,      // percent for optional sub-elements
    pub comments: bool,
    pub unicode: bool,
    pub hex: bool,
    pub deprecated: bool,   // allow items whose upper version is below `version`
    pub param_comments: bool, // comments in front of parameters (they are dropped on write: not for layout / content checks)
    pub specials: bool,     // generate A2ML blocks (grammar-based definitions) and IF_DATA blocks (conforming / unknown content)
    pub dup_names: bool,    // now and then an identifier is repeated (same-name elements in one list are loadable)
}

impl Default for GenOpts {
    fn default() -> Self {
        GenOpts { version: 6, max_repeat: 2, opt_prob: 30, comments: true, unicode: true, hex: true, deprecated: false, param_comments: false, specials: false, dup_names: false }
    }
}

pub struct DocGen<'a> {
    pub g: &'a Grammar,
    pub rng: &'a mut Rng,
    pub opts: GenOpts,
    pub out: Vec<GTok>,
    counter: usize,
    budget: usize,
    /// when set, the first parameter of position-restricted types (`uint position`) ascends in generation order
    pub ascending_positions: bool,
    pos_counter: u32,
    cur_site: String,
    /// the A2ML definition generated for the current MODULE (IF_DATA content conforms to it)
    a2ml_root: Option<crate::a2mlgen::T>,
    recent: Vec<String>,
}

pub const VERSIONS: [(u8, &str); 6] = [(1, "1 50"), (2, "1 51"), (3, "1 60"), (4, "1 61"), (5, "1 70"), (6, "1 71")];

impl<'a> DocGen<'a> {
    pub fn new(g: &'a Grammar, rng: &'a mut Rng, opts: GenOpts) -> Self {
        DocGen { g, rng, opts, out: vec![], counter: 0, budget: 400, ascending_positions: false, pos_counter: 0, cur_site: String::new(), a2ml_root: None, recent: vec![] }
    }

    fn push(&mut self, text: String, role: Role, depth: usize) {
        self.out.push(GTok { text, role, depth, elem: String::new() });
    }
    fn push_e(&mut self, text: String, role: Role, depth: usize, elem: &str) {
        self.out.push(GTok { text, role, depth, elem: elem.to_string() });
    }

    pub fn ident(&mut self) -> String {
        self.counter += 1;
        if self.opts.dup_names && !self.recent.is_empty() && self.rng.chance(1, 12) {
            let k = self.rng.below(self.recent.len());
            return self.recent[k].clone();
        }
        let id = self.ident_fresh();
        if self.recent.len() >= 6 {
            self.recent.remove(0);
        }
        self.recent.push(id.clone());
        id
    }

    fn ident_fresh(&mut self) -> String {
        if self.opts.unicode && self.rng.chance(1, 400) {
            // identifiers at the length limit (1024 bytes are allowed, 1025 are not)
            let len = [1023usize, 1024][self.rng.below(2)];
            let head = format!("Long{}_", self.counter);
            return format!("{head}{}", "x".repeat(len - head.len()));
        }
        let base = ["abc", "X_y", "Ab1", "sig.x[3]", "n", "_u", "Meas.Grp.Val", "a[0][1]"][self.rng.below(8)];
        format!("{base}{}", self.counter)
    }

    pub fn string_value(&mut self) -> String {
        // (a quote, in either notation, can stand at the very beginning or end of a value; a literal backslash can stand in
        // front of a letter that would make an escape sequence with it)
        let pool: [&str; 20] = ["", "text", "a b", "q\\\"q", "b\\\\s", "t\\tn\\n", "it''s", "dq\"\"x", "é", "日本", "😀", "/* no */", "// no", "/begin X", "0x10", "\\'", "\\\"", "\"\"", "\\\\n", "\\\\t\\\\"];
        let n = self.rng.below(3);
        let mut s = String::new();
        for _ in 0..=n {
            let p = pool[self.rng.below(if self.opts.unicode { 20 } else { 8 })];
            s.push_str(p);
        }
        format!("\"{s}\"")
    }

    pub fn int_value(&mut self, w: &str) -> String {
        let (min, max): (i128, i128) = match w {
            "i8" => (-128, 127),
            "i16" => (-32768, 32767),
            "i32" => (-(1 << 31), (1 << 31) - 1),
            "i64" => (-(1 << 63), (1 << 63) - 1),
            "u8" => (0, 255),
            "u16" => (0, 65535),
            "u32" => (0, (1 << 32) - 1),
            _ => (0, (1u128 << 64) as i128 - 1),
        };
        let v: i128 = match self.rng.below(8) {
            0 => min,
            1 => max,
            2 => 0,
            3 => 1.min(max),
            _ => {
                let span = (max - min) as u128;
                min + (self.rng.next() as u128 % (span.min(100000) + 1)) as i128
            }
        };
        if self.opts.hex && self.rng.chance(1, 4) {
            let bits = match w { "i8" | "u8" => 8, "i16" | "u16" => 16, "i32" | "u32" => 32, _ => 64 };
            let n: u128 = if v < 0 { (v + (1i128 << bits)) as u128 } else { v as u128 };
            if self.rng.chance(1, 2) { format!("0x{n:X}") } else { format!("0x{n:x}") }
        } else if v >= 0 && self.rng.chance(1, 20) {
            format!("+{v}")
        } else {
            format!("{v}")
        }
    }

    pub fn float_value(&mut self) -> String {
        let pool = ["0", "1", "-1", "0.5", "1.5e3", "1e-5", "-2.5E+10", "3.14159", "100", "255", "1e10", "1e11", "0.0001", "0.00009", "-0.0", "1e300", "4294967295", "0x10", "12345678901234567890", "1.7976931348623157e308", "5e-324", ".5", "5."];
        pool[self.rng.below(pool.len())].to_string()
    }

    fn gen_item(&mut self, it: &Item, depth: usize) {
        match it {
            Item::Ident => {
                let s = self.ident();
                let site = self.cur_site.clone();
                self.push_e(s, Role::Param, depth, &site)
            }
            Item::Str | Item::StrMax(_) => {
                let s = self.string_value();
                self.push(s, Role::Param, depth)
            }
            Item::Double => {
                let s = self.float_value();
                self.push(s, Role::Param, depth)
            }
            Item::Int(w) => {
                let s = self.int_value(w);
                self.push(s, Role::Param, depth)
            }
            Item::Enum(t) => {
                if let Some(TyDef::Enum(items)) = self.g.types.get(t) {
                    let ok: Vec<&(String, u8, u8)> = items.iter().filter(|(_, lo, hi)| *lo <= self.opts.version && (self.opts.deprecated || *hi == 0 || *hi >= self.opts.version)).collect();
                    let pick = if ok.is_empty() { items[0].0.clone() } else { ok[self.rng.below(ok.len())].0.clone() };
                    self.push(pick, Role::Param, depth);
                }
            }
            Item::Struct(t) => {
                if let Some(TyDef::Block { items, .. }) = self.g.types.get(t).cloned() {
                    let saved = self.cur_site.clone();
                    let fl = self.g.fields.get(t).cloned().unwrap_or_default();
                    for (k, i) in items.iter().enumerate() {
                        self.cur_site = format!("{t}.{}", fl.get(k).cloned().unwrap_or_default());
                        self.gen_item(i, depth);
                    }
                    self.cur_site = saved;
                }
            }
            Item::Arr(of, n) => {
                for _ in 0..*n {
                    self.gen_item(of, depth);
                }
            }
            Item::Seq(of, _) => {
                let n = self.rng.below(4);
                for _ in 0..n {
                    self.gen_item(of, depth);
                }
            }
        }
    }

    /// parameters + tagged children of the type (without the tag / begin / end)
    pub fn gen_body(&mut self, ty: &str, depth: usize) {
        let Some(TyDef::Block { items, arms, pos, .. }) = self.g.types.get(ty).cloned() else { return };
        let fl = self.g.fields.get(ty).cloned().unwrap_or_default();
        for (k, it) in items.iter().enumerate() {
            self.cur_site = format!("{ty}.{}", fl.get(k).cloned().unwrap_or_default());
            if self.opts.param_comments && self.rng.chance(1, 8) {
                self.push(format!("/* p{} */", self.counter), Role::Comment, depth + 1);
            }
            if k == 0 && pos == 1 && self.ascending_positions {
                self.pos_counter += 1 + self.rng.below(3) as u32;
                let v = self.pos_counter.to_string();
                self.push(v, Role::Param, depth);
                continue;
            }
            self.gen_item(it, depth);
        }
        // children in a random order of arms
        let mut order: Vec<usize> = (0..arms.len()).collect();
        for i in (1..order.len()).rev() {
            let j = self.rng.below(i + 1);
            order.swap(i, j);
        }
        for ai in order {
            let arm = &arms[ai];
            if matches!(self.g.types.get(&arm.ty), Some(TyDef::Special)) && self.opts.specials {
                self.gen_special(&arm.tag, &arm.ty, arm.repeat, depth + 1);
                continue;
            }
            if matches!(self.g.types.get(&arm.ty), Some(TyDef::Special) | None) {
                continue;
            }
            if arm.vlo > self.opts.version || (!self.opts.deprecated && arm.vhi != 0 && arm.vhi < self.opts.version) {
                continue;
            }
            let want = arm.required || (self.budget > 0 && self.rng.chance(self.opts.opt_prob, 100));
            if !want {
                continue;
            }
            let n = if arm.repeat { 1 + self.rng.below(self.opts.max_repeat) } else { 1 };
            for _ in 0..n {
                if self.budget == 0 && !arm.required {
                    break;
                }
                self.budget = self.budget.saturating_sub(1);
                // comments stand in front of blocks, and less often in front of keywords (also the position-restricted
                // ones of RECORD_LAYOUT, which the writer moves)
                if self.opts.comments && self.rng.chance(1, if arm.block { 12 } else { 30 }) {
                    let c = if self.rng.chance(1, 2) { format!("/* c{} */", self.counter) } else { format!("// c{}", self.counter) };
                    self.push(c, Role::Comment, depth + 1);
                }
                self.gen_element(&arm.tag, &arm.ty, arm.block, depth + 1);
            }
        }
    }

    /// A2ML: a grammar-based definition as one raw token (0-2 blank lines before `/end A2ML`); IF_DATA: content that
    /// conforms to the module's definition, or balanced unknown content
    fn gen_special(&mut self, tag: &str, ty: &str, repeat: bool, depth: usize) {
        if self.budget == 0 || !self.rng.chance(self.opts.opt_prob.max(20), 100) {
            return;
        }
        if tag == "A2ML" {
            let depth_a = 1 + self.rng.below(3);
            let case = crate::a2mlgen::gen_a2ml(self.rng, depth_a);
            let mut text = format!("\n{}", case.a2ml);
            for _ in 0..self.rng.below(3) {
                text.push('\n');
            }
            self.push_e("/begin".into(), Role::Begin, depth, ty);
            self.push_e(tag.to_string(), Role::Tag, depth, ty);
            self.push(text, Role::Param, depth);
            self.push_e("/end".into(), Role::End, depth, ty);
            self.push_e(tag.to_string(), Role::Tag, depth, ty);
            self.a2ml_root = Some(case.root);
            self.budget = self.budget.saturating_sub(1);
        } else if tag == "IF_DATA" {
            let n = if repeat { 1 + self.rng.below(self.opts.max_repeat) } else { 1 };
            for _ in 0..n {
                let content: Vec<String> = match (&self.a2ml_root, self.rng.chance(4, 5)) {
                    (Some(root), true) => {
                        let root = root.clone();
                        crate::a2mlgen::gen_instance(self.rng, &root)
                    }
                    _ => ["VENDOR", "1", "0x2", "/begin", "X", "\"s\"", "2.5", "/end", "X", "tail"].iter().map(|x| x.to_string()).collect(),
                };
                self.push_e("/begin".into(), Role::Begin, depth, ty);
                self.push_e(tag.to_string(), Role::Tag, depth, ty);
                let mut after_marker = false;
                for t in content {
                    let role = if t == "/begin" { Role::Begin } else if t == "/end" { Role::End } else if after_marker { Role::Tag } else { Role::Param };
                    after_marker = t == "/begin" || t == "/end";
                    self.push(t, role, depth + 1);
                }
                self.push_e("/end".into(), Role::End, depth, ty);
                self.push_e(tag.to_string(), Role::Tag, depth, ty);
                self.budget = self.budget.saturating_sub(1);
            }
        }
    }

    pub fn gen_element(&mut self, tag: &str, ty: &str, block: bool, depth: usize) {
        if ty == "Module" {
            self.a2ml_root = None;
        }
        if block {
            self.push_e("/begin".into(), Role::Begin, depth, ty);
        }
        self.push_e(tag.to_string(), Role::Tag, depth, ty);
        self.gen_body(ty, depth);
        if block {
            self.push_e("/end".into(), Role::End, depth, ty);
            self.push_e(tag.to_string(), Role::Tag, depth, ty);
        }
    }

    /// a whole file: ASAP2_VERSION, optionally A2ML_VERSION, PROJECT
    pub fn gen_file(&mut self) {
        let v = VERSIONS.iter().find(|x| x.0 == self.opts.version).unwrap().1;
        self.push_e("ASAP2_VERSION".into(), Role::Tag, 0, "Asap2Version");
        for p in v.split(' ') {
            self.push(p.to_string(), Role::Param, 0);
        }
        if self.rng.chance(1, 4) {
            self.push_e("A2ML_VERSION".into(), Role::Tag, 0, "A2mlVersion");
            self.push("1".into(), Role::Param, 0);
            self.push("31".into(), Role::Param, 0);
        }
        self.gen_element("PROJECT", "Project", true, 0);
    }
}

#[derive(Clone, Copy, PartialEq)]
pub enum Layout {
    /// one block-level element per line, /begin and /end on the line of their tag, random blank lines
    Canonical,
    /// arbitrary line breaks between any two tokens
    Wild,
    /// everything on as few lines as possible
    Dense,
    /// arbitrary line breaks between tokens, but /begin and /end stay on the line of their tag and a block-level
    /// comment starts its own line (the precondition of the layout property C05)
    Loose,
}

pub fn render(toks: &[GTok], rng: &mut Rng, layout: Layout, crlf: bool) -> String {
    let nl = if crlf { "\r\n" } else { "\n" };
    let mut s = String::new();
    let mut line_comment_open = false;
    for (i, t) in toks.iter().enumerate() {
        let prev = if i > 0 { Some(&toks[i - 1]) } else { None };
        // separator before the token
        let mut brk = match layout {
            Layout::Dense => false,
            Layout::Wild => rng.chance(1, 4),
            Layout::Loose => t.role == Role::Comment || rng.chance(1, 4),
            Layout::Canonical => match t.role {
                Role::Begin | Role::End | Role::Comment => true,
                Role::Tag => !matches!(prev.map(|p| &p.role), Some(Role::Begin) | Some(Role::End)),
                Role::Param => rng.chance(1, 15),
            },
        };
        if layout == Layout::Loose && t.role == Role::Param && t.text.starts_with('\n') {
            // the raw A2ML text brings its own line breaks
            brk = false;
        }
        if matches!(prev.map(|p| &p.role), Some(Role::Begin) | Some(Role::End)) && layout != Layout::Wild {
            brk = false;
        }
        if layout == Layout::Canonical && t.role == Role::Param && matches!(prev.map(|p| &p.role), Some(Role::Comment)) && rng.chance(1, 2) {
            // a parameter behind a comment often starts a new line
            brk = true;
        }
        if line_comment_open {
            brk = true;
        }
        if i == 0 {
            // leading blank lines sometimes
            for _ in 0..rng.below(if layout == Layout::Dense { 1 } else { 3 }) {
                s.push_str(nl);
            }
        } else if brk {
            let n = 1 + if layout != Layout::Dense && rng.chance(1, 6) { rng.below(3) } else { 0 };
            for _ in 0..n {
                s.push_str(nl);
            }
            let ind = if layout == Layout::Wild || layout == Layout::Loose { rng.below(6) } else { t.depth * 2 };
            for _ in 0..ind {
                s.push(' ');
            }
        } else {
            s.push(' ');
            if layout == Layout::Wild && rng.chance(1, 8) {
                s.push_str(["  ", "\t", "   "][rng.below(3)]);
            }
        }
        if crlf && t.text.contains('\n') {
            // (the raw A2ML text uses the line ends of the file)
            s.push_str(&t.text.replace('\n', "\r\n"));
        } else {
            s.push_str(&t.text);
        }
        line_comment_open = t.role == Role::Comment && t.text.starts_with("//");
    }
    if rng.chance(3, 4) || line_comment_open {
        s.push_str(nl);
    }
    s
}

pub fn gen_document(g: &Grammar, rng: &mut Rng, opts: GenOpts) -> Vec<GTok> {
    let mut dg = DocGen::new(g, rng, opts);
    dg.gen_file();
    dg.out
}

/// like `gen_document`, position-restricted items in ascending position order (the writer's canonical order)
pub fn gen_document_canonical(g: &Grammar, rng: &mut Rng, opts: GenOpts) -> Vec<GTok> {
    let mut dg = DocGen::new(g, rng, opts);
    dg.ascending_positions = true;
    dg.gen_file();
    dg.out
}
