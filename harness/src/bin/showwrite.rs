//! debugging aid: load a hex-encoded text, print diagnostics and the written text
fn main() {
    let hexs = std::env::args().nth(1).unwrap_or_default();
    let bytes: Vec<u8> = (0..hexs.len() / 2).map(|i| u8::from_str_radix(&hexs[2 * i..2 * i + 2], 16).unwrap()).collect();
    let text = String::from_utf8_lossy(&bytes).into_owned();
    match a2lfile::load_from_string(&text, None, false) {
        Ok((m, log)) => {
            for l in &log {
                println!("LOG {l}");
            }
            println!("{}", m.write_to_string());
        }
        Err(e) => println!("ERR {e}"),
    }
}
