//! debugging aid: load a file given by path (with include resolution), print the outcome
fn main() {
    let p = std::env::args().nth(1).unwrap_or_default();
    match a2lfile::load(&p, None, false) {
        Ok((_, log)) => println!("OK log={}", log.len()),
        Err(e) => println!("ERR {e}"),
    }
}
