//! debugging aid: load a hex-encoded text (non-strict unless a second argument is given), write, reload, and print the
//! first lines in which the `{:#?}` renderings of the two models differ
fn main() {
    let hexs = std::env::args().nth(1).unwrap_or_default();
    let strict = std::env::args().nth(2).is_some();
    let bytes: Vec<u8> = (0..hexs.len() / 2).map(|i| u8::from_str_radix(&hexs[2 * i..2 * i + 2], 16).unwrap()).collect();
    let text = String::from_utf8_lossy(&bytes).into_owned();
    let (m, log) = a2lfile::load_from_string(&text, None, strict).expect("first load");
    eprintln!("log1: {}", log.iter().map(|l| l.to_string()).collect::<Vec<_>>().join(" | "));
    let w = m.write_to_string();
    match a2lfile::load_from_string(&w, None, strict) {
        Err(e) => println!("reload fails: {e}"),
        Ok((m2, log2)) => {
            eprintln!("log2: {}", log2.iter().map(|l| l.to_string()).collect::<Vec<_>>().join(" | "));
            println!("equal: {}", m == m2);
            for (a, b) in m.project.module.iter().zip(m2.project.module.iter()) {
                macro_rules! cmp {
                    ($($f:ident),*) => { $( if a.$f != b.$f {
                        println!("module field {} differs", stringify!($f));
                        for (x, y) in a.$f.iter().zip(b.$f.iter()) { if x != y { println!("--- first:\n{x:#?}\n--- second:\n{y:#?}"); break; } }
                    } )* };
                }
                cmp!(axis_pts, blob, characteristic, compu_method, compu_tab, compu_vtab, compu_vtab_range, frame, function, group, if_data, instance, measurement, record_layout, transformer, typedef_axis, typedef_blob, typedef_characteristic, typedef_measurement, typedef_structure, unit, user_rights);
                if a.a2ml != b.a2ml { println!("a2ml differs"); }
                if a.mod_par != b.mod_par { println!("mod_par differs"); }
                if a.mod_common != b.mod_common { println!("mod_common differs"); }
                if a.variant_coding != b.variant_coding { println!("variant_coding differs"); }
            }
            return;
            let (a, b) = (format!("{m:#?}"), format!("{m2:#?}"));
            let (la, lb): (Vec<&str>, Vec<&str>) = (a.lines().collect(), b.lines().collect());
            let mut shown = 0;
            for i in 0..la.len().max(lb.len()) {
                if la.get(i) != lb.get(i) {
                    println!("{i}: {:?}\n{i}: {:?}", la.get(i), lb.get(i));
                    for j in i.saturating_sub(12)..i {
                        println!("   ctx {}", la[j]);
                    }
                    shown += 1;
                    if shown > 2 {
                        break;
                    }
                }
            }
        }
    }
}
